//! hcalls — C19 (method calls and their replies) and C20 (message streams) on ONE real `zbus::Connection`
//! (`Builder::authenticated_socket(scripted).p2p().internal_executor(false)`), driven step by step from the case line.
//! Nothing runs unless a step of the case says so: caller futures, stream polls, the connection's executor
//! (`conn.executor().tick()`: socket reader task, queued match removals) and the scripted peer are all single steps, so a case
//! is a complete, replayable interleaving. The harness decides nothing; it prints what every step did.
//!
//! K <tmo|-> <calls> <steps>                                   C19
//!   calls  = `<kind><wd>` joined by `,`; kind m = Connection::call_method, p = Proxy::call, f = Proxy::call_with_flags(NoAutoStart),
//!            n = Proxy::call_noreply; wd = how often the call's `sendmsg` answers Pending first, or `x` = sendmsg fails, or `L` =
//!            the bytes go out at the first `sendmsg` poll (event `l<n>`; the peer can answer from then on) but `sendmsg` returns
//!            Ok only at the next poll (event `w<n>`)
//!   steps  = joined by `,`:  c<i> poll caller i once | t tick the executor once | R<i>/Q<i> the peer answers call i with a
//!            return/error (only possible once call i is on the wire) | U/V stray return/error (reply serial of a call never
//!            made) | G signal | H<i> signal whose reply_serial is call i's serial | J<i> method call with that reply_serial |
//!            E end of stream | X read error | Z sleep past the method timeout |
//!            Y / W  the application starts MessageStream::for_match_rule("type='method_return'") / ("type='error'") — the very
//!            rules under which Connection::new registered its own method-return channel — and polls it once (ok | P | E.. | -
//!            if that rule was used before); y polls the pending creations again; D drops the streams so created
//!   after the listed steps the harness drains: tick until idle, poll every unfinished caller, until nothing moves
//!   (then, with a timeout configured, one `Z` and another drain).
//!   observation = `<step>=<what happened>` joined by `,` (see `k_mode`).
//! S <steps>                                                    C20 (see `s_mode`)
use std::{
    collections::{HashMap, VecDeque},
    future::Future,
    io,
    os::fd::{BorrowedFd, OwnedFd},
    pin::Pin,
    sync::{Arc, Mutex},
    task::{Context, Poll, Wake, Waker},
    time::{Duration, Instant},
};

use futures_core::Stream;
use zbus::connection::socket::{ReadHalf, Socket, Split, WriteHalf};
use zbus::{Connection, Message};

const GUID: &str = "0123456789abcdef0123456789abcdef";

struct Noop;
impl Wake for Noop {
    fn wake(self: Arc<Self>) {}
}
fn noop_waker() -> Waker {
    Waker::from(Arc::new(Noop))
}
fn poll_once<F: Future + ?Sized>(f: Pin<&mut F>) -> Poll<F::Output> {
    let w = noop_waker();
    let mut cx = Context::from_waker(&w);
    f.poll(&mut cx)
}
fn spin<F: Future>(f: F) -> Result<F::Output, &'static str> {
    let mut f = Box::pin(f);
    for _ in 0..1_000_000u32 {
        if let Poll::Ready(v) = poll_once(f.as_mut()) {
            return Ok(v);
        }
    }
    Err("HANG")
}

// ------------------------------------------------------------------ the scripted socket
enum In {
    Msg(usize, Vec<u8>),
    Eof,
    IoErr,
}

#[derive(Clone, Copy, PartialEq)]
enum WAns {
    Pend(u32),
    Fail,
    /// the bytes go out at once (the peer can answer), but `sendmsg` returns only when it is polled again — what a transport
    /// whose write completes asynchronously, or a pre-empted thread on a multi-threaded executor, looks like to the caller
    Late,
    /// ... second half: return now
    LateDone,
}

#[derive(Default)]
struct Shared {
    inbox: VecDeque<In>,
    cur: Option<(usize, Vec<u8>, usize)>,
    rwaker: Option<Waker>,
    /// events of the step being executed
    ev: Vec<String>,
    /// per member name of an outgoing message: how its sendmsg is answered
    wans: HashMap<String, WAns>,
    /// outgoing messages, complete: (member, message)
    written: Vec<(String, Message)>,
    wtime: HashMap<String, Instant>,
    /// the connection under test, so that the write half can look at its state at the moment of a `sendmsg`
    /// (cleared at the end of the case: it closes a reference cycle)
    conn: Option<Connection>,
}

// ------------------------------------------------------------------ looking inside: `impl Debug for Connection`
// zbus derives Debug all the way down (ConnectionInner, async_lock::Mutex, HashMap, async_broadcast::{Sender, InactiveReceiver,
// Inner}), so the formatted connection shows every queue, capacity, receiver count, the subscription table with its reference
// counts and the iteration order of `msg_senders`. No patch of /repo is needed to observe them.

/// `s` starts somewhere before an `Inner { queue: [...], capacity: C, receiver_count: R, ... is_closed: B` group:
/// (queue length, capacity, active receivers, closed)
fn parse_inner(s: &str) -> Option<(usize, usize, usize, bool)> {
    let q0 = s.find("Inner { queue: [")?;
    let rest = &s[q0..];
    let qend = rest.find("], capacity: ")?;
    let queue = &rest[..qend];
    let qlen = queue.matches("(Ok(").count() + queue.matches("(Err(").count();
    let num = |key: &str| -> Option<usize> {
        let i = rest[qend..].find(key)? + qend + key.len();
        let digits: String = rest[i..].chars().take_while(|c| c.is_ascii_digit()).collect();
        digits.parse().ok()
    };
    let cap = num("], capacity: ")?;
    let nrecv = num(", receiver_count: ")?;
    let ci = rest[qend..].find("is_closed: ")? + qend + "is_closed: ".len();
    let closed = rest[ci..].starts_with("true");
    Some((qlen, cap, nrecv, closed))
}

fn cap_ret(conn: &Connection) -> String {
    let d = format!("{:?}", conn);
    match d.find("method_return_receiver: ").and_then(|i| parse_inner(&d[i..])) {
        Some((_, cap, _, _)) => cap.to_string(),
        None => "?".into(),
    }
}

/// the method-return channel: `<queue length>.<active receivers>[c]`
fn snap_ret(conn: &Connection) -> String {
    let d = format!("{:?}", conn);
    match d.find("method_return_receiver: ").and_then(|i| parse_inner(&d[i..])) {
        Some((q, _cap, n, closed)) => format!("{}.{}{}", q, n, if closed { "c" } else { "" }),
        None => "?".into(),
    }
}

fn parse_out(buf: &[u8]) -> Option<Message> {
    let ctx = zvariant::serialized::Context::new_dbus(zvariant::LE, 0);
    let data = zvariant::serialized::Data::new(buf.to_vec(), ctx);
    // SAFETY (of the harness): the bytes were produced by zbus itself
    unsafe { Message::from_bytes(data) }.ok()
}

#[derive(Debug)]
struct RHalf(Arc<Mutex<Shared>>);
#[derive(Debug)]
struct WHalf(Arc<Mutex<Shared>>);
impl std::fmt::Debug for Shared {
    fn fmt(&self, f: &mut std::fmt::Formatter<'_>) -> std::fmt::Result {
        f.write_str("Shared")
    }
}

#[async_trait::async_trait]
impl ReadHalf for RHalf {
    async fn recvmsg(&mut self, buf: &mut [u8]) -> io::Result<(usize, Vec<OwnedFd>)> {
        let sh = self.0.clone();
        std::future::poll_fn(move |cx| {
            let mut g = sh.lock().unwrap();
            if g.cur.is_none() {
                match g.inbox.pop_front() {
                    None => {
                        g.ev.push("w".into());
                        g.rwaker = Some(cx.waker().clone());
                        return Poll::Pending;
                    }
                    Some(In::Eof) => {
                        g.ev.push("rE".into());
                        return Poll::Ready(Ok((0, vec![])));
                    }
                    Some(In::IoErr) => {
                        g.ev.push("rX".into());
                        return Poll::Ready(Err(io::Error::new(io::ErrorKind::Other, "scripted")));
                    }
                    Some(In::Msg(k, b)) => g.cur = Some((k, b, 0)),
                }
            }
            let (k, b, pos) = g.cur.take().unwrap();
            let n = buf.len().min(b.len() - pos);
            buf[..n].copy_from_slice(&b[pos..pos + n]);
            if pos + n == b.len() {
                g.ev.push(format!("r{}", k));
            } else {
                g.cur = Some((k, b, pos + n));
            }
            Poll::Ready(Ok((n, vec![])))
        })
        .await
    }
    fn can_pass_unix_fd(&self) -> bool {
        false
    }
}

#[async_trait::async_trait]
impl WriteHalf for WHalf {
    async fn sendmsg(&mut self, buf: &[u8], _fds: &[BorrowedFd<'_>]) -> io::Result<usize> {
        let sh = self.0.clone();
        let msg = parse_out(buf);
        let member = msg
            .as_ref()
            .and_then(|m| m.header().member().map(|x| x.to_string()))
            .unwrap_or_else(|| "?".into());
        let len = buf.len();
        std::future::poll_fn(move |_cx| {
            let mut g = sh.lock().unwrap();
            // how many receivers are active on the method-return channel while this message goes out
            let n = match g.conn.as_ref().map(snap_ret) {
                Some(s) => s.split('.').nth(1).unwrap_or("?").trim_end_matches('c').to_string(),
                None => "?".into(),
            };
            match g.wans.get(&member).copied() {
                Some(WAns::Fail) => {
                    g.ev.push(format!("x{}", n));
                    Poll::Ready(Err(io::Error::new(io::ErrorKind::Other, "scripted")))
                }
                Some(WAns::Pend(d)) if d > 0 => {
                    g.wans.insert(member.clone(), WAns::Pend(d - 1));
                    g.ev.push(format!("s{}", n));
                    Poll::Pending
                }
                Some(WAns::Late) => {
                    g.wans.insert(member.clone(), WAns::LateDone);
                    g.ev.push(format!("l{}", n));
                    if let Some(m) = msg.clone() {
                        g.written.push((member.clone(), m));
                    }
                    Poll::Pending
                }
                Some(WAns::LateDone) => {
                    // the method timeout covers the wait for the reply, which starts when send() has returned: the clock of
                    // this call starts now, not when the bytes went out
                    g.ev.push(format!("w{}", n));
                    g.wtime.insert(member.clone(), Instant::now());
                    Poll::Ready(Ok(len))
                }
                _ => {
                    g.ev.push(format!("w{}", n));
                    if let Some(m) = msg.clone() {
                        g.written.push((member.clone(), m));
                    }
                    g.wtime.insert(member.clone(), Instant::now());
                    Poll::Ready(Ok(len))
                }
            }
        })
        .await
    }
    async fn close(&mut self) -> io::Result<()> {
        Ok(())
    }
    fn can_pass_unix_fd(&self) -> bool {
        false
    }
}

struct Sock(Arc<Mutex<Shared>>);
impl Socket for Sock {
    type ReadHalf = RHalf;
    type WriteHalf = WHalf;
    fn split(self) -> Split<RHalf, WHalf> {
        Split::new(RHalf(self.0.clone()), WHalf(self.0))
    }
}

fn take_ev(sh: &Arc<Mutex<Shared>>) -> String {
    let mut g = sh.lock().unwrap();
    let s = g.ev.join(".");
    g.ev.clear();
    s
}

fn connect(sh: &Arc<Mutex<Shared>>, tmo: Option<u64>) -> Result<Connection, String> {
    let mut b = zbus::connection::Builder::authenticated_socket(Sock(sh.clone()), GUID)
        .map_err(|_| "BUILD-ERR".to_string())?
        .p2p()
        .internal_executor(false);
    if let Some(t) = tmo {
        b = b.method_timeout(Duration::from_millis(t));
    }
    match spin(b.build()) {
        Ok(Ok(c)) => Ok(c),
        Ok(Err(_)) => Err("BUILD-ERR".into()),
        Err(h) => Err(h.into()),
    }
}

/// One tick of the connection's executor: runs at most one runnable task (once). `0` = nothing was runnable.
fn tick(conn: &Connection, sh: &Arc<Mutex<Shared>>) -> (bool, String) {
    let ex = conn.executor();
    let mut t = Box::pin(ex.tick());
    let ran = poll_once(t.as_mut()).is_ready();
    drop(t);
    (ran, take_ev(sh))
}

fn push_in(sh: &Arc<Mutex<Shared>>, item: In) {
    let w = {
        let mut g = sh.lock().unwrap();
        g.inbox.push_back(item);
        g.rwaker.take()
    };
    if let Some(w) = w {
        w.wake();
    }
}

fn io_class(e: &io::Error) -> &'static str {
    match e.kind() {
        io::ErrorKind::UnexpectedEof => "Ie",
        io::ErrorKind::BrokenPipe => "Ip",
        io::ErrorKind::TimedOut => "It",
        _ => "Io",
    }
}

/// `own` = the serial of the call this result belongs to (0 if the call was never written)
fn err_class(e: &zbus::Error, own: u32) -> String {
    match e {
        zbus::Error::InputOutput(e) => io_class(e).into(),
        zbus::Error::MethodError(_, desc, m) => {
            // the error message itself: which item it was, and whose reply it claims to be
            let rs = m.header().reply_serial().map(|x| x.get()).unwrap_or(0);
            let ok = rs == own && m.message_type() == zbus::message::Type::Error;
            format!("M{}{}", desc.clone().unwrap_or_else(|| "?".into()), if ok { "+" } else { "!" })
        }
        _ => "Ex".into(),
    }
}

fn own_serial(sh: &Arc<Mutex<Shared>>, member: &str) -> u32 {
    let g = sh.lock().unwrap();
    g.written
        .iter()
        .find(|(m, _)| m == member)
        .map(|(_, m)| m.primary_header().serial_num().get())
        .unwrap_or(0)
}

// ------------------------------------------------------------------ C19
type CallFut = Pin<Box<dyn Future<Output = String>>>;

fn mk_call(conn: &Connection, sh: &Arc<Mutex<Shared>>, kind: char, i: usize) -> CallFut {
    let conn = conn.clone();
    let sh = sh.clone();
    let member = format!("C{}", i);
    Box::pin(async move {
        match kind {
            'm' => match conn.call_method(None::<&str>, "/c", Some("v.I"), member.as_str(), &()).await {
                Ok(m) => {
                    let rs = m.header().reply_serial().map(|x| x.get()).unwrap_or(0);
                    let ok = rs == own_serial(&sh, &member) && m.message_type() == zbus::message::Type::MethodReturn;
                    match m.body().deserialize::<u32>() {
                        Ok(k) => format!("O{}{}", k, if ok { "+" } else { "!" }),
                        Err(_) => "O?!".to_string(),
                    }
                }
                Err(e) => err_class(&e, own_serial(&sh, &member)),
            },
            _ => {
                let proxy: zbus::Proxy<'_> = match zbus::proxy::Builder::new(&conn)
                    .destination("v.Dest")
                    .and_then(|b| b.path("/c"))
                    .and_then(|b| b.interface("v.I"))
                    .map(|b| b.cache_properties(zbus::proxy::CacheProperties::No))
                {
                    Ok(b) => match b.build().await {
                        Ok(p) => p,
                        Err(_) => return "Eproxy".to_string(),
                    },
                    Err(_) => return "Eproxy".to_string(),
                };
                // the typed entry points return the body only: the item number in it says which message was taken
                match kind {
                    'p' => match proxy.call::<_, _, u32>(member.as_str(), &()).await {
                        Ok(k) => format!("O{}+", k),
                        Err(e) => err_class(&e, own_serial(&sh, &member)),
                    },
                    'f' => match proxy
                        .call_with_flags::<_, _, u32>(member.as_str(), zbus::proxy::MethodFlags::NoAutoStart.into(), &())
                        .await
                    {
                        Ok(Some(k)) => format!("O{}+", k),
                        Ok(None) => "N".to_string(),
                        Err(e) => err_class(&e, own_serial(&sh, &member)),
                    },
                    _ => match proxy.call_noreply(member.as_str(), &()).await {
                        Ok(()) => "N".to_string(),
                        Err(e) => err_class(&e, own_serial(&sh, &member)),
                    },
                }
            }
        }
    })
}

struct KState {
    sh: Arc<Mutex<Shared>>,
    conn: Connection,
    calls: Vec<Option<CallFut>>,
    tmo: Option<u64>,
    next_item: usize,
    out: Vec<String>,
    /// a dummy call that is never sent: strays answer it
    ghost: Message,
    /// the application's own streams for the rules `type='method_return'` (0) and `type='error'` (1)
    hij: [HSlot; 2],
}

enum HSlot {
    Unused,
    Adding(AddFut),
    /// kept alive (never polled) until `D` drops it
    Live(#[allow(dead_code)] zbus::MessageStream),
    Gone,
}

impl KState {
    fn call_msg(&self, i: usize) -> Option<Message> {
        let g = self.sh.lock().unwrap();
        let name = format!("C{}", i);
        g.written.iter().find(|(m, _)| *m == name).map(|(_, m)| m.clone())
    }

    fn peer(&mut self, tok: &str) -> String {
        let kind = tok.as_bytes()[0] as char;
        let target: Option<usize> = tok[1..].parse().ok();
        let k = self.next_item;
        let call = match kind {
            'R' | 'Q' | 'H' | 'J' => match target.and_then(|i| self.call_msg(i)) {
                Some(m) => Some(m),
                None => return "-".into(),
            },
            _ => None,
        };
        let built: zbus::Result<Message> = (|| match kind {
            'R' => Message::method_return(&call.as_ref().unwrap().header())?.build(&(k as u32)),
            'Q' => Message::error(&call.as_ref().unwrap().header(), "v.Err")?.build(&(k.to_string())),
            'U' => Message::method_return(&self.ghost.header())?.build(&(k as u32)),
            'V' => Message::error(&self.ghost.header(), "v.Err")?.build(&(k.to_string())),
            'G' => Message::signal("/s", "v.I", "Sig")?.build(&(k as u32)),
            'H' => Message::signal("/s", "v.I", "Sig")?
                .reply_serial(Some(call.as_ref().unwrap().primary_header().serial_num()))
                .build(&(k as u32)),
            'J' => Message::method_call("/s", "Ping")?
                .reply_serial(Some(call.as_ref().unwrap().primary_header().serial_num()))
                .build(&(k as u32)),
            _ => Err(zbus::Error::Unsupported),
        })();
        match built {
            Ok(m) => {
                self.next_item += 1;
                push_in(&self.sh, In::Msg(k, m.data().bytes().to_vec()));
                format!("k{}", k)
            }
            Err(_) => "BUILD-ERR".into(),
        }
    }

    fn poll_hij(&mut self, w: usize) -> String {
        match std::mem::replace(&mut self.hij[w], HSlot::Gone) {
            HSlot::Adding(mut f) => match poll_once(f.as_mut()) {
                Poll::Pending => {
                    self.hij[w] = HSlot::Adding(f);
                    "P".into()
                }
                Poll::Ready(Ok(st)) => {
                    self.hij[w] = HSlot::Live(st);
                    "ok".into()
                }
                Poll::Ready(Err(e)) => format!("E{}", &err_class(&e, 0)[1..]),
            },
            other => {
                self.hij[w] = other;
                "-".into()
            }
        }
    }

    /// returns true if something observable happened
    fn step(&mut self, tok: &str) -> bool {
        let kind = tok.as_bytes()[0] as char;
        let before = snap_ret(&self.conn);
        let (res, moved) = match kind {
            'Y' | 'W' => {
                let w = if kind == 'Y' { 0 } else { 1 };
                if matches!(self.hij[w], HSlot::Unused) {
                    let rule = if w == 0 { "type='method_return'" } else { "type='error'" };
                    let conn = self.conn.clone();
                    let f: AddFut = Box::pin(async move { zbus::MessageStream::for_match_rule(rule, &conn, None).await });
                    self.hij[w] = HSlot::Adding(f);
                    let r = self.poll_hij(w);
                    let moved = r != "P";
                    (r, moved)
                } else {
                    ("-".to_string(), false)
                }
            }
            'y' => {
                let a = self.poll_hij(0);
                let b = self.poll_hij(1);
                let moved = a.starts_with("ok") || a.starts_with('E') || b.starts_with("ok") || b.starts_with('E');
                (format!("{}/{}", a, b), moved)
            }
            'D' => {
                let mut n = 0;
                for w in 0..2 {
                    if matches!(self.hij[w], HSlot::Live(_)) {
                        self.hij[w] = HSlot::Gone;
                        n += 1;
                    }
                }
                (format!("d{}", n), n > 0)
            }
            'c' => {
                let i: usize = match tok[1..].parse() {
                    Ok(i) if i < self.calls.len() => i,
                    _ => return false,
                };
                let r = match self.calls[i].as_mut() {
                    None => "D".to_string(),
                    Some(f) => match poll_once(f.as_mut()) {
                        Poll::Pending => "P".to_string(),
                        Poll::Ready(s) => {
                            self.calls[i] = None;
                            // a timeout must not fire before the configured time has passed since the call was written
                            if s == "It" {
                                let g = self.sh.lock().unwrap();
                                let late = match (g.wtime.get(&format!("C{}", i)), self.tmo) {
                                    (Some(t0), Some(t)) => t0.elapsed() >= Duration::from_millis(t),
                                    _ => false,
                                };
                                format!("It{}", if late { 1 } else { 0 })
                            } else {
                                s
                            }
                        }
                    },
                };
                let ev = take_ev(&self.sh);
                let moved = r != "P" || !ev.is_empty();
                (format!("{}{}", if ev.is_empty() { String::new() } else { ev + "." }, r), moved && r != "D")
            }
            't' => {
                let (ran, ev) = tick(&self.conn, &self.sh);
                (if ran { format!("1:{}", ev) } else { "0".to_string() }, ran)
            }
            'E' => {
                push_in(&self.sh, In::Eof);
                ("k".to_string(), true)
            }
            'X' => {
                push_in(&self.sh, In::IoErr);
                ("k".to_string(), true)
            }
            'Z' => {
                if let Some(t) = self.tmo {
                    let last = self.sh.lock().unwrap().wtime.values().max().copied();
                    if let Some(l) = last {
                        let until = l + Duration::from_millis(t + 8);
                        let now = Instant::now();
                        if until > now {
                            std::thread::sleep(until - now);
                        }
                    }
                }
                ("z".to_string(), true)
            }
            _ => {
                let r = self.peer(tok);
                let moved = r != "-";
                (r, moved)
            }
        };
        let after = snap_ret(&self.conn);
        self.out.push(format!("{}={}@{}", tok, res, after));
        moved || before != after
    }

    /// `socket_write` formats as `<locked>` while somebody holds it — or while waiters that async_lock counts as starved
    /// stand in line (then a free mutex is handed over in an order of its own and a poll may come back empty-handed)
    fn write_mutex_busy(&self) -> bool {
        format!("{:?}", self.conn).contains("socket_write: Mutex { data: <locked> }")
    }

    fn drain(&mut self) {
        let mut idle_rounds = 0;
        for _ in 0..10_000 {
            let mut moved = false;
            for _ in 0..10_000 {
                if !self.step("t") {
                    break;
                }
                moved = true;
            }
            for i in 0..self.calls.len() {
                if self.calls[i].is_some() && self.step(&format!("c{}", i)) {
                    moved = true;
                }
            }
            if self.hij.iter().any(|h| matches!(h, HSlot::Adding(_))) && self.step("y") {
                moved = true;
            }
            if moved {
                idle_rounds = 0;
                continue;
            }
            idle_rounds += 1;
            // a round in which nothing visible happened is final unless the write mutex is being passed around
            if !self.write_mutex_busy() || idle_rounds > self.calls.len() + 2 {
                return;
            }
        }
        self.out.push("HANG".into());
    }
}

fn k_mode(w: &[&str]) -> String {
    if w.len() != 4 {
        return "BADCASE".into();
    }
    let tmo: Option<u64> = if w[1] == "-" {
        None
    } else {
        match w[1].parse() {
            Ok(t) => Some(t),
            Err(_) => return "BADCASE".into(),
        }
    };
    let sh = Arc::new(Mutex::new(Shared::default()));
    let mut kinds = vec![];
    if w[2] != "-" {
        for (i, c) in w[2].split(',').enumerate() {
            let kind = match c.chars().next() {
                Some(k) if "mpfn".contains(k) => k,
                _ => return "BADCASE".into(),
            };
            let ans = if &c[1..] == "x" {
                WAns::Fail
            } else if &c[1..] == "L" {
                WAns::Late
            } else {
                match c[1..].parse() {
                    Ok(d) => WAns::Pend(d),
                    Err(_) => return "BADCASE".into(),
                }
            };
            sh.lock().unwrap().wans.insert(format!("C{}", i), ans);
            kinds.push(kind);
        }
    }
    let conn = match connect(&sh, tmo) {
        Ok(c) => c,
        Err(e) => return e,
    };
    let ghost = match Message::method_call("/ghost", "Never").and_then(|b| b.build(&())) {
        Ok(m) => m,
        Err(_) => return "BUILD-ERR".into(),
    };
    sh.lock().unwrap().conn = Some(conn.clone());
    let calls = kinds.iter().enumerate().map(|(i, k)| Some(mk_call(&conn, &sh, *k, i))).collect();
    let first = format!("cap={}", cap_ret(&conn));
    let mut st = KState { sh, conn, calls, tmo, next_item: 0, out: vec![first], ghost, hij: [HSlot::Unused, HSlot::Unused] };
    if w[3] != "-" {
        for tok in w[3].split(',') {
            if tok.is_empty() || !"ctRQUVGHJEXZYWyD".contains(tok.chars().next().unwrap()) {
                return "BADCASE".into();
            }
            st.step(tok);
        }
    }
    st.out.push("|".into());
    st.drain();
    if st.tmo.is_some() && st.calls.iter().any(|c| c.is_some()) {
        st.step("Z");
        st.drain();
    }
    st.sh.lock().unwrap().conn = None;
    st.out.join(",")
}

// ------------------------------------------------------------------ C20: message streams
//
// S <rules> <steps>
//   rules = rule specs joined by `,`: two characters, interface A|B|* and member 1|2|*  (`A1` = type='signal',interface='v.A',
//           member='M1'; `**` = type='signal'); equal specs are equal rules
//   steps = joined by `,`:
//           A<s>:<j>:<q|->  start MessageStream::for_match_rule(rule j, conn, max_queued q) for stream id s and poll it once
//                           (skipped, `-`, while two creations are pending; likewise x while two async drops are pending)
//           a<s>            poll that pending creation again
//           U<s>            MessageStream::from(&conn) (unfiltered) as stream s
//           p<s>            poll stream s once (poll_next)
//           d<s>            drop stream s
//           x<s> / y<s>     start AsyncDrop::async_drop(stream s) and poll it once / poll it again
//           c<s>:<s2>       stream s2 = stream s .clone()
//           q<s>:<n>        stream s .set_max_queued(n)
//           t               tick the executor once
//           M<i><m>         the peer sends signal interface i (A|B) member m (1|2); MR a method return; MC a method call
//           E / X           end of stream / read error
//   after the listed steps the harness drains: tick until idle, poll pending creations/async drops, poll every live stream until
//   it is Pending, until nothing moves.
//   observation = `<step>=<what happened>@<state>` joined by `,`; state = <msg_senders>;<subscriptions>;<unfiltered channel>
//     msg_senders   `L` (locked) or the keys in iteration order with their channel: `*`|`R`|`E`|`r<j>` `:<queue>/<cap>/<receivers>[c]`
//     subscriptions `L` or, sorted, `r<j>:<refcount>:<queue>/<cap>/<receivers>[c]`   (j = first index of an equal rule)

fn rule_of(spec: &str) -> Option<zbus::MatchRule<'static>> {
    let b = spec.as_bytes();
    if b.len() != 2 {
        return None;
    }
    let mut r = zbus::MatchRule::builder().msg_type(zbus::message::Type::Signal);
    r = match b[0] {
        b'A' => r.interface("v.A").ok()?,
        b'B' => r.interface("v.B").ok()?,
        b'*' => r,
        _ => return None,
    };
    r = match b[1] {
        b'1' => r.member("M1").ok()?,
        b'2' => r.member("M2").ok()?,
        b'*' => r,
        _ => return None,
    };
    Some(r.build())
}

fn chan_tok(i: Option<(usize, usize, usize, bool)>) -> String {
    match i {
        Some((q, cap, n, c)) => format!("{}/{}/{}{}", q, cap, n, if c { "c" } else { "" }),
        None => "?".into(),
    }
}

/// (key text as it appears in `msg_senders`, key text in `subscriptions`, label)
fn snapshot(conn: &Connection, keys: &[(String, String, String)]) -> String {
    let d = format!("{:?}", conn);
    let cut = |from: &str, to: &str| -> Option<&str> {
        let a = d.find(from)? + from.len();
        let b = d[a..].find(to)? + a;
        Some(&d[a..b])
    };
    let senders = match cut("msg_senders: Mutex { data: ", ", subscriptions: Mutex { data: ") {
        None => "?".to_string(),
        Some(sec) if sec.starts_with("<locked>") => "L".to_string(),
        Some(sec) => {
            let mut found: Vec<(usize, String)> = vec![];
            let fixed = [
                ("None: Sender".to_string(), "*".to_string()),
                ("Some(OwnedMatchRule(MatchRule { msg_type: Some(MethodReturn), sender: None, interface: None, member: None".to_string(), "R".to_string()),
                ("Some(OwnedMatchRule(MatchRule { msg_type: Some(Error), sender: None, interface: None, member: None".to_string(), "E".to_string()),
            ];
            for (k, lab) in fixed.iter().cloned().chain(keys.iter().map(|(a, _, l)| (a.clone(), l.clone()))) {
                if let Some(pos) = sec.find(&k) {
                    found.push((pos, format!("{}:{}", lab, chan_tok(parse_inner(&sec[pos..])))));
                }
            }
            found.sort();
            found.into_iter().map(|(_, t)| t).collect::<Vec<_>>().join(".")
        }
    };
    let subs = match cut(", subscriptions: Mutex { data: ", ", object_server: ") {
        None => "?".to_string(),
        Some(sec) if sec.starts_with("<locked>") => "L".to_string(),
        Some(sec) => {
            let mut found: Vec<String> = vec![];
            for (_, k, lab) in keys {
                let pat = format!("{}: (", k);
                if let Some(pos) = sec.find(&pat) {
                    let rest = &sec[pos + pat.len()..];
                    let rc: String = rest.chars().take_while(|c| c.is_ascii_digit()).collect();
                    found.push(format!("{}:{}:{}", lab, rc, chan_tok(parse_inner(rest))));
                }
            }
            found.join(".")
        }
    };
    let unf = chan_tok(cut("msg_receiver: ", ", method_return_receiver: ").and_then(parse_inner));
    format!("{};{};{}", senders, subs, unf)
}

type AddFut = Pin<Box<dyn Future<Output = zbus::Result<zbus::MessageStream>>>>;
type DropFut = Pin<Box<dyn Future<Output = ()>>>;

enum Slot {
    Adding(AddFut),
    Live(zbus::MessageStream),
    Dropping(DropFut),
    Gone,
}

struct SState {
    sh: Arc<Mutex<Shared>>,
    conn: Connection,
    rules: Vec<zbus::MatchRule<'static>>,
    keys: Vec<(String, String, String)>,
    slots: HashMap<usize, Slot>,
    next_item: usize,
    out: Vec<String>,
}

fn item_of(m: &Message) -> String {
    match m.body().deserialize::<u32>() {
        Ok(k) => format!("m{}", k),
        Err(_) => "m?".into(),
    }
}

impl SState {
    fn snap(&self) -> String {
        snapshot(&self.conn, &self.keys)
    }

    fn poll_add(&mut self, s: usize) -> String {
        let slot = self.slots.remove(&s);
        match slot {
            Some(Slot::Adding(mut f)) => match poll_once(f.as_mut()) {
                Poll::Pending => {
                    self.slots.insert(s, Slot::Adding(f));
                    "P".into()
                }
                Poll::Ready(Ok(st)) => {
                    let r = format!("ok{}", st.max_queued());
                    self.slots.insert(s, Slot::Live(st));
                    r
                }
                Poll::Ready(Err(e)) => {
                    self.slots.insert(s, Slot::Gone);
                    format!("E{}", &err_class(&e, 0)[1..])
                }
            },
            other => {
                if let Some(o) = other {
                    self.slots.insert(s, o);
                }
                "-".into()
            }
        }
    }

    fn poll_drop(&mut self, s: usize) -> String {
        let slot = self.slots.remove(&s);
        match slot {
            Some(Slot::Dropping(mut f)) => match poll_once(f.as_mut()) {
                Poll::Pending => {
                    self.slots.insert(s, Slot::Dropping(f));
                    "P".into()
                }
                Poll::Ready(()) => {
                    self.slots.insert(s, Slot::Gone);
                    "ok".into()
                }
            },
            other => {
                if let Some(o) = other {
                    self.slots.insert(s, o);
                }
                "-".into()
            }
        }
    }

    fn peer(&mut self, tok: &str) -> String {
        let k = self.next_item;
        let built: zbus::Result<Message> = (|| {
            let b = tok.as_bytes();
            if tok == "MR" {
                let ghost = Message::method_call("/ghost", "Never")?.build(&())?;
                return Message::method_return(&ghost.header())?.build(&(k as u32));
            }
            if tok == "MC" {
                return Message::method_call("/s", "Ping")?.build(&(k as u32));
            }
            if b.len() != 3 {
                return Err(zbus::Error::Unsupported);
            }
            let iface = match b[1] {
                b'A' => "v.A",
                b'B' => "v.B",
                _ => return Err(zbus::Error::Unsupported),
            };
            let member = match b[2] {
                b'1' => "M1",
                b'2' => "M2",
                _ => return Err(zbus::Error::Unsupported),
            };
            Message::signal("/s", iface, member)?.build(&(k as u32))
        })();
        match built {
            Ok(m) => {
                // which rules the real MatchRule::matches says it matches (the model's matcher is checked against this)
                let mut hits: Vec<String> = vec![];
                for (j, r) in self.rules.iter().enumerate() {
                    if self.rules.iter().position(|x| x == r) == Some(j) && r.matches(&m).unwrap_or(false) {
                        hits.push(format!("r{}", j));
                    }
                }
                self.next_item += 1;
                push_in(&self.sh, In::Msg(k, m.data().bytes().to_vec()));
                format!("k{}{}{}", k, if hits.is_empty() { "" } else { "/" }, hits.join("/"))
            }
            Err(_) => "BADTOK".into(),
        }
    }

    /// returns true if something observable happened
    fn step(&mut self, tok: &str) -> bool {
        let before = self.snap();
        let kind = tok.as_bytes()[0] as char;
        let args: Vec<&str> = tok[1..].split(':').collect();
        let num = |i: usize| -> Option<usize> { args.get(i).and_then(|x| x.parse().ok()) };
        let res: String = match kind {
            // at most two creations in flight (each pending one is a waiter on the two mutexes; what they do while waiting
            // cannot be seen from outside, and the replay has to follow every possibility)
            'A' => match (num(0), num(1)) {
                (Some(s), Some(j))
                    if j < self.rules.len()
                        && !self.slots.contains_key(&s)
                        && self.slots.values().filter(|x| matches!(x, Slot::Adding(_))).count() < 2 =>
                {
                    let q: Option<usize> = args.get(2).and_then(|x| x.parse().ok());
                    let rule = self.rules[j].clone();
                    let conn = self.conn.clone();
                    let f: AddFut = Box::pin(async move { zbus::MessageStream::for_match_rule(rule, &conn, q).await });
                    self.slots.insert(s, Slot::Adding(f));
                    self.poll_add(s)
                }
                _ => "-".into(),
            },
            'a' => match num(0) {
                Some(s) => self.poll_add(s),
                None => "-".into(),
            },
            'U' => match num(0) {
                Some(s) if !self.slots.contains_key(&s) => {
                    let st = zbus::MessageStream::from(&self.conn);
                    let r = format!("ok{}", st.max_queued());
                    self.slots.insert(s, Slot::Live(st));
                    r
                }
                _ => "-".into(),
            },
            'p' => match num(0).and_then(|s| self.slots.get_mut(&s)) {
                Some(Slot::Live(st)) => {
                    let w = noop_waker();
                    let mut cx = Context::from_waker(&w);
                    match Pin::new(st).poll_next(&mut cx) {
                        Poll::Pending => "P".into(),
                        Poll::Ready(None) => "N".into(),
                        Poll::Ready(Some(Ok(m))) => item_of(&m),
                        Poll::Ready(Some(Err(e))) => format!("E{}", &err_class(&e, 0)[1..]),
                    }
                }
                _ => "-".into(),
            },
            'd' => match num(0) {
                Some(s) if matches!(self.slots.get(&s), Some(Slot::Live(_))) => {
                    self.slots.insert(s, Slot::Gone);
                    "ok".into()
                }
                _ => "-".into(),
            },
            'x' => match num(0) {
                Some(s)
                    if matches!(self.slots.get(&s), Some(Slot::Live(_)))
                        && self.slots.values().filter(|x| matches!(x, Slot::Dropping(_))).count() < 2 =>
                {
                    if let Some(Slot::Live(st)) = self.slots.remove(&s) {
                        use zbus::AsyncDrop;
                        let f: DropFut = Box::pin(async move { st.async_drop().await });
                        self.slots.insert(s, Slot::Dropping(f));
                    }
                    self.poll_drop(s)
                }
                _ => "-".into(),
            },
            'y' => match num(0) {
                Some(s) => self.poll_drop(s),
                None => "-".into(),
            },
            'c' => match (num(0), num(1)) {
                (Some(s), Some(s2)) if !self.slots.contains_key(&s2) => match self.slots.get(&s) {
                    Some(Slot::Live(st)) => {
                        let c = st.clone();
                        self.slots.insert(s2, Slot::Live(c));
                        "ok".into()
                    }
                    _ => "-".into(),
                },
                _ => "-".into(),
            },
            'q' => match (num(0), num(1)) {
                (Some(s), Some(n)) if n > 0 => match self.slots.get_mut(&s) {
                    Some(Slot::Live(st)) => {
                        st.set_max_queued(n);
                        format!("ok{}", st.max_queued())
                    }
                    _ => "-".into(),
                },
                _ => "-".into(),
            },
            't' => {
                let (ran, ev) = tick(&self.conn, &self.sh);
                if ran {
                    format!("1:{}", ev)
                } else {
                    "0".into()
                }
            }
            'E' => {
                push_in(&self.sh, In::Eof);
                "k".into()
            }
            'X' => {
                push_in(&self.sh, In::IoErr);
                "k".into()
            }
            'M' => self.peer(tok),
            _ => "BADTOK".into(),
        };
        let after = self.snap();
        let moved = match kind {
            't' => res != "0",
            'p' | 'a' | 'y' => res != "P" && res != "-" && res != "N",
            _ => res != "-",
        };
        self.out.push(format!("{}={}@{}", tok, res, after));
        moved || before != after
    }

    fn drain(&mut self) {
        let mut idle_rounds = 0;
        for _ in 0..2_000 {
            let mut moved = false;
            for _ in 0..2_000 {
                if !self.step("t") {
                    break;
                }
                moved = true;
            }
            let mut ids: Vec<usize> = self.slots.keys().copied().collect();
            ids.sort();
            for s in ids {
                let tok = match self.slots.get(&s) {
                    Some(Slot::Adding(_)) => format!("a{}", s),
                    Some(Slot::Dropping(_)) => format!("y{}", s),
                    Some(Slot::Live(_)) => format!("p{}", s),
                    _ => continue,
                };
                // a live stream is polled until it has nothing more to give
                for _ in 0..200 {
                    if !self.step(&tok) {
                        break;
                    }
                    moved = true;
                    if !tok.starts_with('p') {
                        break;
                    }
                }
            }
            if moved {
                idle_rounds = 0;
                continue;
            }
            idle_rounds += 1;
            // a round in which nothing visible happened is final unless one of the two mutexes is held or being passed
            // around among waiters (async_lock hands a free mutex to waiters in an order of its own: a poll may come back
            // empty-handed although the mutex is free; each such round moves the line forward)
            let sn = self.snap();
            let busy = sn.starts_with("L;") || sn.contains(";L;");
            if !busy || idle_rounds > 2 * self.slots.len() + 6 {
                return;
            }
        }
        self.out.push("HANG".into());
    }
}

fn s_mode(w: &[&str]) -> String {
    if w.len() != 3 {
        return "BADCASE".into();
    }
    let mut rules = vec![];
    if w[1] != "-" {
        for spec in w[1].split(',') {
            match rule_of(spec) {
                Some(r) => rules.push(r),
                None => return "BADCASE".into(),
            }
        }
    }
    let mut keys = vec![];
    for (j, r) in rules.iter().enumerate() {
        if rules.iter().position(|x| x == r) == Some(j) {
            let owned: zbus::OwnedMatchRule = r.clone().into();
            keys.push((format!("{:?}: Sender", Some(owned.clone())), format!("{:?}", owned), format!("r{}", j)));
        }
    }
    let sh = Arc::new(Mutex::new(Shared::default()));
    let conn = match connect(&sh, None) {
        Ok(c) => c,
        Err(e) => return e,
    };
    let mut st = SState { sh, conn, rules, keys, slots: HashMap::new(), next_item: 0, out: vec![] };
    let first = format!("init@{}", st.snap());
    st.out.push(first);
    if w[2] != "-" {
        for tok in w[2].split(',') {
            if tok.is_empty() || !"AaUpdxycqtEXM".contains(tok.chars().next().unwrap()) {
                return "BADCASE".into();
            }
            st.step(tok);
        }
    }
    st.out.push("|".into());
    st.drain();
    st.out.join(",")
}

fn main() {
    hcommon::run(|line| {
        let w: Vec<&str> = line.split(' ').filter(|x| !x.is_empty()).collect();
        match w.first().copied() {
            Some("K") => k_mode(&w),
            Some("S") => s_mode(&w),
            _ => "BADCASE".into(),
        }
    });
}
