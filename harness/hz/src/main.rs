//! Codec harness (C01, C02, C03, C04, C07): zvariant's D-Bus serializer and deserializer driven by
//! the text value syntax shared with coq/theories/DBus/Val.v.
//!   ser <cfg> <L|B> <pos> dyn|body|typed:<name> <value tokens...>
//!   de  <cfg> <L|B> <pos> <nfds> v <hex>      |   de <cfg> <L|B> <pos> <nfds> s <sig> <hex>
use std::collections::BTreeMap;
use std::os::fd::{AsRawFd, BorrowedFd, OwnedFd};
use zvariant::serialized::{Context, Data};
use zvariant::{Array, Dict, Fd, ObjectPath, Signature, Str, Structure, StructureBuilder, Value, BE, LE};

// 16 distinct memfds; a descriptor is identified by its inode, never by its number (dup changes the number).
thread_local! {
    static FDS: Vec<OwnedFd> = (0..16).map(|i| {
        use std::os::fd::FromRawFd;
        let name = std::ffi::CString::new(format!("hz{}", i)).unwrap();
        let fd = unsafe { libc::memfd_create(name.as_ptr(), 0) };
        assert!(fd >= 0);
        unsafe { OwnedFd::from_raw_fd(fd) }
    }).collect();
}

fn ino(raw: i32) -> u64 {
    let mut st: libc::stat = unsafe { std::mem::zeroed() };
    if unsafe { libc::fstat(raw, &mut st) } != 0 { return u64::MAX; }
    st.st_ino as u64
}
fn fd_raw(i: usize) -> i32 {
    FDS.with(|f| f[i % f.len()].as_raw_fd())
}
fn fd_index(raw: i32) -> Option<usize> {
    let x = ino(raw);
    FDS.with(|f| f.iter().position(|y| ino(y.as_raw_fd()) == x))
}

fn hexs(t: &str) -> Option<Vec<u8>> {
    if t == "-" { Some(vec![]) } else { hcommon::unhex(t) }
}
fn hext(b: &[u8]) -> String {
    if b.is_empty() { "-".into() } else { hcommon::hex(b) }
}
fn sig_of(t: &str) -> Option<Signature> {
    if t == "-" { Some(Signature::Unit) } else { Signature::try_from(t).ok() }
}
fn sig_tok(s: &Signature) -> String {
    let t = s.to_string();
    if t.is_empty() { "-".into() } else { t }
}

struct P<'a> {
    t: Vec<&'a str>,
    i: usize,
}
impl<'a> P<'a> {
    fn next(&mut self) -> Option<&'a str> {
        let r = self.t.get(self.i).copied();
        self.i += 1;
        r
    }
    fn value(&mut self) -> Option<Value<'static>> {
        let t = self.next()?;
        Some(match t {
            "y" => Value::U8(self.next()?.parse().ok()?),
            "b" => Value::Bool(self.next()?.parse::<u64>().ok()? != 0),
            "n" => Value::I16(self.next()?.parse().ok()?),
            "q" => Value::U16(self.next()?.parse().ok()?),
            "i" => Value::I32(self.next()?.parse().ok()?),
            "u" => Value::U32(self.next()?.parse().ok()?),
            "x" => Value::I64(self.next()?.parse().ok()?),
            "t" => Value::U64(self.next()?.parse().ok()?),
            "d" => Value::F64(f64::from_bits(u64::from_str_radix(self.next()?, 16).ok()?)),
            "s" => Value::Str(Str::from(String::from_utf8(hexs(self.next()?)?).ok()?)),
            "o" => Value::ObjectPath(ObjectPath::from_string_unchecked(String::from_utf8(hexs(self.next()?)?).ok()?)),
            "g" => Value::Signature(sig_of(self.next()?)?),
            "h" => {
                let i: usize = self.next()?.parse().ok()?;
                // borrowed, so that the same descriptor used twice has the same raw number
                let fd: BorrowedFd<'static> = unsafe { BorrowedFd::borrow_raw(fd_raw(i)) };
                Value::Fd(Fd::from(fd))
            }
            "v" => Value::Value(Box::new(self.value()?)),
            "a" => {
                let es = sig_of(self.next()?)?;
                let n: usize = self.next()?.parse().ok()?;
                let mut a = Array::new(&es);
                for _ in 0..n {
                    a.append(self.value()?).ok()?;
                }
                Value::Array(a)
            }
            "e" => {
                let ks = sig_of(self.next()?)?;
                let vs = sig_of(self.next()?)?;
                let n: usize = self.next()?.parse().ok()?;
                let mut d = Dict::new(&ks, &vs);
                for _ in 0..n {
                    let k = self.value()?;
                    let v = self.value()?;
                    d.append(k, v).ok()?;
                }
                Value::Dict(d)
            }
            "r" => {
                let n: usize = self.next()?.parse().ok()?;
                let mut b = StructureBuilder::new();
                for _ in 0..n {
                    b = b.append_field(self.value()?);
                }
                Value::Structure(b.build().ok()?)
            }
            _ => return None,
        })
    }
}

fn show(v: &Value<'_>, out: &mut Vec<String>) {
    match v {
        Value::U8(x) => out.extend(["y".into(), x.to_string()]),
        Value::Bool(x) => out.extend(["b".into(), (*x as u8).to_string()]),
        Value::I16(x) => out.extend(["n".into(), x.to_string()]),
        Value::U16(x) => out.extend(["q".into(), x.to_string()]),
        Value::I32(x) => out.extend(["i".into(), x.to_string()]),
        Value::U32(x) => out.extend(["u".into(), x.to_string()]),
        Value::I64(x) => out.extend(["x".into(), x.to_string()]),
        Value::U64(x) => out.extend(["t".into(), x.to_string()]),
        Value::F64(x) => out.extend(["d".into(), format!("{:016x}", x.to_bits())]),
        Value::Str(s) => out.extend(["s".into(), hext(s.as_bytes())]),
        Value::ObjectPath(s) => out.extend(["o".into(), hext(s.as_bytes())]),
        Value::Signature(s) => out.extend(["g".into(), sig_tok(s)]),
        Value::Fd(f) => out.extend(["h".into(), fd_index(f.as_raw_fd()).map(|i| i.to_string()).unwrap_or("?".into())]),
        Value::Value(x) => {
            out.push("v".into());
            show(x, out)
        }
        Value::Array(a) => {
            out.extend(["a".into(), sig_tok(a.element_signature()), a.len().to_string()]);
            for x in a.iter() {
                show(x, out)
            }
        }
        Value::Dict(d) => {
            let (ks, vs) = match d.signature() {
                Signature::Dict { key, value } => (key.signature().clone(), value.signature().clone()),
                _ => unreachable!(),
            };
            let mut entries: Vec<(Vec<String>, Vec<String>)> = vec![];
            for (k, v) in d.iter() {
                let (mut a, mut b) = (vec![], vec![]);
                show(k, &mut a);
                show(v, &mut b);
                entries.push((a, b));
            }
            // canonical: sorted by the key's text (bytewise)
            entries.sort_by(|x, y| x.0.join(" ").as_bytes().cmp(y.0.join(" ").as_bytes()));
            out.extend(["e".into(), sig_tok(&ks), sig_tok(&vs), entries.len().to_string()]);
            for (a, b) in entries {
                out.extend(a);
                out.extend(b);
            }
        }
        Value::Structure(s) => {
            out.extend(["r".into(), s.fields().len().to_string()]);
            for x in s.fields() {
                show(x, out)
            }
        }
        #[cfg(feature = "gvariant")]
        Value::Maybe(_) => out.push("MAYBE".into()),
    }
}

fn err_tok(e: &zvariant::Error) -> String {
    match e {
        zvariant::Error::MaxDepthExceeded(_) => "ERR:D".into(),
        _ => "ERR".into(),
    }
}

fn ctxt(e: &str, pos: usize) -> Context {
    if e == "B" { Context::new_dbus(BE, pos) } else { Context::new_dbus(LE, pos) }
}

macro_rules! typed {
    ($v:expr, $c:expr, $t:ty) => {{
        let x: $t = match <$t>::try_from($v) {
            Ok(x) => x,
            Err(_) => return "BADCASE".into(),
        };
        let r = zvariant::to_bytes($c, &x);
        let z = zvariant::serialized_size($c, &x);
        ser_obs(r, z)
    }};
}

macro_rules! typed_map {
    ($v:expr, $c:expr, $t:ty) => {{
        let d = match $v {
            Value::Dict(d) => d,
            _ => return "BADCASE".into(),
        };
        let x: $t = match <$t>::try_from(d) {
            Ok(x) => x,
            Err(_) => return "BADCASE".into(),
        };
        let r = zvariant::to_bytes($c, &x);
        let z = zvariant::serialized_size($c, &x);
        ser_obs(r, z)
    }};
}

fn ser_obs(r: zvariant::Result<Data<'static, 'static>>, z: zvariant::Result<zvariant::serialized::Size>) -> String {
    match (r, z) {
        (Ok(d), Ok(z)) => format!("OK:{}:{}:{}:{}", hext(d.bytes()), z.size(), d.fds().len(), z.num_fds()),
        (Err(e), _) => err_tok(&e),
        (_, Err(e)) => err_tok(&e),
    }
}

fn run_ser(c: Context, mode: &str, toks: Vec<&str>) -> String {
    let mut p = P { t: toks, i: 0 };
    let v = match p.value() {
        Some(v) if p.i == p.t.len() => v,
        _ => return "BADCASE".into(),
    };
    match mode {
        "dyn" => ser_obs(zvariant::to_bytes(c, &v), zvariant::serialized_size(c, &v)),
        "body" => match v {
            Value::Structure(s) => ser_obs(zvariant::to_bytes(c, &s), zvariant::serialized_size(c, &s)),
            Value::Array(a) => ser_obs(zvariant::to_bytes(c, &a), zvariant::serialized_size(c, &a)),
            _ => "BADCASE".into(),
        },
        "typed:y" => typed!(v, c, u8),
        "typed:b" => typed!(v, c, bool),
        "typed:n" => typed!(v, c, i16),
        "typed:q" => typed!(v, c, u16),
        "typed:i" => typed!(v, c, i32),
        "typed:u" => typed!(v, c, u32),
        "typed:x" => typed!(v, c, i64),
        "typed:t" => typed!(v, c, u64),
        "typed:d" => typed!(v, c, f64),
        "typed:s" => typed!(v, c, String),
        "typed:o" => typed!(v, c, zvariant::OwnedObjectPath),
        "typed:g" => typed!(v, c, Signature),
        "typed:au" => typed!(v, c, Vec<u32>),
        "typed:as" => typed!(v, c, Vec<String>),
        "typed:ay" => typed!(v, c, Vec<u8>),
        "typed:aay" => typed!(v, c, Vec<Vec<u8>>),
        "typed:ax" => typed!(v, c, Vec<i64>),
        "typed:(ys)" => typed!(v, c, (u8, String)),
        "typed:(yt)" => typed!(v, c, (u8, u64)),
        "typed:a(yt)" => typed!(v, c, Vec<(u8, u64)>),
        "typed:(yas)" => typed!(v, c, (u8, Vec<String>)),
        "typed:(ya(ns)t)" => typed!(v, c, (u8, Vec<(i16, String)>, u64)),
        "typed:a{su}" => typed_map!(v, c, BTreeMap<String, u32>),
        "typed:a{us}" => typed_map!(v, c, BTreeMap<u32, String>),
        "typed:a{sv}" => typed_map!(v, c, BTreeMap<String, zvariant::OwnedValue>),
        "typed:a{yat}" => typed_map!(v, c, BTreeMap<u8, Vec<u64>>),
        _ => "BADCASE".into(),
    }
}

/// rt: encode, decode the produced bytes (with the produced fds), compare with the original.
fn run_rt(c: Context, mode: &str, toks: Vec<&str>) -> String {
    let mut p = P { t: toks, i: 0 };
    let v = match p.value() {
        Some(v) if p.i == p.t.len() => v,
        _ => return "BADCASE".into(),
    };
    // equality: bit-exact text (fds by identity); additionally `==` when no NaN is involved
    let text = |v: &Value<'_>| {
        let mut o = vec![];
        show(v, &mut o);
        o.join(" ")
    };
    let same = |y: &Value<'_>, v: &Value<'_>| {
        let t = text(v);
        let has_nan = t.split(' ').collect::<Vec<_>>().windows(2).any(|w| {
            w[0] == "d" && u64::from_str_radix(w[1], 16).map(|b| f64::from_bits(b).is_nan()).unwrap_or(false)
        });
        text(y) == t && (has_nan || y == v)
    };
    match mode {
        "dyn" => match zvariant::to_bytes(c, &v) {
            Ok(d) => match d.deserialize::<Value>() {
                Ok((y, n)) => {
                    let y = remap_fds(&d, y);
                    format!("OK:{}:{}:{}", d.bytes().len(), n, hcommon::tf(same(&y, &v)))
                }
                Err(e) => format!("DE{}", err_tok(&e)),
            },
            Err(e) => err_tok(&e),
        },
        "body" => {
            let s = match &v { Value::Structure(s) => s, _ => return "BADCASE".into() };
            match zvariant::to_bytes(c, s) {
                Ok(d) => match d.deserialize_for_dynamic_signature::<_, Structure>(s.signature()) {
                    Ok((y, n)) => {
                        let y = remap_fds(&d, Value::Structure(y));
                        format!("OK:{}:{}:{}", d.bytes().len(), n, hcommon::tf(same(&y, &v)))
                    }
                    Err(e) => format!("DE{}", err_tok(&e)),
                },
                Err(e) => err_tok(&e),
            }
        }
        _ => "BADCASE".into(),
    }
}

fn reenc<T: serde::Serialize + zvariant::DynamicType>(c: Context, v: &T, consumed: &[u8]) -> &'static str {
    match std::panic::catch_unwind(std::panic::AssertUnwindSafe(|| zvariant::to_bytes(c, v))) {
        Ok(Ok(d)) => { let _ = (d, consumed); "Rok" }
        Ok(Err(_)) => "Rerr",
        Err(_) => "Rpanic",
    }
}

fn run_de(c: Context, nf: usize, rest: &[&str]) -> String {
    let fds: Vec<OwnedFd> = FDS.with(|f| (0..nf).map(|i| f[i % f.len()].try_clone().unwrap()).collect());
    let idx_of = |d: &Data<'_, '_>, raw: i32| d.fds().iter().position(|x| x.as_raw_fd() == raw);
    let _ = idx_of;
    match rest {
        ["v", h] => {
            let b = match hexs(h) { Some(b) => b, None => return "BADCASE".into() };
            let d = Data::new_fds(b.clone(), c, fds);
            match d.deserialize::<Value>() {
                Ok((v, n)) => {
                    let v = remap_fds(&d, v);
                    let mut out = vec![];
                    show(&v, &mut out);
                    let consumed = if n <= b.len() { &b[..n] } else { &b[..] };
                    format!("OK:{}:v {}:{}", n, out.join(" "), reenc(c, &v, consumed))
                }
                Err(e) => err_tok(&e),
            }
        }
        ["s", g, h] => {
            let b = match hexs(h) { Some(b) => b, None => return "BADCASE".into() };
            let sig = match sig_of(g) { Some(s) => s, None => return "ERR".into() };
            let d = Data::new_fds(b.clone(), c, fds);
            match d.deserialize_for_dynamic_signature::<_, Structure>(&sig) {
                Ok((s, n)) => {
                    let v = remap_fds(&d, Value::Structure(s));
                    let mut out = vec![];
                    show(&v, &mut out);
                    let consumed = if n <= b.len() { &b[..n] } else { &b[..] };
                    let r = match &v { Value::Structure(s) => reenc(c, s, consumed), _ => "Rerr" };
                    format!("OK:{}:{}:{}", n, out.join(" "), r)
                }
                Err(e) => err_tok(&e),
            }
        }
        _ => "BADCASE".into(),
    }
}

/// Decoded `Value::Fd`s carry the raw numbers of the Data's own descriptors; map them back to the
/// shared table index so that printing and re-encoding are comparable with the model.
fn remap_fds<'a>(d: &Data<'_, '_>, v: Value<'a>) -> Value<'static> {
    fn go(d: &Data<'_, '_>, v: &Value<'_>) -> Value<'static> {
        match v {
            Value::Fd(f) => {
                let _ = d;
                let i = fd_index(f.as_raw_fd()).unwrap_or(0);
                let fd: BorrowedFd<'static> = unsafe { BorrowedFd::borrow_raw(fd_raw(i)) };
                Value::Fd(Fd::from(fd))
            }
            Value::Value(x) => Value::Value(Box::new(go(d, x))),
            Value::Array(a) => {
                let mut n = Array::new(a.element_signature());
                for x in a.iter() {
                    n.append(go(d, x)).unwrap();
                }
                Value::Array(n)
            }
            Value::Dict(m) => {
                let (ks, vs) = match m.signature() {
                    Signature::Dict { key, value } => (key.signature().clone(), value.signature().clone()),
                    _ => unreachable!(),
                };
                let mut n = Dict::new(&ks, &vs);
                for (k, x) in m.iter() {
                    n.append(go(d, k), go(d, x)).unwrap();
                }
                Value::Dict(n)
            }
            Value::Structure(s) => {
                let mut b = StructureBuilder::new();
                for x in s.fields() {
                    b = b.append_field(go(d, x));
                }
                Value::Structure(b.build().unwrap())
            }
            other => other.try_to_owned().unwrap().into(),
        }
    }
    go(d, &v)
}

fn main() {
    hcommon::run(|line| {
        let w: Vec<&str> = line.split(' ').filter(|x| !x.is_empty()).collect();
        if w.len() < 5 {
            return "BADCASE".into();
        }
        let pos: usize = match w[3].parse() { Ok(p) => p, Err(_) => return "BADCASE".into() };
        let c = ctxt(w[2], pos);
        match w[0] {
            "ser" => run_ser(c, w[4], w[5..].to_vec()),
            "rt" => run_rt(c, w[4], w[5..].to_vec()),
            "de" => match w[4].parse::<usize>() {
                Ok(nf) => run_de(c, nf, &w[5..]),
                Err(_) => "BADCASE".into(),
            },
            _ => "BADCASE".into(),
        }
    });
}
