"""Generic line-differential engine used by most properties (see core.py for the decision rule).

A property module props/<id>.py provides:
  ID, CRATE (harness crate name), RUN_MODULE (Coq module with `run : bytes -> bytes`),
  gen(rng, tier) -> iterable of case lines, nontrivial(case, impl_out) -> bool,
  optional: CONFIGS (list of dicts name/profile/features/crate/args/env), TRANSLATORS, TRUSTED, ASSUMPTIONS,
            RULE (text), agree(impl, model), meets_spec(impl, spec), classify(case, impl_out) -> str (distribution key),
            search(rng, bad_cases) -> iterable of extra case lines, LEVEL_NOTE, PARTIAL (list of *_partial/_refuted names)
The model binary prints, per case:  model <TAB> spec <TAB> class   (spec "-" = no oracle for this case;
class "-" = case is outside every known-deviation class).
"""
import json
import os
import random
import sys
import time

import core
from core import log


def split3(line):
    parts = line.split("\t")
    while len(parts) < 3:
        parts.append("-")
    return parts[0], parts[1], parts[2]


def corpus_cases(pid):
    d = os.path.join(core.ROOT, "corpus", pid)
    out = []
    if os.path.isdir(d):
        for f in sorted(os.listdir(d)):
            if f.endswith(".txt"):
                for ln in open(os.path.join(d, f)):
                    ln = ln.rstrip("\n")
                    if ln and not ln.startswith("#"):
                        out.append(ln)
    return out


def dedupe(seq):
    seen, out = set(), []
    for x in seq:
        if x not in seen:
            seen.add(x)
            out.append(x)
    return out


def build_all(prop, pid, tier, need_model=True):
    info = {}
    tr = core.run_translators(prop)
    info["translators"] = [{"tool": t, "rc": rc, "out": out[-500:]} for t, rc, out in tr]
    coq = core.coq_check(pid, thorough=(tier == "thorough"))
    info["coq"] = coq
    zmodel, merr = (None, "")
    if need_model:
        zmodel, merr = core.model_build(pid, prop.RUN_MODULE, getattr(prop, "RUN_FN", "run"))
    info["zmodel"] = zmodel
    info["zmodel_err"] = merr
    configs = getattr(prop, "CONFIGS", None) or [{"name": "debug", "profile": "debug"}]
    if tier == "quick":
        configs = [c for c in configs if not c.get("thorough_only")]
    bins = []
    for c in configs:
        b, err = core.cargo_build(c.get("crate", prop.CRATE), c.get("profile", "debug"), c.get("features"),
                                  c.get("target_subdir"))
        bins.append((c, b, err))
    info["bins"] = bins
    return info


def evaluate(prop, cases, model_out, impl_out, known_classes):
    """Returns (disagreements, violations, known_hits, stats)."""
    if getattr(prop, "TWO_PHASE", False):
        # the model printed verdicts about the observed trace: "OK" or a reason
        agree = getattr(prop, "agree", lambda i, m: m == "OK")
        meets = getattr(prop, "meets_spec", lambda i, s: s == "OK")
    else:
        agree = getattr(prop, "agree", lambda i, m: i == m)
        meets = getattr(prop, "meets_spec", lambda i, s: i == s)
    dis, vio, known = [], [], {}
    for c, mo, io in zip(cases, model_out, impl_out):
        m, s, k = split3(mo)
        if not agree(io, m):
            dis.append({"case": c, "impl": io, "model": m, "spec": s, "class": k})
        if s != "-" and not meets(io, s):
            if k != "-" and k in known_classes:
                known.setdefault(k, []).append(c)
            else:
                vio.append({"case": c, "impl": io, "model": m, "spec": s, "class": k})
    return dis, vio, known


def run(pid, tier, seed, replay=None):
    t0 = time.time()
    prop = core.load_prop(pid)
    if hasattr(prop, "custom_run"):
        return prop.custom_run(pid, tier, seed, replay)
    rng = random.Random(seed)
    info = build_all(prop, pid, tier)
    coq = info["coq"]
    kf = core.known_findings(pid)
    known_classes = {e["class"] for e in kf if e.get("status") == "known"}
    problems = []          # things that break P_ok / C_ok
    tool_errors = []
    if not coq["ok"]:
        problems.append({"kind": "proof", "theorem": coq.get("failed_at"), "log": coq["log"][-1500:], "audit": coq["audit"]})
    if info["zmodel"] is None:
        problems.append({"kind": "proof", "theorem": "model does not build/extract", "log": info["zmodel_err"][-1500:]})
    for c, b, err in info["bins"]:
        if b is None:
            problems.append({"kind": "correspondence", "theorem": "harness %s does not build against /repo" % c.get("crate", prop.CRATE),
                             "log": err[-1500:]})

    # ---- cases
    if replay:
        rp = json.load(open(replay))
        cases = [x["case"] if isinstance(x, dict) else x for x in rp.get("cases", [])] or ([rp["case"]] if "case" in rp else [])
        gen_count = 0
    else:
        witness = [e["case"] for e in kf if "case" in e]
        fixed = corpus_cases(pid) + witness
        gen = list(prop.gen(rng, tier))
        gen_count = len(gen)
        cases = dedupe(fixed + gen)

    disagreements, violations, known_hits = [], [], {}
    dist = {}
    nontrivial = set()
    samples = []
    per_config = []
    model_out = []
    two_phase = bool(getattr(prop, "TWO_PHASE", False))
    if info["zmodel"] is not None and cases:
        model_out = core.run_lines(info["zmodel"], cases) if not two_phase else []
        if any(x.startswith("BADCASE") for x in model_out):
            bad = [c for c, x in zip(cases, model_out) if x.startswith("BADCASE")][:3]
            tool_errors.append("model rejected case syntax: %r" % bad)
        for c, b, err in info["bins"]:
            if b is None:
                continue
            lines = prop.lines_for(c, cases) if hasattr(prop, "lines_for") else cases
            impl_out = core.run_lines(b, lines, env=c.get("env"), args=c.get("args"), shards=getattr(prop, "SHARDS", None),
                                      timeout=getattr(prop, "RUN_TIMEOUT", 3000))
            if any(x.startswith("BADCASE") for x in impl_out):
                bad = [cs for cs, x in zip(cases, impl_out) if x.startswith("BADCASE")][:3]
                tool_errors.append("harness rejected case syntax: %r" % bad)
            mo = model_out
            if two_phase:
                # the model judges the implementation's observed trace: input = case <TAB> observation
                mo = core.run_lines(info["zmodel"], [cs + "\t" + io for cs, io in zip(cases, impl_out)])
                model_out = mo
            elif hasattr(prop, "model_lines_for"):
                mo = core.run_lines(info["zmodel"], prop.model_lines_for(c, cases))
            d, v, k = evaluate(prop, cases, mo, impl_out, known_classes)
            for x in d + v:
                x["config"] = c["name"]
            disagreements += d
            violations += v
            for kk, vv in k.items():
                known_hits.setdefault(kk, []).extend(vv)
            per_config.append({"config": c["name"], "cases": len(cases), "disagreements": len(d), "violations": len(v)})
            classify = getattr(prop, "classify", None)
            for cs, io in zip(cases, impl_out):
                if prop.nontrivial(cs, io):
                    nontrivial.add(cs)
                if classify:
                    key = classify(cs, io)
                    dist[key] = dist.get(key, 0) + 1
            if not samples:
                step = max(1, len(cases) // 6)
                samples = [{"case": cs, "impl": io, "model_spec_class": ms} for cs, io, ms in
                           list(zip(cases, impl_out, mo))[::step][:8]]
        # extraction vs in-Coq evaluation on a sample
        k = 25 if tier == "quick" else 100
        idx = sorted(rng.sample(range(len(cases)), min(k, len(cases))))
        xin = cases if not two_phase else [cs + "\t" + io for cs, io in zip(cases, impl_out)]
        okx, outx = core.vm_crosscheck(pid, prop.RUN_MODULE, [xin[i] for i in idx], [model_out[i] for i in idx],
                                       getattr(prop, "RUN_FN", "run"))
        if not okx:
            tool_errors.append("extracted model and vm_compute disagree on the sample: " + outx[-400:])

    # ---- known findings: print those whose witness still fails on the implementation
    known_lines = []
    if model_out:
        idx_of = {c: i for i, c in enumerate(cases)}
        for e in kf:
            if e.get("status") != "known":
                continue
            hits = known_hits.get(e["class"], [])
            if hits:
                known_lines.append("KNOWN-FINDING: property=%s %s [class %s, e.g. case %r, %d case(s) this run]" %
                                   (pid, e["what_fails"], e["class"], e.get("case", hits[0]), len(hits)))

    # ---- decide
    p_ok = coq["ok"] and info["zmodel"] is not None
    c_ok = not disagreements and all(b is not None for _, b, _ in info["bins"])
    o_ok = not violations
    status = 0
    replay_path = None
    searched = 0
    if violations:
        status = 1
        v0 = violations[0]
        if hasattr(prop, "shrink") and not replay:
            try:
                v0 = prop.shrink(v0, info) or v0
            except Exception as ex:  # shrinking is best effort
                log("shrink failed:", ex)
        replay_path = core.write_replay(pid, seed, {"property": pid, "tier": tier, "seed": seed, "kind": "spec-violation",
                                                    "case": v0["case"], "impl": v0["impl"], "model": v0["model"],
                                                    "spec": v0["spec"], "config": v0.get("config"),
                                                    "cases": [x["case"] for x in violations[:20]]})
    elif (not p_ok or not c_ok) and not tool_errors_only(problems, disagreements, tool_errors):
        # the property is no longer shown to hold: search harder for a failing input before reporting
        found = None
        if hasattr(prop, "search") and not replay and any(b is not None for _, b, _ in info["bins"]) and info["zmodel"]:
            t1 = time.time()
            extra = dedupe(list(prop.search(rng, [d["case"] for d in disagreements[:50]])))
            searched = len(extra)
            if extra:
                mo2 = core.run_lines(info["zmodel"], extra) if not two_phase else []
                for c, b, err in info["bins"]:
                    if b is None:
                        continue
                    lines2 = prop.lines_for(c, extra) if hasattr(prop, "lines_for") else extra
                    io2 = core.run_lines(b, lines2, env=c.get("env"), args=c.get("args"))
                    if two_phase:
                        mo2 = core.run_lines(info["zmodel"], [cs + "\t" + io for cs, io in zip(extra, io2)])
                    elif hasattr(prop, "model_lines_for"):
                        mo2 = core.run_lines(info["zmodel"], prop.model_lines_for(c, extra))
                    d2, v2, _ = evaluate(prop, extra, mo2, io2, known_classes)
                    if v2:
                        found = v2[0]
                        found["config"] = c["name"]
                        break
            log("search: %d extra cases in %.1fs, found=%s" % (searched, time.time() - t1, bool(found)))
        status = 1
        if found:
            replay_path = core.write_replay(pid, seed, {"property": pid, "tier": tier, "seed": seed, "kind": "spec-violation",
                                                        "case": found["case"], "impl": found["impl"], "model": found["model"],
                                                        "spec": found["spec"], "config": found.get("config")})
            violations = [found]
        else:
            replay_path = core.write_replay(pid, seed, {
                "property": pid, "tier": tier, "seed": seed,
                "kind": "proof" if not p_ok else "correspondence",
                "theorem": [p.get("theorem") for p in problems],
                "problems": problems[:5],
                "cases": disagreements[:20],
                "note": "no failing input found; the theorem/correspondence named here no longer checks"})

    # ---- evidence
    theorems = coq["theorems"]
    ev = {
        "property_id": pid, "tier": tier, "seed": seed, "level": getattr(prop, "LEVEL", "proof"),
        "wall_s": round(time.time() - t0, 2),
        "violations": len(violations) + (1 if status and not violations else 0),
        "coverage": {
            "obligations": len(theorems) + 1,
            "discharged": (len(theorems) + 1) if coq["ok"] else 0,
            "theorems": theorems,
            "partial_or_refuted": [t for t in theorems if t.endswith("_partial") or t.endswith("_refuted")],
            "axioms_reported": coq["axioms"],
            "closed_under_global_context": coq.get("closed", 0),
            "audit_hits": coq["audit"],
            "checker_cmd": coq["checker_cmd"],
            "trusted_base": ["Coq 8.16.1 kernel (vm_compute used in finite-domain lemmas; no native_compute)",
                             "extraction (ExtrOcamlBasic only) + model/driver.ml, cross-checked by in-Coq vm_compute on a sample",
                             "hand-written model tied to /repo by the differential correspondence below"]
                            + list(getattr(prop, "TRUSTED", [])),
            "evaluations": len(cases) * max(1, len([1 for _, b, _ in info["bins"] if b])),
            "generated": gen_count,
            "distinct_nontrivial": len(nontrivial),
            "rule": getattr(prop, "RULE", ""),
            "samples": samples if samples else [{"note": "no case could be run"}],
            "distribution": dist,
            "per_config": per_config,
            "disagreements_checked": len(disagreements),
            "known_class_hits": {k: len(v) for k, v in known_hits.items()},
            "search_extra_cases": searched,
            "tool_errors": tool_errors,
        },
        "assumptions": list(getattr(prop, "ASSUMPTIONS", [])),
    }
    core.write_evidence(pid, ev)

    for ln in known_lines:
        print(ln)
    log("[%s] tier=%s seed=%s cases=%d P_ok=%s C_ok=%s O_ok=%s theorems=%d axioms=%s wall=%.1fs" %
        (pid, tier, seed, len(cases), p_ok, c_ok, o_ok, len(theorems), coq["axioms"], time.time() - t0))
    for te in tool_errors:
        log("TOOL-ERROR:", te)
    if status:
        tail = "" if violations else " no-failing-input-found"
        for p in problems[:3]:
            log("PROBLEM:", p.get("kind"), p.get("theorem"), "\n", (p.get("log") or "")[-800:])
        for d in disagreements[:5]:
            log("DISAGREE:", d)
        for v in violations[:5]:
            log("VIOLATES:", v)
        print("VIOLATION property=%s replay=%s%s" % (pid, replay_path, tail))
        return 1
    if tool_errors:
        return 2
    return 0


def tool_errors_only(problems, disagreements, tool_errors):
    return False
