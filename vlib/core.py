"""Shared machinery of ./check: build (Coq, extraction, cargo), run both sides, decide, write evidence.

Decision rule (DESIGN.md section 6):
  P_ok  proofs of Properties/<id>.v check, axioms within the allow-list, no Admitted/Axiom/... in the development
  C_ok  model(c) == impl(c) for every case c                      (correspondence)
  O_ok  spec(c)  == impl(c) for every case c outside known classes (spec oracle on the implementation)
"""
import hashlib
import importlib.util
import json
import os
import random
import re
import shutil
import subprocess
import sys
import time
from concurrent.futures import ThreadPoolExecutor

ROOT = os.path.dirname(os.path.dirname(os.path.abspath(__file__)))
REPO = os.environ.get("VERIF_REPO", "/repo")
BUILD = os.environ.get("VERIF_BUILD", os.path.join(ROOT, "_build"))
COQ = os.path.join(ROOT, "coq")
HARNESS = os.path.join(ROOT, "harness")
TARGET = os.path.join(BUILD, "target")
GUARD = "zbus_verif"
NCPU = os.cpu_count() or 4

ALLOWED_AXIOMS = {
    # axioms declared by the standard library itself; each is named in DESIGN.md section 7 when used
    "functional_extensionality_dep", "FunctionalExtensionality.functional_extensionality_dep",
    "Eqdep.Eq_rect_eq.eq_rect_eq", "eq_rect_eq", "JMeq_eq", "JMeq.JMeq_eq",
    "proof_irrelevance", "ProofIrrelevance.proof_irrelevance",
    "classic", "Classical_Prop.classic", "propositional_extensionality",
}
FORBIDDEN = re.compile(
    r"\b(Admitted|admit|Axiom|Axioms|Parameter|Parameters|Conjecture|Conjectures|Admit Obligations)\b"
    r"|Unset\s+Guard|Unset\s+Positivity|Unset\s+Universe|bypass_check|type-in-type|impredicative-set")


def log(*a):
    print(*a, file=sys.stderr, flush=True)


def sh(cmd, cwd=None, timeout=1200, env=None, input=None):
    e = dict(os.environ)
    e["CARGO_NET_OFFLINE"] = "true"
    if env:
        e.update(env)
    try:
        p = subprocess.run(cmd, cwd=cwd, timeout=timeout, env=e, input=input,
                           stdout=subprocess.PIPE, stderr=subprocess.STDOUT, text=True)
        return p.returncode, p.stdout
    except subprocess.TimeoutExpired as ex:
        out = ex.stdout or ""
        if isinstance(out, bytes):
            out = out.decode("utf8", "replace")
        return 124, out + "\nTIMEOUT after %ss: %s" % (timeout, cmd)


def load_prop(pid):
    path = os.path.join(ROOT, "props", pid + ".py")
    if not os.path.exists(path):
        raise SystemExit("no such property module: " + path)
    spec = importlib.util.spec_from_file_location("prop_" + pid, path)
    m = importlib.util.module_from_spec(spec)
    sys.path.insert(0, os.path.join(ROOT, "vlib"))
    sys.path.insert(0, os.path.join(ROOT, "props"))
    spec.loader.exec_module(m)
    return m


# ------------------------------------------------------------------ Coq

def coq_project():
    """(Re)generate _CoqProject and Makefile when the set of .v files changed."""
    files = []
    for d, _, fs in os.walk(os.path.join(COQ, "theories")):
        for f in fs:
            if f.endswith(".v"):
                files.append(os.path.relpath(os.path.join(d, f), COQ))
    files.sort()
    head = open(os.path.join(COQ, "_CoqProject.head")).read()
    want = head + "\n".join(files) + "\n"
    cp = os.path.join(COQ, "_CoqProject")
    have = open(cp).read() if os.path.exists(cp) else ""
    if want != have or not os.path.exists(os.path.join(COQ, "Makefile")):
        open(cp, "w").write(want)
        rc, out = sh(["coq_makefile", "-f", "_CoqProject", "-o", "Makefile"], cwd=COQ)
        if rc != 0:
            raise SystemExit("coq_makefile failed:\n" + out)
    return files


def run_translators(prop):
    """Translators regenerate Generated .v files from /repo's current sources."""
    outs = []
    for t in getattr(prop, "TRANSLATORS", []):
        rc, out = sh([sys.executable, os.path.join(ROOT, "tools", t)], cwd=ROOT, timeout=120)
        outs.append((t, rc, out))
    return outs


# ------------------------------------------------------------------ Coq builder (no shared Makefile: other
# builders add and remove files under theories/ all the time; each target is built from its own closure)

_dep_cache = {}


def coq_deps(vfile):
    """theories-relative .v dependencies of a theories-relative .v file (via coqdep)."""
    if vfile in _dep_cache:
        return _dep_cache[vfile]
    rc, out = sh(["coqdep", "-Q", "theories", "ZV", vfile], cwd=COQ, timeout=120)
    deps = []
    for line in out.splitlines():
        if ":" not in line or not line.split(":")[0].strip().startswith(vfile[:-2] + ".vo"):
            continue
        for tok in line.split(":", 1)[1].split():
            if tok.endswith(".vo") and tok.startswith("theories/"):
                d = tok[:-1]
                if d != vfile and d not in deps:
                    deps.append(d)
    _dep_cache[vfile] = deps
    return deps


def coq_closure(vfile):
    """dependency closure in build order (dependencies first)."""
    order, seen = [], set()

    def visit(f):
        if f in seen:
            return
        seen.add(f)
        for d in coq_deps(f):
            visit(d)
        order.append(f)

    visit(vfile)
    return order


def coq_build(vfile, timeout=1500):
    """Compile vfile (theories-relative) and whatever it needs, when out of date. Returns (rc, log)."""
    t_end = time.time() + timeout
    log_all = ""
    built = set()
    for f in coq_closure(vfile):
        src = os.path.join(COQ, f)
        if not os.path.exists(src):
            return 1, log_all + "\nmissing source file " + f
        vo = src + "o"
        stale = (not os.path.exists(vo)) or os.path.getmtime(vo) < os.path.getmtime(src)
        if not stale:
            for d in coq_deps(f):
                dvo = os.path.join(COQ, d) + "o"
                if d in built or (os.path.exists(dvo) and os.path.getmtime(dvo) > os.path.getmtime(vo)):
                    stale = True
                    break
        if not stale:
            continue
        rc, out = sh(["coqc", "-q", "-Q", "theories", "ZV", "-w", "-notation-overridden,-deprecated", f], cwd=COQ,
                     timeout=max(30, t_end - time.time()))
        log_all += out
        if rc != 0:
            return rc, log_all
        built.add(f)
    return 0, log_all


def coq_build_all(vfiles, timeout=3000):
    """Setup: compile the union of the closures level by level, each level in parallel."""
    order, seen = [], set()
    for vf in vfiles:
        if os.path.exists(os.path.join(COQ, vf)):
            for f in coq_closure(vf):
                if f not in seen:
                    seen.add(f)
                    order.append(f)
    level = {}
    for f in order:            # closure order puts dependencies first
        level[f] = 1 + max([level.get(d, 0) for d in coq_deps(f)] + [0])
    results = {}

    def one(f):
        src = os.path.join(COQ, f)
        vo = src + "o"
        if os.path.exists(vo) and os.path.getmtime(vo) >= os.path.getmtime(src) and all(
                os.path.exists(os.path.join(COQ, d) + "o") and os.path.getmtime(os.path.join(COQ, d) + "o") <= os.path.getmtime(vo)
                for d in coq_deps(f)):
            return f, 0, ""
        rc, out = sh(["coqc", "-q", "-Q", "theories", "ZV", "-w", "-notation-overridden,-deprecated", f], cwd=COQ, timeout=timeout)
        return f, rc, out[-1500:]

    failed = set()
    for lv in sorted(set(level.values())):
        batch = [f for f in order if level[f] == lv and not any(d in failed for d in coq_deps(f))]
        skipped = [f for f in order if level[f] == lv and f not in batch]
        failed.update(skipped)
        with ThreadPoolExecutor(max_workers=NCPU) as ex:
            for f, rc, out in ex.map(one, batch):
                results[f] = (rc, out)
                if rc != 0:
                    failed.add(f)
    return results


def theorem_names(pid):
    p = os.path.join(COQ, "theories", "Properties", pid + ".v")
    if not os.path.exists(p):
        return []
    return re.findall(r"^\s*(?:Theorem|Lemma|Corollary)\s+([A-Za-z0-9_']+)", open(p).read(), re.M)


def closure_files(pid):
    """Source files the property's theorems depend on, for the audit."""
    return coq_closure("theories/Properties/%s.v" % pid)


def coq_check(pid, thorough=False):
    """Build Properties/<id>.vo, re-run coqc on it for fresh Print Assumptions, audit. Returns dict."""
    t0 = time.time()
    res = {"ok": False, "theorems": theorem_names(pid), "axioms": [], "log": "", "failed_at": None,
           "audit": [], "checker_cmd": "coqc -Q theories ZV <dependency closure of theories/Properties/%s.v in order> && coqc -Q theories ZV theories/Properties/%s.v" % (pid, pid)}
    if not os.path.exists(os.path.join(COQ, "theories", "Properties", pid + ".v")):
        res["failed_at"] = "theories/Properties/%s.v does not exist" % pid
        return res
    rc, out = coq_build("theories/Properties/%s.v" % pid)
    res["log"] = out[-6000:]
    if rc != 0:
        m = re.search(r'File "\./(theories/[^"]+)", line (\d+)', out)
        if m:
            res["failed_at"] = failing_lemma(os.path.join(COQ, m.group(1)), int(m.group(2)))
        return res
    rc, out = sh(["coqc", "-q", "-Q", "theories", "ZV", "-w", "-notation-overridden,-deprecated",
                  "theories/Properties/%s.v" % pid], cwd=COQ, timeout=900)
    res["log"] = out[-6000:]
    if rc != 0:
        m = re.search(r'File "\./(theories/[^"]+)", line (\d+)', out)
        if m:
            res["failed_at"] = failing_lemma(os.path.join(COQ, m.group(1)), int(m.group(2)))
        return res
    # axioms: blocks introduced by "Axioms:" up to the next blank line / "Closed under"
    axioms = set()
    for blk in re.findall(r"Axioms:\n((?:.+\n?)+?)(?:\n|\Z|Closed under)", out):
        for ln in blk.splitlines():
            m = re.match(r"^([A-Za-z_][A-Za-z0-9_.']*)\s*:", ln)
            if m:
                axioms.add(m.group(1))
    res["axioms"] = sorted(axioms)
    res["closed"] = out.count("Closed under the global context")
    bad_ax = [a for a in axioms if a not in ALLOWED_AXIOMS and a.split(".")[-1] not in ALLOWED_AXIOMS]
    # audit the source closure
    audit = []
    for f in closure_files(pid):
        p = os.path.join(COQ, f)
        if not os.path.exists(p):
            continue
        src = strip_comments(open(p).read())
        for i, ln in enumerate(src.splitlines(), 1):
            if FORBIDDEN.search(ln):
                audit.append("%s:%d: %s" % (f, i, ln.strip()[:80]))
            if re.search(r"^\s*(Variable|Variables|Hypothesis|Hypotheses|Context)\b", ln) and not in_section(src, i):
                audit.append("%s:%d: %s (outside a section)" % (f, i, ln.strip()[:80]))
    res["audit"] = audit
    if thorough:
        rc2, out2 = sh(["coqchk", "-silent", "-o", "-Q", "theories", "ZV", "ZV.Properties.%s" % pid], cwd=COQ, timeout=1500)
        res["coqchk"] = out2[-3000:]
        res["checker_cmd"] += " && coqchk -silent -o -Q theories ZV ZV.Properties.%s" % pid
        if rc2 != 0:
            res["failed_at"] = "coqchk"
            return res
    res["ok"] = (not bad_ax) and (not audit) and len(res["theorems"]) > 0
    if bad_ax:
        res["failed_at"] = "axioms not in allow-list: " + ", ".join(bad_ax)
    elif audit:
        res["failed_at"] = "audit: " + audit[0]
    res["wall_s"] = time.time() - t0
    return res


def strip_comments(s):
    out, depth, i = [], 0, 0
    while i < len(s):
        if s.startswith("(*", i):
            depth += 1
            i += 2
        elif s.startswith("*)", i) and depth > 0:
            depth -= 1
            i += 2
        else:
            if depth == 0 or s[i] == "\n":
                out.append(s[i])
            i += 1
    return "".join(out)


def in_section(src, lineno):
    depth = 0
    for i, ln in enumerate(src.splitlines(), 1):
        if i >= lineno:
            break
        if re.match(r"^\s*Section\s", ln):
            depth += 1
        elif re.match(r"^\s*End\s", ln) and depth > 0:
            depth -= 1
    return depth > 0


def failing_lemma(path, line):
    try:
        lines = open(path).read().splitlines()
    except OSError:
        return "%s:%d" % (path, line)
    for i in range(min(line, len(lines)) - 1, -1, -1):
        m = re.match(r"^\s*(?:Theorem|Lemma|Corollary|Example|Definition|Fixpoint|Fact|Remark)\s+([A-Za-z0-9_']+)", lines[i])
        if m:
            return "%s (%s:%d)" % (m.group(1), os.path.relpath(path, COQ), line)
    return "%s:%d" % (os.path.relpath(path, COQ), line)


def model_build(pid, run_module, fn="run"):
    """Extract <run_module>.run to OCaml (ExtrOcamlBasic only) and link it with the generic driver."""
    d = os.path.join(BUILD, "ml", pid)
    os.makedirs(d, exist_ok=True)
    rc, out = coq_build("theories/%s.v" % run_module.replace(".", "/"))
    if rc != 0:
        return None, out[-4000:]
    open(os.path.join(d, "extract.v"), "w").write(
        "From ZV Require Import %s.\nRequire Extraction.\nRequire Import ExtrOcamlBasic.\n"
        "Extraction \"model.ml\" %s.\n" % (run_module, fn))
    rc, out = sh(["coqc", "-q", "-Q", os.path.join(COQ, "theories"), "ZV", "extract.v"], cwd=d, timeout=600)
    if rc != 0:
        return None, out[-4000:]
    shutil.copy(os.path.join(ROOT, "model", "driver.ml"), os.path.join(d, "driver.ml"))
    rc, out = sh(["ocamlfind", "ocamlopt", "-w", "-a", "-O3", "-unboxed-types", "model.mli", "model.ml", "driver.ml", "-o", "zmodel"], cwd=d, timeout=600)
    if rc != 0:
        rc, out = sh(["ocamlfind", "ocamlopt", "-w", "-a", "model.mli", "model.ml", "driver.ml", "-o", "zmodel"], cwd=d, timeout=600)
    if rc != 0:
        return None, out[-4000:]
    return os.path.join(d, "zmodel"), ""


# ------------------------------------------------------------------ cargo

def cargo_build(crate, profile="debug", features=None, target_subdir=None):
    """Each harness crate is its own (empty) workspace under harness/<crate>; they share one target dir."""
    os.makedirs(BUILD, exist_ok=True)
    cdir = os.path.join(HARNESS, crate)
    if not os.path.exists(os.path.join(cdir, "Cargo.toml")):
        return None, "no such harness crate: " + cdir
    lock_src = os.path.join(REPO, "Cargo.lock")
    lock_dst = os.path.join(cdir, "Cargo.lock")
    if not os.path.exists(lock_dst):
        shutil.copy(lock_src, lock_dst)
    tdir = TARGET if not target_subdir else os.path.join(BUILD, target_subdir)
    cmd = ["cargo", "build", "--offline"]
    if profile == "release":
        cmd.append("--release")
    if features:
        cmd += ["--features", ",".join(features)]
    env = {"RUSTFLAGS": "--cfg %s" % GUARD, "CARGO_TARGET_DIR": tdir}
    rc, out = sh(cmd, cwd=cdir, timeout=3000, env=env)
    if rc != 0 and "Cargo.lock" in out:
        shutil.copy(lock_src, lock_dst)
        rc, out = sh(cmd, cwd=cdir, timeout=3000, env=env)
    if rc != 0:
        return None, out[-6000:]
    return os.path.join(tdir, profile, crate), ""


# ------------------------------------------------------------------ running

def run_lines(binary, lines, shards=None, timeout=3000, env=None, args=None):
    """Feed case lines to a line-protocol binary; returns list of output lines (same length) or raises."""
    if not lines:
        return []
    n = len(lines)
    if shards is None:
        shards = 1 if n < 2000 else min(NCPU, (n + 1999) // 2000)
    chunks = [lines[i * n // shards:(i + 1) * n // shards] for i in range(shards)]

    def one(chunk):
        if not chunk:
            return []
        rc, out = sh([binary] + (args or []), input="\n".join(chunk) + "\n", timeout=timeout, env=env)
        ol = out.split("\n")
        if ol and ol[-1] == "":
            ol.pop()
        if len(ol) != len(chunk):
            # the process died (abort / stack overflow / timeout): re-run case by case to localise
            ol = []
            for c in chunk:
                rc1, o1 = sh([binary] + (args or []), input=c + "\n", timeout=60, env=env)
                o1 = o1.split("\n")[0] if rc1 == 0 and o1 else ("ABORT" if rc1 != 124 else "HANG")
                ol.append(o1)
        return ol

    with ThreadPoolExecutor(max_workers=shards) as ex:
        res = list(ex.map(one, chunks))
    return [x for r in res for x in r]


def coq_string(s):
    return '"' + s.replace('"', '""') + '"'


def vm_crosscheck(pid, run_module, cases, model_out, fn="run"):
    """Evaluate a sample of the cases inside Coq (vm_compute) and compare with the extracted model's output."""
    if not cases:
        return True, ""
    d = os.path.join(BUILD, "ml", pid)
    # Coq's parser/VM overflow the stack on very long string literals: keep the sample within a size budget
    # (shortest cases first when the budget is exceeded; at least one pair always remains)
    sel = sorted(zip(cases, model_out), key=lambda p: len(p[0]) + len(p[1]))
    keep, total = [], 0
    for c, o in sel:
        n = len(c) + len(o)
        if keep and (n > 6000 or total + n > 60000):
            break
        keep.append((c, o)); total += n
    cases, model_out = [c for c, _ in keep], [o for _, o in keep]
    pairs = "; ".join("(%s, %s)" % (coq_string(c), coq_string(o)) for c, o in zip(cases, model_out))
    src = ("From ZV Require Import Base.Bytes %s.\nFrom Coq Require Import String.\nOpen Scope string_scope.\n"
           "Definition pairs : list (string * string) := [%s]%%list.\n"
           "Definition okp (p : string * string) : bool := lbeq (%s (list_byte_of_string (fst p))) (list_byte_of_string (snd p)).\n"
           "Goal forallb okp pairs = true. Proof. vm_compute. reflexivity. Qed.\n") % (run_module, pairs, fn)
    open(os.path.join(d, "cases.v"), "w").write(src)
    rc, out = sh(["coqc", "-q", "-Q", os.path.join(COQ, "theories"), "ZV", "cases.v"], cwd=d, timeout=900)
    return rc == 0, out[-2000:]


# ------------------------------------------------------------------ known findings

def known_findings(pid):
    """known_findings/<id>.jsonl — committed, never written at run time."""
    p = os.path.join(ROOT, "known_findings", pid + ".jsonl")
    out = []
    if os.path.exists(p):
        for ln in open(p):
            ln = ln.strip()
            if ln and not ln.startswith("#"):
                e = json.loads(ln)
                if e.get("property") == pid:
                    out.append(e)
    return out


# ------------------------------------------------------------------ evidence

def write_evidence(pid, ev):
    os.makedirs(os.path.join(ROOT, "evidence"), exist_ok=True)
    p = os.path.join(ROOT, "evidence", pid + ".json")
    tmp = p + ".tmp"
    json.dump(ev, open(tmp, "w"), indent=1, sort_keys=True)
    os.replace(tmp, p)


def write_replay(pid, seed, obj):
    d = os.path.join(BUILD, "replay")
    os.makedirs(d, exist_ok=True)
    p = os.path.join(d, "%s-%s.json" % (pid, seed))
    json.dump(obj, open(p, "w"), indent=1)
    return p
