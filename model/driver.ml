(* Generic driver around an extracted [Model.run : byte list -> byte list].
   A Coq [byte] is an inductive with 256 constant constructors x00..xff; OCaml represents the
   k-th constant constructor as the immediate integer k, so the conversion is Obj.magic on the
   character code (cross-checked on every run by the in-Coq vm_compute sample). *)
let to_bytes (s : string) : Model.byte list =
  let r = ref [] in
  for i = String.length s - 1 downto 0 do
    r := (Obj.magic (Char.code s.[i]) : Model.byte) :: !r
  done; !r
let of_bytes (l : Model.byte list) : string =
  let b = Buffer.create 64 in
  List.iter (fun (c : Model.byte) -> Buffer.add_char b (Char.chr (Obj.magic c : int))) l;
  Buffer.contents b
let () =
  try
    while true do
      let line = input_line stdin in
      let out = try of_bytes (Model.run (to_bytes line)) with Stack_overflow -> "MODEL-STACK-OVERFLOW" in
      print_string out; print_char '\n'
    done
  with End_of_file -> ()
