#!/usr/bin/env python3
"""tools/regress.py [-j N] [--only seeds|unfix|selftest] [ids...]
Regression of the checks against every recorded breaking change, each in a scratch copy (tools/mutant.py):
  seeds    : seeded/<ID>/patch.diff          (independently written changes, confirmed by the coordinator)
  unfix    : seeded/selftest/<ID>/unfix_*.diff (exact reverse of every `fix:` commit in /repo)
  selftest : the builders' own mutants, seeded/selftest/<ID>/*.diff other than fix/unfix/suggested files
For each: exit status of `./check <ID> --tier quick`, the VIOLATION line, whether a failing input was found, and the first
failing case. Results are merged into seeded/RESULTS.json (committed; documentation, not evidence)."""
import glob, json, os, re, subprocess, sys, time
from concurrent.futures import ThreadPoolExecutor

ROOT = os.path.dirname(os.path.dirname(os.path.abspath(__file__)))
OUT = os.path.join(ROOT, "seeded", "RESULTS.json")


def jobs(only, ids):
    js = []
    for d in sorted(glob.glob(os.path.join(ROOT, "seeded", "C*"))):
        pid = os.path.basename(d)
        if os.path.exists(os.path.join(d, "patch.diff")):
            js.append(("seeds", pid, os.path.join(d, "patch.diff")))
    for d in sorted(glob.glob(os.path.join(ROOT, "seeded", "selftest", "C*"))):
        pid = os.path.basename(d)
        for p in sorted(glob.glob(os.path.join(d, "*.diff"))):
            b = os.path.basename(p)
            if b.startswith("unfix"):
                js.append(("unfix", pid, p))
            elif b.startswith(("fix", "suggested")):
                continue
            else:
                js.append(("selftest", pid, p))
    return [j for j in js if (not only or j[0] in only) and (not ids or j[1] in ids)]


def run(job):
    kind, pid, patch = job
    t0 = time.time()
    p = subprocess.run([sys.executable, os.path.join(ROOT, "tools", "mutant.py"), pid, patch], stdout=subprocess.PIPE,
                       stderr=subprocess.STDOUT, text=True)
    out = p.stdout
    m = re.search(r"=== %s exit=(\d+)" % pid, out)
    viol = re.findall(r"^VIOLATION property=\S+ replay=\S+(.*)$", out, re.M)
    first = re.search(r"^(?:VIOLATES|DISAGREE): (.*)$", out, re.M)
    res = {"kind": kind, "property": pid, "patch": os.path.relpath(patch, ROOT), "check_exit": int(m.group(1)) if m else None,
           "violation": bool(viol), "failing_input_found": bool(viol) and not any("no-failing-input-found" in v for v in viol),
           "first_failing_case": (first.group(1)[:300] if first else None), "wall_s": round(time.time() - t0),
           "repo_head": subprocess.run(["git", "-C", "/repo", "rev-parse", "--short", "HEAD"], stdout=subprocess.PIPE, text=True).stdout.strip(),
           "note": "PATCH DOES NOT APPLY" if "PATCH DOES NOT APPLY" in out else ""}
    print(json.dumps(res), flush=True)
    return res


def main():
    a = sys.argv[1:]
    n = 4
    only = []
    if "-j" in a:
        i = a.index("-j"); n = int(a[i + 1]); del a[i:i + 2]
    while "--only" in a:
        i = a.index("--only"); only.append(a[i + 1]); del a[i:i + 2]
    js = jobs(only, a)
    print("%d jobs" % len(js), flush=True)
    old = {}
    if os.path.exists(OUT):
        old = {r["patch"]: r for r in json.load(open(OUT))}
    with ThreadPoolExecutor(n) as ex:
        for r in ex.map(run, js):
            old[r["patch"]] = r
            json.dump(sorted(old.values(), key=lambda r: (r["kind"], r["property"], r["patch"])), open(OUT, "w"), indent=1)


if __name__ == "__main__":
    main()
