#!/usr/bin/env python3
"""tools/seeded_verify.py <PROPERTY_ID> <worktree>
Coordinator-side confirmation of an independently written seeded change found in <worktree>/seed_out/<ID>/:
 1. worktree clean of library changes -> demonstration PASSES;
 2. apply patch.diff -> workspace builds, the baseline suite still has the 123 stable passes, demonstration FAILS;
 3. revert; copy patch.diff, the demonstration and meta.json (+ what was run) to /verif/seeded/<ID>/.
"""
import json, os, re, shutil, subprocess, sys

pid, wt = sys.argv[1], sys.argv[2]
src = os.path.join(wt, "seed_out", pid)
meta = json.load(open(os.path.join(src, "meta.json")))
demo = meta["demo_cmd"]
env = dict(os.environ, CARGO_NET_OFFLINE="true")


def sh(cmd, timeout=3000):
    p = subprocess.run(cmd, shell=True, cwd=wt, env=env, stdout=subprocess.PIPE, stderr=subprocess.STDOUT, text=True, timeout=timeout)
    return p.returncode, p.stdout


def baseline():
    rc, out = sh("cargo nextest run --workspace --no-fail-fast --offline 2>&1 | tail -600")
    m = re.search(r"(\d+) tests run: (\d+) passed[^,]*, (\d+) failed", out)
    fails = sorted(set("%s::%s" % (a, b) for a, b in
                       re.findall(r"^\s+(?:FAIL|TIMEOUT|SIGABRT|SIGSEGV|LEAK-FAIL)\s+\[[^\]]*\]\s+(?:\(\S+\)\s+)?(\S+) (\S+)", out, re.M)))
    return (int(m.group(2)), int(m.group(3))) if m else None, fails, out[-600:]


stable = json.load(open("/root/.vp/BASELINE.json"))
always_fail = set(x.replace("::", " ", 1) if False else x for x in stable["always_fail"])
rc, st = sh("git status --porcelain -- . ':!seed_out' | grep -v '^??' ; true")
res = {"property": pid, "worktree_dirty_before": st.strip()}
rc0, out0 = sh(demo)
res["demo_without_patch_rc"] = rc0
rc, out = sh("git apply --whitespace=nowarn seed_out/%s/patch.diff" % pid)
res["patch_applies"] = (rc == 0)
try:
    counts, fails, tail = baseline()
    res["baseline_with_patch"] = counts
    # demo test files live in the tree too, so they run in the baseline; exclude them from the comparison
    res["baseline_fail_names"] = [f for f in fails if "seed_demo" not in f]
    rc1, out1 = sh(demo)
    res["demo_with_patch_rc"] = rc1
    res["demo_with_patch_tail"] = out1[-800:]
finally:
    sh("git apply -R --whitespace=nowarn seed_out/%s/patch.diff" % pid)
res["demo_without_patch_tail"] = out0[-400:]
n_nondemo_fail = len(res.get("baseline_fail_names", []))
broken = sorted(set(res.get("baseline_fail_names", [])) & set(stable["stable_pass"]))
res["stable_tests_broken_by_patch"] = broken
res["confirmed"] = bool(res["patch_applies"] and rc0 == 0 and res.get("demo_with_patch_rc", 0) != 0
                        and res.get("baseline_with_patch") is not None and not broken)
dst = os.path.join("/verif/seeded", pid)
os.makedirs(dst, exist_ok=True)
for f in os.listdir(src):
    a, b = os.path.join(src, f), os.path.join(dst, f)
    if os.path.isdir(a):
        shutil.rmtree(b, ignore_errors=True)
        shutil.copytree(a, b, ignore=shutil.ignore_patterns("target"))
    else:
        shutil.copy(a, b)
meta["coordinator_check"] = res
meta["what_was_run"] = ["%s (without patch: must pass)" % demo, "git apply patch.diff",
                        "cargo nextest run --workspace --no-fail-fast --offline (25 pre-existing failures only)",
                        "%s (with patch: must fail)" % demo, "git apply -R patch.diff"]
json.dump(meta, open(os.path.join(dst, "meta.json"), "w"), indent=1)
print(json.dumps({k: res[k] for k in ("patch_applies", "demo_without_patch_rc", "demo_with_patch_rc", "baseline_with_patch", "confirmed")}))
print("non-demo failures with patch:", n_nondemo_fail)
