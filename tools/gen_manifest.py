#!/usr/bin/env python3
"""Regenerate MANIFEST.json from props/C*.py (ENABLED = True) and tools/not_claimed.json."""
import glob, json, os, sys
ROOT = os.path.dirname(os.path.dirname(os.path.abspath(__file__)))
sys.path.insert(0, os.path.join(ROOT, "vlib"))
import core

BASELINE = ("cd /repo && cargo nextest run --workspace --no-fail-fast --tool-config-file pb:/w/lib/nextest.toml "
            "--profile pb --test-threads 8 --offline")
ids = [json.loads(l)["id"] for l in open(os.path.join(ROOT, "properties.jsonl"))]
nc = json.load(open(os.path.join(ROOT, "tools", "not_claimed.json")))
checks, na = [], []
for pid in ids:
    p = os.path.join(ROOT, "props", pid + ".py")
    prop = core.load_prop(pid) if os.path.exists(p) else None
    if prop is not None and getattr(prop, "ENABLED", False):
        checks.append({
            "property_id": pid,
            "quick_cmd": "./check %s --tier quick" % pid,
            "thorough_cmd": "./check %s --tier thorough" % pid,
            "replay_cmd_template": "./check %s --replay {path}" % pid,
            "evidence_file": "/verif/evidence/%s.json" % pid,
            "engine": getattr(prop, "ENGINE", "rocq-proof+correspondence"),
            "level_claimed": {"category": getattr(prop, "LEVEL", "proof"), "text": prop.LEVEL_TEXT,
                              "design_ref": getattr(prop, "DESIGN_REF", "DESIGN.md section 8, %s" % pid)},
            "level_note": prop.LEVEL_NOTE,
            "technique": getattr(prop, "TECHNIQUE", "machine-checked proof in Rocq (Coq 8.16) over a hand-written model + differential correspondence check against /repo"),
        })
    else:
        na.append({"property_id": pid, "reason": nc.get(pid, "not claimed: no check has been built for this property yet")})
man = {
    "version": 1,
    "setup_cmd": "./check --setup",
    "hooks": {"guard": "zbus_verif", "enable": "RUSTFLAGS=\"--cfg zbus_verif\" (set by ./check for every harness build)",
              "baseline_off_cmd": BASELINE, "source_commits": json.load(open(os.path.join(ROOT, "tools", "hook_commits.json"))),
              "add_only": True},
    "engines": [{"name": "rocq-proof+correspondence", "path": "check",
                 "serves_properties": [c["property_id"] for c in checks],
                 "kind_free_text": "Coq 8.16 theorems over hand-written Gallina models (coq/theories), extracted to OCaml and run against Rust harness binaries built from /repo's working tree (harness/), decided by vlib/engine.py"}],
    "checks": checks,
    "not_applicable": na,
    "notes": "Known findings live in known_findings/<id>.jsonl (one JSON object per line; read-only at run time). See DESIGN.md.",
}
json.dump(man, open(os.path.join(ROOT, "MANIFEST.json"), "w"), indent=1)
print("checks:", [c["property_id"] for c in checks], "not claimed:", len(na))
