#!/usr/bin/env python3
"""tools/accept.py <ID>...  — acceptance run of seeded/<ID>/patch.diff against the REGISTERED check, on /repo itself:
    git -C /repo apply seeded/<ID>/patch.diff ; ./check <ID> --tier quick ; git -C /repo checkout -- .
(the way a user of MANIFEST.json would do it; nothing else may be running checks meanwhile). Afterwards the check is run
once more on the restored tree and must exit 0. Results are merged into seeded/RESULTS_repo_applied.json."""
import json, os, re, subprocess, sys, time
ROOT = os.path.dirname(os.path.dirname(os.path.abspath(__file__)))
OUT = os.path.join(ROOT, "seeded", "RESULTS_repo_applied.json")
res = {r["property"]: r for r in json.load(open(OUT))} if os.path.exists(OUT) else {}


def check(pid):
    t0 = time.time()
    p = subprocess.run(["./check", pid, "--tier", "quick"], cwd=ROOT, stdout=subprocess.PIPE, stderr=subprocess.STDOUT, text=True)
    v = re.findall(r"^VIOLATION property=\S+ replay=\S+(.*)$", p.stdout, re.M)
    return p.returncode, v, round(time.time() - t0)


for pid in sys.argv[1:]:
    patch = os.path.join(ROOT, "seeded", pid, "patch.diff")
    assert subprocess.run(["git", "-C", "/repo", "status", "--porcelain", "--untracked-files=no"], stdout=subprocess.PIPE, text=True).stdout.strip() == "", "/repo not clean"
    subprocess.check_call(["git", "-C", "/repo", "apply", "--whitespace=nowarn", patch])
    try:
        rc, v, w = check(pid)
    finally:
        subprocess.check_call(["git", "-C", "/repo", "checkout", "--", "."])
    rc0, v0, w0 = check(pid)
    r = {"property": pid, "patched_exit": rc, "patched_violation": bool(v),
         "failing_input_found": bool(v) and not any("no-failing-input-found" in x for x in v), "patched_wall_s": w,
         "restored_exit": rc0, "restored_violation": bool(v0), "restored_wall_s": w0,
         "repo_head": subprocess.run(["git", "-C", "/repo", "rev-parse", "--short", "HEAD"], stdout=subprocess.PIPE, text=True).stdout.strip()}
    print(json.dumps(r), flush=True)
    res[pid] = r
    json.dump(sorted(res.values(), key=lambda r: r["property"]), open(OUT, "w"), indent=1)
