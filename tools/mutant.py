#!/usr/bin/env python3
"""tools/mutant.py <id>[,<id>...] <patch.diff> [--tier quick]
Run ./check against a *scratch copy* of /repo with <patch.diff> applied, without touching /repo or /verif:
  1. git worktree of /repo HEAD under /var/tmp/zv-mut-XXXX/repo, `git apply` the patch there;
  2. copy /verif (without .git) next to it, rewrite the harness path dependencies to the scratch repo;
  3. run ./check there with VERIF_REPO pointing to the scratch repo; print its stdout/exit status;
  4. remove the worktree and the scratch directory.
Used for self-testing the checks against seeded changes while other work goes on in /verif."""
import os, shutil, subprocess, sys, tempfile

ROOT = os.path.dirname(os.path.dirname(os.path.abspath(__file__)))


def main():
    ids = sys.argv[1].split(",")
    patch = os.path.abspath(sys.argv[2])
    tier = "quick"
    if "--tier" in sys.argv:
        tier = sys.argv[sys.argv.index("--tier") + 1]
    scratch = tempfile.mkdtemp(prefix="zv-mut-", dir="/var/tmp")
    repo = os.path.join(scratch, "repo")
    verif = os.path.join(scratch, "verif")
    rc_all = 0
    try:
        subprocess.check_call(["git", "-C", "/repo", "worktree", "add", "-q", "--detach", repo, "HEAD"])
        r = subprocess.run(["git", "-C", repo, "apply", "--whitespace=nowarn", patch])
        if r.returncode != 0:
            print("PATCH DOES NOT APPLY")
            return 3
        # other builds may touch _build/target while we copy: rsync code 24 (vanished files) is harmless
        rr = subprocess.run(["rsync", "-a", "--exclude", ".git", "--exclude", "_build/replay", "--exclude", "evidence",
                             "--exclude", "incremental", ROOT + "/", verif + "/"])
        if rr.returncode not in (0, 24):
            print("RSYNC FAILED", rr.returncode)
            return 3
        for d, _, fs in os.walk(os.path.join(verif, "harness")):
            for f in fs:
                if f == "Cargo.toml":
                    p = os.path.join(d, f)
                    s = open(p).read()
                    open(p, "w").write(s.replace('"/repo/', '"%s/' % repo))
        env = dict(os.environ, VERIF_REPO=repo)
        for pid in ids:
            p = subprocess.run(["./check", pid, "--tier", tier], cwd=verif, env=env, stdout=subprocess.PIPE,
                               stderr=subprocess.PIPE, text=True)
            print("=== %s exit=%d" % (pid, p.returncode))
            print(p.stdout[-3000:])
            print(p.stderr[-3000:], file=sys.stderr)
            rc_all = max(rc_all, p.returncode)
    finally:
        subprocess.run(["git", "-C", "/repo", "worktree", "remove", "--force", repo])
        shutil.rmtree(scratch, ignore_errors=True)
        subprocess.run(["git", "-C", "/repo", "worktree", "prune"])
    return rc_all


if __name__ == "__main__":
    sys.exit(main())
