#!/usr/bin/env python3
"""Print the prompt for an independent 'seeded change' agent: property text only + a scratch worktree."""
import json, subprocess, sys
ids = sys.argv[1].split(",")
name = sys.argv[2]
props = {json.loads(l)["id"]: json.loads(l) for l in open("/verif/properties.jsonl")}
wt = "/tmp/seed/" + name
subprocess.run(["git", "-C", "/repo", "worktree", "add", "-q", "--detach", wt, "HEAD"], check=True)
out = []
out.append(f"""You are given a scratch git worktree of the Rust workspace dbus2/zbus (crates zvariant, zvariant_utils, zvariant_derive, zbus, zbus_names, zbus_macros, zbus_xml, zbus_xmlgen) at {wt} (a detached checkout; work ONLY inside this directory; never touch /repo or /verif; everything is offline: use `cargo ... --offline`, all dependencies are vendored). For each property below, produce ONE realistic change to the library's source (a plausible bug a maintainer could introduce: an off-by-one, a dropped check, a wrong branch, a reordering, a missing lock/await, two sites that each look fine alone) that BREAKS the property while (a) the workspace still compiles, and (b) the existing test suite still passes exactly as before. The change must need something specific to manifest — a particular input shape, boundary value, interleaving, fault at a particular point, or multi-step sequence — not something ordinary use would expose at once, and it must not be a trivial sabotage (no `panic!()`, no `if input == magic`).

Baseline: in this sandbox `cd {wt} && cargo nextest run --workspace --no-fail-fast --offline 2>&1 | tail -5` gives 123 passed and 25 failed on the UNCHANGED tree (the 25 need a D-Bus session bus that does not exist here: zbus::basic::*, zbus::e2e::*, zbus::fdo::tests::*, zbus::issues::*, zbus::proxy::*, zbus::connection::tests::*, zbus::blocking::proxy::tests::signal, zbus::uncached_propert*, zbus::unixexec::*, zbus_macros::tests::test_proxy, zbus::fdo::tests::no_object_manager_signals_before_hello, zbus::fdo::tests::signal). Run it once before you change anything and keep the list of passing tests; after your change the same 123 must pass (first full build takes a few minutes; use `CARGO_TARGET_DIR={wt}/target`, the default). 

For each property deliver, under {wt}/seed_out/<PROPERTY_ID>/:
  1. `patch.diff` — `git diff` of your change to the library sources only (relative to the worktree root; must apply to a clean checkout with `git apply`);
  2. a demonstration that FAILS with the change and PASSES without it: either a new integration test file (e.g. `zvariant/tests/seed_demo_<id>.rs` or `zbus/tests/seed_demo_<id>.rs`, which may use only the crates' public API and dev-dependencies already present) or a small standalone program; put a copy in seed_out/<ID>/ and say exactly how to run it (`cargo test --offline -p <crate> --test seed_demo_<id>`); the demonstration must not need a D-Bus daemon (use in-process peer-to-peer connections over `UnixStream::pair()` with `zbus::connection::Builder::unix_stream(..).p2p()` / `.server(guid)` where a connection is needed);
  3. `meta.json` — {{"property": "<ID>", "summary": "<what the change does>", "needs": "<what specific input / sequence / interleaving is needed to see the breakage>", "files": [...], "demo_cmd": "...", "baseline_still_passes": true}}.
Verify yourself: (i) with the patch applied the full baseline still shows the same 123 passing tests; (ii) the demonstration fails with the patch; (iii) `git stash`/`git apply -R` the library change and the demonstration passes. Before finishing, leave the worktree with your library change REVERTED (sources clean except seed_out/ and the demo test files), and report for each property: the idea, the diff (short), the demo command and both outputs.

The properties (this text is all you get about them — they are statements about the library's observable behaviour):
""")
for pid in ids:
    p = props[pid]
    out.append(f"### {pid} — {p['title']}\n{p['statement']}\n(Quantification: {p['quantifier']['text']})\n")
print("\n".join(out))
