#!/usr/bin/env python3
"""tools/update_design.py — regenerate sections 16 and 17 of DESIGN.md (everything after the marker line) from
seeded/RESULTS.json, seeded/<ID>/meta.json, Properties/*.v, known_findings/*.jsonl and evidence/*.json."""
import os, subprocess, sys
ROOT = os.path.dirname(os.path.dirname(os.path.abspath(__file__)))
MARK = "<!-- generated below this line by tools/update_design.py -->"
p = os.path.join(ROOT, "DESIGN.md")
s = open(p).read()
if MARK in s:
    s = s[:s.index(MARK)]
seed = subprocess.run([sys.executable, os.path.join(ROOT, "tools", "gen_seed_table.py")], stdout=subprocess.PIPE, text=True).stdout
stat = subprocess.run([sys.executable, os.path.join(ROOT, "tools", "gen_status.py")], stdout=subprocess.PIPE, text=True).stdout
head = subprocess.run(["git", "-C", "/repo", "rev-parse", "--short", "HEAD"], stdout=subprocess.PIPE, text=True).stdout.strip()
s = s.rstrip("\n") + "\n\n" + MARK + "\n" + """
## 16. Which checks catch which changes

Three families of breaking changes are kept under `seeded/` and are re-run by `tools/regress.py` (each in a scratch copy
of /repo and /verif, `tools/mutant.py`; results in `seeded/RESULTS.json`):

1. **Independently written changes** (`seeded/<id>/`: `patch.diff`, the demonstration, `meta.json`). Each was written
   by a fresh sub-agent that was given only the property text and a scratch worktree of /repo (nothing from /verif);
   the change compiles, leaves the 123 stable tests passing, and comes with a demonstration that fails with it and
   passes without it. The coordinator confirmed all of that again (`tools/seeded_verify.py`; `coordinator_check` and
   `what_was_run` in `meta.json`) before keeping it. Two were rebased after later `fix:` commits touched the same
   lines (C05, C37: the delivered patch is kept as `patch_original_at_b1eb512d.diff`, the demonstration was re-run
   against the rebased patch). To run one against the registered checks: `git -C /repo apply seeded/<id>/patch.diff`,
   `./check <id> --tier quick`, `git -C /repo checkout -- .` — `tools/accept.py` does exactly that for every seed,
   sequentially with nothing else running, and then runs the check once more on the restored tree (last column of the
   table; `seeded/RESULTS_repo_applied.json`): all 39 are reported as VIOLATION with a failing input on the patched
   tree, and all 39 checks exit 0 again on the restored tree.
2. **The exact reverse of every `fix:` commit** (`seeded/selftest/<id>/unfix_*.diff`): if a repaired defect ever
   returns, the property's check must report it again (a `fixed` entry in `known_findings/` suppresses nothing).
3. **The builders' own mutants** (`seeded/selftest/<id>/*.diff`, results in `seeded/selftest/<id>/RESULTS.txt` or
   `docs/<id>.md`): written with knowledge of the model, therefore weaker evidence; used while building.

Checks strengthened because an independent change was first **missed**: C02 and C03 (many sibling containers — the
decoder's depth bookkeeping leaking between siblings — `wide_values()` in `props/codec_gen.py`), C07 (limit towers
that mix variants, `limit_words()`), C11 (bodies naming the same file descriptor more than once: new harness body
kinds `hh`, `ah`, `hv`, theorem `C11_typed_hh`), C29 (bursts containing NO_REPLY_EXPECTED calls on a spawn-disabled
interface), C30 (a handler removing its own interface, from `&mut self` and `&self` handlers with a queued writer),
C39 (proxies whose property cache has started among the outstanding handles; theorem `C39_proxy_owns_cache`),
C33 (property reads through one *persistent* caching proxy before and after a change, all four emits-changed modes;
theorem `C33_cached_read_after_write`), C19 (first only `no-failing-input-found`: a write script `L` that lets the
reply be processed while the caller is still inside `send()`, theorem `C19_noreply_late`),
C05 builder's m4 (offsets pointing into the offsets area). After strengthening every one of them is reported with a
failing input. A change reported as `no-failing-input-found` is still a VIOLATION (the theorem or the
correspondence named in the replay file no longer checks) — this happens where the broken behaviour needs a schedule
the harness cannot force.

Results of the last regression run (/repo HEAD `""" + head + """`):

""" + seed + """

## 17. Status per property

`full / _partial / _refuted` counts the theorems of `coq/theories/Properties/<id>.v` by name: a `_refuted` theorem
exhibits a witness on which the full-strength statement fails on the faithful model (each is a genuine defect,
confirmed on the real code, listed in `known_findings/<id>.jsonl`), the `_partial` theorem next to it proves the
statement outside the decidable class of that defect. `known (open)` are the classes for which the check prints
`KNOWN-FINDING:` and exits 0; `fixed` are the classes repaired by a `fix:` commit in /repo (their witnesses run on
every check and must pass). All theorems are closed under the global context (`Print Assumptions`, re-checked on
every run; `coqchk` in the thorough tier). The wall times are from the last run in this sandbox (on the quiet machine
all 39 quick checks take about 18 minutes in sequence; a fresh copy ran setup plus all of them in about 26 minutes).
Every thorough tier was run once on the final models and exits 0 on the unchanged tree (C35's thorough tier — 160 feature-combination
builds and 1567 `cargo tree` comparisons — takes 22 minutes on the quiet machine, more than 45 on a loaded one).
`./check <id> --replay <file>` re-runs exactly the cases of a replay file: it reproduces the violation on the patched
tree and exits 0 on the restored one (tried for C10).

""" + stat
open(p, "w").write(s)
print("DESIGN.md updated")
