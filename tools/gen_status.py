#!/usr/bin/env python3
"""tools/gen_status.py — print the per-property status table of DESIGN.md section 17 (markdown) from what is in the tree:
Properties/<id>.v (theorem names), known_findings/<id>.jsonl, evidence/<id>.json (last run), seeded/<id>/meta.json."""
import glob, json, os, re, sys
ROOT = os.path.dirname(os.path.dirname(os.path.abspath(__file__)))
ids = [json.loads(l)["id"] for l in open(os.path.join(ROOT, "properties.jsonl"))]
titles = {json.loads(l)["id"]: json.loads(l)["title"] for l in open(os.path.join(ROOT, "properties.jsonl"))}
print("| id | property | theorems (full / `_partial` / `_refuted`) | known (open) | fixed | last quick run: cases, wall |")
print("|---|---|---|---|---|---|")
for pid in ids:
    v = os.path.join(ROOT, "coq", "theories", "Properties", pid + ".v")
    names = re.findall(r"^\s*(?:Theorem|Lemma|Example|Corollary)\s+(\w+)", open(v).read(), re.M) if os.path.exists(v) else []
    part = [n for n in names if n.endswith("_partial")]
    ref = [n for n in names if "refuted" in n]
    full = [n for n in names if n not in part and n not in ref]
    kf = os.path.join(ROOT, "known_findings", pid + ".jsonl")
    known, fixed = [], []
    if os.path.exists(kf):
        for l in open(kf):
            l = l.strip()
            if not l or l.startswith("#"):
                continue
            d = json.loads(l)
            (fixed if d.get("status") == "fixed" else known).append(d)
    ev = os.path.join(ROOT, "evidence", pid + ".json")
    run = "-"
    if os.path.exists(ev):
        try:
            e = json.load(open(ev))
            s = json.dumps(e)
            m = re.search(r'"cases"\s*:\s*(\d+)', s)
            w = re.search(r'"wall_s"\s*:\s*([\d.]+)', s) or re.search(r'"wall[a-z_]*"\s*:\s*([\d.]+)', s)
            run = "%s cases, %s s" % (m.group(1) if m else "?", w.group(1) if w else "?")
        except Exception:
            pass
    print("| %s | %s | %d / %d / %d | %s | %s | %s |" % (
        pid, titles[pid], len(full), len(part), len(ref),
        ", ".join("`%s`" % d.get("class", "?") for d in known) or "-",
        ", ".join("%s `%s`" % (str(d.get("commit"))[:8], d.get("class", "?")) for d in fixed) or "-", run))
