#!/usr/bin/env python3
"""tools/gen_features.py — translator for C35: regenerates coq/theories/C35/Generated.v from the *current*
Cargo.toml files and sources of the workspace at $VERIF_REPO (default /repo).

What is read (TOML reader + regexes, nothing is compiled):
  * <repo>/Cargo.toml            workspace members, resolver, [workspace.dependencies]
  * <repo>/<member>/Cargo.toml   [lib] proc-macro, [features] (plus cargo's implicit `dep = ["dep:dep"]` features for
                                 optional dependencies never named with `dep:`), [dependencies], [build-dependencies],
                                 [dev-dependencies], [target.'cfg(..)'.dependencies] (with workspace inheritance)
  * <repo>/<member>/src/**/*.rs  (a) enum variants behind `#[cfg(feature = "f")]`;
                                 (b) every mention `Enum::Variant` of such a variant in the *other* workspace crates with the
                                     `cfg(feature = ..)` gates in force at that place (attribute on the arm / statement / item /
                                     enclosing blocks / `#[cfg] mod x;` of the file);
                                 (c) `compile_error!` guarded by `cfg(all(not(feature = a), not(feature = b)))`;
                                 (d) the anchors of the curated macro-output rules (MACRO_RULES below).
Output: crates, coherence rules, required-feature groups, as Gallina data (see coq/theories/C35/Types.v).
The file is rewritten only when its content changes (so that Coq is not rebuilt needlessly).
`--json` prints the same information as JSON on stdout (used by props/C35.py)."""
import json
import os
import re
import sys
import tomllib

ROOT = os.path.dirname(os.path.dirname(os.path.abspath(__file__)))
REPO = os.environ.get("VERIF_REPO", "/repo")
OUT = os.path.join(ROOT, "coq", "theories", "C35", "Generated.v")

# Curated rules for proc-macro output (cannot be found by looking for enum variants): a feature of the macro crate
# changes the generated code so that it names items that exist in `user` only under `user_feat`, and `user` expands
# the macro in its own sources. Each anchor (file, regex) must still match, otherwise the rule is dropped.
MACRO_RULES = [
    {"macro": "zbus_macros", "feat": "blocking-api", "user": "zbus", "user_feat": "blocking-api",
     "what": "#[proxy] output names zbus::blocking::Proxy",
     "anchors": [("zbus_macros/src/proxy.rs", r'#\[cfg\(feature = "blocking-api"\)\]\s*let gen_blocking'),
                 ("zbus/src/lib.rs", r'#\[cfg\(feature = "blocking-api"\)\]\s*pub mod blocking'),
                 ("zbus/src/fdo/dbus.rs", r'#\[proxy\(')]},
]


def linux_cfg(expr):
    """Is this `cfg(...)` of a [target.'…'.dependencies] table true on x86_64 linux?  (platform-only parts are out of scope)"""
    e = expr.strip()
    if e.startswith("cfg(") and e.endswith(")"):
        e = e[4:-1].strip()
    else:
        return "linux" in e  # a target triple
    def ev(s):
        s = s.strip()
        m = re.match(r"^(any|all|not)\((.*)\)$", s, re.S)
        if m:
            parts, depth, cur = [], 0, ""
            for ch in m.group(2):
                if ch == "(":
                    depth += 1
                elif ch == ")":
                    depth -= 1
                if ch == "," and depth == 0:
                    parts.append(cur)
                    cur = ""
                else:
                    cur += ch
            if cur.strip():
                parts.append(cur)
            vals = [ev(p) for p in parts]
            return {"any": any(vals), "all": all(vals), "not": not vals[0]}[m.group(1)]
        if s == "unix":
            return True
        if s == "windows":
            return False
        m = re.match(r'^target_os\s*=\s*"(\w+)"$', s)
        if m:
            return m.group(1) == "linux"
        m = re.match(r'^target_family\s*=\s*"(\w+)"$', s)
        if m:
            return m.group(1) == "unix"
        return False
    return ev(e)


def parse_fv(s):
    if s.startswith("dep:"):
        return ("dep", s[4:])
    if "/" in s:
        d, f = s.split("/", 1)
        weak = d.endswith("?")
        return ("depfeat", d.rstrip("?"), f, weak)
    return ("feat", s)


def read_workspace():
    ws = tomllib.load(open(os.path.join(REPO, "Cargo.toml"), "rb"))
    members = ws["workspace"]["members"]
    wdeps = ws["workspace"].get("dependencies", {})
    resolver = str(ws["workspace"].get("resolver", "1"))
    crates = []
    for m in members:
        t = tomllib.load(open(os.path.join(REPO, m, "Cargo.toml"), "rb"))
        name = t["package"]["name"]
        lib = t.get("lib", {})
        has_lib = os.path.exists(os.path.join(REPO, m, lib.get("path", "src/lib.rs")))
        deps = []

        def add_deps(table, kind, platform_ok):
            for dn, spec in sorted(table.items()):
                if isinstance(spec, str):
                    spec = {"version": spec}
                spec = dict(spec)
                feats = list(spec.get("features", []))
                default = spec.get("default-features", True)
                pkg = spec.get("package", dn)
                if spec.get("workspace"):
                    w = wdeps.get(dn)
                    if isinstance(w, str):
                        w = {"version": w}
                    w = dict(w or {})
                    feats = list(w.get("features", [])) + [f for f in feats if f not in w.get("features", [])]
                    default = w.get("default-features", True)
                    pkg = w.get("package", dn)
                deps.append({"name": dn, "pkg": pkg, "kind": kind, "optional": bool(spec.get("optional", False)),
                             "default": bool(default), "features": feats, "platform_ok": platform_ok})

        add_deps(t.get("dependencies", {}), "normal", True)
        add_deps(t.get("build-dependencies", {}), "build", True)
        add_deps(t.get("dev-dependencies", {}), "dev", True)
        for cfg, tt in sorted(t.get("target", {}).items()):
            ok = linux_cfg(cfg)
            add_deps(tt.get("dependencies", {}), "normal", ok)
            add_deps(tt.get("build-dependencies", {}), "build", ok)
            add_deps(tt.get("dev-dependencies", {}), "dev", ok)
        feats = {f: [parse_fv(x) for x in vs] for f, vs in t.get("features", {}).items()}
        # cargo: an optional dependency that is never named as `dep:name` in [features] defines the implicit feature name = ["dep:name"]
        named = {fv[1] for vs in feats.values() for fv in vs if fv[0] == "dep"}
        implicit = []
        for d in deps:
            if d["optional"] and d["kind"] != "dev" and d["name"] not in named and d["name"] not in feats:
                feats[d["name"]] = [("dep", d["name"])]
                implicit.append(d["name"])
        crates.append({"name": name, "dir": m, "proc_macro": bool(lib.get("proc-macro", False)), "lib": has_lib,
                       "features": {k: feats[k] for k in sorted(feats)}, "implicit": sorted(implicit), "deps": deps})
    return {"resolver": resolver, "crates": crates}


# ------------------------------------------------------------------ sources

CFG_FEAT = re.compile(r'#\[cfg\(\s*feature\s*=\s*"([^"]+)"\s*\)\]')
CFG_ANY = re.compile(r'#\[cfg\(')


def strip_line(ln):
    """code part of a line: no // comment, string contents blanked (good enough for brace counting)"""
    ln = re.sub(r'"(?:[^"\\]|\\.)*"', '""', ln)
    ln = re.sub(r"'(?:[^'\\]|\\.)'", "' '", ln)
    i = ln.find("//")
    return ln if i < 0 else ln[:i]


def rs_files(cdir):
    out = []
    for d, _, fs in os.walk(os.path.join(REPO, cdir, "src")):
        for f in sorted(fs):
            if f.endswith(".rs"):
                out.append(os.path.join(d, f))
    return sorted(out)


def gated_variants(crate):
    """[(feature, Enum, Variant, file:line)] — enum variants directly behind #[cfg(feature = "f")]"""
    res = []
    for p in rs_files(crate["dir"]):
        lines = open(p, encoding="utf8", errors="replace").read().splitlines()
        enum, depth, enum_depth, pending = None, 0, None, None
        for i, raw in enumerate(lines):
            code = strip_line(raw)
            s = code.strip()
            m = re.match(r"^(?:pub(?:\([a-z]+\))?\s+)?enum\s+([A-Za-z0-9_]+)", s)
            if m and enum is None:
                enum, enum_depth = m.group(1), depth
            if enum is not None and depth == enum_depth + 1:
                mf = CFG_FEAT.search(raw)
                if mf:
                    pending = mf.group(1)
                elif s.startswith("#[") or s == "" or raw.strip().startswith("//"):
                    pass
                else:
                    mv = re.match(r"^([A-Z][A-Za-z0-9_]*)\b", s)
                    if mv and pending:
                        res.append((pending, enum, mv.group(1), "%s:%d" % (os.path.relpath(p, REPO), i + 1)))
                    pending = None
            depth += code.count("{") - code.count("}")
            if enum is not None and depth <= enum_depth and "}" in code:
                enum, enum_depth, pending = None, None, None
    return res


def module_gates(crate):
    """file -> set of features gating the whole file through `#[cfg(feature = "g")] mod name;` in its parent module(s)"""
    src = os.path.join(REPO, crate["dir"], "src")
    gates = {}

    def visit(path, inherited):
        gates[path] = set(inherited)
        try:
            lines = open(path, encoding="utf8", errors="replace").read().splitlines()
        except OSError:
            return
        base = os.path.dirname(path)
        stem = os.path.splitext(os.path.basename(path))[0]
        sub = base if stem in ("lib", "mod", "main") else os.path.join(base, stem)
        pend = set()
        for raw in lines:
            s = strip_line(raw).strip()
            mf = CFG_FEAT.search(raw)
            if mf and s.startswith("#["):
                pend.add(mf.group(1))
                continue
            if s.startswith("#[") or s == "":
                continue
            mm = re.match(r"^(?:pub(?:\([a-z]+\))?\s+)?mod\s+([A-Za-z0-9_]+)\s*;", s)
            if mm:
                for cand in (os.path.join(sub, mm.group(1) + ".rs"), os.path.join(sub, mm.group(1), "mod.rs")):
                    if os.path.exists(cand) and cand not in gates:
                        visit(cand, set(inherited) | pend)
            pend = set()

    for top in ("lib.rs", "main.rs"):
        p = os.path.join(src, top)
        if os.path.exists(p):
            visit(p, set())
    return gates


def mentions(crate, enum, variant):
    """[(gates:frozenset, is_arm:bool, where, needs:frozenset)] for each mention of Enum::Variant in the crate's sources;
    needs = the features g written on the arm itself for which the enclosing match has no `#[cfg(not(feature = "g"))]`
    catch-all arm (so the match is exhaustive only if g is on whenever the variant exists)"""
    pat = re.compile(r"\b%s::%s\b" % (re.escape(enum), re.escape(variant)))
    mg = module_gates(crate)
    res = []
    for p in rs_files(crate["dir"]):
        text = open(p, encoding="utf8", errors="replace").read()
        if not pat.search(text):
            continue
        file_gates = mg.get(p, set())
        lines = text.splitlines()
        depths = []          # brace depth at the start of each line
        dd = 0
        for raw in lines:
            depths.append(dd)
            c0 = strip_line(raw)
            dd += c0.count("{") - c0.count("}")

        def fallbacks(i):
            """features g with `#[cfg(not(feature = "g"))]` + catch-all arm among the sibling arms of line i"""
            d0 = depths[i]
            lo = i
            while lo > 0 and depths[lo - 1] >= d0:
                lo -= 1
            hi = i
            while hi + 1 < len(lines) and depths[hi + 1] >= d0:
                hi += 1
            found = set()
            pend = None
            for j in range(lo, hi + 1):
                if depths[j] != d0:
                    continue
                sj = strip_line(lines[j]).strip()
                mn = re.search(r'#\[cfg\(\s*not\(\s*feature\s*=\s*"([^"]+)"\s*\)\s*\)\]', lines[j])
                if mn and sj.startswith("#["):
                    pend = mn.group(1)
                    continue
                if sj == "" or (sj.startswith("#[") and sj.endswith("]")):
                    continue
                if pend and re.match(r"^(_|[a-z_][a-z0-9_]*)\s*(=>|$)", sj):
                    found.add(pend)
                pend = None
            return frozenset(found)

        depth = 0
        scopes = []          # (depth_at_open, feature): gate holds while depth > depth_at_open
        pending = set()      # gates from attributes waiting for their item
        carried = set()      # gates of an item whose `{` has not been seen yet (multi-line header)
        carried_item = False  # the carried gates belong to an item header (fn/impl/struct/...): only `{` or `;` ends it
        for i, raw in enumerate(lines):
            code = strip_line(raw)
            s = code.strip()
            mf = CFG_FEAT.findall(raw) if s.startswith("#[") else []
            only_attr = s.startswith("#[") and s.endswith("]")
            if mf and only_attr:
                pending |= set(mf)
                continue
            if s == "" or only_attr:
                continue
            fresh = set(pending) | set(mf)
            line_gates = fresh | carried
            if pat.search(code):
                active = {g for _, g in scopes} | line_gates | file_gates
                is_arm = "=>" in code or s.endswith("|") or s.startswith("|")
                # an arm needs a twin only if the gate sits on the arm itself: inside a gated block / module the whole
                # match disappears with the feature
                res.append((frozenset(active), is_arm, "%s:%d" % (os.path.relpath(p, REPO), i + 1),
                            (frozenset(fresh) - fallbacks(i)) if is_arm else frozenset()))
            opens, closes = code.count("{"), code.count("}")
            if line_gates:
                if fresh:
                    carried_item = bool(re.match(r"^(?:pub(?:\([a-z]+\))?\s+)?(?:unsafe\s+|async\s+|const\s+|extern\s+)*"
                                                 r"(?:fn|impl|struct|enum|mod|trait|type|static|const|use|union)\b", s))
                if opens > closes:
                    for g in line_gates:
                        scopes.append((depth, g))
                    carried = set()
                elif s.endswith(";") or (not carried_item and (s.endswith(",") or s.endswith("}"))):
                    carried = set()
                else:
                    carried = line_gates   # the gated item / expression continues on the next line
            pending = set()
            depth += opens - closes
            scopes = [(d, g) for d, g in scopes if depth > d]
    return res


def required_groups(crate):
    """compile_error! behind cfg(all(not(feature = a), not(feature = b), ...)) or cfg(not(any(feature = a, ...)))"""
    out = []
    for p in rs_files(crate["dir"]):
        text = open(p, encoding="utf8", errors="replace").read()
        if "compile_error!" not in text:
            continue
        for m in re.finditer(r"#\[cfg\(((?:all|not)\((?:[^()]|\((?:[^()]|\([^()]*\))*\))*\))\)\]\s*(?:mod\s+\w+\s*\{|)(?:[^{}]|\{[^{}]*\})*?compile_error!", text):
            cond = m.group(1)
            feats = re.findall(r'feature\s*=\s*"([^"]+)"', cond)
            nots = re.findall(r'not\(\s*feature\s*=\s*"([^"]+)"\s*\)', cond)
            anyn = re.match(r'^not\(\s*any\(', cond)
            if feats and (sorted(feats) == sorted(nots) and cond.startswith("all(") or anyn):
                g = sorted(set(feats))
                if g not in out:
                    out.append(g)
    return out


def dependents_closure(ws):
    """name -> set of workspace crates it reaches through normal/build dependencies"""
    names = {c["name"] for c in ws["crates"]}
    direct = {c["name"]: {d["pkg"] for d in c["deps"] if d["kind"] != "dev" and d["pkg"] in names} for c in ws["crates"]}
    reach = {n: set(v) for n, v in direct.items()}
    changed = True
    while changed:
        changed = False
        for n in reach:
            for x in list(reach[n]):
                new = direct[x] - reach[n]
                if new:
                    reach[n] |= new
                    changed = True
    return reach


def coherence_rules(ws):
    rules = {}
    variants = []
    reach = dependents_closure(ws)

    def add(unit, ifc, iff, thc, thf, what):
        key = (unit, ifc, iff, thc, thf)
        rules.setdefault(key, [])
        if what not in rules[key]:
            rules[key].append(what)

    for a in ws["crates"]:
        if a["proc_macro"]:
            continue
        for f, enum, variant, where in gated_variants(a):
            variants.append({"crate": a["name"], "feature": f, "enum": enum, "variant": variant, "where": where})
            for b in ws["crates"]:
                if b["name"] == a["name"] or a["name"] not in reach[b["name"]]:
                    continue
                ms = mentions(b, enum, variant)
                for gates, is_arm, wh, fallback in ms:  # fallback = `needs` of mentions()
                    label = "%s::%s" % (enum, variant)
                    if not gates:
                        # named unconditionally: B needs the variant whenever it is compiled
                        add(b["name"], b["name"], "", a["name"], f, label)
                        continue
                    for g in sorted(gates):
                        if g not in b["features"]:
                            continue
                        add(b["name"], b["name"], g, a["name"], f, label)      # the mention needs the variant to exist
                        if is_arm and g in fallback:
                            add(b["name"], a["name"], f, b["name"], g, label)  # the variant needs its arm (no catch-all)
    for r in MACRO_RULES:
        ok = True
        for rel, rx in r["anchors"]:
            p = os.path.join(REPO, rel)
            if not os.path.exists(p) or not re.search(rx, open(p, encoding="utf8", errors="replace").read()):
                ok = False
        names = {c["name"]: c for c in ws["crates"]}
        if ok and r["macro"] in names and r["user"] in names and r["feat"] in names[r["macro"]]["features"] \
                and r["user_feat"] in names[r["user"]]["features"]:
            add(r["user"], r["macro"], r["feat"], r["user"], r["user_feat"], r["what"])
    out = [{"unit": k[0], "if": [k[1], k[2]], "then": [k[3], k[4]], "what": sorted(v)} for k, v in sorted(rules.items())]
    return out, variants


def collect():
    ws = read_workspace()
    rules, variants = coherence_rules(ws)
    req = []
    for c in ws["crates"]:
        for g in required_groups(c):
            if all(f in c["features"] for f in g):
                req.append({"crate": c["name"], "any_of": g})
    ws["rules"] = rules
    ws["gated_variants"] = variants
    ws["requires_any"] = req
    return ws


# ------------------------------------------------------------------ Gallina

def q(s):
    return 'B "%s"' % s.replace('"', '""')


def fv_v(fv):
    if fv[0] == "feat":
        return "FvFeat (%s)" % q(fv[1])
    if fv[0] == "dep":
        return "FvDep (%s)" % q(fv[1])
    return "FvDepFeat (%s) (%s) %s" % (q(fv[1]), q(fv[2]), "true" if fv[3] else "false")


def blist(xs):
    return "[" + "; ".join(xs) + "]"


def render(ws):
    o = []
    o.append("(* GENERATED by tools/gen_features.py from the Cargo.toml files and sources of the workspace — DO NOT EDIT.")
    o.append("   Regenerated on every run of ./check C35; the theorems of C35/Proofs.v are re-checked against it. *)")
    o.append("From Coq Require Import List String.")
    o.append("Import ListNotations.")
    o.append("From ZV Require Import Base.Bytes C35.Types.")
    o.append("Local Open Scope string_scope.")
    o.append("")
    o.append("Definition resolver : bytes := %s." % q(ws["resolver"]))
    o.append("")
    o.append("Definition crates : list crate := [")
    cs = []
    for c in ws["crates"]:
        fl = []
        for f, vs in c["features"].items():
            fl.append("      (%s, %s)" % (q(f), blist([fv_v(v) for v in vs])))
        dl = []
        for d in c["deps"]:
            dl.append("      {| d_name := %s; d_pkg := %s; d_kind := %s; d_optional := %s; d_default := %s; d_feats := %s; d_platform_ok := %s |}" % (
                q(d["name"]), q(d["pkg"]), {"normal": "DNormal", "build": "DBuild", "dev": "DDev"}[d["kind"]],
                "true" if d["optional"] else "false", "true" if d["default"] else "false",
                blist([fv_v(parse_fv(x)) for x in d["features"]]), "true" if d["platform_ok"] else "false"))
        cs.append("  {| c_name := %s; c_proc_macro := %s; c_lib := %s;\n     c_feats := [\n%s];\n     c_deps := [\n%s] |}" % (
            q(c["name"]), "true" if c["proc_macro"] else "false", "true" if c["lib"] else "false",
            ";\n".join(fl), ";\n".join(dl)))
    o.append(";\n".join(cs))
    o.append("].")
    o.append("")
    o.append("(* coherence rules: when crate r_unit is compiled in build kind k and r_if (as r_unit sees that crate: a proc-macro")
    o.append("   crate is seen in its host build) has the feature on, r_then must have its feature on. An empty r_if feature means")
    o.append("   \"whenever r_unit is compiled\". *)")
    o.append("Definition rules : list rule := [")
    rl = []
    for r in ws["rules"]:
        rl.append("  {| r_unit := %s; r_if := (%s, %s); r_then := (%s, %s); r_what := %s |}" % (
            q(r["unit"]), q(r["if"][0]), q(r["if"][1]), q(r["then"][0]), q(r["then"][1]), q(", ".join(r["what"]))))
    o.append(";\n".join(rl))
    o.append("].")
    o.append("")
    o.append("(* compile_error! guards: the crate refuses to build unless one of the features is on (documented, not a defect) *)")
    o.append("Definition requires_any : list (bytes * list bytes) := %s." % blist(
        ["(%s, %s)" % (q(r["crate"]), blist([q(f) for f in r["any_of"]])) for r in ws["requires_any"]]))
    o.append("")
    return "\n".join(o)


def main():
    ws = collect()
    if "--json" in sys.argv:
        json.dump(ws, sys.stdout, indent=1)
        return 0
    text = render(ws)
    os.makedirs(os.path.dirname(OUT), exist_ok=True)
    old = open(OUT).read() if os.path.exists(OUT) else None
    if old != text:
        open(OUT, "w").write(text)
        print("gen_features: wrote %s (%d crates, %d rules)" % (OUT, len(ws["crates"]), len(ws["rules"])))
    else:
        print("gen_features: %s unchanged (%d crates, %d rules)" % (OUT, len(ws["crates"]), len(ws["rules"])))
    return 0


if __name__ == "__main__":
    sys.exit(main())
