#!/usr/bin/env python3
"""tools/gen_seed_table.py — markdown tables for DESIGN.md section 16 from seeded/<ID>/meta.json and seeded/RESULTS.json."""
import glob, json, os
ROOT = os.path.dirname(os.path.dirname(os.path.abspath(__file__)))
res = {}
p = os.path.join(ROOT, "seeded", "RESULTS.json")
if os.path.exists(p):
    res = {r["patch"]: r for r in json.load(open(p))}


def verdict(r):
    if r is None:
        return "not re-run"
    if r.get("note"):
        return r["note"]
    if not r["violation"]:
        return "**missed** (exit %s)" % r["check_exit"]
    return "VIOLATION, failing input found" if r["failing_input_found"] else "VIOLATION, no-failing-input-found"


def short(s, n):
    s = " ".join(str(s).split())
    return (s[:n] + "…") if len(s) > n else s


acc = {}
pa = os.path.join(ROOT, "seeded", "RESULTS_repo_applied.json")
if os.path.exists(pa):
    acc = {r["property"]: r for r in json.load(open(pa))}


def accv(pid):
    r = acc.get(pid)
    if r is None:
        return "-"
    a = ("VIOLATION, failing input" if r["failing_input_found"] else "VIOLATION, no-failing-input-found") if r["patched_violation"] else "**missed**"
    return "%s (exit %s); restored tree: exit %s" % (a, r["patched_exit"], r["restored_exit"])


print("| property | independently written change | what it needs to show | scratch copy (`tools/regress.py`) | applied to /repo itself (`tools/accept.py`) |")
print("|---|---|---|---|---|")
for d in sorted(glob.glob(os.path.join(ROOT, "seeded", "C*"))):
    pid = os.path.basename(d)
    m = json.load(open(os.path.join(d, "meta.json")))
    r = res.get("seeded/%s/patch.diff" % pid)
    print("| %s | %s | %s | %s | %s |" % (pid, short(m.get("summary", ""), 230).replace("|", "\\|"), short(m.get("needs", ""), 200).replace("|", "\\|"), verdict(r), accv(pid)))
print()
print("| property | reverse of fix | result |")
print("|---|---|---|")
for k, r in sorted(res.items()):
    if r["kind"] == "unfix":
        print("| %s | `%s` | %s |" % (r["property"], os.path.basename(k), verdict(r)))
st = [r for r in res.values() if r["kind"] == "selftest"]
if st:
    print()
    print("Builders' own mutants re-run: %d, caught %d (with failing input %d)." % (
        len(st), sum(1 for r in st if r["violation"]), sum(1 for r in st if r["failing_input_found"])))
    for r in st:
        if not r["violation"]:
            note = ""
            if r["patch"].endswith("C23/guid_checked_after_transport.diff"):
                note = (" — deliberately so: it only reorders two error checks of address parsing (an address with both a bad guid and "
                        "a bad transport option is rejected either way), the property still holds; it is the harmless rewrite "
                        "that the first C23 oracle flagged (false alarm, section 14) and is kept as a no-alarm control")
            print("* not reported: %s%s" % (r["patch"], note))
