(* C22/Proofs.v — Display then TryFrom<&str> is the identity on builder-made rules (outside the known classes),
   the specification's reader reads Display's output as the rule's own pairs, parsing is stable, never panics. *)
From ZV Require Import Base.Bytes Base.Res Base.WinnowFacts C10.Model C10.Proofs C21.Model C22.Model C22.Spec C22.Facts.
From Coq Require Import Lia Sorted.

(* ------------------------------------------------------------------ key/value view of Display *)
Definition okv {A} (o : option A) (f : A -> bytes * bytes) : list (bytes * bytes) :=
  match o with Some a => [f a] | None => [] end.
Definition argkey (i : N) : bytes := B "arg" ++ dec_of_N i.
Definition argpathkey (i : N) : bytes := B "arg" ++ dec_of_N i ++ B "path".
Definition ps_kv (ps : pathspec) : bytes * bytes :=
  match ps with PPath p => (B "path", p) | PNamespace p => (B "path_namespace", p) end.
Definition kvs (r : rule) : list (bytes * bytes) :=
  okv (r_type r) (fun t => (B "type", type_str t))
  ++ okv (r_sender r) (fun s => (B "sender", bus_str s))
  ++ okv (r_interface r) (fun s => (B "interface", s))
  ++ okv (r_member r) (fun s => (B "member", s))
  ++ okv (r_destination r) (fun s => (B "destination", s))
  ++ okv (r_path r) ps_kv
  ++ map (fun ia => (argkey (fst ia), snd ia)) (r_args r)
  ++ map (fun ia => (argpathkey (fst ia), snd ia)) (r_arg_paths r)
  ++ okv (r_arg0ns r) (fun s => (B "arg0namespace", s)).
Definition compkv (kv : bytes * bytes) : bytes := comp (fst kv) (snd kv).

Lemma comps_kvs r : comps r = map compkv (kvs r).
Proof.
  unfold comps, kvs. rewrite !map_app, !map_map.
  destruct (r_type r), (r_sender r), (r_interface r), (r_member r), (r_destination r), (r_path r) as [[]|], (r_arg0ns r);
    reflexivity.
Qed.

(* keys: not empty, none of = , ' \ *)
Definition key_char (c : byte) : bool := negb (beq c "=" || beq c comma || beq c q || beq c "\").
Definition good_key (k : bytes) : bool := negb (lbeq k []) && forallb key_char k.

Lemma good_key_no k c : good_key k = true -> (c = "="%byte \/ c = comma \/ c = q \/ c = "\"%byte) -> no_sep c k.
Proof.
  unfold good_key, no_sep. intros H Hc. apply andb_true_iff in H as [_ H].
  apply Forall_forall. intros x Hx. rewrite forallb_forall in H. specialize (H x Hx).
  unfold key_char in H. destruct (beq x c) eqn:E; [|reflexivity]. apply beq_eq in E. subst x.
  destruct Hc as [-> | [-> | [-> | ->]]]; discriminate H.
Qed.

(* ------------------------------------------------------------------ one component through split_component *)
Lemma split_once_app c k rest : no_sep c k -> split_once c (k ++ c :: rest) = Some (k, rest).
Proof.
  induction 1 as [|x k Hx Hk IH]; cbn.
  - now rewrite beq_refl.
  - rewrite Hx, IH. reflexivity.
Qed.

Lemma last_is_quote_snoc v : last_is_quote (v ++ [q]) = true.
Proof. unfold last_is_quote. rewrite rev_app_distr. reflexivity. Qed.

Lemma split_component_comp k v : good_key k = true -> split_component (comp k v) = Ok (k, v).
Proof.
  intros Hk. unfold split_component, comp. change (B "='" ++ v ++ [q]) with ("="%byte :: q :: v ++ [q]).
  assert (Hns : no_sep "=" k) by (apply good_key_no; [exact Hk|left; reflexivity]).
  rewrite (split_once_app "=" k _ Hns).
  unfold good_key in Hk. apply andb_true_iff in Hk as [Hk _]. apply negb_true_iff in Hk. rewrite Hk.
  assert (H2 : Nat.ltb (length (q :: v ++ [q])) 2 = false).
  { apply Nat.ltb_ge. cbn [length]. rewrite app_length. cbn. lia. }
  assert (H3 : last_is_quote (q :: v ++ [q]) = true) by (apply (last_is_quote_snoc (q :: v))).
  assert (H4 : first_is_quote (q :: v ++ [q]) = true) by reflexivity.
  rewrite H2, H3, H4. cbn [negb orb tl]. now rewrite removelast_last.
Qed.

(* ------------------------------------------------------------------ the arg keys, by enumeration of 0..63 *)
Definition idx_range : list N := map N.of_nat (List.seq 0 64).
Lemma in_idx_range i : (i < 64)%N -> In i idx_range.
Proof.
  intros H. unfold idx_range. rewrite <- (N2Nat.id i). apply in_map. apply in_seq. lia.
Qed.
Lemma forall_idx (P : N -> bool) : forallb P idx_range = true -> forall i, (i < 64)%N -> P i = true.
Proof. intros H i Hi. rewrite forallb_forall in H. apply H. now apply in_idx_range. Qed.

Definition argkey_ok (i : N) : bool :=
  good_key (argkey i) && good_key (argpathkey i)
  && match key_class (argkey i) with Ok (PKArg j) => (j =? i)%N | _ => false end
  && match key_class (argpathkey i) with Ok (PKArgPath j) => (j =? i)%N | _ => false end
  && match key_of (argkey i) with Some (KArg j) => (j =? i)%N | _ => false end
  && match key_of (argpathkey i) with Some (KArgPath j) => (j =? i)%N | _ => false end.
Lemma argkeys_ok : forallb argkey_ok idx_range = true.
Proof. vm_compute. reflexivity. Qed.

Lemma argkey_facts i : (i < 64)%N ->
  good_key (argkey i) = true /\ good_key (argpathkey i) = true /\
  key_class (argkey i) = Ok (PKArg i) /\ key_class (argpathkey i) = Ok (PKArgPath i) /\
  key_of (argkey i) = Some (KArg i) /\ key_of (argpathkey i) = Some (KArgPath i).
Proof.
  intros Hi. pose proof (forall_idx _ argkeys_ok i Hi) as H. unfold argkey_ok in H.
  repeat (apply andb_true_iff in H as [H ?]).
  repeat split; auto.
  - destruct (key_class (argkey i)) as [[]| |]; try discriminate. now apply N.eqb_eq in H3; subst.
  - destruct (key_class (argpathkey i)) as [[]| |]; try discriminate. now apply N.eqb_eq in H2; subst.
  - destruct (key_of (argkey i)) as [[]|]; try discriminate. now apply N.eqb_eq in H1; subst.
  - destruct (key_of (argpathkey i)) as [[]|]; try discriminate. now apply N.eqb_eq in H0; subst.
Qed.

(* ------------------------------------------------------------------ the parser on Display's components *)
Definition step_kv (acc : res merr rule) (kv : bytes * bytes) : res merr rule :=
  let* r := acc in let* o := op_of_pair (fst kv) (snd kv) in apply_op r o.

Lemma parse_step_compkv acc kv : good_key (fst kv) = true -> parse_step acc (compkv kv) = step_kv acc kv.
Proof.
  intros Hk. destruct acc as [r|e|p]; [|reflexivity|reflexivity]. unfold parse_step, step_kv, compkv. cbn [bind].
  rewrite split_component_comp by exact Hk. reflexivity.
Qed.

Lemma fold_parse_kvs l : Forall (fun kv => good_key (fst kv) = true) l ->
  forall acc, fold_left parse_step (map compkv l) acc = fold_left step_kv l acc.
Proof.
  induction 1 as [|kv l Hk Hl IH]; intros acc; [reflexivity|]. cbn [map fold_left].
  rewrite parse_step_compkv by exact Hk. apply IH.
Qed.

Lemma step_type acc t : step_kv (Ok acc) (B "type", type_str t) = Ok (set_type acc t).
Proof. destruct t; reflexivity. Qed.
Lemma step_sender acc b :
  match b with BUnique s => validate_unique s = true
             | BWellKnown s => validate_unique s = false /\ validate_well_known s = true end ->
  step_kv (Ok acc) (B "sender", bus_str b) = Ok (set_sender acc b).
Proof.
  intros H. change (step_kv (Ok acc) (B "sender", bus_str b)) with (let* x := mk_bus (bus_str b) in Ok (set_sender acc x)).
  unfold mk_bus. destruct b as [s|s]; cbn [bus_str].
  - now rewrite H.
  - destruct H as [H1 H2]. now rewrite H1, H2.
Qed.
Lemma step_interface acc s : validate_interface s = true -> step_kv (Ok acc) (B "interface", s) = Ok (set_interface acc s).
Proof.
  intros H. change (step_kv (Ok acc) (B "interface", s)) with (if validate_interface s then Ok (set_interface acc s) else Err ENames).
  now rewrite H.
Qed.
Lemma step_member acc s : validate_member s = true -> step_kv (Ok acc) (B "member", s) = Ok (set_member acc s).
Proof.
  intros H. change (step_kv (Ok acc) (B "member", s)) with (if validate_member s then Ok (set_member acc s) else Err ENames).
  now rewrite H.
Qed.
Lemma step_destination acc s : validate_unique s = true -> step_kv (Ok acc) (B "destination", s) = Ok (set_destination acc s).
Proof.
  intros H. change (step_kv (Ok acc) (B "destination", s)) with (if validate_unique s then Ok (set_destination acc s) else Err ENames).
  now rewrite H.
Qed.
Lemma step_path acc ps : validate_object_path (ps_str ps) = true -> step_kv (Ok acc) (ps_kv ps) = Ok (set_path acc ps).
Proof.
  intros H. destruct ps as [p|p]; cbn [ps_str ps_kv] in *.
  - change (step_kv (Ok acc) (B "path", p)) with (if validate_object_path p then Ok (set_path acc (PPath p)) else Err EVariant).
    now rewrite H.
  - change (step_kv (Ok acc) (B "path_namespace", p)) with
      (if validate_object_path p then Ok (set_path acc (PNamespace p)) else Err EVariant).
    now rewrite H.
Qed.
Lemma step_arg0ns acc s : validate_arg0ns s = true -> step_kv (Ok acc) (B "arg0namespace", s) = Ok (set_arg0ns acc s).
Proof.
  intros H. change (step_kv (Ok acc) (B "arg0namespace", s)) with
    (if validate_arg0ns s then Ok (set_arg0ns acc s) else Err EInvalidMatchRule).
  now rewrite H.
Qed.

Lemma step_arg acc i v : (i < 64)%N -> step_kv (Ok acc) (argkey i, v) = b_arg acc i v.
Proof.
  intros Hi. destruct (argkey_facts i Hi) as (_ & _ & H & _). unfold step_kv, op_of_pair. cbn [bind fst snd].
  rewrite H. reflexivity.
Qed.
Lemma step_arg_path acc i v : (i < 64)%N -> step_kv (Ok acc) (argpathkey i, v) = b_arg_path acc i v.
Proof.
  intros Hi. destruct (argkey_facts i Hi) as (_ & _ & _ & H & _). unfold step_kv, op_of_pair. cbn [bind fst snd].
  rewrite H. reflexivity.
Qed.

Lemma fold_args l : forall acc, Forall (fun ia => (fst ia < 64)%N) l -> sorted (r_args acc ++ l) ->
  fold_left step_kv (map (fun ia => (argkey (fst ia), snd ia)) l) (Ok acc) = Ok (set_args acc (r_args acc ++ l)).
Proof.
  induction l as [|[i v] l IH]; intros acc Hi Hs.
  - cbn. rewrite app_nil_r. destruct acc; reflexivity.
  - inversion Hi as [|? ? Hi1 Hi2]; subst. cbn [map fold_left fst snd] in *. rewrite step_arg by (cbn in Hi1; lia). assert (Hi64 : (i < 64)%N) by (cbn in Hi1; lia).
    unfold b_arg, MAX_ARGS. destruct (N.leb_spec 64 i); [lia|].
    rewrite ins_last by (apply (sorted_app_lt _ (i, v) l Hs)).
    rewrite IH; [|exact Hi2|].
    + cbn [r_args set_args]. rewrite <- app_assoc. reflexivity.
    + cbn [r_args set_args]. rewrite <- app_assoc. exact Hs.
Qed.
Lemma fold_arg_paths l : forall acc, Forall (fun ia => (fst ia < 64)%N) l ->
  Forall (fun ia => validate_object_path (snd ia) = true) l -> sorted (r_arg_paths acc ++ l) ->
  fold_left step_kv (map (fun ia => (argpathkey (fst ia), snd ia)) l) (Ok acc) = Ok (set_arg_paths acc (r_arg_paths acc ++ l)).
Proof.
  induction l as [|[i v] l IH]; intros acc Hi Hv Hs.
  - cbn. rewrite app_nil_r. destruct acc; reflexivity.
  - inversion Hi as [|? ? Hi1 Hi2]; subst. inversion Hv as [|? ? Hv1 Hv2]; subst.
    cbn [map fold_left fst snd] in *. rewrite step_arg_path by (cbn in Hi1; lia). assert (Hi64 : (i < 64)%N) by (cbn in Hi1; lia).
    unfold b_arg_path, MAX_ARGS. destruct (N.leb_spec 64 i); [lia|]. rewrite Hv1.
    rewrite ins_last by (apply (sorted_app_lt _ (i, v) l Hs)).
    rewrite IH; [|exact Hi2|exact Hv2|].
    + cbn [r_arg_paths set_arg_paths]. rewrite <- app_assoc. reflexivity.
    + cbn [r_arg_paths set_arg_paths]. rewrite <- app_assoc. exact Hs.
Qed.

Lemma fold_kvs r : wf r -> fold_left step_kv (kvs r) (Ok empty_rule) = Ok r.
Proof.
  destruct r as [ty sn ifc mb pa de ar ap ns]. intros [Hsn Hif Hmb Hpa Hde Has Hai Hps Hpi Hpv Hns]. cbn in * |-.
  unfold kvs. cbn [r_type r_sender r_interface r_member r_path r_destination r_args r_arg_paths r_arg0ns].
  destruct ty as [ty|], sn as [sn|], ifc as [ifc|], mb as [mb|], de as [de|], pa as [pa|], ns as [ns|];
    cbn [okv app fold_left];
    rewrite ?step_type; rewrite ?step_sender by exact Hsn; rewrite ?step_interface by exact Hif;
    rewrite ?step_member by exact Hmb; rewrite ?step_destination by exact Hde; rewrite ?step_path by exact Hpa;
    rewrite !fold_left_app;
    (rewrite fold_args; [|exact Hai|exact Has]);
    (rewrite fold_arg_paths; [|exact Hpi|exact Hpv|exact Hps]);
    cbn [fold_left]; rewrite ?step_arg0ns by exact Hns; reflexivity.
Qed.

(* ------------------------------------------------------------------ keys and values of a well-formed rule *)
Lemma Forall_okv {A} (P : bytes * bytes -> Prop) (o : option A) f :
  (forall a, o = Some a -> P (f a)) -> Forall P (okv o f).
Proof. destruct o; cbn; intros H; [constructor; [now apply H|constructor]|constructor]. Qed.

Lemma kvs_good r : wf r -> Forall (fun kv => good_key (fst kv) = true) (kvs r).
Proof.
  intros Hw. unfold kvs. repeat (apply Forall_app; split); try (apply Forall_okv; intros; reflexivity).
  - apply Forall_okv. intros [p|p] _; reflexivity.
  - apply Forall_map. eapply Forall_impl; [|exact (wf_args_idx r Hw)]. intros [i v] Hi. cbn in *. now apply argkey_facts.
  - apply Forall_map. eapply Forall_impl; [|exact (wf_paths_idx r Hw)]. intros [i v] Hi. cbn in *. now apply argkey_facts.
Qed.

Lemma chars_no_sep c s : (forall x, name_char x = true -> beq x c = false) -> forallb name_char s = true -> no_sep c s.
Proof.
  intros Hc H. unfold no_sep. apply Forall_forall. intros x Hx. apply Hc. rewrite forallb_forall in H. now apply H.
Qed.

Lemma has_byte_false c s : has_byte c s = false -> no_sep c s.
Proof.
  unfold has_byte, no_sep. intros H. apply Forall_forall. intros x Hx.
  destruct (beq x c) eqn:E; [|reflexivity]. exfalso.
  assert (existsb (fun y => beq y c) s = true) by (apply existsb_exists; eauto). congruence.
Qed.
Lemma args_free c l : existsb (fun ia : N * bytes => has_byte c (snd ia)) l = false -> Forall (fun ia => no_sep c (snd ia)) l.
Proof.
  induction l as [|a l IH]; cbn; intros H; [constructor|]. apply orb_false_iff in H as [H1 H2].
  constructor; [now apply has_byte_false|auto].
Qed.

Lemma kvs_values c r : wf r -> (forall x, name_char x = true -> beq x c = false) ->
  Forall (fun ia => no_sep c (snd ia)) (r_args r) -> Forall (fun kv => no_sep c (snd kv)) (kvs r).
Proof.
  intros Hw Hc Ha. destruct Hw as [Hsn Hif Hmb Hpa Hde _ _ _ _ Hpv Hns]. unfold kvs.
  repeat (apply Forall_app; split).
  - apply Forall_okv. intros t _. cbn. apply chars_no_sep; [exact Hc|apply type_str_chars].
  - apply Forall_okv. intros b Hb. rewrite Hb in Hsn. cbn. apply chars_no_sep; [exact Hc|].
    destruct b as [s|s]; cbn; [now apply unique_chars|now apply well_known_chars].
  - apply Forall_okv. intros s Hs. rewrite Hs in Hif. cbn. apply chars_no_sep; [exact Hc|now apply interface_chars].
  - apply Forall_okv. intros s Hs. rewrite Hs in Hmb. cbn. apply chars_no_sep; [exact Hc|now apply member_chars].
  - apply Forall_okv. intros s Hs. rewrite Hs in Hde. cbn. apply chars_no_sep; [exact Hc|now apply unique_chars].
  - apply Forall_okv. intros ps Hs. rewrite Hs in Hpa. apply chars_no_sep; [exact Hc|].
    destruct ps; cbn in *; now apply object_path_chars.
  - apply Forall_map. eapply Forall_impl; [|exact Ha]. intros [i v] H. exact H.
  - apply Forall_map. eapply Forall_impl; [|exact Hpv]. intros [i v] H. cbn in *. apply chars_no_sep; [exact Hc|now apply object_path_chars].
  - apply Forall_okv. intros s Hs. rewrite Hs in Hns. cbn. apply chars_no_sep; [exact Hc|now apply arg0ns_chars].
Qed.

Lemma comp_no_comma k v : good_key k = true -> no_sep comma v -> no_sep comma (comp k v).
Proof.
  intros Hk Hv. unfold comp, no_sep. apply Forall_app. split; [apply good_key_no; auto|].
  change (B "='" ++ v ++ [q]) with ("="%byte :: q :: v ++ [q]).
  constructor; [reflexivity|]. constructor; [reflexivity|]. apply Forall_app. split; [exact Hv|]. constructor; [reflexivity|constructor].
Qed.

Lemma join_comp_not_nil l : l <> [] -> join [comma] (map compkv l) <> [].
Proof.
  destruct l as [|[k v] l]; [contradiction|]. intros _ H. destruct l; cbn in H; unfold compkv, comp in H; cbn in H;
    apply app_eq_nil in H as [_ H]; discriminate H.
Qed.

Lemma kvs_nil_empty r : kvs r = [] -> r = empty_rule.
Proof.
  destruct r as [ty sn ifc mb pa de ar ap ns]. unfold kvs. cbn.
  destruct ty, sn, ifc, mb, pa, de, ns, ar, ap; cbn; intros H; try discriminate H; reflexivity.
Qed.

Lemma parse_nonempty s : s <> [] -> parse s = fold_left parse_step (split_on comma s) (Ok empty_rule).
Proof. destruct s; [contradiction|reflexivity]. Qed.

Lemma roundtrip r : wf r -> k_comma_value r = false -> parse (show r) = Ok r.
Proof.
  intros Hw Hc. unfold show. rewrite comps_kvs.
  destruct (kvs r) as [|kv l] eqn:Ekv.
  - apply kvs_nil_empty in Ekv. subst. reflexivity.
  - assert (Hne : kv :: l <> []) by discriminate. rewrite <- Ekv in *.
    assert (Hv : Forall (fun kv => no_sep comma (snd kv)) (kvs r)).
    { apply kvs_values; [exact Hw| |now apply args_free]. intros x Hx. now apply name_char_plain. }
    pose proof (kvs_good r Hw) as Hk.
    rewrite parse_nonempty by (now apply join_comp_not_nil).
    rewrite split_join.
    + rewrite fold_parse_kvs by exact Hk. now apply fold_kvs.
    + intros E. apply map_eq_nil in E. contradiction.
    + apply Forall_map. rewrite Forall_forall in *. intros kv0 Hin. apply comp_no_comma; auto.
Qed.

(* ------------------------------------------------------------------ what every successfully parsed rule satisfies *)
Definition op_cf (o : bop) : Prop :=
  match o with OArg _ s | OAddArg s => has_byte comma s = false | _ => True end.

Lemma ins_existsb (f : N * bytes -> bool) i v l : f (i, v) = false -> existsb f l = false -> existsb f (ins i v l) = false.
Proof.
  intros Hv. induction l as [|[j w] t IH]; cbn; intros H; [now rewrite Hv|].
  apply orb_false_iff in H as [H1 H2]. destruct (i <? j)%N; [cbn; now rewrite Hv, H1, H2|].
  destruct (i =? j)%N; cbn; [now rewrite Hv, H2|]. now rewrite H1, IH.
Qed.

Lemma apply_op_cf r o r' : k_comma_value r = false -> op_cf o -> apply_op r o = Ok r' -> k_comma_value r' = false.
Proof.
  unfold k_comma_value. intros Hr Ho H.
  destruct o; cbn in H; unfold b_arg, b_arg_path, mk_bus in H;
    repeat match type of H with
           | context [if ?c then _ else _] => destruct c
           end; cbn in H; inversion H; subst; cbn [r_args set_type set_sender set_interface set_member set_path
             set_destination set_args set_arg_paths set_arg0ns]; try exact Hr;
    (apply ins_existsb; [exact Ho|exact Hr]).
Qed.

Lemma split_on_no_sep sep l : Forall (no_sep sep) (split_on sep l).
Proof.
  induction l as [|c l IH]; [repeat constructor|]. rewrite split_on_cons. destruct (beq c sep) eqn:E.
  - constructor; [constructor|exact IH].
  - pose proof (split_on_nonempty sep l) as Hn. destruct (split_on sep l) as [|p ps]; [contradiction|].
    inversion IH; subst. constructor; [constructor; assumption|assumption].
Qed.

Lemma split_once_parts c l a b : split_once c l = Some (a, b) -> l = a ++ c :: b.
Proof.
  revert a b. induction l as [|x l IH]; intros a b H; cbn in H; [discriminate|].
  destruct (beq x c) eqn:E.
  - inversion H; subst. apply beq_eq in E. now subst.
  - destruct (split_once c l) as [[a' b']|]; [|discriminate]. inversion H; subst. cbn. f_equal. now apply IH.
Qed.
Lemma Forall_removelast {A} (P : A -> Prop) l : Forall P l -> Forall P (removelast l).
Proof. induction 1 as [|x l Hx Hl IH]; cbn; [constructor|]. destruct l; [constructor|]. constructor; assumption. Qed.
Lemma no_sep_has_byte c s : no_sep c s -> has_byte c s = false.
Proof. unfold has_byte. induction 1 as [|x s Hx Hs IH]; cbn; [reflexivity|]. now rewrite Hx, IH. Qed.

Lemma split_component_cf c k v : no_sep comma c -> split_component c = Ok (k, v) -> has_byte comma v = false.
Proof.
  unfold split_component. intros Hc H. destruct (split_once "=" c) as [[k0 v0]|] eqn:E; [|discriminate].
  destruct (lbeq k0 [] || _ || _ || _); [discriminate|]. inversion H; subst.
  apply split_once_parts in E. subst c. apply Forall_app in Hc as [_ Hc]. inversion Hc as [|? ? _ Hv]; subst.
  apply no_sep_has_byte. apply Forall_removelast. destruct v0; [constructor|]. cbn. now inversion Hv.
Qed.

Lemma op_of_pair_cf k v o : has_byte comma v = false -> op_of_pair k v = Ok o -> op_cf o.
Proof.
  intros Hv. unfold op_of_pair. destruct (key_class k) as [pk| |]; cbn [bind]; [|discriminate|discriminate].
  destruct pk; try (intros H; inversion H; subst; cbn; auto; fail).
  destruct (type_of_str v); intros H; inversion H; subst; exact I.
Qed.

Lemma parse_step_ok r0 c r1 : no_sep comma c -> parse_step (Ok r0) c = Ok r1 -> exists o, apply_op r0 o = Ok r1 /\ op_cf o.
Proof.
  intros Hc H. unfold parse_step in H. cbn [bind] in H.
  destruct (split_component c) as [[k v]| |] eqn:E1; cbn [bind fst snd] in H; try discriminate.
  destruct (op_of_pair k v) as [o| |] eqn:E2; cbn [bind] in H; try discriminate.
  exists o. split; [exact H|]. eapply op_of_pair_cf; [|exact E2]. eapply split_component_cf; eassumption.
Qed.

Lemma fold_parse_err comps e : fold_left parse_step comps (Err e) = Err e.
Proof. induction comps; [reflexivity|assumption]. Qed.
Lemma fold_parse_panic comps p : fold_left parse_step comps (Panic p) = Panic p.
Proof. induction comps; [reflexivity|assumption]. Qed.

Lemma fold_parse_inv comps : Forall (no_sep comma) comps -> forall r0 r,
  wf r0 -> k_comma_value r0 = false -> fold_left parse_step comps (Ok r0) = Ok r ->
  wf r /\ k_comma_value r = false.
Proof.
  induction 1 as [|c comps Hc Hcs IH]; intros r0 r Hw Hcf H.
  - cbn in H. inversion H; subst. split; [exact Hw|exact Hcf].
  - cbn [fold_left] in H. destruct (parse_step (Ok r0) c) as [r1|e|p] eqn:E.
    + destruct (parse_step_ok _ _ _ Hc E) as (o & Ho & Hocf).
      apply (IH r1 r); [eapply wf_apply_op; eassumption|eapply apply_op_cf; eassumption|exact H].
    + rewrite fold_parse_err in H. discriminate.
    + rewrite fold_parse_panic in H. discriminate.
Qed.

Lemma parse_inv s r : parse s = Ok r -> wf r /\ k_comma_value r = false.
Proof.
  intros H. destruct s as [|c s'].
  - cbn in H. inversion H; subst. split; [apply wf_empty|reflexivity].
  - rewrite parse_nonempty in H by discriminate.
    exact (fold_parse_inv _ (split_on_no_sep comma _) empty_rule r wf_empty eq_refl H).
Qed.

Lemma stable s r : parse s = Ok r -> parse (show r) = Ok r.
Proof. intros H. destruct (parse_inv s r H) as (H1 & H2). now apply roundtrip. Qed.

(* ------------------------------------------------------------------ the specification's reader on Display's output *)
Lemma key_char_tests c : key_char c = true ->
  beq c seq = false /\ beq c sq = false /\ beq c scomma = false /\ beq c bsl = false.
Proof.
  unfold key_char, seq, sq, scomma, bsl, comma, q. intros H. apply negb_true_iff in H.
  repeat (apply orb_false_iff in H as [H ?]). auto.
Qed.

Lemma rd_key k : forall rest kacc v done, forallb key_char k = true ->
  rd (k ++ rest) InKey kacc v done = rd rest InKey (rev k ++ kacc) v done.
Proof.
  induction k as [|c k IH]; intros rest kacc v done H; [reflexivity|]. cbn [forallb] in H.
  apply andb_true_iff in H as [Hc Hk]. destruct (key_char_tests c Hc) as (H1 & H2 & H3 & H4).
  cbn [app rd]. rewrite H1, H2, H3, H4. cbn [orb]. rewrite IH by exact Hk. cbn [rev]. now rewrite <- app_assoc.
Qed.

Lemma rd_quoted v : forall rest k vacc done, no_sep sq v ->
  rd (v ++ rest) InQuote k vacc done = rd rest InQuote k (rev v ++ vacc) done.
Proof.
  induction v as [|c v IH]; intros rest k vacc done H; [reflexivity|]. inversion H as [|? ? Hc Hv]; subst.
  cbn [app rd]. rewrite Hc. rewrite IH by exact Hv. cbn [rev]. now rewrite <- app_assoc.
Qed.

Lemma rd_comp k v rest done : good_key k = true -> no_sep sq v ->
  rd (comp k v ++ rest) InKey [] [] done = rd rest InValue (rev k) (rev v) done.
Proof.
  intros Hk Hv. unfold good_key in Hk. apply andb_true_iff in Hk as [Hne Hk].
  unfold comp. rewrite <- app_assoc. rewrite rd_key by exact Hk. rewrite app_nil_r.
  change ((B "='" ++ v ++ [q]) ++ rest) with (seq :: sq :: (v ++ [q]) ++ rest).
  cbn [rd]. unfold seq at 1. rewrite beq_refl.
  destruct (rev k) eqn:E.
  { destruct k; [discriminate Hne|]. cbn in E. destruct (rev k); discriminate E. }
  rewrite <- E. cbn [rd]. unfold sq at 1. rewrite beq_refl. rewrite <- app_assoc. rewrite rd_quoted by exact Hv.
  cbn [app rd]. unfold q, sq. rewrite beq_refl. now rewrite app_nil_r.
Qed.

Lemma rd_join l : forall done, l <> [] ->
  Forall (fun kv => good_key (fst kv) = true) l -> Forall (fun kv => no_sep sq (snd kv)) l ->
  rd (join [comma] (map compkv l)) InKey [] [] done = Some (rev done ++ l).
Proof.
  induction l as [|[k v] l IH]; intros done Hn Hk Hv; [contradiction|].
  inversion Hk as [|? ? Hk1 Hk2]; subst. inversion Hv as [|? ? Hv1 Hv2]; subst. cbn [fst snd] in *.
  destruct l as [|kv2 l].
  - cbn [map join]. unfold compkv. cbn [fst snd]. rewrite <- (app_nil_r (comp k v)). rewrite rd_comp by assumption.
    cbn [rd]. rewrite !rev_involutive. reflexivity.
  - change (join [comma] (map compkv ((k, v) :: kv2 :: l))) with (comp k v ++ comma :: join [comma] (map compkv (kv2 :: l))).
    rewrite rd_comp by assumption. cbn [rd]. unfold sq, scomma, comma. cbn [beq]. 
    change (beq "," "'") with false. change (beq "," ",") with true. cbn iota.
    rewrite !rev_involutive. rewrite IH; [|discriminate|exact Hk2|exact Hv2]. cbn [rev]. now rewrite <- app_assoc.
Qed.

Lemma spec_pairs_join l :
  Forall (fun kv => good_key (fst kv) = true) l -> Forall (fun kv => no_sep sq (snd kv)) l ->
  spec_pairs (join [comma] (map compkv l)) = Some l.
Proof.
  intros Hk Hv. destruct l as [|kv l]; [reflexivity|].
  assert (Hn : kv :: l <> []) by discriminate.
  pose proof (join_comp_not_nil _ Hn) as Hj. unfold spec_pairs.
  destruct (join [comma] (map compkv (kv :: l))) eqn:E; [contradiction|]. rewrite <- E.
  now rewrite rd_join.
Qed.

(* interpretation of the keys *)
Lemma interp_app a : forall b,
  interp (a ++ b) = match interp a, interp b with Some x, Some y => Some (x ++ y) | _, _ => None end.
Proof.
  induction a as [|[k v] a IH]; intros b.
  - cbn. destruct (interp b); reflexivity.
  - cbn [app interp]. rewrite IH. destruct (key_of k) as [sk|]; [|reflexivity].
    destruct (interp a), (interp b); destruct sk; try reflexivity; destruct (is_type_name v); reflexivity.
Qed.

Lemma interp_args l : Forall (fun ia : N * bytes => (fst ia < 64)%N) l ->
  interp (map (fun ia => (argkey (fst ia), snd ia)) l) = Some (map (fun ia => (KArg (fst ia), snd ia)) l).
Proof.
  induction 1 as [|[i v] l Hi Hl IH]; [reflexivity|]. cbn [map interp fst snd] in *.
  destruct (argkey_facts i Hi) as (_ & _ & _ & _ & H & _). now rewrite H, IH.
Qed.
Lemma interp_arg_paths l : Forall (fun ia : N * bytes => (fst ia < 64)%N) l ->
  interp (map (fun ia => (argpathkey (fst ia), snd ia)) l) = Some (map (fun ia => (KArgPath (fst ia), snd ia)) l).
Proof.
  induction 1 as [|[i v] l Hi Hl IH]; [reflexivity|]. cbn [map interp fst snd] in *.
  destruct (argkey_facts i Hi) as (_ & _ & _ & _ & _ & H). now rewrite H, IH.
Qed.

Lemma interp_kvs r : wf r -> interp (kvs r) = Some (pairs_of r).
Proof.
  intros Hw. unfold kvs, pairs_of. rewrite !interp_app.
  rewrite (interp_args _ (wf_args_idx r Hw)), (interp_arg_paths _ (wf_paths_idx r Hw)).
  destruct (r_type r) as [[]|], (r_sender r), (r_interface r), (r_member r), (r_destination r), (r_path r) as [[]|], (r_arg0ns r);
    reflexivity.
Qed.

Lemma spec_reads r : wf r -> k_apostrophe_value r = false -> spec_parse (show r) = Some (pairs_of r).
Proof.
  intros Hw Ha. unfold spec_parse, show. rewrite comps_kvs. rewrite spec_pairs_join.
  - now apply interp_kvs.
  - now apply kvs_good.
  - apply kvs_values; [exact Hw| |now apply args_free]. intros x Hx. now apply name_char_plain.
Qed.

(* ------------------------------------------------------------------ pairs_of loses nothing: the record can be rebuilt from it *)
Definition set_pair (r : rule) (p : skey * bytes) : rule :=
  let v := snd p in
  match fst p with
  | KType => match type_of_str v with Some t => set_type r t | None => r end
  | KSender => set_sender r (if validate_unique v then BUnique v else BWellKnown v)
  | KInterface => set_interface r v
  | KMember => set_member r v
  | KPath => set_path r (PPath v)
  | KPathNamespace => set_path r (PNamespace v)
  | KDestination => set_destination r v
  | KArg i => set_args r (r_args r ++ [(i, v)])
  | KArgPath i => set_arg_paths r (r_arg_paths r ++ [(i, v)])
  | KArg0Namespace => set_arg0ns r v
  end.
Definition rule_of_pairs (l : list (skey * bytes)) : rule := fold_left set_pair l empty_rule.

Lemma fold_set_args l : forall acc,
  fold_left set_pair (map (fun ia : N * bytes => (KArg (fst ia), snd ia)) l) acc = set_args acc (r_args acc ++ l).
Proof.
  induction l as [|[i v] l IH]; intros acc; cbn [map fold_left].
  - rewrite app_nil_r. destruct acc; reflexivity.
  - rewrite IH. unfold set_pair. cbn [fst snd r_args set_args]. now rewrite <- app_assoc.
Qed.
Lemma fold_set_arg_paths l : forall acc,
  fold_left set_pair (map (fun ia : N * bytes => (KArgPath (fst ia), snd ia)) l) acc = set_arg_paths acc (r_arg_paths acc ++ l).
Proof.
  induction l as [|[i v] l IH]; intros acc; cbn [map fold_left].
  - rewrite app_nil_r. destruct acc; reflexivity.
  - rewrite IH. unfold set_pair. cbn [fst snd r_arg_paths set_arg_paths]. now rewrite <- app_assoc.
Qed.

Lemma rule_of_pairs_of r : wf r -> rule_of_pairs (pairs_of r) = r.
Proof.
  destruct r as [ty sn ifc mb pa de ar ap ns]. intros [Hsn _ _ _ _ _ _ _ _ _ _]. cbn in Hsn.
  unfold rule_of_pairs, pairs_of. cbn [r_type r_sender r_interface r_member r_path r_destination r_args r_arg_paths r_arg0ns].
  assert (Hs : forall acc b, match b with BUnique s => validate_unique s = true
                                     | BWellKnown s => validate_unique s = false /\ validate_well_known s = true end ->
                             set_pair acc (KSender, bus_str b) = set_sender acc b).
  { intros acc [s|s] H; unfold set_pair; cbn [fst snd bus_str]; [now rewrite H|destruct H as [H _]; now rewrite H]. }
  destruct ty as [[]|], sn as [sn|], ifc, mb, de, pa as [[]|], ns;
    cbn [opt_pair app fold_left]; rewrite ?Hs by exact Hsn; rewrite !fold_left_app, fold_set_args, fold_set_arg_paths; reflexivity.
Qed.

Lemma pairs_of_inj r1 r2 : wf r1 -> wf r2 -> pairs_of r1 = pairs_of r2 -> r1 = r2.
Proof. intros H1 H2 E. rewrite <- (rule_of_pairs_of r1 H1), <- (rule_of_pairs_of r2 H2). now rewrite E. Qed.

(* ------------------------------------------------------------------ the parser never panics *)
Lemma find_path_ge3 key i : starts_with (B "arg") key = true -> find_sub (B "path") key = Some i -> 3 <= i.
Proof.
  intros H. apply C10.Proofs.starts_with_app in H. remember (skipn (length (B "arg")) key) as rest. clear Heqrest.
  subst key. change (B "arg" ++ rest) with ("a"%byte :: "r"%byte :: "g"%byte :: rest).
  unfold find_sub at 1. change (starts_with (B "path") ("a"%byte :: "r"%byte :: "g"%byte :: rest)) with false. cbn iota. fold find_sub.
  unfold find_sub at 1. change (starts_with (B "path") ("r"%byte :: "g"%byte :: rest)) with false. cbn iota. fold find_sub.
  unfold find_sub at 1. change (starts_with (B "path") ("g"%byte :: rest)) with false. cbn iota. fold find_sub.
  destruct (find_sub (B "path") rest); cbn; intros E; inversion E; lia.
Qed.

Lemma key_class_no_panic key p : key_class key <> Panic p.
Proof.
  unfold key_class.
  repeat match goal with |- context [if lbeq ?a ?b then _ else _] => destruct (lbeq a b); [discriminate|] end.
  destruct (starts_with (B "arg") key) eqn:Es; [|discriminate].
  destruct (find_sub (B "path") key) as [i|] eqn:Ef.
  - pose proof (find_path_ge3 key i Es Ef) as Hi. destruct (Nat.ltb_spec i 3); [lia|].
    destruct (parse_u8 _); discriminate.
  - destruct (parse_u8 _); discriminate.
Qed.

Lemma apply_op_no_panic r o p : apply_op r o <> Panic p.
Proof.
  destruct o; cbn; unfold b_arg, b_arg_path, mk_bus;
    repeat match goal with |- context [if ?c then _ else _] => destruct c end; cbn; discriminate.
Qed.

Lemma parse_step_no_panic acc c p : (forall p', acc <> Panic p') -> parse_step acc c <> Panic p.
Proof.
  intros Ha. destruct acc as [r|e|p0]; [|discriminate|exfalso; now apply (Ha p0)].
  unfold parse_step. cbn [bind]. unfold split_component.
  destruct (split_once "=" c) as [[k v]|]; [|discriminate].
  destruct (lbeq k [] || _ || _ || _); [discriminate|]. cbn [bind fst snd]. unfold op_of_pair.
  destruct (key_class k) as [pk|e|p1] eqn:Ek; cbn [bind]; [|discriminate|exfalso; now apply (key_class_no_panic k p1)].
  destruct pk; cbn [bind]; try apply apply_op_no_panic.
  destruct (type_of_str _); cbn [bind]; [apply apply_op_no_panic|discriminate].
Qed.

Lemma parse_no_panic s p : parse s <> Panic p.
Proof.
  destruct s as [|c0 s0]; [discriminate|]. rewrite parse_nonempty by discriminate.
  generalize (split_on comma (c0 :: s0)). intros comps.
  assert (H : forall acc, (forall p', acc <> Panic p') -> forall p', fold_left parse_step comps acc <> Panic p').
  { induction comps as [|c comps IH]; intros acc Ha p'; cbn; [apply Ha|]. apply IH. intros p''. now apply parse_step_no_panic. }
  apply H. discriminate.
Qed.

(* ------------------------------------------------------------------ the full statement, refutations, examples *)
Definition C22_full_statement : Prop :=
  forall ops r, build ops = Ok r -> parse (show r) = Ok r /\ spec_parse (show r) = Some (pairs_of r).

(* repaired by fix 235b9dce: the rule without keys is printed as "" and read back *)
Example empty_rule_fixed : build [] = Ok empty_rule /\ show empty_rule = [] /\ parse (show empty_rule) = Ok empty_rule
  /\ spec_parse (show empty_rule) = Some (pairs_of empty_rule) /\ known_C22 empty_rule = false.
Proof. repeat split. Qed.

Lemma comma_value_refuted : exists r, build [OArg 0 (B "a,b")] = Ok r /\ show r = B "arg0='a,b'" /\
  parse (show r) = Err EInvalidMatchRule /\ spec_parse (show r) = Some (pairs_of r).
Proof. eexists. split; [reflexivity|]. repeat split. Qed.

(* a comma can even smuggle in another key: the string parses, to a different rule *)
Lemma comma_value_other_rule : exists r r2, build [OArg 0 (B "x',arg1='y")] = Ok r /\ build [OArg 0 (B "x"); OArg 1 (B "y")] = Ok r2 /\
  parse (show r) = Ok r2 /\ r2 <> r.
Proof. eexists. eexists. split; [reflexivity|]. split; [reflexivity|]. split; [vm_compute; reflexivity|discriminate]. Qed.

Lemma apostrophe_value_refuted : exists r, build [OArg 0 (B "a'b")] = Ok r /\ show r = B "arg0='a'b'" /\
  parse (show r) = Ok r /\ spec_parse (show r) = None.
Proof. eexists. split; [reflexivity|]. repeat split. Qed.

(* ... or read as a different rule: arg0 = "''" is printed as arg0='''' which the specification reads as the empty string *)
Lemma apostrophe_value_other_rule : exists r, build [OArg 0 (B "''")] = Ok r /\
  spec_parse (show r) = Some [(KArg 0, [])] /\ pairs_of r = [(KArg 0, B "''")].
Proof. eexists. split; [reflexivity|]. split; reflexivity. Qed.

Lemma full_refuted : ~ C22_full_statement.
Proof.
  intros H. destruct comma_value_refuted as (r & Hb & _ & Hp & _). destruct (H _ r Hb) as [H1 _]. rewrite Hp in H1. discriminate H1.
Qed.

(* the specification's own two spellings of one rule (its example) are read alike *)
Example spec_example :
  spec_parse (B "arg0=''\''',arg1='\',arg2=',',arg3='\\'") = Some [(KArg 0, B "'"); (KArg 1, B "\"); (KArg 2, B ","); (KArg 3, B "\\")]
  /\ spec_parse (B "arg0=\',arg1=\,arg2=',',arg3=\\") = Some [(KArg 0, B "'"); (KArg 1, B "\"); (KArg 2, B ","); (KArg 3, B "\\")].
Proof. split; reflexivity. Qed.

Definition ex_ops22 : list bop :=
  [OType Signal; OSender (B "org.zbus.Srv"); OInterface (B "a.b"); OMember (B "M"); OPath (B "/x"); OPathNs (B "/a/b"); ODest (B ":1.9");
   OArg 3 (B "a\b=c"); OArg 0 (B ""); OArg 3 (B "é"); OAddArg (B "z"); OArgPath 2 (B "/p/q"); OAddArgPath (B "/"); OArg0ns (B "org.zbus")].
Example ex_roundtrip : exists r, build ex_ops22 = Ok r /\ known_C22 r = false /\
  show r = B "type='signal',sender='org.zbus.Srv',interface='a.b',member='M',destination=':1.9',path_namespace='/a/b',arg0='',arg2='z',arg3='é',arg1path='/',arg2path='/p/q',arg0namespace='org.zbus'"
  /\ parse (show r) = Ok r /\ spec_parse (show r) = Some (pairs_of r).
Proof. eexists. split; [vm_compute; reflexivity|]. split; [reflexivity|]. split; [reflexivity|]. split; vm_compute; reflexivity. Qed.
Example ex_stable : exists r, parse (B "arg007='x',path='/a',arg+5path='/b',arg5pathological='/c',path_namespace='/d',sender='a.b',sender=':1.2'") = Ok r /\
  show r = B "sender=':1.2',path_namespace='/d',arg7='x',arg5path='/c'" /\ parse (show r) = Ok r.
Proof. eexists. split; [vm_compute; reflexivity|]. split; vm_compute; reflexivity. Qed.

(* ------------------------------------------------------------------ statements about rules built through the API *)
Lemma roundtrip_built ops r : build ops = Ok r -> k_comma_value r = false -> parse (show r) = Ok r.
Proof. intros H. apply roundtrip. eapply wf_build; eassumption. Qed.
Lemma spec_reads_built ops r : build ops = Ok r -> k_apostrophe_value r = false -> spec_parse (show r) = Some (pairs_of r).
Proof. intros H. apply spec_reads. eapply wf_build; eassumption. Qed.
Lemma partial_built ops r : build ops = Ok r -> known_C22 r = false ->
  parse (show r) = Ok r /\ spec_parse (show r) = Some (pairs_of r).
Proof.
  intros H Hk. unfold known_C22 in Hk. apply orb_false_iff in Hk as [H1 H2].
  split; [eapply roundtrip_built|eapply spec_reads_built]; eassumption.
Qed.
Lemma pairs_of_inj_built ops1 ops2 r1 r2 : build ops1 = Ok r1 -> build ops2 = Ok r2 -> pairs_of r1 = pairs_of r2 -> r1 = r2.
Proof. intros H1 H2. apply pairs_of_inj; eapply wf_build; eassumption. Qed.
