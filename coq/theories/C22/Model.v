(* C22/Model.v — executable mirror of `impl Display for MatchRule` (mod.rs:342-388) and
   `impl TryFrom<&str> for MatchRule` (mod.rs:415-471) as they are.  The rule record and the builder
   operations the parser calls are in C21/Model.v.  No proofs here. *)
From ZV Require Import Base.Bytes Base.Res C21.Model.

Definition q : byte := "'"%byte.
Definition comma : byte := ","%byte.

(* ------------------------------------------------------------------ Display *)
Definition type_str (t : mtype) : bytes :=
  match t with MError => B "error" | MethodCall => B "method_call" | MethodReturn => B "method_return" | Signal => B "signal" end.

(* write_match_rule_string_component without the comma: key='value' *)
Definition comp (key value : bytes) : bytes := key ++ B "='" ++ value ++ [q].

Definition opt_comp {A} (o : option A) (f : A -> bytes) : list bytes :=
  match o with Some a => [f a] | None => [] end.

(* the components in the order Display writes them; write_comma puts a ',' before all but the first *)
Definition comps (r : rule) : list bytes :=
  opt_comp (r_type r) (fun t => comp (B "type") (type_str t))
  ++ opt_comp (r_sender r) (fun s => comp (B "sender") (bus_str s))
  ++ opt_comp (r_interface r) (comp (B "interface"))
  ++ opt_comp (r_member r) (comp (B "member"))
  ++ opt_comp (r_destination r) (comp (B "destination"))
  ++ opt_comp (r_path r) (fun ps => match ps with PPath p => comp (B "path") p | PNamespace p => comp (B "path_namespace") p end)
  ++ map (fun ia => comp (B "arg" ++ dec_of_N (fst ia)) (snd ia)) (r_args r)
  ++ map (fun ia => comp (B "arg" ++ dec_of_N (fst ia) ++ B "path") (snd ia)) (r_arg_paths r)
  ++ opt_comp (r_arg0ns r) (comp (B "arg0namespace")).

Definition show (r : rule) : bytes := join [comma] (comps r).

(* ------------------------------------------------------------------ TryFrom<&str> *)
(* u8::from_str: optional '+', at least one digit, only digits, value <= 255 *)
Definition parse_u8 (s : bytes) : option N :=
  let digits := match s with c :: r => if beq c "+" then r else s | [] => s end in
  match N_of_dec digits with
  | Some n => if (n <=? 255)%N then Some n else None
  | None => None
  end.

(* str::find(pat): byte index of the first occurrence *)
Fixpoint find_sub (pat l : bytes) : option nat :=
  if starts_with pat l then Some 0
  else match l with
       | [] => None
       | _ :: r => option_map S (find_sub pat r)
       end.

Definition last_is_quote (v : bytes) : bool := match rev v with c :: _ => beq c q | [] => false end.
Definition first_is_quote (v : bytes) : bool := match v with c :: _ => beq c q | [] => false end.

Definition type_of_str (v : bytes) : option mtype :=
  if lbeq v (B "error") then Some MError
  else if lbeq v (B "method_call") then Some MethodCall
  else if lbeq v (B "method_return") then Some MethodReturn
  else if lbeq v (B "signal") then Some Signal
  else None.

(* mod.rs:434-466 `match key { ... }`: the key decides the builder method; only `type` looks at the value
   before calling the builder. *)
Inductive pkey := PKType | PKSender | PKInterface | PKMember | PKPath | PKPathNs | PKDest | PKArg0ns
                | PKArg (idx : N) | PKArgPath (idx : N).

Definition key_class (key : bytes) : res merr pkey :=
  if lbeq key (B "type") then Ok PKType
  else if lbeq key (B "sender") then Ok PKSender
  else if lbeq key (B "interface") then Ok PKInterface
  else if lbeq key (B "member") then Ok PKMember
  else if lbeq key (B "path") then Ok PKPath
  else if lbeq key (B "path_namespace") then Ok PKPathNs
  else if lbeq key (B "destination") then Ok PKDest
  else if lbeq key (B "arg0namespace") then Ok PKArg0ns
  else if starts_with (B "arg") key then
    match find_sub (B "path") key with
    | Some trailing_idx =>
        (* key[3..trailing_idx] panics if trailing_idx < 3; C22/Proofs.v (find_path_ge3) shows that "path"
           cannot start before index 3 of a key starting with "arg" *)
        if Nat.ltb trailing_idx 3 then Panic PSlice
        else match parse_u8 (firstn (trailing_idx - 3) (skipn 3 key)) with
             | Some idx => Ok (PKArgPath idx)
             | None => Err EInvalidMatchRule
             end
    | None =>
        match parse_u8 (skipn 3 key) with
        | Some idx => Ok (PKArg idx)
        | None => Err EInvalidMatchRule
        end
    end
  else Err EInvalidMatchRule.

Definition op_of_pair (key value : bytes) : res merr bop :=
  let* k := key_class key in
  match k with
  | PKType => match type_of_str value with Some t => Ok (OType t) | None => Err EInvalidMatchRule end
  | PKSender => Ok (OSender value)
  | PKInterface => Ok (OInterface value)
  | PKMember => Ok (OMember value)
  | PKPath => Ok (OPath value)
  | PKPathNs => Ok (OPathNs value)
  | PKDest => Ok (ODest value)
  | PKArg0ns => Ok (OArg0ns value)
  | PKArg idx => Ok (OArg idx value)
  | PKArgPath idx => Ok (OArgPath idx value)
  end.

(* mod.rs:425-433: one component to (key, unquoted value) *)
Definition split_component (c : bytes) : res merr (bytes * bytes) :=
  match split_once "=" c with
  | None => Err EInvalidMatchRule
  | Some (key, value) =>
      if lbeq key [] || Nat.ltb (List.length value) 2 || negb (first_is_quote value) || negb (last_is_quote value)
      then Err EInvalidMatchRule
      else Ok (key, removelast (tl value))
  end.

Definition parse_step (acc : res merr rule) (c : bytes) : res merr rule :=
  let* r := acc in
  let* kv := split_component c in
  let* o := op_of_pair (fst kv) (snd kv) in
  apply_op r o.

(* mod.rs:437-442 (fix 235b9dce): the empty string is the rule without any key.  Otherwise `s.split(',')`
   always yields at least one component, so the peek test at mod.rs:444 never fires. *)
Definition parse (s : bytes) : res merr rule :=
  match s with
  | [] => Ok empty_rule
  | _ => fold_left parse_step (split_on comma s) (Ok empty_rule)
  end.

(* rule equality as derived PartialEq (used by the line driver) *)
Definition opt_eqb {A} (e : A -> A -> bool) (a b : option A) : bool :=
  match a, b with Some x, Some y => e x y | None, None => true | _, _ => false end.
Definition bus_eqb (a b : busname) : bool :=
  match a, b with BUnique x, BUnique y | BWellKnown x, BWellKnown y => lbeq x y | _, _ => false end.
Definition ps_eqb (a b : pathspec) : bool :=
  match a, b with PPath x, PPath y | PNamespace x, PNamespace y => lbeq x y | _, _ => false end.
Fixpoint al_eqb (a b : list (N * bytes)) : bool :=
  match a, b with
  | [], [] => true
  | (i, x) :: a', (j, y) :: b' => (i =? j)%N && lbeq x y && al_eqb a' b'
  | _, _ => false
  end.
Definition rule_eqb (a b : rule) : bool :=
  opt_eqb mtype_eqb (r_type a) (r_type b) && opt_eqb bus_eqb (r_sender a) (r_sender b)
  && opt_eqb lbeq (r_interface a) (r_interface b) && opt_eqb lbeq (r_member a) (r_member b)
  && opt_eqb ps_eqb (r_path a) (r_path b) && opt_eqb lbeq (r_destination a) (r_destination b)
  && al_eqb (r_args a) (r_args b) && al_eqb (r_arg_paths a) (r_arg_paths b) && opt_eqb lbeq (r_arg0ns a) (r_arg0ns b).
