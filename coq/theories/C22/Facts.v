(* C22/Facts.v — invariants of the builder (well-formed rules), sorted insertion, the alphabet of validated names. *)
From ZV Require Import Base.Bytes Base.Res Base.WinnowFacts C10.Model C10.Spec C10.Proofs C21.Model C22.Model C22.Spec.
From Coq Require Import Lia Sorted.

(* ------------------------------------------------------------------ sorted insertion *)
Definition lt_idx (a b : N * bytes) : Prop := (fst a < fst b)%N.
Definition sorted (l : list (N * bytes)) : Prop := StronglySorted lt_idx l.

Lemma ins_Forall (P : N * bytes -> Prop) i v l : P (i, v) -> Forall P l -> Forall P (ins i v l).
Proof.
  intros Hp H. induction H as [|[j w] t Hj Ht IH]; cbn; [auto|].
  destruct (i <? j)%N; [auto|]. destruct (i =? j)%N; auto.
Qed.

Lemma ins_sorted i v l : sorted l -> sorted (ins i v l).
Proof.
  unfold sorted. induction 1 as [|[j w] t Hs IH Hf]; cbn.
  - constructor; constructor.
  - destruct (N.ltb_spec i j) as [Hlt|Hge].
    + constructor; [constructor; assumption|]. constructor; [exact Hlt|].
      eapply Forall_impl; [|exact Hf]. intros [k x]. unfold lt_idx. cbn. lia.
    + destruct (N.eqb_spec i j) as [He|Hne].
      * subst j. constructor; [assumption|]. eapply Forall_impl; [|exact Hf]. intros [k x]. unfold lt_idx. cbn. auto.
      * constructor; [exact IH|]. apply ins_Forall; [unfold lt_idx; cbn; lia|exact Hf].
Qed.

Lemma ins_last i v l : Forall (fun x => (fst x < i)%N) l -> ins i v l = l ++ [(i, v)].
Proof.
  induction 1 as [|[j w] t Hj Ht IH]; [reflexivity|]. cbn in *.
  destruct (N.ltb_spec i j); [lia|]. destruct (N.eqb_spec i j); [lia|]. now rewrite IH.
Qed.

Lemma sorted_app_lt l1 x l2 : sorted (l1 ++ x :: l2) -> Forall (fun y => (fst y < fst x)%N) l1.
Proof.
  unfold sorted. induction l1 as [|a l1 IH]; intros H; [constructor|]. cbn in H.
  apply StronglySorted_inv in H as [H1 H2]. constructor; [|auto].
  rewrite Forall_forall in H2. apply (H2 x). apply in_or_app. right. now left.
Qed.
Lemma sorted_app_l l1 l2 : sorted (l1 ++ l2) -> sorted l1.
Proof.
  unfold sorted. induction l1 as [|a l1 IH]; intros H; [constructor|]. cbn in H.
  apply StronglySorted_inv in H as [H1 H2]. constructor; [auto|].
  apply Forall_app in H2. tauto.
Qed.

(* ------------------------------------------------------------------ rules the builder can produce *)
Definition ps_str (ps : pathspec) : bytes := match ps with PPath p | PNamespace p => p end.

Record wf (r : rule) : Prop := {
  wf_sender : match r_sender r with
              | Some (BUnique s) => validate_unique s = true
              | Some (BWellKnown s) => validate_unique s = false /\ validate_well_known s = true
              | None => True
              end;
  wf_interface : match r_interface r with Some s => validate_interface s = true | None => True end;
  wf_member : match r_member r with Some s => validate_member s = true | None => True end;
  wf_path : match r_path r with Some ps => validate_object_path (ps_str ps) = true | None => True end;
  wf_destination : match r_destination r with Some s => validate_unique s = true | None => True end;
  wf_args_sorted : sorted (r_args r);
  wf_args_idx : Forall (fun ia => (fst ia < 64)%N) (r_args r);
  wf_paths_sorted : sorted (r_arg_paths r);
  wf_paths_idx : Forall (fun ia => (fst ia < 64)%N) (r_arg_paths r);
  wf_paths_valid : Forall (fun ia => validate_object_path (snd ia) = true) (r_arg_paths r);
  wf_arg0ns : match r_arg0ns r with Some s => validate_arg0ns s = true | None => True end }.

Lemma wf_empty : wf empty_rule.
Proof. constructor; cbn; auto; constructor. Qed.

Lemma wf_b_arg r i s r' : wf r -> b_arg r i s = Ok r' -> wf r'.
Proof.
  intros [] H. unfold b_arg, MAX_ARGS in H. destruct (N.leb_spec 64 i); [discriminate|]. inversion H; subst.
  constructor; cbn; auto; [now apply ins_sorted|]. apply ins_Forall; [cbn; lia|assumption].
Qed.
Lemma wf_b_arg_path r i s r' : wf r -> b_arg_path r i s = Ok r' -> wf r'.
Proof.
  intros [] H. unfold b_arg_path, MAX_ARGS in H. destruct (N.leb_spec 64 i); [discriminate|].
  destruct (validate_object_path s) eqn:E; [|discriminate]. inversion H; subst.
  constructor; cbn; auto; [now apply ins_sorted| |]; (apply ins_Forall; [cbn; auto; lia|assumption]).
Qed.

Lemma wf_apply_op r o r' : wf r -> apply_op r o = Ok r' -> wf r'.
Proof.
  intros Hw H. destruct o; cbn in H;
    try (eapply wf_b_arg; eassumption); try (eapply wf_b_arg_path; eassumption).
  - inversion H; subst. destruct Hw. constructor; cbn; auto.
  - unfold mk_bus in H. destruct (validate_unique s) eqn:E1; [|destruct (validate_well_known s) eqn:E2];
      cbn in H; inversion H; subst; destruct Hw; constructor; cbn; auto.
  - destruct (validate_interface s) eqn:E; inversion H; subst. destruct Hw. constructor; cbn; auto.
  - destruct (validate_member s) eqn:E; inversion H; subst. destruct Hw. constructor; cbn; auto.
  - destruct (validate_object_path s) eqn:E; inversion H; subst. destruct Hw. constructor; cbn; auto.
  - destruct (validate_object_path s) eqn:E; inversion H; subst. destruct Hw. constructor; cbn; auto.
  - destruct (validate_unique s) eqn:E; inversion H; subst. destruct Hw. constructor; cbn; auto.
  - destruct (validate_arg0ns s) eqn:E; inversion H; subst. destruct Hw. constructor; cbn; auto.
Qed.

Lemma build_from_app r ops1 ops2 :
  build_from r (ops1 ++ ops2) = let* r1 := build_from r ops1 in build_from r1 ops2.
Proof.
  unfold build_from. rewrite fold_left_app.
  destruct (fold_left _ ops1 (Ok r)) as [r1|e|p]; [reflexivity| |];
    (induction ops2 as [|o ops2 IH]; [reflexivity|exact IH]).
Qed.
Lemma build_from_err {ops} e : fold_left (fun acc o => let* r := acc in apply_op r o) ops (Err e) = Err e.
Proof. induction ops; [reflexivity|assumption]. Qed.

Lemma wf_build_from ops : forall r r', wf r -> build_from r ops = Ok r' -> wf r'.
Proof.
  unfold build_from. induction ops as [|o ops IH]; intros r r' Hw H; cbn in H.
  - now inversion H; subst.
  - destruct (apply_op r o) as [r1|e|p] eqn:E.
    + eapply IH; [|exact H]. eapply wf_apply_op; eassumption.
    + exfalso. clear -H. induction ops; cbn in H; [discriminate|auto].
    + exfalso. clear -H. induction ops; cbn in H; [discriminate|auto].
Qed.
Lemma wf_build ops r : build ops = Ok r -> wf r.
Proof. apply wf_build_from, wf_empty. Qed.

(* ------------------------------------------------------------------ the alphabet of validated strings *)
Definition name_char (c : byte) : bool :=
  is_alphanum c || beq c "_" || beq c "-" || beq c "." || beq c ":" || beq c "/".

Lemma name_char_plain c : name_char c = true ->
  beq c comma = false /\ beq c q = false /\ beq c "=" = false /\ beq c "\" = false.
Proof. destruct c; vm_compute; intros H; solve [discriminate H | repeat split]. Qed.

Lemma forallb_impl {A} (f g : A -> bool) l : (forall x, f x = true -> g x = true) -> forallb f l = true -> forallb g l = true.
Proof. intros H. induction l; cbn; [auto|]. intros E. apply andb_true_iff in E as [E1 E2]. now rewrite H, IHl. Qed.

Lemma forallb_split_on (P : byte -> bool) sep s :
  P sep = true -> forallb (forallb P) (split_on sep s) = true -> forallb P s = true.
Proof.
  intros Hs. induction s as [|c s IH]; [reflexivity|]. rewrite split_on_cons.
  destruct (beq c sep) eqn:E.
  - apply beq_eq in E. subst. cbn. intros H. rewrite Hs. auto.
  - pose proof (split_on_nonempty sep s) as Hn. destruct (split_on sep s) as [|p ps]; [contradiction|].
    cbn in *. intros H. apply andb_true_iff in H as [H1 H2]. apply andb_true_iff in H1 as [H0 H1].
    rewrite H0. cbn. apply IH. now rewrite H1, H2.
Qed.

Lemma elems_chars (elem : bytes -> bool) sep s :
  name_char sep = true -> (forall e, elem e = true -> forallb name_char e = true) ->
  forallb elem (split_on sep s) = true -> forallb name_char s = true.
Proof.
  intros Hs He H. apply (forallb_split_on _ sep); [exact Hs|]. revert H. apply forallb_impl. exact He.
Qed.

Lemma alnum_us_hy_char x : is_alphanum x || is_us x || is_hy x = true -> name_char x = true.
Proof. unfold name_char, is_us, is_hy. destruct (is_alphanum x), (beq x "_"), (beq x "-"); cbn; congruence. Qed.

Lemma elem_iface_chars e : elem_iface e = true -> forallb name_char e = true.
Proof.
  destruct e as [|c r]; [reflexivity|]. cbn [elem_iface forallb]. intros H. apply andb_true_iff in H as [H1 H2].
  apply andb_true_iff. split.
  - apply alnum_us_hy_char. unfold is_alphanum. destruct (is_alpha c), (is_us c), (is_digit c), (is_hy c); cbn in *; congruence.
  - revert H2. apply forallb_impl. intros x Hx. apply alnum_us_hy_char. now rewrite Hx.
Qed.
Lemma elem_wk_chars e : elem_wk e = true -> forallb name_char e = true.
Proof.
  destruct e as [|c r]; [reflexivity|]. cbn [elem_wk forallb]. intros H. apply andb_true_iff in H as [H1 H2].
  apply andb_true_iff. split.
  - apply alnum_us_hy_char. unfold is_alphanum. destruct (is_alpha c), (is_us c), (is_hy c), (is_digit c); cbn in *; congruence.
  - revert H2. apply forallb_impl. intros x Hx. now apply alnum_us_hy_char.
Qed.
Lemma elem_uq_chars e : elem_uq e = true -> forallb name_char e = true.
Proof.
  destruct e as [|c r]; [reflexivity|]. unfold elem_uq. apply forallb_impl. intros x Hx. now apply alnum_us_hy_char.
Qed.
Lemma elem_path_chars e : elem_path e = true -> forallb name_char e = true.
Proof.
  destruct e as [|c r]; [reflexivity|]. unfold elem_path. apply forallb_impl. intros x Hx.
  apply alnum_us_hy_char. now rewrite Hx.
Qed.

Lemma interface_chars s : validate_interface s = true -> forallb name_char s = true.
Proof.
  rewrite interface_ok. unfold spec_interface. intros H. apply andb_true_iff in H as [H _]. apply andb_true_iff in H as [_ H].
  eapply (elems_chars elem_iface dot); [reflexivity|exact elem_iface_chars|exact H].
Qed.
Lemma member_chars s : validate_member s = true -> forallb name_char s = true.
Proof. rewrite member_ok. unfold spec_member. intros H. apply andb_true_iff in H as [H _]. now apply elem_iface_chars. Qed.
Lemma well_known_chars s : validate_well_known s = true -> forallb name_char s = true.
Proof.
  rewrite well_known_ok. unfold spec_well_known. intros H. apply andb_true_iff in H as [H _]. apply andb_true_iff in H as [_ H].
  eapply (elems_chars elem_wk dot); [reflexivity|exact elem_wk_chars|exact H].
Qed.
Lemma unique_chars s : validate_unique s = true -> forallb name_char s = true.
Proof.
  rewrite unique_ok. unfold spec_unique. intros H. apply andb_true_iff in H as [H _]. apply orb_true_iff in H as [H|H].
  - apply lbeq_eq in H. subst. reflexivity.
  - destruct s as [|c r]; [discriminate|]. apply andb_true_iff in H as [H1 H2]. apply beq_eq in H1. subst c.
    apply andb_true_iff in H2 as [_ H2]. cbn [forallb]. apply andb_true_iff. split; [reflexivity|].
    eapply (elems_chars elem_uq dot); [reflexivity|exact elem_uq_chars|exact H2].
Qed.
Lemma object_path_chars s : validate_object_path s = true -> forallb name_char s = true.
Proof.
  rewrite object_path_ok. unfold spec_object_path. destruct s as [|c r]; [discriminate|]. intros H.
  apply andb_true_iff in H as [H1 H2]. apply beq_eq in H1. subst c. cbn [forallb]. apply andb_true_iff. split; [reflexivity|].
  destruct r as [|d r]; [reflexivity|].
  eapply (elems_chars elem_path slash); [reflexivity|exact elem_path_chars|exact H2].
Qed.
Lemma arg0ns_chars s : validate_arg0ns s = true -> forallb name_char s = true.
Proof.
  unfold validate_arg0ns. destruct (lbeq s [] || (255 <? len s)%N); [discriminate|].
  assert (Hns : forall l, forallb ns_char l = true -> forallb name_char l = true).
  { intros l. apply forallb_impl. intros x. unfold ns_char, name_char.
    destruct (is_alphanum x), (beq x "-"), (beq x "_"), (beq x "."); cbn; congruence. }
  destruct s as [|c r]; [discriminate|]. destruct (beq c ":") eqn:E.
  - intros H. apply andb_true_iff in H as [_ H]. apply beq_eq in E. subst c. cbn [forallb]. now rewrite (Hns _ H).
  - intros H. apply andb_true_iff in H as [_ H]. now apply Hns.
Qed.
Lemma type_str_chars t : forallb name_char (type_str t) = true.
Proof. destruct t; reflexivity. Qed.
