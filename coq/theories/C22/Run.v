(* C22/Run.v — two-phase line driver.  Input: `<case> TAB <observation of the harness>`.
     case `s <rule ops>`   (rule built through the builder, formatted, parsed again)
     case `p <hex string>` (arbitrary string parsed, formatted, parsed again)
   model field: OK when the observation is what the model of Display / TryFrom<&str> predicts, else `want:<prediction>`;
   spec field : OK when the observation satisfies the property — the string re-parses to an equal rule (EQ) and
                the specification's reader (C22/Spec.v) accepts the *implementation's* string (for `s` cases: reads it
                back as exactly the pairs the rule denotes); `-` when the property says nothing (string or operation
                refused). *)
From ZV Require Import Base.Bytes Base.Res C21.Model C21.Run C22.Model C22.Spec.

Definition semi : byte := ";"%byte.

Definition reparse_tok (r : rule) (s : bytes) : bytes :=
  match parse s with
  | Ok r2 => if rule_eqb r2 r then B "EQ" else B "NE:" ++ hex_of_bytes (show r2)
  | Err _ => B "ERR"
  | Panic _ => B "PANIC"
  end.
Definition shown_tok (r : rule) : bytes :=
  let s := show r in B "S:" ++ hex_of_bytes s ++ [semi] ++ reparse_tok r s.

(* observation `S:<hex>;<X>` -> (string, X) *)
Definition split_obs (obs : bytes) : option (bytes * bytes) :=
  match split_once semi obs with
  | Some (a, x) => match a with
                   | s :: c :: h => if beq s "S" && beq c ":" then option_map (fun str => (str, x)) (bytes_of_hex h) else None
                   | _ => None
                   end
  | None => None
  end.

Definition skey_eqb (a b : skey) : bool :=
  match a, b with
  | KType, KType | KSender, KSender | KInterface, KInterface | KMember, KMember | KPath, KPath
  | KPathNamespace, KPathNamespace | KDestination, KDestination | KArg0Namespace, KArg0Namespace => true
  | KArg i, KArg j | KArgPath i, KArgPath j => (i =? j)%N
  | _, _ => false
  end.
Fixpoint pairs_eqb (a b : list (skey * bytes)) : bool :=
  match a, b with
  | [], [] => true
  | (k, x) :: a', (j, y) :: b' => skey_eqb k j && lbeq x y && pairs_eqb a' b'
  | _, _ => false
  end.

Definition verdict (want obs : bytes) : bytes := if lbeq want obs then B "OK" else B "want:" ++ want.

Definition run_case (line : bytes) : outp :=
  match split_once tab line with
  | None => bad_case
  | Some (case, obs) =>
      match words case with
      | cmd :: rest =>
          if lbeq cmd (B "s") then
            match ops_of rest with
            | None => bad_case
            | Some ops =>
                match build ops with
                | Ok r =>
                    {| o_model := verdict (shown_tok r) obs;
                       o_spec := match split_obs obs with
                                 | Some (str, x) =>
                                     if negb (lbeq x (B "EQ")) then B "reparse:" ++ x
                                     else match spec_parse str with
                                          | Some l => if pairs_eqb l (pairs_of r) then B "OK" else B "spec_reader_reads_another_rule"
                                          | None => B "spec_reader_rejects"
                                          end
                                 | None => if lbeq obs (B "BERR") then dash else B "malformed_observation"
                                 end;
                       o_class := class_of22 r |}
                | _ =>
                    (* the model's builder refuses; if the implementation printed a string nevertheless, the string
                       must at least be a valid rule for the specification and re-parse to an equal rule *)
                    {| o_model := verdict (B "BERR") obs;
                       o_spec := match split_obs obs with
                                 | Some (str, x) =>
                                     match spec_parse str with
                                     | None => B "not_a_valid_rule"
                                     | Some _ => if lbeq x (B "EQ") then B "OK" else B "reparse:" ++ x
                                     end
                                 | None => dash
                                 end;
                       o_class := dash |}
                end
            end
          else if lbeq cmd (B "p") then
            match bytes_of_hex (match rest with h :: _ => h | [] => [] end) with
            | None => bad_case
            | Some s =>
                {| o_model := verdict (match parse s with
                                       | Ok r => shown_tok r
                                       | Err _ => B "ERR"
                                       | Panic _ => B "PANIC"
                                       end) obs;
                   o_spec := match split_obs obs with
                             | Some (str, x) =>
                                 if negb (lbeq x (B "EQ")) then B "reparse:" ++ x
                                 else match spec_parse str with
                                      | None => B "not_a_valid_rule"
                                      | Some _ => B "OK"
                                      end
                             | None => if lbeq obs (B "ERR") then dash else B "malformed_observation"
                             end;
                   o_class := match parse s with Ok r => class_of22 r | _ => dash end |}
            end
          else bad_case
      | [] => bad_case
      end
  end.

Definition run (line : bytes) : bytes := render (run_case line).
