(* C22/Spec.v — the rule-string syntax of the D-Bus specification ("Match Rules"), written from its text:

     "Match rules are passed to the bus as a string of comma-separated key/value pairs."
     "Within single quotes (ASCII apostrophe, U+0027), a backslash (U+005C) represents itself, and an
      apostrophe ends the quoted section.  Outside single quotes, \' (backslash, apostrophe) represents an
      apostrophe, and any backslash not followed by an apostrophe represents itself."
     (so:  arg0=''\''',arg1='\',arg2=',',arg3='\\'  and  arg0=\',arg1=\,arg2=',',arg3=\\  are the same rule;
      a comma can only be written inside quotes, an apostrophe only outside)

   [spec_pairs] is a reader for exactly this syntax; [spec_parse] then interprets the keys by the
   specification's table.  The result is abstract syntax, a list of (key, value), not the code's record:
   [pairs_of] says which list a rule record denotes, and is injective on the records the builder can
   produce (Proofs.v, pairs_of_inj), so "reads back as an equal rule" is [spec_parse (show r) = Some (pairs_of r)]. *)
From ZV Require Import Base.Bytes C21.Model.

Inductive skey :=
| KType | KSender | KInterface | KMember | KPath | KPathNamespace | KDestination
| KArg (n : N) | KArgPath (n : N) | KArg0Namespace.

Definition sq : byte := "'"%byte.
Definition bsl : byte := "\"%byte.
Definition scomma : byte := ","%byte.
Definition seq : byte := "="%byte.

(* The reader is a state machine over the bytes.  [k], [v]: the key / value being read (reversed);
   [done]: the finished pairs (reversed).  A key is a plain word up to '=' (no quote, comma or backslash
   in it, not empty); an unterminated quoted section, a missing '=' and an empty pair are errors. *)
Inductive rstate := InKey | InValue | InQuote.

Fixpoint rd (l : bytes) (st : rstate) (k v : bytes) (done : list (bytes * bytes)) : option (list (bytes * bytes)) :=
  match l with
  | [] => match st with
          | InValue => Some (rev ((rev k, rev v) :: done))
          | InKey | InQuote => None
          end
  | c :: r =>
      match st with
      | InKey =>
          if beq c seq then match k with [] => None | _ => rd r InValue k [] done end
          else if beq c sq || beq c scomma || beq c bsl then None
          else rd r InKey (c :: k) v done
      | InQuote =>
          if beq c sq then rd r InValue k v done else rd r InQuote k (c :: v) done
      | InValue =>
          if beq c sq then rd r InQuote k v done
          else if beq c scomma then rd r InKey [] [] ((rev k, rev v) :: done)
          else if beq c bsl then
            match r with
            | d :: r' => if beq d sq then rd r' InValue k (sq :: v) done else rd r InValue k (bsl :: v) done
            | [] => rd r InValue k (bsl :: v) done
            end
          else rd r InValue k (c :: v) done
      end
  end.

Definition spec_pairs (s : bytes) : option (list (bytes * bytes)) :=
  match s with
  | [] => Some []            (* the empty rule: every key is a wildcard *)
  | _ => rd s InKey [] [] []
  end.

(* the key table *)
Definition is_type_name (v : bytes) : bool :=
  lbeq v (B "signal") || lbeq v (B "method_call") || lbeq v (B "method_return") || lbeq v (B "error").
Definition arg_index (d : bytes) : option N :=
  match N_of_dec d with Some n => if (n <=? 63)%N then Some n else None | None => None end.
Definition ends_with (suffix l : bytes) : bool := starts_with (rev suffix) (rev l).
Definition drop_suffix (n : nat) (l : bytes) : bytes := firstn (List.length l - n) l.

Definition key_of (k : bytes) : option skey :=
  if lbeq k (B "type") then Some KType
  else if lbeq k (B "sender") then Some KSender
  else if lbeq k (B "interface") then Some KInterface
  else if lbeq k (B "member") then Some KMember
  else if lbeq k (B "path") then Some KPath
  else if lbeq k (B "path_namespace") then Some KPathNamespace
  else if lbeq k (B "destination") then Some KDestination
  else if lbeq k (B "arg0namespace") then Some KArg0Namespace
  else if starts_with (B "arg") k then
    let rest := skipn 3 k in
    if ends_with (B "path") rest then option_map KArgPath (arg_index (drop_suffix 4 rest))
    else option_map KArg (arg_index rest)
  else None.

Fixpoint interp (l : list (bytes * bytes)) : option (list (skey * bytes)) :=
  match l with
  | [] => Some []
  | (k, v) :: r =>
      match key_of k, interp r with
      | Some KType, Some t => if is_type_name v then Some ((KType, v) :: t) else None
      | Some sk, Some t => Some ((sk, v) :: t)
      | _, _ => None
      end
  end.

Definition spec_parse (s : bytes) : option (list (skey * bytes)) :=
  match spec_pairs s with Some l => interp l | None => None end.

(* ------------------------------------------------------------------ what a rule record denotes *)
Definition type_name (t : mtype) : bytes :=
  match t with Signal => B "signal" | MethodCall => B "method_call" | MethodReturn => B "method_return" | MError => B "error" end.
Definition opt_pair {A} (o : option A) (f : A -> skey * bytes) : list (skey * bytes) :=
  match o with Some a => [f a] | None => [] end.
Definition pairs_of (r : rule) : list (skey * bytes) :=
  opt_pair (r_type r) (fun t => (KType, type_name t))
  ++ opt_pair (r_sender r) (fun b => (KSender, bus_str b))
  ++ opt_pair (r_interface r) (fun s => (KInterface, s))
  ++ opt_pair (r_member r) (fun s => (KMember, s))
  ++ opt_pair (r_destination r) (fun s => (KDestination, s))
  ++ opt_pair (r_path r) (fun ps => match ps with PPath p => (KPath, p) | PNamespace p => (KPathNamespace, p) end)
  ++ map (fun ia => (KArg (fst ia), snd ia)) (r_args r)
  ++ map (fun ia => (KArgPath (fst ia), snd ia)) (r_arg_paths r)
  ++ opt_pair (r_arg0ns r) (fun s => (KArg0Namespace, s)).

(* ------------------------------------------------------------------ classes of rule where the string form is known to fail *)
Definition has_byte (c : byte) (s : bytes) : bool := existsb (fun x => beq x c) s.
Definition k_comma_value (r : rule) : bool := existsb (fun ia => has_byte scomma (snd ia)) (r_args r).
Definition k_apostrophe_value (r : rule) : bool := existsb (fun ia => has_byte sq (snd ia)) (r_args r).
Definition known_C22 (r : rule) : bool := k_comma_value r || k_apostrophe_value r.
Definition class_of22 (r : rule) : bytes :=
  if k_comma_value r then B "comma_value"
  else if k_apostrophe_value r then B "apostrophe_value"
  else dash.
