(* C11/Run.v — line driver shared by C11, C12, C13 (harness/hmsg speaks the same protocol).
     p <ctx l|B|a> <hex|->                                   Message::from_bytes and every accessor
     b <endian> <type> <flags> <serial> <path> <iface> <member> <errname> <reply_serial|-> <dest> <sender> <via> <body...>
   strings are x<hex> or - ; observation formats are documented in harness/hmsg/src/main.rs. *)
From ZV Require Import Base.Bytes Base.Res Base.Sig C10.Model C10.Spec C11.Model C11.Spec C11.Body C11.BodySpec.
Open Scope N_scope.

Definition xtok (t : bytes) : option (option bytes) :=
  if lbeq t (B "-") then Some None
  else match t with c :: h => if beq c "x" then option_map Some (bytes_of_hex h) else None | [] => None end.
Definition xs (o : option bytes) : bytes := match o with Some s => B "x" ++ hex_of_bytes s | None => B "-" end.
Definition on (o : option N) : bytes := match o with Some n => dec_of_N n | None => B "-" end.

Definition dump_hview (h : hview) : bytes :=
  let p := hv_ph h in
  B "e=" ++ dec_of_N (bn (endian_byte (ph_endian p))) ++ B ",t=" ++ dec_of_N (ph_type p) ++ B ",f=" ++ dec_of_N (ph_flags p)
  ++ B ",v=" ++ dec_of_N (ph_version p) ++ B ",bl=" ++ dec_of_N (ph_body_len p) ++ B ",sn=" ++ dec_of_N (ph_serial p)
  ++ B ",p=" ++ xs (hv_path h) ++ B ",i=" ++ xs (hv_iface h) ++ B ",m=" ++ xs (hv_member h) ++ B ",en=" ++ xs (hv_errname h)
  ++ B ",rs=" ++ on (hv_reply h) ++ B ",d=" ++ xs (hv_dest h) ++ B ",s=" ++ xs (hv_sender h)
  ++ B ",g=x" ++ hex_of_bytes (show (hv_sig h)) ++ B ",fd=" ++ on (hv_fds h).

Definition dump_body (body : bytes) (sg : sig) (nfds : N) : bytes :=
  B "b" ++ hex_of_bytes body ++ B "/g" ++ hex_of_bytes (show sg) ++ B "/n" ++ dec_of_N nfds.

Definition guardP {A} (r : R A) (f : A -> bytes) : bytes :=
  match r with Ok a => f a | _ => B "P" end.

Definition obs_H (m : msg) : bytes := guardP (header m) dump_hview.
Definition obs_B (m : msg) (nfds : N) : bytes := guardP (body m) (fun bd => dump_body bd (q_sig (m_qf m)) nfds).
(* every accessor of a parsed message: header, body, Display, Debug, body deserialization *)
Definition observe (m : msg) (nfds : N) : bytes :=
  obs_H m ++ B ":" ++ obs_B m nfds
  ++ B ":" ++ guardP (display m) (fun d => B "x" ++ hex_of_bytes d)
  ++ B ":" ++ guardP (debug_ok m) (fun _ => B "ok")
  ++ B ":" ++ guardP (body_deser m) (fun _ => B "np").

Definition out_parse_res (r : R msg) (nfds : N) : bytes :=
  match r with
  | Panic _ => B "PANIC"
  | Err _ => B "ERR"
  | Ok m => B "OK:" ++ observe m nfds
  end.

(* ---- p lines ---- *)
Definition ctx_of (t : bytes) (b : bytes) : option endian :=
  if lbeq t (B "l") then Some LE else if lbeq t (B "B") then Some BE
  else if lbeq t (B "a") then Some (match b with c :: _ => if beq c "B" then BE else LE | [] => LE end)
  else None.
Definition hex_or_dash (t : bytes) : option bytes := if lbeq t (B "-") then Some [] else bytes_of_hex t.

Definition parse_p (ws : list bytes) : option (endian * bytes) :=
  match ws with
  | [_; c; h] => match hex_or_dash h with Some b => option_map (fun e => (e, b)) (ctx_of c b) | None => None end
  | [_; c] => option_map (fun e => (e, [])) (ctx_of c [])
  | _ => None
  end.

(* ---- b lines ---- *)
Record bcase := { bc_hdr : hdr; bc_shape : shape }.

Definition endian_tok (t : bytes) : option endian :=
  if lbeq t (B "l") then Some LE else if lbeq t (B "B") then Some BE else None.

Fixpoint xtoks (l : list bytes) : option (list bytes) :=
  match l with
  | [] => Some []
  | t :: r => match xtok t, xtoks r with Some (Some s), Some rs => Some (s :: rs) | _, _ => None end
  end.

Definition parse_shape (ws : list bytes) : option shape :=
  match ws with
  | k :: args =>
      if lbeq k (B "unit") then Some ShUnit
      else if lbeq k (B "s") then match args with [a] => match xtok a with Some (Some s) => Some (ShS s) | _ => None end | _ => None end
      else if lbeq k (B "u") then match args with [a] => option_map ShU (N_of_dec a) | _ => None end
      else if lbeq k (B "su") then
        match args with [a; n] => match xtok a, N_of_dec n with Some (Some s), Some k => Some (ShSU s k) | _, _ => None end | _ => None end
      else if lbeq k (B "as") then option_map ShAS (xtoks args)
      else if lbeq k (B "h") then Some ShH
      else if lbeq k (B "sh") then match args with [a] => match xtok a with Some (Some s) => Some (ShSH s) | _ => None end | _ => None end
      else if lbeq k (B "hh") then
        match args with [i; j] => match N_of_dec i, N_of_dec j with Some a, Some c => Some (ShHH a c) | _, _ => None end | _ => None end
      else if lbeq k (B "hv") then
        match args with [i; j] => match N_of_dec i, N_of_dec j with Some a, Some c => Some (ShHV a c) | _, _ => None end | _ => None end
      else if lbeq k (B "ah") then
        (fix go (l : list bytes) (acc : list N) : option shape :=
           match l with [] => Some (ShAH (rev acc)) | t :: r => match N_of_dec t with Some a => go r (a :: acc) | None => None end end) args []
      else if lbeq k (B "raw") then
        match args with
        | [g; bd; n] =>
            match xtok g, xtok bd, N_of_dec n with
            | Some g', Some bd', Some k =>
                Some (ShRaw (match g' with Some x => x | None => [] end) (match bd' with Some x => x | None => [] end) k)
            | _, _, _ => None
            end
        | _ => None
        end
      else None
  | [] => None
  end.

Definition parse_b (ws : list bytes) : option bcase :=
  match ws with
  | _ :: e :: ty :: fl :: sn :: p :: i :: m :: en :: rs :: d :: s :: _via :: bodyw =>
      match endian_tok e, N_of_dec ty, N_of_dec fl, N_of_dec sn, xtok p, xtok i, xtok m, xtok en with
      | Some e', Some ty', Some fl', Some sn', Some p', Some i', Some m', Some en' =>
          match (if lbeq rs (B "-") then Some None else option_map Some (N_of_dec rs)), xtok d, xtok s, parse_shape bodyw with
          | Some rs', Some d', Some s', Some sh =>
              Some {| bc_hdr := {| h_endian := e'; h_type := ty'; h_flags := fl'; h_serial := sn'; h_path := p'; h_iface := i';
                                   h_member := m'; h_errname := en'; h_reply := rs'; h_dest := d'; h_sender := s' |};
                      bc_shape := sh |}
          | _, _, _, _ => None
          end
      | _, _, _, _, _, _, _, _ => None
      end
  | _ => None
  end.

(* the harness can express this header through the public constructors *)
Definition expressible (h : hdr) : bool :=
  let some {A} (o : option A) := match o with Some _ => true | None => false end in
  (1 <=? h_type h) && (h_type h <=? 4) && (h_flags h <=? 7) && (1 <=? h_serial h) && (h_serial h <? two32)
  && (match h_reply h with Some n => (1 <=? n) && (n <? two32) | None => true end)
  && Bool.eqb (some (h_errname h)) (h_type h =? 3)
  && (if h_type h =? 1 then some (h_path h) && some (h_member h) else true)
  && (if h_type h =? 4 then some (h_path h) && some (h_iface h) && some (h_member h) else true).

Definition optb (f : bytes -> bool) (o : option bytes) : bool := match o with Some s => f s | None => true end.
(* the Builder setters validate (TryInto<ObjectPath>, TryInto<InterfaceName>, ...); with_flags refuses NoReplyExpected off calls *)
Definition builder_accepts (h : hdr) : bool :=
  optb validate_object_path (h_path h) && optb validate_interface (h_iface h) && optb validate_member (h_member h)
  && optb validate_error (h_errname h) && optb validate_bus (h_dest h) && optb validate_unique (h_sender h)
  && flags_allowed (h_type h) (h_flags h).

Definition shape_body (e : endian) (sh : shape) : bytes :=
  match sh with
  | ShUnit => [] | ShS s => enc_s e s | ShU n => enc_u e n | ShSU s n => enc_su e s n | ShAS l => enc_as e l
  | ShH => enc_h e | ShSH s => enc_sh e s | ShRaw _ bd _ => bd
  | ShHH _ _ => enc_hh e | ShAH l => enc_ah e (length l) | ShHV _ _ => enc_hv e
  end.

Definition render_tval (t : tval) : bytes :=
  match t with
  | TUnit => B "()" | TS s => xs (Some s) | TU n => dec_of_N n | TSU s n => xs (Some s) ++ B "," ++ dec_of_N n
  | TAS [] => B "-" | TAS l => join (B ",") (map (fun s => xs (Some s)) l)
  | TFd => B "fd" | TSFd s => xs (Some s) ++ B ",fd" | TNone => B "-"
  | TFiles [] => B "-" | TFiles l => join (B ",") (map (fun f => B "f" ++ dec_of_N f) l)
  end.
Definition shape_tval (sh : shape) : tval :=
  match sh with
  | ShUnit => TUnit | ShS s => TS s | ShU n => TU n | ShSU s n => TSU s n | ShAS l => TAS l | ShH => TFd | ShSH s => TSFd s
  | ShHH i j | ShHV i j => TFiles [i; j] | ShAH l => TFiles l
  | ShRaw _ _ _ => TNone
  end.

Definition bar := B "|".

Definition out_build (c : bcase) : bytes :=
  let h := bc_hdr c in let sh := bc_shape c in let e := h_endian h in
  if negb (builder_accepts h) then B "BERR"
  else
    match shape_sig sh with
    | None => B "BERR"
    | Some sg =>
        let nfds := shape_nfds sh in
        match build h sg (shape_body e sh) nfds with
        | Panic _ => B "PANIC"
        | Err _ => B "BERR"
        | Ok m =>
            let b := m_bytes m in
            let re := from_raw_parts e b in
            B "OK" ++ bar ++ hex_of_bytes b ++ bar ++ dec_of_N nfds ++ bar ++ obs_H m ++ B ":" ++ obs_B m nfds ++ bar
            ++ out_parse_res re nfds
            ++ match re with
               | Ok r =>
                   bar ++ match dec_typed sh e (m_bytes r) (m_body_offset r) nfds with
                          | Ok t => (match body r with Panic _ => B "P" | _ => render_tval t end)
                          | Err _ => B "DERR"
                          | Panic _ => B "P"
                          end
               | _ => []
               end
        end
    end.

(* the oracle: bytes as the D-Bus specification lays them out, and the same header / body back *)
Definition spec_names_ok (h : hdr) : bool :=
  optb spec_object_path (h_path h) && optb spec_interface (h_iface h) && optb spec_member (h_member h)
  && optb spec_interface (h_errname h) && optb spec_bus (h_dest h) && optb spec_unique (h_sender h).

Definition multi_fd (sh : shape) : bool := match sh with ShHH _ _ | ShAH _ | ShHV _ _ => true | _ => false end.

Definition spec_build (c : bcase) : bytes :=
  let h := bc_hdr c in let sh := bc_shape c in let e := h_endian h in
  if multi_fd sh then
    (* several descriptors: the property fixes "declared count = attached count" and "each descriptor comes back as the
       file it was", not how often a repeated descriptor is attached: FDCHK is evaluated by props/C11.py *)
    if spec_names_ok h && flags_allowed (h_type h) (h_flags h) then B "FDCHK" ++ bar ++ render_tval (shape_tval sh) else dash
  else
  match shape_sig sh with
  | Some sg =>
      if spec_names_ok h && (len (show_np sg) <=? 255) then
        if flags_allowed (h_type h) (h_flags h) then
          let nfds := shape_nfds sh in
          let bd := shape_body e sh in
          let v := view h sg bd nfds in
          let hb := dump_hview v ++ B ":" ++ dump_body bd (hv_sig v) nfds in
          B "OK" ++ bar ++ hex_of_bytes (spec_message h sg bd nfds) ++ bar ++ dec_of_N nfds ++ bar ++ hb ++ bar
          ++ B "OK:" ++ hb ++ bar ++ render_tval (shape_tval sh)
        else B "BERR"
      else dash
  | None => dash
  end.

Definition run_case (line : bytes) : outp :=
  let ws := words line in
  match ws with
  | k :: _ =>
      if lbeq k (B "b") then
        match parse_b ws with
        | Some c => if expressible (bc_hdr c)
                    then {| o_model := out_build c; o_spec := spec_build c; o_class := dash |}
                    else bad_case
        | None => bad_case
        end
      else if lbeq k (B "p") then
        match parse_p ws with
        | Some (ctx, b) => {| o_model := out_parse_res (from_raw_parts ctx b) 0; o_spec := dash; o_class := dash |}
        | None => bad_case
        end
      else bad_case
  | [] => bad_case
  end.

Definition run (line : bytes) : bytes := render (run_case line).
