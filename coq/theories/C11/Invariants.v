(* C11/Invariants.v — facts about the deserializer model that hold for EVERY input (used by C12 and by the
   round-trip proof): positions grow and stay in the buffer, decoded strings are the bytes found at their recorded
   offset, the only panics are the ones named in C12/Spec.v, the fuel of the field loop is never exhausted. *)
From ZV Require Import Base.Bytes Base.Res Base.Sig C10.Model C11.Model C11.Lemmas.
From Coq Require Import Lia ZifyBool ZifyN ZifyNat.
Open Scope N_scope.

Lemma bind_ok {E A B} (r : res E A) (f : A -> res E B) x :
  bind r f = Ok x -> exists a, r = Ok a /\ f a = Ok x.
Proof. destruct r; cbn; intros H; try discriminate. eauto. Qed.
Lemma bind_panic {E A B} (r : res E A) (f : A -> res E B) p :
  bind r f = Panic p -> r = Panic p \/ exists a, r = Ok a /\ f a = Panic p.
Proof. destruct r; cbn; intros H; try discriminate; eauto. left. congruence. Qed.
Lemma bind_fuel {A B} (r : R A) (f : A -> R B) :
  bind r f = Err EFuel -> r = Err EFuel \/ exists a, r = Ok a /\ f a = Err EFuel.
Proof. destruct r; cbn; intros H; try discriminate; eauto. left. congruence. Qed.

(* ---------- integers ---------- *)
Lemma de_u32_ok e b pos n p : de_u32 e b pos = Ok (n, p) -> pos + 4 <= p /\ p <= len b /\ n < two32.
Proof.
  unfold de_u32. intros H. apply bind_ok in H. destruct H as (p0 & H0 & H).
  apply bind_ok in H. destruct H as ([l4 p1] & H1 & H). injection H as <- <-.
  apply parse_padding_ok in H0. apply next_slice_ok in H1. pose proof (rd_u32_lt e l4). lia.
Qed.
Lemma de_u32_no_panic e b pos p : de_u32 e b pos <> Panic p.
Proof.
  unfold de_u32. intros H. apply bind_panic in H. destruct H as [H|(p0 & _ & H)].
  - eapply parse_padding_no_panic; eauto.
  - apply bind_panic in H. destruct H as [H|([? ?] & _ & H)]; [eapply next_slice_no_panic; eauto|discriminate].
Qed.
Lemma de_u8_ok b pos n p : de_u8 b pos = Ok (n, p) -> p = pos + 1 /\ p <= len b /\ n < 256.
Proof.
  unfold de_u8. intros H. apply bind_ok in H. destruct H as ([l1 p1] & H1 & H). injection H as <- <-.
  apply next_slice_ok in H1. destruct l1; [lia|]. pose proof (bn_lt b0). lia.
Qed.
Lemma de_u8_no_panic b pos p : de_u8 b pos <> Panic p.
Proof.
  unfold de_u8. intros H. apply bind_panic in H. destruct H as [H|([? ?] & _ & H)]; [eapply next_slice_no_panic; eauto|discriminate].
Qed.
Lemma de_u8_nth b pos n p : de_u8 b pos = Ok (n, p) -> exists c, nth_error b (N.to_nat pos) = Some c /\ bn c = n.
Proof.
  unfold de_u8. intros H. apply bind_ok in H. destruct H as ([l1 p1] & H1 & H). injection H as <- <-.
  apply next_slice_ok in H1. destruct H1 as (-> & Hle & -> & Hl).
  unfold takeN, dropN in *. change (N.to_nat 1) with 1%nat in *.
  destruct (skipn (N.to_nat pos) b) as [|c r] eqn:E; [cbn in Hl; discriminate|].
  exists c. split; [|reflexivity].
  rewrite <- (firstn_skipn (N.to_nat pos) b). rewrite E.
  rewrite nth_error_app2 by (rewrite firstn_length; lia).
  rewrite firstn_length. replace (N.to_nat pos - Nat.min (N.to_nat pos) (length b))%nat with 0%nat; [reflexivity|].
  unfold len in Hle. lia.
Qed.

(* ---------- strings ---------- *)
(* the string [s] is what the buffer holds at [st] *)
Definition str_at (b s : bytes) (st : N) : Prop :=
  2 <= st /\ st + len s <= len b /\ takeN (len s) (dropN st b) = s /\ utf8_valid s = true.

Lemma de_str_ok w e b pos s st p : de_str w e b pos = Ok (s, st, p) ->
  pos + 1 <= st /\ st + len s + 1 = p /\ p <= len b /\ takeN (len s) (dropN st b) = s /\ utf8_valid s = true /\ has_nul s = false.
Proof.
  unfold de_str. intros H. apply bind_ok in H. destruct H as ([n p0] & H0 & H).
  apply bind_ok in H. destruct H as ([s' p1] & H1 & H).
  destruct (has_nul s') eqn:En; [discriminate|].
  apply bind_ok in H. destruct H as ([z p2] & H2 & H).
  destruct (all_zero z); [|discriminate]. cbn [negb] in H.
  destruct (utf8_valid s') eqn:Eu; [|discriminate]. injection H as <- <- <-.
  apply next_slice_ok in H1. destruct H1 as (-> & Hle1 & Es & Hl). apply next_slice_ok in H2. destruct H2 as (-> & Hle2 & _ & _).
  assert (pos + 1 <= p0).
  { destruct w; [apply de_u32_ok in H0|apply de_u8_ok in H0]; lia. }
  rewrite Hl. repeat split; try lia; auto.
Qed.
Lemma de_str_no_panic w e b pos p : de_str w e b pos <> Panic p.
Proof.
  unfold de_str. intros H. apply bind_panic in H. destruct H as [H|([n p0] & _ & H)].
  - destruct w; [eapply de_u32_no_panic|eapply de_u8_no_panic]; eauto.
  - apply bind_panic in H. destruct H as [H|([s' p1] & _ & H)]; [eapply next_slice_no_panic; eauto|].
    destruct (has_nul s'); [discriminate|].
    apply bind_panic in H. destruct H as [H|([z p2] & _ & H)]; [eapply next_slice_no_panic; eauto|].
    destruct (all_zero z); cbn in H; [|discriminate]. destruct (utf8_valid s'); discriminate.
Qed.

(* ---------- header field values ---------- *)
Definition fval_inv (b : bytes) (v : fval) : Prop :=
  match v with
  | FStr s st => str_at b s st
  | FPath s st => str_at b s st /\ validate_object_path s = true
  | FSig _ | FU32 _ => True
  end.

Lemma de_variant_ok e b pos v p : 1 <= pos -> de_variant e b pos = Ok (v, p) -> fval_inv b v /\ pos < p /\ p <= len b.
Proof.
  intros Hpos. unfold de_variant. intros H. apply bind_ok in H. destruct H as ([[sg st0] p1] & H0 & H).
  apply de_str_ok in H0. destruct H0 as (Ha & Hb & Hc & _).
  destruct (parse_sig sg) as [sg0|]; [|discriminate].
  destruct (nth_error b (N.to_nat pos)) as [lb|]; [|discriminate].
  destruct (len b <? pos + 1 + bn lb); [discriminate|].
  destruct (parse_sig _) as [vs|]; [|discriminate].
  destruct (_ || _); [discriminate|].
  destruct (len b <? pos + 1 + bn lb + 1) eqn:Evs; [discriminate|].
  assert (Hst : forall s st p2, de_str true e b (pos + 1 + bn lb + 1) = Ok (s, st, p2) -> str_at b s st /\ pos < p2 /\ p2 <= len b).
  { intros s1 st1 p2 Hs. apply de_str_ok in Hs. unfold str_at. intuition lia. }
  destruct vs; try discriminate.
  - (* u32 *) apply bind_ok in H. destruct H as ([n p2] & H2 & H). injection H as <- <-.
    apply de_u32_ok in H2. cbn. lia.
  - (* str *) apply bind_ok in H. destruct H as ([[s st] p2] & H2 & H). injection H as <- <-.
    apply Hst in H2. cbn. tauto.
  - (* sig *) apply bind_ok in H. destruct H as ([[s st] p2] & H2 & H).
    destruct (parse_sig s); [|discriminate]. injection H as <- <-. apply de_str_ok in H2. cbn. lia.
  - (* path *) apply bind_ok in H. destruct H as ([[s st] p2] & H2 & H).
    destruct (validate_object_path s) eqn:Ev; [|discriminate]. injection H as <- <-.
    apply Hst in H2. cbn. tauto.
Qed.

Lemma de_variant_no_panic e b pos p : de_variant e b pos <> Panic p.
Proof.
  unfold de_variant. intros H. apply bind_panic in H. destruct H as [H|([[sg st0] p1] & H0 & H)].
  - eapply de_str_no_panic; eauto.
  - unfold de_str in H0. apply bind_ok in H0. destruct H0 as ([n p0] & H0 & _).
    apply de_u8_nth in H0. destruct H0 as (c & Hc & _).
    destruct (parse_sig sg) as [sg0|]; [|discriminate]. rewrite Hc in H.
    destruct (len b <? pos + 1 + bn c); [discriminate|].
    destruct (parse_sig _) as [vs|]; [|discriminate].
    destruct (_ || _); [discriminate|].
    destruct (len b <? pos + 1 + bn c + 1); [discriminate|].
    destruct vs; try discriminate.
    + apply bind_panic in H. destruct H as [H|([? ?] & _ & H)]; [eapply de_u32_no_panic; eauto|discriminate].
    + apply bind_panic in H. destruct H as [H|([[? ?] ?] & _ & H)]; [eapply de_str_no_panic; eauto|discriminate].
    + apply bind_panic in H. destruct H as [H|([[s ?] ?] & _ & H)]; [eapply de_str_no_panic; eauto|].
      destruct (parse_sig s); discriminate.
    + apply bind_panic in H. destruct H as [H|([[s ?] ?] & _ & H)]; [eapply de_str_no_panic; eauto|].
      destruct (validate_object_path s); discriminate.
Qed.

Lemma de_field_ok e b pos code v p : 1 <= pos -> de_field e b pos = Ok (code, v, p) ->
  fval_inv b v /\ pos < p /\ p <= len b /\ pos < len b /\ 1 <= code <= 9.
Proof.
  intros Hpos. unfold de_field. intros H. apply bind_ok in H. destruct H as (p0 & H0 & H).
  apply bind_ok in H. destruct H as ([c p1] & H1 & H).
  destruct ((1 <=? c) && (c <=? 9)) eqn:Ec; [|discriminate].
  apply bind_ok in H. destruct H as ([v' p2] & H2 & H). injection H as <- <- <-.
  apply parse_padding_ok in H0. apply de_u8_ok in H1. apply de_variant_ok in H2; [|lia]. intuition lia.
Qed.
Lemma de_field_no_panic e b pos p : de_field e b pos <> Panic p.
Proof.
  unfold de_field. intros H. apply bind_panic in H. destruct H as [H|(p0 & _ & H)]; [eapply parse_padding_no_panic; eauto|].
  apply bind_panic in H. destruct H as [H|([c p1] & _ & H)]; [eapply de_u8_no_panic; eauto|].
  destruct (_ && _); [|discriminate].
  apply bind_panic in H. destruct H as [H|([? ?] & _ & H)]; [eapply de_variant_no_panic; eauto|discriminate].
Qed.
Lemma de_field_no_fuel e b pos : de_field e b pos <> Err EFuel.
Proof.
  unfold de_field, de_variant, de_str, de_u32, de_u8, next_slice, parse_padding.
  repeat match goal with
         | |- context [match ?x with _ => _ end] => destruct x; cbn [bind negb]; try discriminate
         end.
Qed.

(* ---------- the fields record ---------- *)
Definition ostr_at (b : bytes) (o : option (bytes * N)) : Prop :=
  match o with Some (s, st) => str_at b s st | None => True end.
Definition fields_inv (b : bytes) (fs : fields) : Prop :=
  ostr_at b (f_path fs) /\ ostr_at b (f_iface fs) /\ ostr_at b (f_member fs) /\ ostr_at b (f_errname fs)
  /\ ostr_at b (f_dest fs) /\ ostr_at b (f_sender fs)
  /\ (forall s st, f_path fs = Some (s, st) -> validate_object_path s = true)
  /\ (forall s st, f_dest fs = Some (s, st) -> validate_bus s = true).

Lemma fields_inv_empty b : fields_inv b fields_empty.
Proof. unfold fields_inv, fields_empty; cbn. repeat split; auto; discriminate. Qed.

Lemma set_field_inv b fs code v fs' : fields_inv b fs -> fval_inv b v -> set_field fs code v = Ok fs' -> fields_inv b fs'.
Proof.
  unfold fields_inv. intros (H1 & H2 & H3 & H4 & H5 & H6 & H7 & H8) Hv H.
  unfold set_field in H.
  repeat match type of H with
         | (if ?x then _ else _) = _ => destruct x eqn:?; try discriminate
         | match ?x with _ => _ end = _ => destruct x; try discriminate
         end;
    injection H as <-; cbn [f_path f_iface f_member f_errname f_reply f_dest f_sender f_sig f_fds ostr_at]; cbn [fval_inv] in Hv;
    refine (conj _ (conj _ (conj _ (conj _ (conj _ (conj _ (conj _ _)))))));
    try assumption; try (apply Hv); try (intros s' st' [= <- <-]; (assumption || apply Hv)).
Qed.

Lemma set_field_no_panic fs code v p : set_field fs code v <> Panic p.
Proof.
  unfold set_field.
  repeat match goal with
         | |- context [match ?x with _ => _ end] => destruct x; try discriminate
         end.
Qed.
Lemma set_field_no_fuel fs code v : set_field fs code v <> Err EFuel.
Proof.
  unfold set_field.
  repeat match goal with
         | |- context [match ?x with _ => _ end] => destruct x; try discriminate
         end.
Qed.

(* ---------- the loop ---------- *)
Lemma loop_inv fuel : forall e b endp pos fs fs' p, 1 <= pos -> fields_inv b fs ->
  de_fields_loop fuel e b endp pos fs = Ok (fs', p) -> fields_inv b fs' /\ p = endp.
Proof.
  induction fuel as [|f IH]; intros e b endp pos fs fs' p Hpos Hinv H; cbn [de_fields_loop] in H.
  - destruct (pos =? endp) eqn:E; [|discriminate]. injection H as <- <-. split; [assumption|lia].
  - destruct (pos =? endp) eqn:E; [injection H as <- <-; split; [assumption|lia]|].
    apply bind_ok in H. destruct H as ([[code v] p'] & Hf & H).
    destruct (endp <? p'); [discriminate|].
    apply bind_ok in H. destruct H as (fs1 & Hs & H).
    apply de_field_ok in Hf; [|assumption]. destruct Hf as (Hv & Hlt & _).
    eapply IH; [| |exact H]; [lia|]. eapply set_field_inv; eauto.
Qed.

Lemma loop_no_panic fuel : forall e b endp pos fs p, de_fields_loop fuel e b endp pos fs <> Panic p.
Proof.
  induction fuel as [|f IH]; intros e b endp pos fs p H; cbn [de_fields_loop] in H.
  - destruct (pos =? endp); discriminate.
  - destruct (pos =? endp); [discriminate|].
    apply bind_panic in H. destruct H as [H|([[code v] p'] & _ & H)]; [eapply de_field_no_panic; eauto|].
    destruct (endp <? p'); [discriminate|].
    apply bind_panic in H. destruct H as [H|(fs1 & _ & H)]; [eapply set_field_no_panic; eauto|].
    eapply IH; eauto.
Qed.

(* every iteration consumes at least the code byte, which lies inside the buffer: the fuel is never the limit *)
Lemma loop_no_fuel fuel : forall e b endp pos fs, 1 <= pos -> (len b - pos < N.of_nat fuel) ->
  de_fields_loop fuel e b endp pos fs <> Err EFuel.
Proof.
  induction fuel as [|f IH]; intros e b endp pos fs Hpos Hf H; [lia|].
  cbn [de_fields_loop] in H. destruct (pos =? endp); [discriminate|].
  apply bind_fuel in H. destruct H as [H|([[code v] p'] & Hd & H)]; [eapply de_field_no_fuel; eauto|].
  destruct (endp <? p'); [discriminate|].
  apply bind_fuel in H. destruct H as [H|(fs1 & _ & H)]; [eapply set_field_no_fuel; eauto|].
  apply de_field_ok in Hd; [|assumption]. revert H. apply IH; lia.
Qed.

Lemma de_fields_ok e b fs p : de_fields e b = Ok (fs, p) -> fields_inv b fs.
Proof.
  unfold de_fields. intros H. apply bind_ok in H. destruct H as ([n p0] & H0 & H).
  apply bind_ok in H. destruct H as (start & H1 & H).
  apply de_u32_ok in H0. apply parse_padding_ok in H1.
  eapply loop_inv in H; [tauto|lia|apply fields_inv_empty].
Qed.
Lemma de_fields_no_panic e b p : de_fields e b <> Panic p.
Proof.
  unfold de_fields. intros H. apply bind_panic in H. destruct H as [H|([n p0] & _ & H)]; [eapply de_u32_no_panic; eauto|].
  apply bind_panic in H. destruct H as [H|(start & _ & H)]; [eapply parse_padding_no_panic; eauto|].
  eapply loop_no_panic; eauto.
Qed.
Lemma de_fields_no_fuel e b : de_fields e b <> Err EFuel.
Proof.
  unfold de_fields. intros H. apply bind_fuel in H. destruct H as [H|([n p0] & H0 & H)].
  - revert H. unfold de_u32, parse_padding, next_slice.
    repeat match goal with |- context [match ?x with _ => _ end] => destruct x; cbn [bind]; try discriminate end.
  - apply bind_fuel in H. destruct H as [H|(start & H1 & H)].
    + revert H. unfold parse_padding.
      repeat match goal with |- context [match ?x with _ => _ end] => destruct x; cbn [bind]; try discriminate end.
    + apply de_u32_ok in H0. apply parse_padding_ok in H1. revert H. apply loop_no_fuel; [lia|].
      unfold len. lia.
Qed.

(* ---------- primary header ---------- *)
Lemma de_primary_ok e b ph p : de_primary e b = Ok (ph, p) -> p = 12 /\ 12 <= len b /\ 1 <= ph_serial ph.
Proof.
  unfold de_primary. intros H.
  apply bind_ok in H. destruct H as (p0 & H0 & H).
  assert (p0 = 0) by (unfold parse_padding in H0; cbn in H0; congruence). subst p0.
  apply bind_ok in H. destruct H as ([c0 p1] & H1 & H). apply de_u8_ok in H1. destruct H1 as (-> & _).
  destruct (endian_of_byte _); [|discriminate].
  apply bind_ok in H. destruct H as ([ty p2] & H2 & H). apply de_u8_ok in H2. destruct H2 as (-> & _).
  destruct (negb _); [discriminate|].
  apply bind_ok in H. destruct H as ([fl p3] & H3 & H). apply de_u8_ok in H3. destruct H3 as (-> & _).
  destruct (negb _); [discriminate|].
  apply bind_ok in H. destruct H as ([ver p4] & H4 & H). apply de_u8_ok in H4. destruct H4 as (-> & _).
  apply bind_ok in H. destruct H as ([bl p5] & H5 & H).
  apply bind_ok in H. destruct H as ([sn p6] & H6 & H).
  destruct (sn =? 0) eqn:Es; [discriminate|]. injection H as <- <-. cbn [ph_serial].
  unfold de_u32 in H5, H6.
  rewrite parse_padding_aligned in H5 by (cbn; lia). cbn [bind] in H5.
  apply bind_ok in H5. destruct H5 as ([l4 q] & H5 & E5). injection E5 as _ <-. apply next_slice_ok in H5. destruct H5 as (-> & _).
  rewrite parse_padding_aligned in H6 by (cbn; lia). cbn [bind] in H6.
  apply bind_ok in H6. destruct H6 as ([l4' q] & H6 & E6). injection E6 as _ <-. apply next_slice_ok in H6. lia.
Qed.
Lemma de_primary_no_panic e b p : de_primary e b <> Panic p.
Proof.
  unfold de_primary, de_u32, de_u8, next_slice, parse_padding.
  repeat match goal with
         | |- context [match ?x with _ => _ end] => destruct x; cbn [bind negb]; try discriminate
         end.
Qed.
