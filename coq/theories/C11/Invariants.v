(* C11/Invariants.v — facts about the deserializer model that hold for EVERY input (used by C12 and by the
   round-trip proof): positions grow and stay in the buffer, decoded strings are the bytes found at their recorded
   offset, the only panics are the ones named in C12/Spec.v, the fuel of the field loop is never exhausted. *)
From ZV Require Import Base.Bytes Base.Res Base.Sig C10.Model C11.Model C11.Lemmas C11.SigProofs.
From Coq Require Import Lia ZifyBool ZifyN ZifyNat.
Open Scope N_scope.

Lemma bind_ok {E A B} (r : res E A) (f : A -> res E B) x :
  bind r f = Ok x -> exists a, r = Ok a /\ f a = Ok x.
Proof. destruct r; cbn; intros H; try discriminate. eauto. Qed.
Lemma bind_panic {E A B} (r : res E A) (f : A -> res E B) p :
  bind r f = Panic p -> r = Panic p \/ exists a, r = Ok a /\ f a = Panic p.
Proof. destruct r; cbn; intros H; try discriminate; eauto. left. congruence. Qed.
Lemma bind_fuel {A B} (r : R A) (f : A -> R B) :
  bind r f = Err EFuel -> r = Err EFuel \/ exists a, r = Ok a /\ f a = Err EFuel.
Proof. destruct r; cbn; intros H; try discriminate; eauto. left. congruence. Qed.

(* ---------- integers ---------- *)
Lemma de_u32_ok e b pos n p : de_u32 e b pos = Ok (n, p) -> pos + 4 <= p /\ p <= len b /\ n < two32.
Proof.
  unfold de_u32. intros H. apply bind_ok in H. destruct H as (p0 & H0 & H).
  apply bind_ok in H. destruct H as ([l4 p1] & H1 & H). injection H as <- <-.
  apply parse_padding_ok in H0. apply next_slice_ok in H1. pose proof (rd_u32_lt e l4). lia.
Qed.
Lemma de_u32_no_panic e b pos p : de_u32 e b pos <> Panic p.
Proof.
  unfold de_u32. intros H. apply bind_panic in H. destruct H as [H|(p0 & _ & H)].
  - eapply parse_padding_no_panic; eauto.
  - apply bind_panic in H. destruct H as [H|([? ?] & _ & H)]; [eapply next_slice_no_panic; eauto|discriminate].
Qed.
Lemma de_u8_ok b pos n p : de_u8 b pos = Ok (n, p) -> p = pos + 1 /\ p <= len b /\ n < 256.
Proof.
  unfold de_u8. intros H. apply bind_ok in H. destruct H as ([l1 p1] & H1 & H). injection H as <- <-.
  apply next_slice_ok in H1. destruct l1; [lia|]. pose proof (bn_lt b0). lia.
Qed.
Lemma de_u8_no_panic b pos p : de_u8 b pos <> Panic p.
Proof.
  unfold de_u8. intros H. apply bind_panic in H. destruct H as [H|([? ?] & _ & H)]; [eapply next_slice_no_panic; eauto|discriminate].
Qed.
Lemma de_u8_nth b pos n p : de_u8 b pos = Ok (n, p) -> exists c, nth_error b (N.to_nat pos) = Some c /\ bn c = n.
Proof.
  unfold de_u8. intros H. apply bind_ok in H. destruct H as ([l1 p1] & H1 & H). injection H as <- <-.
  apply next_slice_ok in H1. destruct H1 as (-> & Hle & -> & Hl).
  unfold takeN, dropN in *. change (N.to_nat 1) with 1%nat in *.
  destruct (skipn (N.to_nat pos) b) as [|c r] eqn:E; [cbn in Hl; discriminate|].
  exists c. split; [|reflexivity].
  rewrite <- (firstn_skipn (N.to_nat pos) b). rewrite E.
  rewrite nth_error_app2 by (rewrite firstn_length; lia).
  rewrite firstn_length. replace (N.to_nat pos - Nat.min (N.to_nat pos) (length b))%nat with 0%nat; [reflexivity|].
  unfold len in Hle. lia.
Qed.

(* ---------- strings ---------- *)
(* the string [s] is what the buffer holds at [st] *)
Definition str_at (b s : bytes) (st : N) : Prop :=
  2 <= st /\ st + len s <= len b /\ takeN (len s) (dropN st b) = s /\ utf8_valid s = true.

Lemma de_str_ok w e b pos s st p : de_str w e b pos = Ok (s, st, p) ->
  pos + 1 <= st /\ st + len s + 1 = p /\ p <= len b /\ takeN (len s) (dropN st b) = s /\ utf8_valid s = true /\ has_nul s = false.
Proof.
  unfold de_str. intros H. apply bind_ok in H. destruct H as ([n p0] & H0 & H).
  apply bind_ok in H. destruct H as ([s' p1] & H1 & H).
  destruct (has_nul s') eqn:En; [discriminate|].
  apply bind_ok in H. destruct H as ([z p2] & H2 & H).
  destruct (all_zero z); [|discriminate]. cbn [negb] in H.
  destruct (utf8_valid s') eqn:Eu; [|discriminate]. injection H as <- <- <-.
  apply next_slice_ok in H1. destruct H1 as (-> & Hle1 & Es & Hl). apply next_slice_ok in H2. destruct H2 as (-> & Hle2 & _ & _).
  assert (pos + 1 <= p0).
  { destruct w; [apply de_u32_ok in H0|apply de_u8_ok in H0]; lia. }
  rewrite Hl. repeat split; try lia; auto.
Qed.
Lemma de_str_no_panic w e b pos p : de_str w e b pos <> Panic p.
Proof.
  unfold de_str. intros H. apply bind_panic in H. destruct H as [H|([n p0] & _ & H)].
  - destruct w; [eapply de_u32_no_panic|eapply de_u8_no_panic]; eauto.
  - apply bind_panic in H. destruct H as [H|([s' p1] & _ & H)]; [eapply next_slice_no_panic; eauto|].
    destruct (has_nul s'); [discriminate|].
    apply bind_panic in H. destruct H as [H|([z p2] & _ & H)]; [eapply next_slice_no_panic; eauto|].
    destruct (all_zero z); cbn in H; [|discriminate]. destruct (utf8_valid s'); discriminate.
Qed.

(* ---------- the general value decoder ---------- *)
Lemma de_value_eq vf s d e b pos : de_value vf s d e b pos =
  match s with
  | SUnit | SMaybe _ => Err EData
  | SU8 => let* (_, p) := next_slice b pos 1 in Ok p
  | SBool => let* (n, p) := de_u32 e b pos in if n <=? 1 then Ok p else Err EData
  | SI16 | SU16 => de_fixed b pos 2
  | SI32 | SU32 => de_fixed b pos 4
  | SI64 | SU64 | SF64 => de_fixed b pos 8
  | SStr => let* (_, _, p) := de_str true e b pos in Ok p
  | SObjPath => let* (s', _, p) := de_str true e b pos in if validate_object_path s' then Ok p else Err EData
  | SSig => let* (s', _, p) := de_str false e b pos in match parse_sig s' with Some _ => Ok p | None => Err EData end
  | SFd => let* (_, _) := de_u32 e b pos in Err EData
  | SArray c =>
      let* p0 := parse_padding b pos 4 in
      let* d' := inc_array d in
      let* (n, p1) := de_u32 e b p0 in
      let* start := parse_padding b p1 (align_dbus c) in
      arr_loop (de_value vf c d' e b) b (align_dbus c) (start + n) (S (length b)) start
  | SDict kt vt =>
      let* p0 := parse_padding b pos 4 in
      let* d' := inc_array d in
      let* (n, p1) := de_u32 e b p0 in
      let* start := parse_padding b p1 8 in
      dict_loop (de_value vf kt d' e b) (de_value vf vt d' e b) b (start + n) (S (length b)) start
  | SStruct fs =>
      let* p0 := parse_padding b pos 8 in
      let* d' := inc_struct d in
      struct_go (fun f q => de_value vf f d' e b q) fs p0
  | SVariant =>
      let* (vs, vstart) := variant_sig e b pos in
      let* d' := inc_variant d in
      match vf with
      | O => Err EFuel
      | S vf' => de_value vf' vs d' e b vstart
      end
  end.
Proof. destruct vf; destruct s; reflexivity. Qed.

Lemma depth_check_no_panic d p : depth_check d <> Panic p.
Proof. unfold depth_check. repeat (destruct (_ <? _); try discriminate). Qed.
Lemma inc_no_panic d p : inc_array d <> Panic p /\ inc_struct d <> Panic p /\ inc_variant d <> Panic p.
Proof. repeat split; apply depth_check_no_panic. Qed.

Lemma de_fixed_ok b pos a p : de_fixed b pos a = Ok p -> pos + a <= p /\ p <= len b.
Proof.
  unfold de_fixed. intros H. apply bind_ok in H. destruct H as (p0 & H0 & H).
  apply bind_ok in H. destruct H as ([l p1] & H1 & H). injection H as <-.
  apply parse_padding_ok in H0. apply next_slice_ok in H1. lia.
Qed.
Lemma de_fixed_no_panic b pos a p : de_fixed b pos a <> Panic p.
Proof.
  unfold de_fixed. intros H. apply bind_panic in H. destruct H as [H|(p0 & _ & H)]; [eapply parse_padding_no_panic; eauto|].
  apply bind_panic in H. destruct H as [H|([? ?] & _ & H)]; [eapply next_slice_no_panic; eauto|discriminate].
Qed.

Lemma variant_sig_ok e b pos vs vst : variant_sig e b pos = Ok (vs, vst) -> pos + 2 <= vst /\ vst <= len b.
Proof.
  unfold variant_sig. intros H. apply bind_ok in H. destruct H as ([[sg st0] p1] & H0 & H).
  pose proof H0 as H0'. apply de_str_ok in H0. destruct H0 as (Ha & Hb & Hc & _).
  destruct (parse_sig sg) as [sg0|]; [|discriminate].
  destruct (nth_error b (N.to_nat pos)) as [lb|]; [|discriminate].
  destruct (len b <? pos + 1 + bn lb); [discriminate|].
  destruct (parse_sig _) as [vs'|]; [|discriminate].
  destruct (_ || _); [discriminate|].
  destruct (len b <? pos + 1 + bn lb + 1) eqn:Evs; [discriminate|]. injection H as <- <-. lia.
Qed.
Lemma variant_sig_no_panic e b pos p : variant_sig e b pos <> Panic p.
Proof.
  unfold variant_sig. intros H. apply bind_panic in H. destruct H as [H|([[sg st0] p1] & H0 & H)].
  - eapply de_str_no_panic; eauto.
  - unfold de_str in H0. apply bind_ok in H0. destruct H0 as ([n p0] & H0 & _).
    apply de_u8_nth in H0. destruct H0 as (c & Hc & _).
    destruct (parse_sig sg) as [sg0|]; [|discriminate]. rewrite Hc in H.
    destruct (len b <? pos + 1 + bn c); [discriminate|].
    destruct (parse_sig _) as [vs|]; [|discriminate].
    destruct (_ || _); [discriminate|].
    destruct (len b <? pos + 1 + bn c + 1); discriminate.
Qed.

Lemma arr_loop_no_panic elem b al endp : (forall q p, elem q <> Panic p) ->
  forall k q p, arr_loop elem b al endp k q <> Panic p.
Proof.
  intros He. induction k as [|k IH]; intros q p H; cbn [arr_loop] in H; destruct (q =? endp); try discriminate.
  apply bind_panic in H. destruct H as [H|(q1 & _ & H)]; [eapply parse_padding_no_panic; eauto|].
  apply bind_panic in H. destruct H as [H|(q2 & _ & H)]; [eapply He; eauto|].
  destruct (endp <? q2); [discriminate|]. eapply IH; eauto.
Qed.
Lemma dict_loop_no_panic kd vd b endp : (forall q p, kd q <> Panic p) -> (forall q p, vd q <> Panic p) ->
  forall k q p, dict_loop kd vd b endp k q <> Panic p.
Proof.
  intros Hk Hv. induction k as [|k IH]; intros q p H; cbn [dict_loop] in H; destruct (q =? endp); try discriminate.
  apply bind_panic in H. destruct H as [H|(q1 & _ & H)]; [eapply parse_padding_no_panic; eauto|].
  apply bind_panic in H. destruct H as [H|(q2 & _ & H)]; [eapply Hk; eauto|].
  destruct (endp <? q2); [discriminate|].
  apply bind_panic in H. destruct H as [H|(q3 & _ & H)]; [eapply Hv; eauto|].
  destruct (endp <? q3); [discriminate|]. eapply IH; eauto.
Qed.
Lemma struct_go_no_panic fld l : Forall (fun f => forall q p, fld f q <> Panic p) l ->
  forall q p, struct_go fld l q <> Panic p.
Proof.
  induction 1 as [|f r Hf Hr IH]; intros q p H; cbn [struct_go] in H; [discriminate|].
  apply bind_panic in H. destruct H as [H|(q' & _ & H)]; [eapply Hf; eauto|eapply IH; eauto].
Qed.

Lemma de_value_no_panic : forall vf s d e b pos p, de_value vf s d e b pos <> Panic p.
Proof.
  induction vf as [|vf IHvf]; induction s using sig_ind'; intros d e b pos p; rewrite de_value_eq; intros Hp;
    try discriminate;
    try (apply de_fixed_no_panic in Hp; exact Hp);
    try (apply bind_panic in Hp; destruct Hp as [Hp|([? ?] & _ & Hp)];
         [first [solve [eapply next_slice_no_panic; eauto] | solve [eapply de_u32_no_panic; eauto]]
         |first [discriminate | destruct (_ <=? _); discriminate]]; fail);
    try (apply bind_panic in Hp; destruct Hp as [Hp|([[s' ?] ?] & _ & Hp)];
         [eapply de_str_no_panic; eauto
         |first [discriminate | destruct (validate_object_path s'); discriminate | destruct (parse_sig s'); discriminate]]; fail).
  (* arrays, dicts, structures, variants: twice (vf = 0 and vf = S _) *)
  all: try (apply bind_panic in Hp; destruct Hp as [Hp|(p0 & _ & Hp)]; [eapply parse_padding_no_panic; eauto|];
            apply bind_panic in Hp; destruct Hp as [Hp|(d' & _ & Hp)]; [eapply depth_check_no_panic; eauto|]).
  all: try (apply bind_panic in Hp; destruct Hp as [Hp|([n p1] & _ & Hp)]; [eapply de_u32_no_panic; eauto|];
            apply bind_panic in Hp; destruct Hp as [Hp|(start & _ & Hp)]; [eapply parse_padding_no_panic; eauto|]).
  all: try (revert Hp; apply arr_loop_no_panic; intros; apply IHs; fail).
  all: try (revert Hp; apply dict_loop_no_panic; intros; [apply IHs1|apply IHs2]; fail).
  all: try (revert Hp; apply struct_go_no_panic; revert H; apply Forall_impl; intros f Hf q p'; apply Hf; fail).
  all: try (apply bind_panic in Hp; destruct Hp as [Hp|([vs vst] & _ & Hp)]; [eapply variant_sig_no_panic; eauto|];
            apply bind_panic in Hp; destruct Hp as [Hp|(d' & _ & Hp)]; [eapply depth_check_no_panic; eauto|];
            first [discriminate | eapply IHvf; eauto]).
Qed.

(* positions never move backwards *)
Lemma arr_loop_mono elem b al endp : (forall q p, elem q = Ok p -> q <= p) ->
  forall k q p, arr_loop elem b al endp k q = Ok p -> q <= p.
Proof.
  intros He. induction k as [|k IH]; intros q p H; cbn [arr_loop] in H; destruct (q =? endp); try discriminate;
    try (injection H as <-; lia).
  apply bind_ok in H. destruct H as (q1 & H1 & H). apply bind_ok in H. destruct H as (q2 & H2 & H).
  destruct (endp <? q2); [discriminate|]. apply parse_padding_ok in H1. apply He in H2. apply IH in H. lia.
Qed.
Lemma dict_loop_mono kd vd b endp : (forall q p, kd q = Ok p -> q <= p) -> (forall q p, vd q = Ok p -> q <= p) ->
  forall k q p, dict_loop kd vd b endp k q = Ok p -> q <= p.
Proof.
  intros Hk Hv. induction k as [|k IH]; intros q p H; cbn [dict_loop] in H; destruct (q =? endp); try discriminate;
    try (injection H as <-; lia).
  apply bind_ok in H. destruct H as (q1 & H1 & H). apply bind_ok in H. destruct H as (q2 & H2 & H).
  destruct (endp <? q2); [discriminate|]. apply bind_ok in H. destruct H as (q3 & H3 & H).
  destruct (endp <? q3); [discriminate|].
  apply parse_padding_ok in H1. apply Hk in H2. apply Hv in H3. apply IH in H. lia.
Qed.
Lemma struct_go_mono fld l : Forall (fun f => forall q p, fld f q = Ok p -> q <= p) l ->
  forall q p, struct_go fld l q = Ok p -> q <= p.
Proof.
  induction 1 as [|f r Hf Hr IH]; intros q p H; cbn [struct_go] in H; [injection H as <-; lia|].
  apply bind_ok in H. destruct H as (q' & H1 & H). apply Hf in H1. apply IH in H. lia.
Qed.

Lemma de_value_mono : forall vf s d e b pos p, de_value vf s d e b pos = Ok p -> pos <= p.
Proof.
  induction vf as [|vf IHvf]; induction s using sig_ind'; intros d e b pos p; rewrite de_value_eq; intros Hp;
    try discriminate;
    try (apply de_fixed_ok in Hp; lia).
  all: try (apply bind_ok in Hp; destruct Hp as ([l1 p1] & H1 & Hp); apply next_slice_ok in H1; injection Hp as <-; lia).
  all: try (apply bind_ok in Hp; destruct Hp as ([n p1] & H1 & Hp); apply de_u32_ok in H1;
            first [discriminate | destruct (n <=? 1); [injection Hp as <-; lia|discriminate]]).
  all: try (apply bind_ok in Hp; destruct Hp as ([[s' st] p1] & H1 & Hp); apply de_str_ok in H1;
            first [injection Hp as <-; lia
                  | destruct (validate_object_path s'); [injection Hp as <-; lia|discriminate]
                  | destruct (parse_sig s'); [injection Hp as <-; lia|discriminate]]).
  all: try (apply bind_ok in Hp; destruct Hp as (p0 & HP0 & Hp); apply bind_ok in Hp; destruct Hp as (d' & _ & Hp);
            apply parse_padding_ok in HP0).
  all: try (apply bind_ok in Hp; destruct Hp as ([n p1] & H1 & Hp); apply bind_ok in Hp; destruct Hp as (start & H2 & Hp);
            apply de_u32_ok in H1; apply parse_padding_ok in H2).
  all: try (apply arr_loop_mono in Hp; [lia|intros q p'; apply IHs]).
  all: try (apply dict_loop_mono in Hp; [lia|intros q p'; apply IHs1|intros q p'; apply IHs2]).
  all: try (apply struct_go_mono in Hp; [lia|]; revert H; apply Forall_impl; intros f Hf q p'; apply Hf).
  all: try (apply bind_ok in Hp; destruct Hp as ([vs vst] & H1 & Hp); apply bind_ok in Hp; destruct Hp as (d' & _ & Hp);
            apply variant_sig_ok in H1; first [discriminate | apply IHvf in Hp; lia]).
Qed.

(* ---------- the fuel of the value decoder is never the limit ---------- *)
Lemma variant_sig_wf e b pos vs vst : variant_sig e b pos = Ok (vs, vst) -> wf vs = true.
Proof.
  unfold variant_sig. intros H. apply bind_ok in H. destruct H as ([[sg st0] p1] & _ & H).
  destruct (parse_sig sg) as [sg0|]; [|discriminate].
  destruct (nth_error b (N.to_nat pos)) as [lb|]; [|discriminate].
  destruct (len b <? pos + 1 + bn lb); [discriminate|].
  destruct (parse_sig _) as [vs'|] eqn:Ep; [|discriminate].
  destruct (_ || _) eqn:Eu; [discriminate|].
  destruct (len b <? pos + 1 + bn lb + 1); [discriminate|]. injection H as <- <-.
  apply parse_sig_wf in Ep. destruct Ep as [->|Hw]; [discriminate|exact Hw].
Qed.

(* a value of a well-formed type occupies at least one byte, inside the buffer *)
Lemma arr_loop_bounds elem b al endp : (forall q p, elem q = Ok p -> q < p /\ p <= len b) ->
  forall k q p, q <= len b -> arr_loop elem b al endp k q = Ok p -> q <= p /\ p <= len b.
Proof.
  intros He. induction k as [|k IH]; intros q p Hq H; cbn [arr_loop] in H; destruct (q =? endp); try discriminate;
    try (injection H as <-; lia).
  apply bind_ok in H. destruct H as (q1 & H1 & H). apply bind_ok in H. destruct H as (q2 & H2 & H).
  destruct (endp <? q2); [discriminate|]. apply parse_padding_ok in H1. apply He in H2. apply IH in H; lia.
Qed.
Lemma dict_loop_bounds kd vd b endp : (forall q p, kd q = Ok p -> q < p /\ p <= len b) -> (forall q p, vd q = Ok p -> q < p /\ p <= len b) ->
  forall k q p, q <= len b -> dict_loop kd vd b endp k q = Ok p -> q <= p /\ p <= len b.
Proof.
  intros Hk Hv. induction k as [|k IH]; intros q p Hq H; cbn [dict_loop] in H; destruct (q =? endp); try discriminate;
    try (injection H as <-; lia).
  apply bind_ok in H. destruct H as (q1 & H1 & H). apply bind_ok in H. destruct H as (q2 & H2 & H).
  destruct (endp <? q2); [discriminate|]. apply bind_ok in H. destruct H as (q3 & H3 & H).
  destruct (endp <? q3); [discriminate|].
  apply parse_padding_ok in H1. apply Hk in H2. apply Hv in H3. apply IH in H; lia.
Qed.
Lemma struct_go_bounds fld b l : l <> [] -> Forall (fun f => forall q p, fld f q = Ok p -> q < p /\ p <= len b) l ->
  forall q p, struct_go fld l q = Ok p -> q < p /\ p <= len b.
Proof.
  intros Hne Hall. induction Hall as [|f r Hf Hr IH]; [congruence|]. intros q p H. cbn [struct_go] in H.
  apply bind_ok in H. destruct H as (q' & H1 & H). apply Hf in H1.
  destruct r as [|g r']; [cbn in H; injection H as <-; lia|]. apply IH in H; [lia|discriminate].
Qed.

Lemma wf_struct fs : wf (SStruct fs) = true -> fs <> [] /\ forallb wf fs = true.
Proof. cbn [wf]. destruct fs; [discriminate|]. intros H. split; [discriminate|exact H]. Qed.

Lemma de_value_bounds : forall vf s d e b pos p, wf s = true -> de_value vf s d e b pos = Ok p -> pos < p /\ p <= len b.
Proof.
  induction vf as [|vf IHvf]; induction s using sig_ind'; intros d e b pos p Hw; rewrite de_value_eq; intros Hp;
    try discriminate;
    try (apply de_fixed_ok in Hp; lia).
  all: try (apply bind_ok in Hp; destruct Hp as ([l1 p1] & H1 & Hp); apply next_slice_ok in H1; injection Hp as <-; lia).
  all: try (apply bind_ok in Hp; destruct Hp as ([n p1] & H1 & Hp); apply de_u32_ok in H1;
            first [discriminate | destruct (n <=? 1); [injection Hp as <-; lia|discriminate]]).
  all: try (apply bind_ok in Hp; destruct Hp as ([[s' st] p1] & H1 & Hp); apply de_str_ok in H1;
            first [injection Hp as <-; lia
                  | destruct (validate_object_path s'); [injection Hp as <-; lia|discriminate]
                  | destruct (parse_sig s'); [injection Hp as <-; lia|discriminate]]).
  all: try (apply bind_ok in Hp; destruct Hp as (p0 & HP0 & Hp); apply bind_ok in Hp; destruct Hp as (d' & _ & Hp);
            apply parse_padding_ok in HP0).
  all: try (apply bind_ok in Hp; destruct Hp as ([n p1] & H1 & Hp); apply bind_ok in Hp; destruct Hp as (start & H2 & Hp);
            apply de_u32_ok in H1; apply parse_padding_ok in H2).
  all: try (cbn [wf] in Hw; apply arr_loop_bounds in Hp; [lia|intros q p'; apply IHs; exact Hw|lia]).
  all: try (cbn [wf] in Hw; apply andb_prop in Hw; destruct Hw as [Hw1 Hw2];
            apply dict_loop_bounds in Hp; [lia|intros q p'; apply IHs1; exact Hw1|intros q p'; apply IHs2; exact Hw2|lia]).
  all: try (apply wf_struct in Hw; destruct Hw as [Hne Hall]; apply (struct_go_bounds _ b) in Hp; [lia|exact Hne|];
            rewrite forallb_forall in Hall; rewrite Forall_forall in H |- *; intros f Hf q p'; apply H; [exact Hf|apply Hall; exact Hf]).
  all: try (apply bind_ok in Hp; destruct Hp as ([vs vst] & H1 & Hp); apply bind_ok in Hp; destruct Hp as (d' & _ & Hp);
            pose proof (variant_sig_wf _ _ _ _ _ H1); apply variant_sig_ok in H1;
            first [discriminate | apply IHvf in Hp; [lia|assumption]]).
Qed.

Definition total_depth (d : depths) : N := d_struct d + d_array d + d_variant d.
Lemma depth_check_ok d d' : depth_check d = Ok d' -> d' = d /\ total_depth d <= 64.
Proof.
  unfold depth_check, total_depth. destruct (32 <? _); [discriminate|]. destruct (32 <? _); [discriminate|].
  destruct (64 <? _) eqn:E; [discriminate|]. intros [= <-]. split; [reflexivity|lia].
Qed.
Lemma depth_check_no_fuel d : depth_check d <> Err EFuel.
Proof. unfold depth_check. repeat (destruct (_ <? _); try discriminate). Qed.

Lemma prim_no_fuel :
  (forall b pos a, parse_padding b pos a <> Err EFuel) /\ (forall b pos n, next_slice b pos n <> Err EFuel)
  /\ (forall e b pos, de_u32 e b pos <> Err EFuel) /\ (forall b pos a, de_fixed b pos a <> Err EFuel)
  /\ (forall w e b pos, de_str w e b pos <> Err EFuel) /\ (forall e b pos, variant_sig e b pos <> Err EFuel).
Proof.
  repeat split; intros; unfold variant_sig, de_str, de_fixed, de_u32, de_u8, next_slice, parse_padding;
    repeat match goal with
           | |- context [match ?x with _ => _ end] => destruct x; cbn [bind negb]; try discriminate
           end.
Qed.

Lemma arr_loop_no_fuel elem b al endp : (forall q, elem q <> Err EFuel) -> (forall q p, elem q = Ok p -> q < p /\ p <= len b) ->
  forall k q, len b - q < N.of_nat k -> arr_loop elem b al endp k q <> Err EFuel.
Proof.
  destruct prim_no_fuel as (Fpad & _). intros Hf He. induction k as [|k IH]; intros q Hk H; [lia|].
  cbn [arr_loop] in H. destruct (q =? endp); [discriminate|].
  apply bind_fuel in H. destruct H as [H|(q1 & H1 & H)]; [eapply Fpad; eauto|].
  apply bind_fuel in H. destruct H as [H|(q2 & H2 & H)]; [eapply Hf; eauto|].
  destruct (endp <? q2); [discriminate|]. apply parse_padding_ok in H1. apply He in H2. revert H. apply IH. lia.
Qed.
Lemma dict_loop_no_fuel kd vd b endp : (forall q, kd q <> Err EFuel) -> (forall q, vd q <> Err EFuel) ->
  (forall q p, kd q = Ok p -> q < p /\ p <= len b) -> (forall q p, vd q = Ok p -> q < p /\ p <= len b) ->
  forall k q, len b - q < N.of_nat k -> dict_loop kd vd b endp k q <> Err EFuel.
Proof.
  destruct prim_no_fuel as (Fpad & _). intros Hfk Hfv Hk Hv. induction k as [|k IH]; intros q Hq H; [lia|].
  cbn [dict_loop] in H. destruct (q =? endp); [discriminate|].
  apply bind_fuel in H. destruct H as [H|(q1 & H1 & H)]; [eapply Fpad; eauto|].
  apply bind_fuel in H. destruct H as [H|(q2 & H2 & H)]; [eapply Hfk; eauto|].
  destruct (endp <? q2); [discriminate|].
  apply bind_fuel in H. destruct H as [H|(q3 & H3 & H)]; [eapply Hfv; eauto|].
  destruct (endp <? q3); [discriminate|]. apply parse_padding_ok in H1. apply Hk in H2. apply Hv in H3. revert H. apply IH. lia.
Qed.
Lemma struct_go_no_fuel fld l : Forall (fun f => forall q, fld f q <> Err EFuel) l -> forall q, struct_go fld l q <> Err EFuel.
Proof.
  induction 1 as [|f r Hf Hr IH]; intros q H; cbn [struct_go] in H; [discriminate|].
  apply bind_fuel in H. destruct H as [H|(q' & _ & H)]; [eapply Hf; eauto|eapply IH; eauto].
Qed.

(* variants nest at most 64 deep (ContainerDepths), so 64 levels of [vf] minus the depth already used always suffice *)
Lemma de_value_no_fuel : forall vf s d e b pos, wf s = true -> 64 < N.of_nat vf + total_depth d ->
  de_value vf s d e b pos <> Err EFuel.
Proof.
  destruct prim_no_fuel as (Fpad & Fns & Fu32 & Ffix & Fstr & Fvs).
  induction vf as [|vf IHvf]; induction s using sig_ind'; intros d e b pos Hw Hd; rewrite de_value_eq; intros Hp;
    try discriminate;
    try (eapply Ffix; eauto; fail).
  all: try (apply bind_fuel in Hp; destruct Hp as [Hp|([? ?] & _ & Hp)];
            [first [solve [eapply Fns; eauto] | solve [eapply Fu32; eauto]]
            |first [discriminate | destruct (_ <=? _); discriminate]]; fail).
  all: try (apply bind_fuel in Hp; destruct Hp as [Hp|([[s' ?] ?] & _ & Hp)];
            [eapply Fstr; eauto
            |first [discriminate | destruct (validate_object_path s'); discriminate | destruct (parse_sig s'); discriminate]]; fail).
  all: try (apply bind_fuel in Hp; destruct Hp as [Hp|(p0 & HP0 & Hp)]; [eapply Fpad; eauto|];
            apply bind_fuel in Hp; destruct Hp as [Hp|(d' & Hd' & Hp)]; [eapply depth_check_no_fuel; eauto|];
            apply depth_check_ok in Hd'; destruct Hd' as [-> Hd']; unfold total_depth in *;
            cbn [d_struct d_array d_variant] in *).
  all: try (apply bind_fuel in Hp; destruct Hp as [Hp|([n p1] & H1 & Hp)]; [eapply Fu32; eauto|];
            apply bind_fuel in Hp; destruct Hp as [Hp|(start & H2 & Hp)]; [eapply Fpad; eauto|];
            apply de_u32_ok in H1; apply parse_padding_ok in H2).
  all: try (cbn [wf] in Hw; revert Hp; apply arr_loop_no_fuel;
            [intros q; apply IHs; [exact Hw|unfold total_depth; cbn [d_struct d_array d_variant]; lia]
            |intros q p'; apply de_value_bounds; exact Hw
            |unfold len; lia]).
  all: try (cbn [wf] in Hw; apply andb_prop in Hw; destruct Hw as [Hw1 Hw2]; revert Hp; apply dict_loop_no_fuel;
            [intros q; apply IHs1; [exact Hw1|unfold total_depth; cbn [d_struct d_array d_variant]; lia]
            |intros q; apply IHs2; [exact Hw2|unfold total_depth; cbn [d_struct d_array d_variant]; lia]
            |intros q p'; apply de_value_bounds; exact Hw1
            |intros q p'; apply de_value_bounds; exact Hw2
            |unfold len; lia]).
  all: try (apply wf_struct in Hw; destruct Hw as [Hne Hall]; revert Hp; apply struct_go_no_fuel;
            rewrite forallb_forall in Hall; rewrite Forall_forall in H |- *; intros f Hf q; apply H;
            [exact Hf|apply Hall; exact Hf|unfold total_depth; cbn [d_struct d_array d_variant]; lia]).
  all: try (apply bind_fuel in Hp; destruct Hp as [Hp|([vs vst] & H1 & Hp)]; [eapply Fvs; eauto|];
            apply bind_fuel in Hp; destruct Hp as [Hp|(d' & Hd' & Hp)]; [eapply depth_check_no_fuel; eauto|];
            apply depth_check_ok in Hd'; destruct Hd' as [-> Hd']; unfold total_depth in *;
            cbn [d_struct d_array d_variant] in *;
            first [lia | revert Hp; apply IHvf; [eapply variant_sig_wf; eauto|unfold total_depth; cbn [d_struct d_array d_variant]; lia]]).
Qed.

(* ---------- header field values ---------- *)
Definition fval_inv (b : bytes) (v : fval) : Prop :=
  match v with
  | FStr s st => str_at b s st
  | FPath s st => str_at b s st /\ validate_object_path s = true
  | FSig _ | FU32 _ | FOther => True
  end.

Lemma de_variant_ok e b pos v p : 1 <= pos -> de_variant e b pos = Ok (v, p) -> fval_inv b v /\ pos < p.
Proof.
  intros Hpos. unfold de_variant. intros H. apply bind_ok in H. destruct H as ([[sg st0] p1] & H0 & H).
  apply de_str_ok in H0. destruct H0 as (Ha & Hb & Hc & _).
  destruct (parse_sig sg) as [sg0|]; [|discriminate].
  destruct (nth_error b (N.to_nat pos)) as [lb|]; [|discriminate].
  destruct (len b <? pos + 1 + bn lb); [discriminate|].
  destruct (parse_sig _) as [vs|]; [|discriminate].
  destruct (_ || _); [discriminate|].
  destruct (len b <? pos + 1 + bn lb + 1) eqn:Evs; [discriminate|].
  assert (Hst : forall s st p2, de_str true e b (pos + 1 + bn lb + 1) = Ok (s, st, p2) -> str_at b s st /\ pos < p2 /\ p2 <= len b).
  { intros s1 st1 p2 Hs. apply de_str_ok in Hs. unfold str_at. intuition lia. }
  assert (Hother : forall vs', (let* p2 := de_value 64 vs' field_value_depths e b (pos + 1 + bn lb + 1) in Ok (FOther, p2)) = Ok (v, p) ->
                    fval_inv b v /\ pos < p).
  { intros vs' Ho. apply bind_ok in Ho. destruct Ho as (p2 & H2 & Ho). injection Ho as <- <-.
    apply de_value_mono in H2. cbn. lia. }
  destruct vs; try (apply Hother in H; exact H).
  - (* u32 *) apply bind_ok in H. destruct H as ([n p2] & H2 & H). injection H as <- <-.
    apply de_u32_ok in H2. cbn. lia.
  - (* str *) apply bind_ok in H. destruct H as ([[s st] p2] & H2 & H). injection H as <- <-.
    apply Hst in H2. cbn. tauto.
  - (* sig *) apply bind_ok in H. destruct H as ([[s st] p2] & H2 & H).
    destruct (parse_sig s); [|discriminate]. injection H as <- <-. apply de_str_ok in H2. cbn. lia.
  - (* path *) apply bind_ok in H. destruct H as ([[s st] p2] & H2 & H).
    destruct (validate_object_path s) eqn:Ev; [|discriminate]. injection H as <- <-.
    apply Hst in H2. cbn. tauto.
Qed.

Lemma de_variant_no_panic e b pos p : de_variant e b pos <> Panic p.
Proof.
  unfold de_variant. intros H. apply bind_panic in H. destruct H as [H|([[sg st0] p1] & H0 & H)].
  - eapply de_str_no_panic; eauto.
  - unfold de_str in H0. apply bind_ok in H0. destruct H0 as ([n p0] & H0 & _).
    apply de_u8_nth in H0. destruct H0 as (c & Hc & _).
    destruct (parse_sig sg) as [sg0|]; [|discriminate]. rewrite Hc in H.
    destruct (len b <? pos + 1 + bn c); [discriminate|].
    destruct (parse_sig _) as [vs|]; [|discriminate].
    destruct (_ || _); [discriminate|].
    destruct (len b <? pos + 1 + bn c + 1); [discriminate|].
    assert (Hother : forall vs', (let* p2 := de_value 64 vs' field_value_depths e b (pos + 1 + bn c + 1) in Ok (FOther, p2)) <> Panic p).
    { intros vs' Ho. apply bind_panic in Ho. destruct Ho as [Ho|(? & _ & Ho)]; [eapply de_value_no_panic; eauto|discriminate]. }
    destruct vs; try (apply Hother in H; exact H).
    + apply bind_panic in H. destruct H as [H|([? ?] & _ & H)]; [eapply de_u32_no_panic; eauto|discriminate].
    + apply bind_panic in H. destruct H as [H|([[? ?] ?] & _ & H)]; [eapply de_str_no_panic; eauto|discriminate].
    + apply bind_panic in H. destruct H as [H|([[s ?] ?] & _ & H)]; [eapply de_str_no_panic; eauto|].
      destruct (parse_sig s); discriminate.
    + apply bind_panic in H. destruct H as [H|([[s ?] ?] & _ & H)]; [eapply de_str_no_panic; eauto|].
      destruct (validate_object_path s); discriminate.
Qed.

Lemma de_field_ok e b pos code v p : 1 <= pos -> de_field e b pos = Ok (code, v, p) ->
  fval_inv b v /\ pos < p /\ pos < len b.
Proof.
  intros Hpos. unfold de_field. intros H. apply bind_ok in H. destruct H as (p0 & H0 & H).
  apply bind_ok in H. destruct H as ([c p1] & H1 & H).
  apply bind_ok in H. destruct H as ([v' p2] & H2 & H). injection H as <- <- <-.
  apply parse_padding_ok in H0. apply de_u8_ok in H1. apply de_variant_ok in H2; [|lia]. intuition lia.
Qed.
Lemma de_field_no_panic e b pos p : de_field e b pos <> Panic p.
Proof.
  unfold de_field. intros H. apply bind_panic in H. destruct H as [H|(p0 & _ & H)]; [eapply parse_padding_no_panic; eauto|].
  apply bind_panic in H. destruct H as [H|([c p1] & _ & H)]; [eapply de_u8_no_panic; eauto|].
  apply bind_panic in H. destruct H as [H|([? ?] & _ & H)]; [eapply de_variant_no_panic; eauto|discriminate].
Qed.

Lemma de_variant_no_fuel e b pos : de_variant e b pos <> Err EFuel.
Proof.
  destruct prim_no_fuel as (Fpad & Fns & Fu32 & Ffix & Fstr & Fvs).
  unfold de_variant. intros H. apply bind_fuel in H. destruct H as [H|([[sg st0] p1] & _ & H)]; [eapply Fstr; eauto|].
  destruct (parse_sig sg) as [sg0|]; [|discriminate].
  destruct (nth_error b (N.to_nat pos)) as [lb|]; [|discriminate].
  destruct (len b <? pos + 1 + bn lb); [discriminate|].
  destruct (parse_sig _) as [vs|] eqn:Ep; [|discriminate].
  destruct (_ || _) eqn:Eu; [discriminate|].
  destruct (len b <? pos + 1 + bn lb + 1); [discriminate|].
  assert (Hw : wf vs = true).
  { apply parse_sig_wf in Ep. destruct Ep as [->|Hw]; [discriminate|exact Hw]. }
  assert (Hother : (let* p2 := de_value 64 vs field_value_depths e b (pos + 1 + bn lb + 1) in Ok (FOther, p2)) <> Err EFuel).
  { intros Ho. apply bind_fuel in Ho. destruct Ho as [Ho|(? & _ & Ho)]; [|discriminate].
    revert Ho. apply de_value_no_fuel; [exact Hw|reflexivity]. }
  destruct vs; try (apply Hother in H; exact H).
  - apply bind_fuel in H. destruct H as [H|([? ?] & _ & H)]; [eapply Fu32; eauto|discriminate].
  - apply bind_fuel in H. destruct H as [H|([[? ?] ?] & _ & H)]; [eapply Fstr; eauto|discriminate].
  - apply bind_fuel in H. destruct H as [H|([[s ?] ?] & _ & H)]; [eapply Fstr; eauto|]. destruct (parse_sig s); discriminate.
  - apply bind_fuel in H. destruct H as [H|([[s ?] ?] & _ & H)]; [eapply Fstr; eauto|]. destruct (validate_object_path s); discriminate.
Qed.
Lemma de_field_no_fuel e b pos : de_field e b pos <> Err EFuel.
Proof.
  destruct prim_no_fuel as (Fpad & Fns & _).
  unfold de_field. intros H. apply bind_fuel in H. destruct H as [H|(p0 & _ & H)]; [eapply Fpad; eauto|].
  apply bind_fuel in H. destruct H as [H|([c p1] & _ & H)].
  { revert H. unfold de_u8. intros H. apply bind_fuel in H. destruct H as [H|([? ?] & _ & H)]; [eapply Fns; eauto|discriminate]. }
  apply bind_fuel in H. destruct H as [H|([? ?] & _ & H)]; [eapply de_variant_no_fuel; eauto|discriminate].
Qed.

(* ---------- the fields record ---------- *)
Definition ostr_at (b : bytes) (o : option (bytes * N)) : Prop :=
  match o with Some (s, st) => str_at b s st | None => True end.
Definition ovalid (v : bytes -> bool) (o : option (bytes * N)) : Prop :=
  match o with Some (s, _) => v s = true | None => True end.
(* every string field is the bytes at its recorded offset, and a valid name of its kind (all six are validated at parse
   time since fix b3fdf920) *)
Definition fields_inv (b : bytes) (fs : fields) : Prop :=
  ostr_at b (f_path fs) /\ ostr_at b (f_iface fs) /\ ostr_at b (f_member fs) /\ ostr_at b (f_errname fs)
  /\ ostr_at b (f_dest fs) /\ ostr_at b (f_sender fs)
  /\ ovalid validate_object_path (f_path fs) /\ ovalid validate_interface (f_iface fs) /\ ovalid validate_member (f_member fs)
  /\ ovalid validate_error (f_errname fs) /\ ovalid validate_bus (f_dest fs) /\ ovalid validate_unique (f_sender fs).

Lemma fields_inv_empty b : fields_inv b fields_empty.
Proof. unfold fields_inv, fields_empty; cbn. tauto. Qed.

Lemma set_field_inv b fs code v fs' : fields_inv b fs -> fval_inv b v -> set_field fs code v = Ok fs' -> fields_inv b fs'.
Proof.
  unfold fields_inv. intros (H1 & H2 & H3 & H4 & H5 & H6 & V1 & V2 & V3 & V4 & V5 & V6) Hv H.
  unfold set_field in H.
  repeat match type of H with
         | (if ?x then _ else _) = _ => destruct x eqn:?; try discriminate
         | match ?x with _ => _ end = _ => destruct x; try discriminate
         end;
    injection H as <-; cbn [f_path f_iface f_member f_errname f_reply f_dest f_sender f_sig f_fds ostr_at ovalid]; cbn [fval_inv] in Hv;
    repeat match goal with Hn : negb _ = false |- _ => apply Bool.negb_false_iff in Hn end;
    refine (conj _ (conj _ (conj _ (conj _ (conj _ (conj _ (conj _ (conj _ (conj _ (conj _ (conj _ _)))))))))));
    try assumption; try (apply Hv).
Qed.

Lemma set_field_no_panic fs code v p : set_field fs code v <> Panic p.
Proof.
  unfold set_field.
  repeat match goal with
         | |- context [match ?x with _ => _ end] => destruct x; try discriminate
         end.
Qed.
Lemma set_field_no_fuel fs code v : set_field fs code v <> Err EFuel.
Proof.
  unfold set_field.
  repeat match goal with
         | |- context [match ?x with _ => _ end] => destruct x; try discriminate
         end.
Qed.

(* ---------- the loop ---------- *)
Lemma loop_inv fuel : forall e b endp pos fs fs' p, 1 <= pos -> fields_inv b fs ->
  de_fields_loop fuel e b endp pos fs = Ok (fs', p) -> fields_inv b fs' /\ p = endp.
Proof.
  induction fuel as [|f IH]; intros e b endp pos fs fs' p Hpos Hinv H; cbn [de_fields_loop] in H.
  - destruct (pos =? endp) eqn:E; [|discriminate]. injection H as <- <-. split; [assumption|lia].
  - destruct (pos =? endp) eqn:E; [injection H as <- <-; split; [assumption|lia]|].
    apply bind_ok in H. destruct H as ([[code v] p'] & Hf & H).
    destruct (endp <? p'); [discriminate|]. destruct (code =? 0); [discriminate|].
    apply de_field_ok in Hf; [|assumption]. destruct Hf as (Hv & Hlt & _).
    destruct (9 <? code).
    { eapply IH; [| |exact H]; [lia|assumption]. }
    apply bind_ok in H. destruct H as (fs1 & Hs & H).
    eapply IH; [| |exact H]; [lia|]. eapply set_field_inv; eauto.
Qed.

Lemma loop_no_panic fuel : forall e b endp pos fs p, de_fields_loop fuel e b endp pos fs <> Panic p.
Proof.
  induction fuel as [|f IH]; intros e b endp pos fs p H; cbn [de_fields_loop] in H.
  - destruct (pos =? endp); discriminate.
  - destruct (pos =? endp); [discriminate|].
    apply bind_panic in H. destruct H as [H|([[code v] p'] & _ & H)]; [eapply de_field_no_panic; eauto|].
    destruct (endp <? p'); [discriminate|]. destruct (code =? 0); [discriminate|].
    destruct (9 <? code); [eapply IH; eauto|].
    apply bind_panic in H. destruct H as [H|(fs1 & _ & H)]; [eapply set_field_no_panic; eauto|].
    eapply IH; eauto.
Qed.

(* every iteration consumes at least the code byte, which lies inside the buffer: the fuel is never the limit *)
Lemma loop_no_fuel fuel : forall e b endp pos fs, 1 <= pos -> (len b - pos < N.of_nat fuel) ->
  de_fields_loop fuel e b endp pos fs <> Err EFuel.
Proof.
  induction fuel as [|f IH]; intros e b endp pos fs Hpos Hf H; [lia|].
  cbn [de_fields_loop] in H. destruct (pos =? endp); [discriminate|].
  apply bind_fuel in H. destruct H as [H|([[code v] p'] & Hd & H)]; [eapply de_field_no_fuel; eauto|].
  destruct (endp <? p'); [discriminate|]. destruct (code =? 0); [discriminate|].
  apply de_field_ok in Hd; [|assumption].
  destruct (9 <? code); [revert H; apply IH; lia|].
  apply bind_fuel in H. destruct H as [H|(fs1 & _ & H)]; [eapply set_field_no_fuel; eauto|].
  revert H. apply IH; lia.
Qed.

Lemma de_fields_ok e b fs p : de_fields e b = Ok (fs, p) -> fields_inv b fs.
Proof.
  unfold de_fields. intros H. apply bind_ok in H. destruct H as ([n p0] & H0 & H).
  apply bind_ok in H. destruct H as (start & H1 & H).
  apply de_u32_ok in H0. apply parse_padding_ok in H1.
  eapply loop_inv in H; [tauto|lia|apply fields_inv_empty].
Qed.
Lemma de_fields_no_panic e b p : de_fields e b <> Panic p.
Proof.
  unfold de_fields. intros H. apply bind_panic in H. destruct H as [H|([n p0] & _ & H)]; [eapply de_u32_no_panic; eauto|].
  apply bind_panic in H. destruct H as [H|(start & _ & H)]; [eapply parse_padding_no_panic; eauto|].
  eapply loop_no_panic; eauto.
Qed.
Lemma de_fields_no_fuel e b : de_fields e b <> Err EFuel.
Proof.
  unfold de_fields. intros H. apply bind_fuel in H. destruct H as [H|([n p0] & H0 & H)].
  - revert H. unfold de_u32, parse_padding, next_slice.
    repeat match goal with |- context [match ?x with _ => _ end] => destruct x; cbn [bind]; try discriminate end.
  - apply bind_fuel in H. destruct H as [H|(start & H1 & H)].
    + revert H. unfold parse_padding.
      repeat match goal with |- context [match ?x with _ => _ end] => destruct x; cbn [bind]; try discriminate end.
    + apply de_u32_ok in H0. apply parse_padding_ok in H1. revert H. apply loop_no_fuel; [lia|].
      unfold len. lia.
Qed.

(* ---------- primary header ---------- *)
Lemma de_primary_ok e b ph p : de_primary e b = Ok (ph, p) -> p = 12 /\ 12 <= len b /\ 1 <= ph_serial ph.
Proof.
  unfold de_primary. intros H.
  apply bind_ok in H. destruct H as (p0 & H0 & H).
  assert (p0 = 0) by (unfold parse_padding in H0; cbn in H0; congruence). subst p0.
  apply bind_ok in H. destruct H as ([c0 p1] & H1 & H). apply de_u8_ok in H1. destruct H1 as (-> & _).
  destruct (endian_of_byte _); [|discriminate].
  apply bind_ok in H. destruct H as ([ty p2] & H2 & H). apply de_u8_ok in H2. destruct H2 as (-> & _).
  destruct (negb _); [discriminate|].
  apply bind_ok in H. destruct H as ([fl p3] & H3 & H). apply de_u8_ok in H3. destruct H3 as (-> & _).
  apply bind_ok in H. destruct H as ([ver p4] & H4 & H). apply de_u8_ok in H4. destruct H4 as (-> & _).
  apply bind_ok in H. destruct H as ([bl p5] & H5 & H).
  apply bind_ok in H. destruct H as ([sn p6] & H6 & H).
  destruct (sn =? 0) eqn:Es; [discriminate|]. injection H as <- <-. cbn [ph_serial].
  unfold de_u32 in H5, H6.
  rewrite parse_padding_aligned in H5 by (cbn; lia). cbn [bind] in H5.
  apply bind_ok in H5. destruct H5 as ([l4 q] & H5 & E5). injection E5 as _ <-. apply next_slice_ok in H5. destruct H5 as (-> & _).
  rewrite parse_padding_aligned in H6 by (cbn; lia). cbn [bind] in H6.
  apply bind_ok in H6. destruct H6 as ([l4' q] & H6 & E6). injection E6 as _ <-. apply next_slice_ok in H6. lia.
Qed.
Lemma de_primary_no_panic e b p : de_primary e b <> Panic p.
Proof.
  unfold de_primary, de_u32, de_u8, next_slice, parse_padding.
  repeat match goal with
         | |- context [match ?x with _ => _ end] => destruct x; cbn [bind negb]; try discriminate
         end.
Qed.
