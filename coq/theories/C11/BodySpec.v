(* C11/BodySpec.v — bodies carrying several file descriptors, marshalled by hand (specification side): the k-th `h` of
   the body is index k into the descriptor list that accompanies the message. *)
From ZV Require Import Base.Bytes Base.Sig C11.Model.
Open Scope N_scope.

Definition enc_hh (e : endian) : bytes := u32_bytes e 0 ++ u32_bytes e 1.
Definition enc_ah (e : endian) (k : nat) : bytes :=
  u32_bytes e (4 * N.of_nat k) ++ concat (map (fun i => u32_bytes e (N.of_nat i)) (seq 0 k)).
Definition enc_hv (e : endian) : bytes := u32_bytes e 0 ++ [nb 1; "h"%byte; x00; x00] ++ u32_bytes e 1.
