(* C11/Lemmas.v — arithmetic and list facts, and the deserializer primitives evaluated at a known position. *)
From ZV Require Import Base.Bytes Base.Res Base.Sig C11.Model.
From Coq Require Import Lia ZifyBool ZifyN ZifyNat.
Open Scope N_scope.

Ltac Zify.zify_post_hook ::= Z.div_mod_to_equations.

(* ---------- len / takeN / dropN ---------- *)
Lemma len_app (a b : bytes) : len (a ++ b) = len a + len b.
Proof. unfold len. rewrite app_length. lia. Qed.
Lemma len_nil : len [] = 0. Proof. reflexivity. Qed.
Lemma len_cons c (l : bytes) : len (c :: l) = 1 + len l.
Proof. unfold len. cbn [length]. lia. Qed.
Lemma len_zeros n : len (zeros n) = n.
Proof. unfold len, zeros. rewrite repeat_length. lia. Qed.
Lemma len_nat (l : bytes) : N.to_nat (len l) = length l.
Proof. unfold len. lia. Qed.

Lemma dropN_app (a b : bytes) : dropN (len a) (a ++ b) = b.
Proof. unfold dropN. rewrite len_nat. rewrite skipn_app, skipn_all, Nat.sub_diag. reflexivity. Qed.
Lemma takeN_app (a b : bytes) : takeN (len a) (a ++ b) = a.
Proof. unfold takeN. rewrite len_nat. rewrite firstn_app, firstn_all, Nat.sub_diag. cbn. apply app_nil_r. Qed.
Lemma slice_app (pre s post : bytes) pos n :
  pos = len pre -> n = len s -> takeN n (dropN pos (pre ++ s ++ post)) = s.
Proof. intros -> ->. rewrite dropN_app. apply takeN_app. Qed.
Lemma len_takeN (l : bytes) n : n <= len l -> len (takeN n l) = n.
Proof. unfold len, takeN. intros H. rewrite firstn_length. lia. Qed.
Lemma len_dropN (l : bytes) n : len (dropN n l) = len l - n.
Proof. unfold len, dropN. rewrite skipn_length. lia. Qed.
Lemma take_drop_len (l : bytes) pos n : pos + n <= len l -> len (takeN n (dropN pos l)) = n.
Proof. intros H. apply len_takeN. rewrite len_dropN. lia. Qed.
Lemma skipn_skipn' {A} (a b : nat) (l : list A) : skipn a (skipn b l) = skipn (b + a) l.
Proof.
  revert l. induction b as [|b IH]; intros l; [reflexivity|].
  destruct l; [now rewrite !skipn_nil|]. cbn. apply IH.
Qed.
Lemma dropN_dropN (l : bytes) a b : dropN a (dropN b l) = dropN (b + a) l.
Proof. unfold dropN. rewrite skipn_skipn'. f_equal. lia. Qed.
Lemma take_drop_split (l : bytes) pos n : pos + n <= len l ->
  l = takeN pos l ++ takeN n (dropN pos l) ++ dropN (pos + n) l.
Proof.
  intros H. rewrite <- dropN_dropN. unfold takeN, dropN.
  rewrite (firstn_skipn (N.to_nat n)). rewrite firstn_skipn. reflexivity.
Qed.

(* ---------- bytes and u32 ---------- *)
Lemma bn_nb n : bn (nb n) = n mod 256.
Proof.
  unfold bn, nb. destruct (Byte.of_N (n mod 256)) eqn:E.
  - apply Byte.to_of_N in E. exact E.
  - apply Byte.of_N_None_iff in E. assert (n mod 256 < 256) by (apply N.mod_lt; lia). lia.
Qed.
Lemma bn_lt c : bn c < 256.
Proof. unfold bn. pose proof (Byte.to_N_bounded c). lia. Qed.
Lemma nb_bn c : nb (bn c) = c.
Proof.
  unfold nb, bn. rewrite N.mod_small by (pose proof (Byte.to_N_bounded c); lia).
  rewrite Byte.of_to_N. reflexivity.
Qed.
Lemma bn_nb_small n : n < 256 -> bn (nb n) = n.
Proof. intros. rewrite bn_nb. apply N.mod_small. exact H. Qed.

Lemma len_u32 e n : len (u32_bytes e n) = 4.
Proof. destruct e; reflexivity. Qed.
Lemma rd_u32_bytes e n : n < two32 -> rd_u32 e (u32_bytes e n) = n.
Proof.
  unfold two32. intros H. destruct e; unfold rd_u32, u32_bytes; cbn [rev app]; rewrite !bn_nb; lia.
Qed.
Lemma rd_u32_lt e l : rd_u32 e l < two32.
Proof.
  unfold rd_u32, two32. destruct e.
  - destruct l as [|a [|b [|c [|d [|? ?]]]]]; try lia.
    pose proof (bn_lt a); pose proof (bn_lt b); pose proof (bn_lt c); pose proof (bn_lt d). lia.
  - destruct (rev l) as [|a [|b [|c [|d [|? ?]]]]]; try lia.
    pose proof (bn_lt a); pose proof (bn_lt b); pose proof (bn_lt c); pose proof (bn_lt d). lia.
Qed.

(* ---------- padding ---------- *)
Lemma padding_lt pos a : 0 < a -> padding pos a < a.
Proof. intros. unfold padding. apply N.mod_lt. lia. Qed.
Lemma padding_aligned pos a : 0 < a -> (pos + padding pos a) mod a = 0.
Proof.
  intros Ha. unfold padding.
  destruct (N.eq_dec (pos mod a) 0) as [E|E].
  - rewrite E, N.sub_0_r, N.mod_same, N.add_0_r by lia. exact E.
  - assert (pos mod a < a) by (apply N.mod_lt; lia).
    rewrite (N.mod_small (a - pos mod a)) by lia.
    rewrite (N.div_mod pos a) at 1 by lia.
    replace (a * (pos / a) + pos mod a + (a - pos mod a)) with (a + (pos / a) * a) by lia.
    rewrite N.mod_add by lia. apply N.mod_same. lia.
Qed.
Lemma padding_0 pos a : 0 < a -> pos mod a = 0 -> padding pos a = 0.
Proof. intros Ha E. unfold padding. rewrite E, N.sub_0_r. apply N.mod_same. lia. Qed.
Lemma padding8_4 pos : pos mod 8 = 0 -> padding (pos + 4) 4 = 0.
Proof. intros. unfold padding. lia. Qed.
Lemma mod8_mod4 pos : pos mod 8 = 0 -> pos mod 4 = 0.
Proof. lia. Qed.

Lemma all_zero_zeros n : all_zero (zeros n) = true.
Proof. unfold all_zero, zeros. induction (N.to_nat n); cbn; auto. Qed.

(* ---------- primitives at a known position ---------- *)
Lemma parse_padding_zeros pre post pos a :
  pos = len pre -> parse_padding (pre ++ zeros (padding pos a) ++ post) pos a = Ok (pos + padding pos a).
Proof.
  intros ->. unfold parse_padding. destruct (padding (len pre) a =? 0) eqn:E.
  - apply N.eqb_eq in E. rewrite E. f_equal. lia.
  - rewrite !len_app, len_zeros.
    destruct (len pre + (padding (len pre) a + len post) <? len pre + padding (len pre) a) eqn:E2; [lia|].
    rewrite (slice_app pre (zeros (padding (len pre) a)) post) by (auto; rewrite len_zeros; auto).
    rewrite all_zero_zeros. reflexivity.
Qed.
Lemma parse_padding_aligned b pos a : 0 < a -> pos mod a = 0 -> parse_padding b pos a = Ok pos.
Proof. intros Ha E. unfold parse_padding. rewrite (padding_0 pos a Ha E). reflexivity. Qed.

Lemma next_slice_at pre s post pos n :
  pos = len pre -> n = len s -> next_slice (pre ++ s ++ post) pos n = Ok (s, pos + n).
Proof.
  intros -> ->. unfold next_slice. rewrite !len_app.
  destruct (len pre + (len s + len post) <? len pre + len s) eqn:E; [lia|].
  rewrite (slice_app pre s post) by auto. reflexivity.
Qed.

Lemma de_u8_at pre c post pos : pos = len pre -> de_u8 (pre ++ c :: post) pos = Ok (bn c, pos + 1).
Proof.
  intros ->. unfold de_u8. change (c :: post) with ([c] ++ post).
  rewrite (next_slice_at pre [c] post) by reflexivity. reflexivity.
Qed.

Lemma de_u32_at e pre n post pos :
  pos = len pre -> pos mod 4 = 0 -> n < two32 ->
  de_u32 e (pre ++ u32_bytes e n ++ post) pos = Ok (n, pos + 4).
Proof.
  intros -> Hal Hn. unfold de_u32. rewrite parse_padding_aligned by (auto; lia). cbn [bind].
  rewrite (next_slice_at pre (u32_bytes e n) post) by (auto; rewrite len_u32; auto). cbn [bind].
  rewrite rd_u32_bytes by auto. reflexivity.
Qed.

(* ---------- success of the primitives: positions only grow, and stay inside the buffer ---------- *)
Lemma parse_padding_ok b pos a p : parse_padding b pos a = Ok p -> pos <= p /\ (p = pos \/ p <= len b).
Proof.
  unfold parse_padding. destruct (padding pos a =? 0); [intros [= <-]; lia|].
  destruct (len b <? pos + padding pos a) eqn:E; [discriminate|].
  destruct (all_zero _); [intros [= <-]; lia|discriminate].
Qed.
Lemma parse_padding_mod b pos a p : 0 < a -> parse_padding b pos a = Ok p -> p = pos + padding pos a.
Proof.
  intros Ha. unfold parse_padding. destruct (padding pos a =? 0) eqn:E0; [intros [= <-]; lia|].
  destruct (len b <? pos + padding pos a); [discriminate|].
  destruct (all_zero _); [intros [= <-]; lia|discriminate].
Qed.
Lemma parse_padding_no_panic b pos a p : parse_padding b pos a <> Panic p.
Proof.
  unfold parse_padding. destruct (padding pos a =? 0); [discriminate|].
  destruct (len b <? pos + padding pos a); [discriminate|]. destruct (all_zero _); discriminate.
Qed.
Lemma next_slice_ok b pos n s p : next_slice b pos n = Ok (s, p) ->
  p = pos + n /\ p <= len b /\ s = takeN n (dropN pos b) /\ len s = n.
Proof.
  unfold next_slice. destruct (len b <? pos + n) eqn:E; [discriminate|]. intros [= <- <-].
  repeat split; try lia. apply take_drop_len. lia.
Qed.
Lemma next_slice_no_panic b pos n p : next_slice b pos n <> Panic p.
Proof. unfold next_slice. destruct (len b <? pos + n); discriminate. Qed.
