(* C11/Proofs.v — layout of built messages and the round trip through the parser. *)
From ZV Require Import Base.Bytes Base.Res Base.Sig C10.Model C11.Model C11.Spec C11.Body C11.BodySpec
     C11.Lemmas C11.AtPos C11.SigProofs C11.NamesAscii C11.Invariants.
From Coq Require Import Lia ZifyBool ZifyN ZifyNat.
Open Scope N_scope.

(* ---------- what a well-formed header / body is ---------- *)
Definition optb (f : bytes -> bool) (o : option bytes) : bool := match o with Some s => f s | None => true end.
Definition optn (o : option N) : bool := match o with Some n => (1 <=? n) && (n <? two32) | None => true end.
(* any subset of the header fields, each a valid name of its kind; type 1..4; known flag bits; serial and reply serial non-zero u32 *)
Definition hdr_valid (h : hdr) : bool :=
  (1 <=? h_type h) && (h_type h <=? 4) && (h_flags h <=? 7) && (1 <=? h_serial h) && (h_serial h <? two32)
  && optb validate_object_path (h_path h) && optb validate_interface (h_iface h) && optb validate_member (h_member h)
  && optb validate_error (h_errname h) && optn (h_reply h) && optb validate_bus (h_dest h) && optb validate_unique (h_sender h)
  && optb (fun s => len s <? two32) (h_path h).     (* names are at most 255 bytes by their grammar; a path has no limit of its own *)
(* body signature: nothing or complete types, at most 255 bytes on the wire; the message fits MAX_MESSAGE_SIZE (128 MiB) *)
Definition body_valid (bsig : sig) (nfds : N) : bool :=
  body_sig_ok bsig && (len (show_np bsig) <=? 255) && (nfds <? two32).

Definition field_ok (f : N * wval) : Prop :=
  1 <= fst f <= 9 /\
  match snd f with
  | WStr s => has_nul s = false /\ utf8_valid s = true /\ len s < two32
  | WPath s => has_nul s = false /\ utf8_valid s = true /\ len s < two32 /\ validate_object_path s = true
  | WSig s => len s < 256 /\ exists g, parse_sig s = Some g
  | WU32 n => n < two32
  end.

Definition fval_of (pos : N) (v : wval) : fval :=
  let st := pos + padding pos 8 + 8 in
  match v with
  | WStr s => FStr s st
  | WPath s => FPath s st
  | WSig s => FSig (match parse_sig s with Some g => g | None => SUnit end)
  | WU32 n => FU32 n
  end.

Lemma at_pos_eq b p p' x : at_pos b p x -> p = p' -> at_pos b p' x.
Proof. intros H <-. exact H. Qed.

Lemma len_spec_element e f : len (spec_element e f) =
  4 + match snd f with WStr s | WPath s => 4 + len s + 1 | WSig s => 1 + len s + 1 | WU32 _ => 4 end.
Proof.
  unfold spec_element. rewrite len_app. change (len [_; _; _; _]) with 4. f_equal.
  destruct (snd f); cbn [spec_value]; rewrite ?len_app, ?len_u32, ?len_cons, ?len_nil; lia.
Qed.

Ltac fin_field :=
  match goal with
  | |- Ok (_, ?f ?x, ?p) = Ok (_, ?f' ?x', ?p') => replace p with p' by lia; try (replace x with x' by lia); reflexivity
  end.

(* ---------- one header field, decoded where the specification puts it ---------- *)
Lemma de_field_spec e b pos code v :
  field_ok (code, v) -> at_pos b pos (zeros (padding pos 8) ++ spec_element e (code, v)) ->
  de_field e b pos = Ok (code, fval_of pos v, pos + padding pos 8 + len (spec_element e (code, v))).
Proof.
  intros [Hcode Hv] H. cbn [fst snd] in Hcode, Hv.
  pose proof (padding_aligned pos 8 ltac:(lia)) as Hq. set (q := pos + padding pos 8) in *.
  apply at_pos_app in H. destruct H as [H0 H1]. rewrite len_zeros in H1. fold q in H1.
  pose proof (at_pos_len _ _ _ H1) as Hlen. rewrite len_spec_element in Hlen. cbn [snd] in Hlen.
  unfold spec_element in H1. cbn [fst snd] in H1.
  change [nb code; nb 1; sig_char v; x00] with ([nb code] ++ ([nb (len [sig_char v])] ++ [sig_char v] ++ [x00])) in H1.
  rewrite <- app_assoc in H1. apply at_pos_app in H1. destruct H1 as [Hc H1]. change (len [nb code]) with 1 in H1.
  apply at_pos_app in H1. destruct H1 as [Hsg Hval]. change (len (_ ++ _ ++ [x00])) with 3 in Hval.
  apply (at_pos_eq _ _ (q + 4)) in Hval; [|lia].
  pose proof Hsg as Hsg'. apply at_pos_app in Hsg'. destruct Hsg' as [Hlb Hsg']. change (len [_]) with 1 in Hsg'.
  apply at_pos_app in Hsg'. destruct Hsg' as [Hch _].
  unfold de_field. rewrite (parse_padding_at' b pos 8 H0). fold q. cbn [bind].
  rewrite (de_u8_at' b q _ Hc). cbn [bind]. rewrite bn_nb_small by lia.
  unfold de_variant.
  rewrite (de_str_narrow_at e b (q + 1) [sig_char v] Hsg) by (destruct v; reflexivity). cbn [bind].
  rewrite (at_pos_nth b (q + 1) _ _ Hlb).
  replace (bn (nb (len [sig_char v]))) with 1 by reflexivity.
  replace (len b <? q + 1 + 1 + 1) with false by lia.
  pose proof (at_pos_take b (q + 1 + 1) [sig_char v] Hch) as Ht. change (len [sig_char v]) with 1 in Ht. rewrite Ht.
  replace (len b <? q + 1 + 1 + 1 + 1) with false by lia.
  replace (q + 1 + 1 + 1 + 1) with (q + 4) by lia.
  assert (Hq4 : (q + 4) mod 4 = 0) by lia.
  fold q. unfold fval_of. fold q.
  rewrite len_spec_element. cbn [snd].
  destruct v as [s|s|s|n]; cbn [sig_char spec_value] in *.
  - change (parse_sig ["s"%byte]) with (Some SStr). cbv beta iota.
    change (len (show SStr)) with 1. cbn [N.eqb Pos.eqb negb orb]. cbv beta iota.
    destruct Hv as (Hz & Hu & Hl).
    rewrite (de_str_wide_at e b (q + 4) s Hval Hq4 Hl Hz Hu). cbn [bind]. fin_field.
  - change (parse_sig ["o"%byte]) with (Some SObjPath). cbv beta iota.
    change (len (show SObjPath)) with 1. cbn [N.eqb Pos.eqb negb orb]. cbv beta iota.
    destruct Hv as (Hz & Hu & Hl & Hp).
    rewrite (de_str_wide_at e b (q + 4) s Hval Hq4 Hl Hz Hu). cbn [bind]. rewrite Hp. cbn [bind]. fin_field.
  - change (parse_sig ["g"%byte]) with (Some SSig). cbv beta iota.
    change (len (show SSig)) with 1. cbn [N.eqb Pos.eqb negb orb]. cbv beta iota.
    destruct Hv as (Hl & g & Hg). pose proof (parse_sig_chars _ _ Hg) as Hch'.
    rewrite (de_str_narrow_at e b (q + 4) s Hval Hl (ascii_no_nul _ Hch') (ascii_utf8 _ Hch')). cbn [bind].
    rewrite Hg. cbn [bind]. fin_field.
  - change (parse_sig ["u"%byte]) with (Some SU32). cbv beta iota.
    change (len (show SU32)) with 1. cbn [N.eqb Pos.eqb negb orb]. cbv beta iota.
    rewrite (de_u32_at' e b (q + 4) n Hval Hq4 Hv). cbn [bind]. fin_field.
Qed.

(* ---------- the fields record without the offsets ---------- *)
Record pfields := {
  p_path : option bytes; p_iface : option bytes; p_member : option bytes; p_errname : option bytes;
  p_reply : option N; p_dest : option bytes; p_sender : option bytes; p_sig : sig; p_fds : option N }.
Definition omf (o : option (bytes * N)) : option bytes := option_map fst o.
Definition proj (fs : fields) : pfields :=
  {| p_path := omf (f_path fs); p_iface := omf (f_iface fs); p_member := omf (f_member fs); p_errname := omf (f_errname fs);
     p_reply := f_reply fs; p_dest := omf (f_dest fs); p_sender := omf (f_sender fs); p_sig := f_sig fs; p_fds := f_fds fs |}.
Definition pempty : pfields :=
  {| p_path := None; p_iface := None; p_member := None; p_errname := None; p_reply := None; p_dest := None;
     p_sender := None; p_sig := SUnit; p_fds := None |}.

(* FieldsVisitor's assignment, on written values *)
Definition pset (pf : pfields) (f : N * wval) : R pfields :=
  match fst f, snd f with
  | 1, WPath s => Ok {| p_path := Some s; p_iface := p_iface pf; p_member := p_member pf; p_errname := p_errname pf; p_reply := p_reply pf; p_dest := p_dest pf; p_sender := p_sender pf; p_sig := p_sig pf; p_fds := p_fds pf |}
  | 2, WStr s => if negb (validate_interface s) then Err EData else Ok {| p_path := p_path pf; p_iface := Some s; p_member := p_member pf; p_errname := p_errname pf; p_reply := p_reply pf; p_dest := p_dest pf; p_sender := p_sender pf; p_sig := p_sig pf; p_fds := p_fds pf |}
  | 3, WStr s => if negb (validate_member s) then Err EData else Ok {| p_path := p_path pf; p_iface := p_iface pf; p_member := Some s; p_errname := p_errname pf; p_reply := p_reply pf; p_dest := p_dest pf; p_sender := p_sender pf; p_sig := p_sig pf; p_fds := p_fds pf |}
  | 4, WStr s => if negb (validate_error s) then Err EData else Ok {| p_path := p_path pf; p_iface := p_iface pf; p_member := p_member pf; p_errname := Some s; p_reply := p_reply pf; p_dest := p_dest pf; p_sender := p_sender pf; p_sig := p_sig pf; p_fds := p_fds pf |}
  | 5, WU32 n => if n =? 0 then Err EData else Ok {| p_path := p_path pf; p_iface := p_iface pf; p_member := p_member pf; p_errname := p_errname pf; p_reply := Some n; p_dest := p_dest pf; p_sender := p_sender pf; p_sig := p_sig pf; p_fds := p_fds pf |}
  | 6, WStr s => if validate_bus s then Ok {| p_path := p_path pf; p_iface := p_iface pf; p_member := p_member pf; p_errname := p_errname pf; p_reply := p_reply pf; p_dest := Some s; p_sender := p_sender pf; p_sig := p_sig pf; p_fds := p_fds pf |} else Err EData
  | 7, WStr s => if negb (validate_unique s) then Err EData else Ok {| p_path := p_path pf; p_iface := p_iface pf; p_member := p_member pf; p_errname := p_errname pf; p_reply := p_reply pf; p_dest := p_dest pf; p_sender := Some s; p_sig := p_sig pf; p_fds := p_fds pf |}
  | 8, WSig s => match parse_sig s with
                 | Some g => Ok {| p_path := p_path pf; p_iface := p_iface pf; p_member := p_member pf; p_errname := p_errname pf; p_reply := p_reply pf; p_dest := p_dest pf; p_sender := p_sender pf; p_sig := g; p_fds := p_fds pf |}
                 | None => Err EData
                 end
  | 9, WU32 n => Ok {| p_path := p_path pf; p_iface := p_iface pf; p_member := p_member pf; p_errname := p_errname pf; p_reply := p_reply pf; p_dest := p_dest pf; p_sender := p_sender pf; p_sig := p_sig pf; p_fds := Some n |}
  | _, _ => Err EData
  end.

Fixpoint pfold (l : list (N * wval)) (pf : pfields) : R pfields :=
  match l with
  | [] => Ok pf
  | f :: r => let* pf' := pset pf f in pfold r pf'
  end.

Lemma pfold_app l1 l2 pf : pfold (l1 ++ l2) pf = let* pf' := pfold l1 pf in pfold l2 pf'.
Proof.
  revert pf. induction l1 as [|f r IH]; intros pf; [reflexivity|]. cbn [app pfold].
  destruct (pset pf f); cbn [bind]; auto.
Qed.

Lemma set_field_proj fs pos f pf' : pset (proj fs) f = Ok pf' ->
  exists fs', set_field fs (fst f) (fval_of pos (snd f)) = Ok fs' /\ proj fs' = pf'.
Proof.
  destruct f as [code v]. unfold pset, set_field, fval_of. cbn [fst snd].
  destruct v as [s|s|s|n];
    repeat (destruct code as [|code]; try discriminate; try (destruct code as [code|code|]; try discriminate));
    cbn [p_path p_iface p_member p_errname p_reply p_dest p_sender p_sig p_fds proj];
    repeat match goal with
           | |- (if ?x then _ else _) = _ -> _ => destruct x; try discriminate
           | |- match ?x with _ => _ end = _ -> _ => destruct x; try discriminate
           end;
    intros [= <-]; eexists; (split; [reflexivity|reflexivity]).
Qed.

(* ---------- the whole field array ---------- *)
Lemma spec_array_cons2 e f g r : spec_array e (f :: g :: r) = pad8 (spec_element e f) ++ spec_array e (g :: r).
Proof. reflexivity. Qed.

Lemma spec_element_pos e f : 4 <= len (spec_element e f).
Proof. rewrite len_spec_element. lia. Qed.

Lemma loop_spec e b : forall l fuel pos fs pf', l <> [] -> Forall field_ok l ->
  at_pos b pos (zeros (padding pos 8) ++ spec_array e l) -> (length l < fuel)%nat ->
  pfold l (proj fs) = Ok pf' ->
  exists fs', de_fields_loop fuel e b (pos + padding pos 8 + len (spec_array e l)) pos fs
              = Ok (fs', pos + padding pos 8 + len (spec_array e l)) /\ proj fs' = pf'.
Proof.
  induction l as [|f r IH]; intros fuel pos fs pf' Hne Hall Hat Hfuel Hpf; [congruence|].
  inversion Hall as [|? ? Hf Hr]; subst.
  cbn [pfold] in Hpf. apply bind_ok in Hpf. destruct Hpf as (pf1 & Hp1 & Hpf).
  destruct (set_field_proj fs pos f pf1 Hp1) as (fs1 & Hs1 & Hj1).
  destruct fuel as [|fuel]; [cbn in Hfuel; lia|]. cbn [length] in Hfuel.
  pose proof (padding_aligned pos 8 ltac:(lia)) as Hq.
  pose proof (spec_element_pos e f) as Hel.
  destruct r as [|g r'].
  - (* last element *)
    cbn [spec_array] in *. cbn [pfold] in Hpf. injection Hpf as <-.
    cbn [de_fields_loop].
    replace (pos =? pos + padding pos 8 + len (spec_element e f)) with false by lia.
    destruct f as [code v]. rewrite (de_field_spec e b pos code v Hf Hat). cbn [bind].
    pose proof (proj1 Hf) as Hcode. cbn [fst] in Hcode.
    replace (_ <? _) with false by lia. replace (code =? 0) with false by lia. replace (9 <? code) with false by lia.
    cbn [fst snd] in Hs1. rewrite Hs1. cbn [bind].
    exists fs1. split; [|exact Hj1].
    destruct fuel; cbn [de_fields_loop]; rewrite N.eqb_refl; reflexivity.
  - rewrite spec_array_cons2 in *. unfold pad8 in *.
    set (el := spec_element e f) in *. set (rest := spec_array e (g :: r')) in *.
    assert (Hat1 : at_pos b pos (zeros (padding pos 8) ++ el)).
    { rewrite <- app_assoc in Hat. rewrite app_assoc in Hat. apply at_pos_app in Hat. tauto. }
    assert (Hat2 : at_pos b (pos + padding pos 8 + len el) (zeros (padding (pos + padding pos 8 + len el) 8) ++ rest)).
    { rewrite <- !app_assoc in Hat. apply at_pos_app in Hat. destruct Hat as [_ Hat]. rewrite len_zeros in Hat.
      apply at_pos_app in Hat. destruct Hat as [_ Hat].
      replace (padding (pos + padding pos 8 + len el) 8) with (padding (len el) 8); [exact Hat|].
      unfold padding. lia. }
    cbn [de_fields_loop]. rewrite !len_app, len_zeros.
    replace (pos =? _) with false by lia.
    destruct f as [code v]. rewrite (de_field_spec e b pos code v Hf Hat1). fold el. cbn [bind].
    pose proof (proj1 Hf) as Hcode. cbn [fst] in Hcode.
    replace (_ <? _) with false by lia. replace (code =? 0) with false by lia. replace (9 <? code) with false by lia.
    cbn [fst snd] in Hs1. rewrite Hs1. cbn [bind].
    destruct (IH fuel (pos + padding pos 8 + len el) fs1 pf') as (fs' & Hl & Hj); try assumption.
    { discriminate. } { cbn [length] in *. lia. } { rewrite Hj1. exact Hpf. }
    exists fs'. split; [|exact Hj].
    replace (padding (pos + padding pos 8 + len el) 8) with (padding (len el) 8) in Hl by (unfold padding; lia).
    replace (pos + padding pos 8 + (len el + padding (len el) 8 + len rest))
      with (pos + padding pos 8 + len el + padding (len el) 8 + len rest) by lia.
    exact Hl.
Qed.

(* ---------- the header fields of a valid header, folded ---------- *)
Definition expected (h : hdr) (bsig : sig) (nfds : N) : pfields :=
  {| p_path := h_path h; p_iface := h_iface h; p_member := h_member h; p_errname := h_errname h; p_reply := h_reply h;
     p_dest := h_dest h; p_sender := h_sender h; p_sig := norm_sig bsig; p_fds := if nfds =? 0 then None else Some nfds |}.

Lemma pfold_sig pf bsig : p_sig pf = SUnit -> body_sig_ok bsig = true ->
  pfold (match bsig with SUnit => [] | _ => [(8, WSig (show_np bsig))] end) pf =
  Ok {| p_path := p_path pf; p_iface := p_iface pf; p_member := p_member pf; p_errname := p_errname pf; p_reply := p_reply pf;
        p_dest := p_dest pf; p_sender := p_sender pf; p_sig := norm_sig bsig; p_fds := p_fds pf |}.
Proof.
  intros Hs Hb. destruct pf; cbn in Hs; subst.
  destruct bsig; cbn [body_sig_ok] in Hb; try reflexivity;
    cbn [pfold pset fst snd]; rewrite (parse_show_np _ Hb); reflexivity.
Qed.
Lemma pfold_fds pf nfds :
  pfold (if nfds =? 0 then [] else [(9, WU32 nfds)]) pf =
  Ok {| p_path := p_path pf; p_iface := p_iface pf; p_member := p_member pf; p_errname := p_errname pf; p_reply := p_reply pf;
        p_dest := p_dest pf; p_sender := p_sender pf; p_sig := p_sig pf; p_fds := if nfds =? 0 then p_fds pf else Some nfds |}.
Proof. destruct pf. destruct (nfds =? 0); reflexivity. Qed.

Lemma pfold_spec_fields h bsig nfds : hdr_valid h = true -> body_valid bsig nfds = true ->
  pfold (spec_fields h bsig nfds) pempty = Ok (expected h bsig nfds).
Proof.
  intros Hh Hb. unfold hdr_valid in Hh. unfold body_valid in Hb.
  repeat (apply andb_prop in Hh; destruct Hh as [Hh ?]).
  repeat (apply andb_prop in Hb; destruct Hb as [Hb ?]).
  unfold spec_fields, expected.
  destruct (h_path h), (h_iface h), (h_member h), (h_errname h), (h_reply h) as [rs|], (h_dest h) as [d|], (h_sender h);
    cbn [optb optn] in *;
    repeat (cbn [app pfold pset fst snd bind p_path p_iface p_member p_errname p_reply p_dest p_sender p_sig p_fds pempty];
            try (replace (rs =? 0) with false by lia);
            repeat (match goal with Hd : ?v ?x = true |- context [?v ?x] => rewrite Hd end); cbn [negb]);
    rewrite pfold_app, pfold_sig by (reflexivity || assumption); cbn [bind]; rewrite pfold_fds; reflexivity.
Qed.

Lemma len255 (s : bytes) : negb (Nat.ltb 255 (length s)) = true -> len s < two32.
Proof. unfold len, two32. destruct (Nat.ltb_spec 255 (length s)); [discriminate|]. lia. Qed.
Lemma iface_len s : validate_interface s = true -> len s < two32.
Proof. unfold validate_interface. intros H. apply andb_prop in H. apply len255. tauto. Qed.
Lemma member_len s : validate_member s = true -> len s < two32.
Proof. unfold validate_member. intros H. apply andb_prop in H. apply len255. tauto. Qed.
Lemma unique_len s : validate_unique s = true -> len s < two32.
Proof. unfold validate_unique. intros H. apply andb_prop in H. apply len255. tauto. Qed.
Lemma wk_len s : validate_well_known s = true -> len s < two32.
Proof. unfold validate_well_known. intros H. apply andb_prop in H. apply len255. tauto. Qed.
Lemma bus_len s : validate_bus s = true -> len s < two32.
Proof. unfold validate_bus. intros H. apply Bool.orb_true_iff in H. destruct H; [apply unique_len|apply wk_len]; assumption. Qed.

Lemma str_field_ok code s : 1 <= code <= 9 -> forallb namech s = true -> len s < two32 -> field_ok (code, WStr s).
Proof. intros Hc Hs Hl. destruct (namech_str s Hs). split; cbn [fst snd]; auto. Qed.

Lemma field_ok_spec_fields h bsig nfds : hdr_valid h = true -> body_valid bsig nfds = true ->
  Forall field_ok (spec_fields h bsig nfds).
Proof.
  intros Hh Hb. unfold hdr_valid in Hh. unfold body_valid in Hb.
  repeat (apply andb_prop in Hh; destruct Hh as [Hh ?]).
  repeat (apply andb_prop in Hb; destruct Hb as [Hb ?]).
  unfold spec_fields. repeat (apply Forall_app; split).
  - destruct (h_path h) as [s|]; [|constructor]. cbn [optb] in *. constructor; [|constructor].
    destruct (namech_str s (path_chars s ltac:(assumption))). split; cbn [fst snd]; [lia|]. repeat split; auto. lia.
  - destruct (h_iface h) as [s|]; [|constructor]. cbn [optb] in *. constructor; [|constructor].
    apply str_field_ok; [lia|apply iface_chars; assumption|apply iface_len; assumption].
  - destruct (h_member h) as [s|]; [|constructor]. cbn [optb] in *. constructor; [|constructor].
    apply str_field_ok; [lia|apply member_chars; assumption|apply member_len; assumption].
  - destruct (h_errname h) as [s|]; [|constructor]. cbn [optb] in *. constructor; [|constructor].
    apply str_field_ok; [lia|apply iface_chars; assumption|apply iface_len; assumption].
  - destruct (h_reply h) as [n|]; [|constructor]. cbn [optn] in *. constructor; [|constructor]. split; cbn [fst snd]; lia.
  - destruct (h_dest h) as [s|]; [|constructor]. cbn [optb] in *. constructor; [|constructor].
    apply str_field_ok; [lia|apply bus_chars; assumption|apply bus_len; assumption].
  - destruct (h_sender h) as [s|]; [|constructor]. cbn [optb] in *. constructor; [|constructor].
    apply str_field_ok; [lia|apply unique_chars; assumption|apply unique_len; assumption].
  - assert (Hs : forall g, bsig = g -> g <> SUnit -> Forall field_ok [(8, WSig (show_np g))]).
    { intros g <- Hg. constructor; [|constructor]. split; cbn [fst snd]; [lia|]. split; [lia|].
      exists (norm_sig bsig). apply parse_show_np. destruct bsig; try assumption; congruence. }
    destruct bsig; try (apply Hs; [reflexivity|discriminate]). constructor.
  - destruct (nfds =? 0); [constructor|]. constructor; [|constructor]. split; cbn [fst snd]; lia.
Qed.

(* ---------- layout: the serializer model writes what the specification formula says ---------- *)
Lemma field_list_spec h bsig nfds : field_list h bsig nfds = spec_fields h bsig nfds.
Proof. reflexivity. Qed.

Lemma ser_field_spec e pos f : field_ok f -> ser_field e pos f = Ok (zeros (padding pos 8) ++ spec_element e f).
Proof.
  destruct f as [code v]. intros [Hc Hv]. cbn [fst snd] in *. unfold ser_field, w_pad, spec_element. cbn [fst snd].
  pose proof (padding_aligned pos 8 ltac:(lia)) as Hq. rewrite len_zeros.
  assert (Hp4 : padding (pos + padding pos 8 + 1 + 3) 4 = 0) by (unfold padding; lia).
  destruct v as [s|s|s|n]; cbn [sig_char spec_value].
  - destruct Hv as (_ & _ & Hl). replace (two32 <=? len s) with false by lia. rewrite Hp4. reflexivity.
  - destruct Hv as (_ & _ & Hl & _). replace (two32 <=? len s) with false by lia. rewrite Hp4. reflexivity.
  - destruct Hv as (Hl & _). replace (256 <=? len s) with false by lia. reflexivity.
  - rewrite Hp4. reflexivity.
Qed.

Lemma ser_fields_spec e : forall l pos, Forall field_ok l -> l <> [] ->
  ser_fields e pos l = Ok (zeros (padding pos 8) ++ spec_array e l).
Proof.
  induction l as [|f r IH]; intros pos Hall Hne; [congruence|].
  inversion Hall as [|? ? Hf Hr]; subst. cbn [ser_fields]. rewrite (ser_field_spec e pos f Hf). cbn [bind].
  destruct r as [|g r'].
  - cbn [ser_fields bind spec_array]. rewrite app_nil_r. reflexivity.
  - rewrite IH by (auto; discriminate). cbn [bind]. rewrite spec_array_cons2. unfold pad8.
    rewrite len_app, len_zeros.
    pose proof (padding_aligned pos 8 ltac:(lia)).
    replace (padding (pos + (padding pos 8 + len (spec_element e f))) 8) with (padding (len (spec_element e f)) 8)
      by (unfold padding; lia).
    rewrite <- !app_assoc. reflexivity.
Qed.

Lemma ser_fields_16 e l : Forall field_ok l -> ser_fields e 16 l = Ok (spec_array e l).
Proof.
  intros H. destruct l as [|f r]; [reflexivity|]. rewrite ser_fields_spec by (auto; discriminate). reflexivity.
Qed.

Lemma len_pad8 x : len (pad8 x) = len x + padding (len x) 8.
Proof. unfold pad8. rewrite len_app, len_zeros. reflexivity. Qed.

Definition body_offset_of (h : hdr) (bsig : sig) (body : bytes) (nfds : N) : N :=
  len (pad8 (spec_header h (len body) (spec_fields h bsig nfds))).

Theorem build_bytes_spec h bsig body nfds :
  hdr_valid h = true -> body_valid bsig nfds = true -> len (spec_message h bsig body nfds) <= max_message_size ->
  build_bytes h bsig body nfds = Ok (spec_message h bsig body nfds, body_offset_of h bsig body nfds).
Proof.
  intros Hh Hb Hsz. pose proof (field_ok_spec_fields h bsig nfds Hh Hb) as Hok.
  unfold spec_message, body_offset_of in *. rewrite len_app, len_pad8 in Hsz. rewrite len_pad8.
  unfold build_bytes, ser_header. rewrite field_list_spec, (ser_fields_16 _ _ Hok). cbn [bind].
  unfold spec_header in *. set (arr := spec_array (h_endian h) (spec_fields h bsig nfds)) in *.
  rewrite !len_app, !len_u32 in *. change (len [_; _; _; _]) with 4 in *.
  unfold max_message_size, two32 in *.
  replace (4294967296 <=? len body) with false by lia.
  replace (4294967296 <=? len arr) with false by lia. cbn [bind].
  rewrite !len_app, !len_u32. change (len [_; _; _; _]) with 4.
  replace (134217728 <? _) with false by lia.
  unfold pad8. rewrite !len_app, !len_u32. change (len [_; _; _; _]) with 4. rewrite <- !app_assoc. reflexivity.
Qed.

(* ---------- parsing the specification layout ---------- *)
Lemma endian_rt e : endian_of_byte (endian_byte e) = Some e.
Proof. destruct e; reflexivity. Qed.
Lemma endian_eqb_refl e : endian_eqb e e = true.
Proof. destruct e; reflexivity. Qed.

Lemma at_pos_prefix x rest : at_pos (x ++ rest) 0 x.
Proof. split; [lia|]. exists rest. reflexivity. Qed.

Lemma de_primary_at e es ty fl ver bl sn rest :
  1 <= ty <= 4 -> fl < 256 -> ver < 256 -> bl < two32 -> 1 <= sn < two32 ->
  de_primary e ([endian_byte es; nb ty; nb fl; nb ver] ++ u32_bytes e bl ++ u32_bytes e sn ++ rest)
  = Ok ({| ph_endian := es; ph_type := ty; ph_flags := fl mod 8; ph_version := ver; ph_body_len := bl; ph_serial := sn |}, 12).
Proof.
  intros Hty Hfl Hver Hbl Hsn.
  set (b := _ ++ _).
  assert (Eb : b = (([endian_byte es] ++ [nb ty] ++ [nb fl] ++ [nb ver]) ++ u32_bytes e bl ++ u32_bytes e sn) ++ rest).
  { subst b. rewrite <- !app_assoc. reflexivity. }
  assert (Hb : at_pos b 0 (([endian_byte es] ++ [nb ty] ++ [nb fl] ++ [nb ver]) ++ u32_bytes e bl ++ u32_bytes e sn)).
  { rewrite Eb. apply at_pos_prefix. }
  clearbody b.
  apply at_pos_app in Hb. destruct Hb as [H4 Hu]. change (0 + len _) with 4 in Hu.
  apply at_pos_app in Hu. destruct Hu as [Hu1 Hu2]. rewrite len_u32 in Hu2. change (4 + 4) with 8 in Hu2.
  apply at_pos_app in H4. destruct H4 as [H0 H4]. change (0 + len _) with 1 in H4.
  apply at_pos_app in H4. destruct H4 as [H1 H4]. change (1 + len _) with 2 in H4.
  apply at_pos_app in H4. destruct H4 as [H2 H3]. change (2 + len _) with 3 in H3.
  unfold de_primary. rewrite parse_padding_aligned by (reflexivity || lia). cbn [bind].
  rewrite (de_u8_at' b 0 _ H0). cbn [bind]. rewrite nb_bn, endian_rt. change (0 + 1) with 1.
  rewrite (de_u8_at' b 1 _ H1). cbn [bind]. rewrite bn_nb_small by lia. change (1 + 1) with 2.
  replace ((1 <=? ty) && (ty <=? 4)) with true by lia. cbn [negb].
  rewrite (de_u8_at' b 2 _ H2). cbn [bind]. rewrite bn_nb_small by lia. change (2 + 1) with 3.
  rewrite (de_u8_at' b 3 _ H3). cbn [bind]. rewrite bn_nb_small by lia. change (3 + 1) with 4.
  rewrite (de_u32_at' e b 4 bl Hu1) by (reflexivity || lia). cbn [bind]. change (4 + 4) with 8.
  rewrite (de_u32_at' e b 8 sn Hu2) by (reflexivity || lia). cbn [bind]. change (8 + 4) with 12.
  replace (sn =? 0) with false by lia. reflexivity.
Qed.

Lemma spec_fields_length h bsig nfds : (length (spec_fields h bsig nfds) <= 9)%nat.
Proof.
  unfold spec_fields. rewrite !app_length.
  destruct (h_path h), (h_iface h), (h_member h), (h_errname h), (h_reply h), (h_dest h), (h_sender h), (nfds =? 0);
    destruct bsig; cbn [length]; lia.
Qed.

(* cached positions of a message shorter than 4 GiB give the strings back, if they are valid *)
Lemma fp_read_exact v b o : ostr_at b o -> len b < two32 -> optb v (omf o) = true ->
  fp_read v b (fp_new b o) = Ok (omf o).
Proof.
  destruct o as [[s st]|]; [|reflexivity]. cbn [ostr_at fp_new omf option_map fst optb].
  intros (H2 & Hle & Hs & Hu) Hb Hv. unfold fp_build.
  replace ((st <=? len b) && (st + len s <=? len b) && (st <? two32) && (st + len s <? two32)) with true by lia.
  unfold fp_read.
  replace ((st <=? 1) && (st + len s =? 0)) with false by lia.
  replace ((st + len s <? st) || (len b <? st + len s)) with false by lia.
  replace (st + len s - st) with (len s) by lia. rewrite Hs, Hu, Hv. reflexivity.
Qed.

Definition parsed_msg (h : hdr) (bsig : sig) (body : bytes) (nfds : N) (fs : fields) : msg :=
  let b := spec_message h bsig body nfds in
  {| m_ph := {| ph_endian := h_endian h; ph_type := h_type h; ph_flags := h_flags h; ph_version := 1;
                ph_body_len := len body; ph_serial := h_serial h |};
     m_qf := quick_fields b fs; m_bytes := b; m_body_offset := body_offset_of h bsig body nfds |}.

Lemma parse_spec_message h bsig body nfds :
  hdr_valid h = true -> body_valid bsig nfds = true -> len (spec_message h bsig body nfds) <= max_message_size ->
  exists fs, proj fs = expected h bsig nfds /\ fields_inv (spec_message h bsig body nfds) fs /\
             de_fields (h_endian h) (spec_message h bsig body nfds) = Ok (fs, 16 + len (spec_array (h_endian h) (spec_fields h bsig nfds))) /\
             from_raw_parts (h_endian h) (spec_message h bsig body nfds) = Ok (parsed_msg h bsig body nfds fs).
Proof.
  intros Hh Hb Hsz.
  pose proof (field_ok_spec_fields h bsig nfds Hh Hb) as Hok.
  pose proof (pfold_spec_fields h bsig nfds Hh Hb) as Hpf.
  pose proof (spec_fields_length h bsig nfds) as Hlen9.
  unfold hdr_valid in Hh. repeat (apply andb_prop in Hh; destruct Hh as [Hh ?]).
  assert (Hty : 1 <= h_type h <= 4) by lia. assert (Hfl : h_flags h <= 7) by lia. assert (Hsn : 1 <= h_serial h < two32) by lia.
  assert (Hv1 : 1 < 256) by reflexivity.
  clear - Hb Hsz Hok Hpf Hlen9 Hty Hfl Hsn Hv1.
  set (e := h_endian h) in *. set (l := spec_fields h bsig nfds) in *. set (arr := spec_array e l) in *.
  assert (Hszb : len body < two32 /\ len arr < two32).
  { unfold spec_message, spec_header in Hsz. fold e l arr in Hsz. rewrite len_app, len_pad8, !len_app, !len_u32 in Hsz.
    unfold max_message_size, two32 in *. lia. }
  destruct Hszb as [Hbl Hal].
  set (b := spec_message h bsig body nfds) in *.
  (* shape of the message *)
  set (tail := zeros (padding (len (spec_header h (len body) l)) 8) ++ body).
  assert (Eb : b = [endian_byte e; nb (h_type h); nb (h_flags h); nb 1] ++ u32_bytes e (len body) ++ u32_bytes e (h_serial h)
                   ++ u32_bytes e (len arr) ++ arr ++ tail).
  { subst b tail. unfold spec_message, pad8, spec_header. fold e l arr. rewrite <- !app_assoc. reflexivity. }
  assert (E16 : b = ([endian_byte e; nb (h_type h); nb (h_flags h); nb 1] ++ u32_bytes e (len body) ++ u32_bytes e (h_serial h)
                   ++ u32_bytes e (len arr)) ++ arr ++ tail).
  { rewrite Eb. rewrite <- !app_assoc. reflexivity. }
  assert (E12 : b = ([endian_byte e; nb (h_type h); nb (h_flags h); nb 1] ++ u32_bytes e (len body) ++ u32_bytes e (h_serial h))
                   ++ u32_bytes e (len arr) ++ (arr ++ tail)).
  { rewrite Eb. rewrite <- !app_assoc. reflexivity. }
  assert (Hat16 : at_pos b 16 arr).
  { rewrite E16. match goal with |- at_pos (?p ++ _ ++ _) _ _ => replace 16 with (len p) end.
    - apply at_pos_intro.
    - rewrite !len_app, !len_u32. reflexivity. }
  assert (Hat12 : at_pos b 12 (u32_bytes e (len arr))).
  { rewrite E12. match goal with |- at_pos (?p ++ _ ++ _) _ _ => replace 12 with (len p) end.
    - apply at_pos_intro.
    - rewrite !len_app, !len_u32. reflexivity. }
  assert (Hlenb : 16 + len arr <= len b) by (apply at_pos_len in Hat16; exact Hat16).
  (* the fields *)
  assert (Hu32 : de_u32 e b 12 = Ok (len arr, 16)).
  { rewrite (de_u32_at' e b 12 (len arr) Hat12) by (reflexivity || lia). reflexivity. }
  assert (Hfields : exists fs, proj fs = expected h bsig nfds /\ de_fields e b = Ok (fs, 16 + len arr)).
  { unfold de_fields. rewrite Hu32. cbn [bind]. rewrite parse_padding_aligned by (reflexivity || lia). cbn [bind].
    destruct l as [|f0 r0] eqn:El.
    - subst arr. cbn [spec_array]. change (len []) with 0. cbn [pfold] in Hpf.
      assert (Hpe : pempty = expected h bsig nfds) by congruence.
      exists fields_empty. split; [exact Hpe|]. cbn [de_fields_loop]. reflexivity.
    - destruct (loop_spec e b (f0 :: r0) (S (length b)) 16 fields_empty (expected h bsig nfds)) as (fs & Hl & Hj).
      + discriminate.
      + exact Hok.
      + change (padding 16 8) with 0. exact Hat16.
      + unfold len in Hlenb. lia.
      + exact Hpf.
      + change (padding 16 8) with 0 in Hl. rewrite N.add_0_r in Hl. exists fs. split; [exact Hj|exact Hl]. }
  destruct Hfields as (fs & Hj & Hdf).
  exists fs. split; [exact Hj|]. split; [eapply de_fields_ok; exact Hdf|]. split; [exact Hdf|].
  (* from_raw_parts *)
  unfold from_raw_parts. rewrite Eb at 1. cbn [app]. rewrite endian_rt, endian_eqb_refl. cbn [negb].
  rewrite Eb at 1.
  assert (Hfl' : h_flags h < 256) by lia.
  rewrite (de_primary_at e e (h_type h) (h_flags h) 1 (len body) (h_serial h) _ Hty Hfl' Hv1 Hbl Hsn).
  rewrite (N.mod_small (h_flags h) 8) by lia.
  cbn [bind N.eqb Pos.eqb negb].
  unfold data_slice. replace (len b <? 12) with false by lia. cbn [bind].
  rewrite Hu32. cbn [bind]. rewrite Hdf. cbn [bind].
  assert (Hlb : len b = 16 + len arr + padding (16 + len arr) 8 + len body).
  { rewrite Eb. subst tail. unfold spec_header. fold e l arr. rewrite !len_app, len_zeros, !len_u32. change (len [_; _; _; _]) with 4.
    replace (4 + (4 + (4 + (4 + len arr)))) with (16 + len arr) by lia. lia. }
  replace (len b <? 16 + len arr + padding (16 + len arr) 8) with false by lia.
  unfold parsed_msg, body_offset_of. fold e l b. rewrite len_pad8. unfold spec_header. fold e l arr.
  rewrite !len_app, !len_u32. change (len [_; _; _; _]) with 4.
  replace (4 + (4 + (4 + (4 + len arr)))) with (16 + len arr) by lia. reflexivity.
Qed.

Lemma header_parsed h bsig body nfds fs :
  hdr_valid h = true -> len (spec_message h bsig body nfds) < two32 ->
  proj fs = expected h bsig nfds -> fields_inv (spec_message h bsig body nfds) fs ->
  header (parsed_msg h bsig body nfds fs) = Ok (view h bsig body nfds).
Proof.
  intros Hh Hlen Hj Hinv. unfold hdr_valid in Hh. repeat (apply andb_prop in Hh; destruct Hh as [Hh ?]).
  destruct Hinv as (I1 & I2 & I3 & I4 & I5 & I6 & _).
  assert (E1 : omf (f_path fs) = h_path h) by (change (p_path (proj fs) = p_path (expected h bsig nfds)); rewrite Hj; reflexivity).
  assert (E2 : omf (f_iface fs) = h_iface h) by (change (p_iface (proj fs) = p_iface (expected h bsig nfds)); rewrite Hj; reflexivity).
  assert (E3 : omf (f_member fs) = h_member h) by (change (p_member (proj fs) = p_member (expected h bsig nfds)); rewrite Hj; reflexivity).
  assert (E4 : omf (f_errname fs) = h_errname h) by (change (p_errname (proj fs) = p_errname (expected h bsig nfds)); rewrite Hj; reflexivity).
  assert (E5 : f_reply fs = h_reply h) by (change (p_reply (proj fs) = p_reply (expected h bsig nfds)); rewrite Hj; reflexivity).
  assert (E6 : omf (f_dest fs) = h_dest h) by (change (p_dest (proj fs) = p_dest (expected h bsig nfds)); rewrite Hj; reflexivity).
  assert (E7 : omf (f_sender fs) = h_sender h) by (change (p_sender (proj fs) = p_sender (expected h bsig nfds)); rewrite Hj; reflexivity).
  assert (E8 : f_sig fs = norm_sig bsig) by (change (p_sig (proj fs) = p_sig (expected h bsig nfds)); rewrite Hj; reflexivity).
  assert (E9 : f_fds fs = if nfds =? 0 then None else Some nfds) by (change (p_fds (proj fs) = p_fds (expected h bsig nfds)); rewrite Hj; reflexivity).
  unfold header, parsed_msg. cbn [m_bytes m_qf m_ph quick_fields q_path q_iface q_member q_errname q_reply q_dest q_sender q_sig q_fds].
  rewrite (fp_read_exact validate_object_path _ _ I1 Hlen) by (rewrite E1; assumption). cbn [bind].
  rewrite (fp_read_exact validate_interface _ _ I2 Hlen) by (rewrite E2; assumption). cbn [bind].
  rewrite (fp_read_exact validate_member _ _ I3 Hlen) by (rewrite E3; assumption). cbn [bind].
  rewrite (fp_read_exact validate_error _ _ I4 Hlen) by (rewrite E4; assumption). cbn [bind].
  rewrite (fp_read_exact validate_bus _ _ I5 Hlen) by (rewrite E6; assumption). cbn [bind].
  rewrite (fp_read_exact validate_unique _ _ I6 Hlen) by (rewrite E7; assumption). cbn [bind].
  unfold view. rewrite E1, E2, E3, E4, E5, E6, E7, E8, E9. reflexivity.
Qed.

Lemma body_parsed h bsig bd nfds fs : body (parsed_msg h bsig bd nfds fs) = Ok bd.
Proof.
  unfold body, parsed_msg, data_slice, body_offset_of, spec_message. cbn [m_bytes m_body_offset].
  rewrite len_app. replace (_ <? _) with false by lia. rewrite dropN_app. reflexivity.
Qed.

(* C11, round trip: what the builder writes is parsed back to the same header, signature and body *)
Theorem roundtrip h bsig bd nfds :
  hdr_valid h = true -> body_valid bsig nfds = true -> len (spec_message h bsig bd nfds) <= max_message_size ->
  exists bytes off m,
    build_bytes h bsig bd nfds = Ok (bytes, off) /\
    from_raw_parts (h_endian h) bytes = Ok m /\
    header m = Ok (view h bsig bd nfds) /\
    body m = Ok bd /\
    m_body_offset m = off.
Proof.
  intros Hh Hb Hsz.
  destruct (parse_spec_message h bsig bd nfds Hh Hb Hsz) as (fs & Hj & Hinv & _ & Hp).
  exists (spec_message h bsig bd nfds), (body_offset_of h bsig bd nfds), (parsed_msg h bsig bd nfds fs).
  split; [apply build_bytes_spec; assumption|]. split; [exact Hp|].
  split; [apply header_parsed; auto; unfold max_message_size, two32 in *; lia|].
  split; [apply body_parsed|reflexivity].
Qed.

(* the accessors of the Message returned by the builder itself (its header cache is produced by the same decoders) *)
Theorem built_accessors h bsig bd nfds :
  hdr_valid h = true -> body_valid bsig nfds = true -> len (spec_message h bsig bd nfds) <= max_message_size ->
  exists m, build h bsig bd nfds = Ok m /\ m_bytes m = spec_message h bsig bd nfds /\
            header m = Ok (view h bsig bd nfds) /\ body m = Ok bd.
Proof.
  intros Hh Hb Hsz.
  destruct (parse_spec_message h bsig bd nfds Hh Hb Hsz) as (fs & Hj & Hinv & Hdf & Hp).
  exists (parsed_msg h bsig bd nfds fs).
  unfold build. rewrite (build_bytes_spec h bsig bd nfds Hh Hb Hsz). cbn [bind].
  assert (Hprim : exists ph, de_primary (h_endian h) (spec_message h bsig bd nfds) = Ok (ph, 12)).
  { unfold from_raw_parts in Hp. destruct (spec_message h bsig bd nfds) as [|b0 r] eqn:E; [discriminate|].
    destruct (endian_of_byte b0); [|discriminate]. destruct (negb _); [discriminate|].
    apply bind_ok in Hp. destruct Hp as ([ph size] & Hpr & _). exists ph.
    pose proof (de_primary_ok _ _ _ _ Hpr) as (-> & _). exact Hpr. }
  destruct Hprim as (ph & Hpr). rewrite Hpr. cbn [bind]. rewrite Hdf.
  split; [reflexivity|]. split; [reflexivity|].
  split; [apply header_parsed; auto; unfold max_message_size, two32 in *; lia|apply body_parsed].
Qed.

(* C11, layout: the properties the statement names, read off the specification formula *)
Theorem layout h bsig body nfds :
  hdr_valid h = true -> body_valid bsig nfds = true -> len (spec_message h bsig body nfds) <= max_message_size ->
  exists bytes off,
    build_bytes h bsig body nfds = Ok (bytes, off) /\
    bytes = spec_message h bsig body nfds /\
    off mod 8 = 0 /\                                               (* the body starts on an 8-byte boundary *)
    len bytes = off + len body /\ dropN off bytes = body /\        (* and is the rest of the message *)
    takeN 4 (dropN 4 bytes) = u32_bytes (h_endian h) (len body) /\ (* declared body length = actual *)
    filter (fun f => fst f =? 9) (spec_fields h bsig nfds) = (if nfds =? 0 then [] else [(9, WU32 nfds)]).  (* UNIX_FDS present iff there are fds, and counts them *)
Proof.
  intros Hh Hb Hsz. exists (spec_message h bsig body nfds), (body_offset_of h bsig body nfds).
  split; [apply build_bytes_spec; assumption|]. split; [reflexivity|].
  unfold body_offset_of. split; [rewrite len_pad8; apply padding_aligned; lia|].
  unfold spec_message. split; [apply len_app|]. split; [apply dropN_app|]. split.
  - unfold pad8, spec_header. rewrite <- !app_assoc.
    change ([endian_byte (h_endian h); nb (h_type h); nb (h_flags h); nb 1] ++ ?x) with
           ([endian_byte (h_endian h); nb (h_type h); nb (h_flags h); nb 1] ++ x).
    apply slice_app; [reflexivity|rewrite len_u32; reflexivity].
  - unfold spec_fields. rewrite !filter_app.
    assert (P1 : filter (fun f : N * wval => fst f =? 9) (match h_path h with Some s => [(1, WPath s)] | None => [] end) = []) by (destruct (h_path h); reflexivity).
    assert (P2 : filter (fun f : N * wval => fst f =? 9) (match h_iface h with Some s => [(2, WStr s)] | None => [] end) = []) by (destruct (h_iface h); reflexivity).
    assert (P3 : filter (fun f : N * wval => fst f =? 9) (match h_member h with Some s => [(3, WStr s)] | None => [] end) = []) by (destruct (h_member h); reflexivity).
    assert (P4 : filter (fun f : N * wval => fst f =? 9) (match h_errname h with Some s => [(4, WStr s)] | None => [] end) = []) by (destruct (h_errname h); reflexivity).
    assert (P5 : filter (fun f : N * wval => fst f =? 9) (match h_reply h with Some n => [(5, WU32 n)] | None => [] end) = []) by (destruct (h_reply h); reflexivity).
    assert (P6 : filter (fun f : N * wval => fst f =? 9) (match h_dest h with Some s => [(6, WStr s)] | None => [] end) = []) by (destruct (h_dest h); reflexivity).
    assert (P7 : filter (fun f : N * wval => fst f =? 9) (match h_sender h with Some s => [(7, WStr s)] | None => [] end) = []) by (destruct (h_sender h); reflexivity).
    assert (P8 : filter (fun f : N * wval => fst f =? 9) (match bsig with SUnit => [] | _ => [(8, WSig (show_np bsig))] end) = []) by (destruct bsig; reflexivity).
    rewrite P1, P2, P3, P4, P5, P6, P7, P8. cbn [app]. destruct (nfds =? 0); reflexivity.
Qed.

(* ---------- typed body values for the shapes s, u, (su) ---------- *)
Lemma de_u32_pad_at e b pos n : at_pos b pos (zeros (padding pos 4) ++ u32_bytes e n) -> n < two32 ->
  de_u32 e b pos = Ok (n, pos + padding pos 4 + 4).
Proof.
  intros H Hn. apply at_pos_app in H. destruct H as [H0 H1]. rewrite len_zeros in H1.
  unfold de_u32. rewrite (parse_padding_at' b pos 4 H0). cbn [bind].
  pose proof (next_slice_at' b _ _ H1) as Hs. rewrite len_u32 in Hs. rewrite Hs. cbn [bind].
  rewrite rd_u32_bytes by exact Hn. reflexivity.
Qed.

Lemma body_at h bsig bd nfds : at_pos (spec_message h bsig bd nfds) (body_offset_of h bsig bd nfds) bd.
Proof.
  unfold spec_message, body_offset_of. rewrite <- (app_nil_r bd) at 2. apply at_pos_intro.
Qed.
Lemma body_offset_aligned h bsig bd nfds : body_offset_of h bsig bd nfds mod 8 = 0.
Proof. unfold body_offset_of. rewrite len_pad8. apply padding_aligned. lia. Qed.

(* a D-Bus string: valid UTF-8 without NUL, shorter than 4 GiB *)
Definition dstr (s : bytes) : Prop := has_nul s = false /\ utf8_valid s = true /\ len s < two32.

Theorem typed_s h nfds s : dstr s ->
  let bd := enc_s (h_endian h) s in
  dec_typed (ShS s) (h_endian h) (spec_message h SStr bd nfds) (body_offset_of h SStr bd nfds) nfds = Ok (TS s).
Proof.
  intros (Hz & Hu & Hl) bd. pose proof (body_at h SStr bd nfds) as Hat. pose proof (body_offset_aligned h SStr bd nfds) as Hal.
  cbn [dec_typed]. subst bd. unfold enc_s in *.
  rewrite (de_str_wide_at _ _ _ s Hat) by (auto; lia). reflexivity.
Qed.

Theorem typed_u h nfds n : n < two32 ->
  let bd := enc_u (h_endian h) n in
  dec_typed (ShU n) (h_endian h) (spec_message h SU32 bd nfds) (body_offset_of h SU32 bd nfds) nfds = Ok (TU n).
Proof.
  intros Hn bd. pose proof (body_at h SU32 bd nfds) as Hat. pose proof (body_offset_aligned h SU32 bd nfds) as Hal.
  cbn [dec_typed]. subst bd. unfold enc_u in *.
  rewrite (de_u32_at' _ _ _ n Hat) by (auto; lia). reflexivity.
Qed.

Theorem typed_su h nfds s n : dstr s -> n < two32 ->
  let bd := enc_su (h_endian h) s n in
  let g := SStruct [SStr; SU32] in
  dec_typed (ShSU s n) (h_endian h) (spec_message h g bd nfds) (body_offset_of h g bd nfds) nfds = Ok (TSU s n).
Proof.
  intros (Hz & Hu & Hl) Hn bd g. pose proof (body_at h g bd nfds) as Hat. pose proof (body_offset_aligned h g bd nfds) as Hal.
  set (off := body_offset_of h g bd nfds) in *. set (b := spec_message h g bd nfds) in *.
  cbn [dec_typed]. rewrite parse_padding_aligned by (auto; lia). cbn [bind].
  subst bd. unfold enc_su, pad4, enc_s in Hat. rewrite <- !app_assoc in Hat.
  assert (Hs : at_pos b off (u32_bytes (h_endian h) (len s) ++ s ++ [x00])).
  { rewrite !app_assoc in Hat. apply at_pos_app in Hat. destruct Hat as [Hat _].
    apply at_pos_app in Hat. destruct Hat as [Hat _]. rewrite <- !app_assoc in Hat. exact Hat. }
  rewrite (de_str_wide_at _ _ _ s Hs) by (auto; lia). cbn [bind].
  assert (Hn' : at_pos b (off + 4 + len s + 1) (zeros (padding (off + 4 + len s + 1) 4) ++ u32_bytes (h_endian h) n)).
  { apply at_pos_app in Hat. destruct Hat as [_ Hat]. rewrite len_u32 in Hat.
    apply at_pos_app in Hat. destruct Hat as [_ Hat].
    apply at_pos_app in Hat. destruct Hat as [_ Hat]. change (len [x00]) with 1 in Hat.
    rewrite !len_app, len_u32 in Hat. change (len [x00]) with 1 in Hat.
    replace (padding (off + 4 + len s + 1) 4) with (padding (4 + (len s + 1)) 4) by (unfold padding; lia).
    exact Hat. }
  rewrite (de_u32_pad_at _ _ _ n Hn' Hn). reflexivity.
Qed.

(* ---------- array of strings ---------- *)
Fixpoint tail_strs (e : endian) (n : N) (l : list bytes) : bytes :=
  match l with
  | [] => []
  | s :: r => zeros (padding n 4) ++ enc_s e s ++ tail_strs e (n + padding n 4 + len (enc_s e s)) r
  end.
Lemma enc_strs_tail e : forall l acc, enc_strs e acc l = acc ++ tail_strs e (len acc) l.
Proof.
  induction l as [|s r IH]; intros acc; cbn [enc_strs tail_strs]; [rewrite app_nil_r; reflexivity|].
  rewrite IH. unfold pad4. rewrite !len_app, len_zeros. rewrite <- !app_assoc. reflexivity.
Qed.
Lemma len_enc_s e s : len (enc_s e s) = 4 + len s + 1.
Proof. unfold enc_s. rewrite !len_app, len_u32. change (len [x00]) with 1. lia. Qed.

Lemma de_strs_tail e b : forall l fuel pos n acc, Forall dstr l -> (pos - n) mod 4 = 0 -> n <= pos ->
  at_pos b pos (tail_strs e n l) -> (length l < fuel)%nat ->
  de_strs fuel e b (pos + len (tail_strs e n l)) pos acc = Ok (rev acc ++ l).
Proof.
  induction l as [|s r IH]; intros fuel pos n acc Hall Hmod Hle Hat Hf.
  - cbn [tail_strs]. change (len []) with 0. rewrite N.add_0_r. destruct fuel; cbn [de_strs]; rewrite N.eqb_refl, app_nil_r; reflexivity.
  - inversion Hall as [|? ? (Hz & Hu & Hl) Hr]; subst. destruct fuel as [|fuel]; [cbn in Hf; lia|].
    cbn [tail_strs] in *. assert (Hp : padding pos 4 = padding n 4) by (unfold padding; lia).
    rewrite <- Hp in *.
    pose proof (padding_aligned pos 4 ltac:(lia)) as Hal.
    apply at_pos_app in Hat. destruct Hat as [H0 Hat]. rewrite len_zeros in Hat.
    apply at_pos_app in Hat. destruct Hat as [Hs Hat]. rewrite len_enc_s in Hat.
    cbn [de_strs]. rewrite !len_app, len_zeros, len_enc_s.
    replace (pos =? _) with false by lia.
    rewrite (parse_padding_at' b pos 4 H0). cbn [bind]. unfold enc_s in Hs.
    rewrite (de_str_wide_at e b _ s Hs Hal Hl Hz Hu). cbn [bind].
    replace (_ <? _) with false by lia.
    specialize (IH fuel (pos + padding pos 4 + (4 + len s + 1)) (n + padding pos 4 + len (enc_s e s)) (s :: acc) Hr).
    rewrite len_enc_s in IH.
    replace (pos + (padding pos 4 + (4 + len s + 1 + len (tail_strs e (n + padding pos 4 + (4 + len s + 1)) r))))
      with (pos + padding pos 4 + (4 + len s + 1) + len (tail_strs e (n + padding pos 4 + (4 + len s + 1)) r)) by lia.
    replace (pos + padding pos 4 + 4 + len s + 1) with (pos + padding pos 4 + (4 + len s + 1)) by lia.
    rewrite IH; [cbn [rev]; rewrite <- app_assoc; reflexivity| | |exact Hat|cbn [length] in Hf; lia].
    + replace (pos + padding pos 4 + (4 + len s + 1) - (n + padding pos 4 + (4 + len s + 1))) with (pos - n) by lia. exact Hmod.
    + lia.
Qed.

Lemma tail_strs_len e l : forall n, N.of_nat (length l) <= len (tail_strs e n l).
Proof.
  induction l as [|s r IH]; intros n; [cbn; lia|].
  cbn [tail_strs length]. rewrite !len_app, len_enc_s. specialize (IH (n + padding n 4 + (4 + len s + 1))). lia.
Qed.

Theorem typed_as h nfds l : Forall dstr l -> len (enc_as (h_endian h) l) < two32 ->
  let bd := enc_as (h_endian h) l in
  let g := SArray SStr in
  dec_typed (ShAS l) (h_endian h) (spec_message h g bd nfds) (body_offset_of h g bd nfds) nfds = Ok (TAS l).
Proof.
  intros Hall Hlen bd g. pose proof (body_at h g bd nfds) as Hat. pose proof (body_offset_aligned h g bd nfds) as Hal.
  set (off := body_offset_of h g bd nfds) in *. set (b := spec_message h g bd nfds) in *.
  subst bd. unfold enc_as in *. rewrite enc_strs_tail in *. cbn [app] in *. change (len []) with 0 in *.
  rewrite len_app, len_u32 in Hlen.
  apply at_pos_app in Hat. destruct Hat as [Hn Hat]. rewrite len_u32 in Hat.
  cbn [dec_typed]. rewrite (de_u32_at' _ b off _ Hn) by (lia || (unfold two32 in *; lia)). cbn [bind].
  rewrite parse_padding_aligned by lia. cbn [bind].
  rewrite (de_strs_tail (h_endian h) b l (S (length b)) (off + 4) 0 [] Hall); [reflexivity| | |exact Hat|].
  - replace (off + 4 - 0) with (off + 4) by lia. lia.
  - lia.
  - apply at_pos_len in Hat. pose proof (tail_strs_len (h_endian h) l 0). unfold len in *. lia.
Qed.

(* ---------- two descriptors (possibly the same one twice): each index resolves to the file it was ---------- *)
Theorem typed_hh h i j :
  let bd := enc_hh (h_endian h) in
  let g := SStruct [SFd; SFd] in
  dec_typed (ShHH i j) (h_endian h) (spec_message h g bd 2) (body_offset_of h g bd 2) 2 = Ok (TFiles [i; j]).
Proof.
  intros bd g. pose proof (body_at h g bd 2) as Hat. pose proof (body_offset_aligned h g bd 2) as Hal.
  set (off := body_offset_of h g bd 2) in *. set (b := spec_message h g bd 2) in *.
  subst bd. unfold enc_hh in Hat. apply at_pos_app in Hat. destruct Hat as [H0 H1]. rewrite len_u32 in H1.
  cbn [dec_typed shape_files]. rewrite parse_padding_aligned by lia. cbn [bind].
  unfold de_fd_file. rewrite (de_u32_at' _ b off 0 H0) by (unfold two32; lia). cbn [bind nth_error N.to_nat].
  rewrite (de_u32_at' _ b (off + 4) 1 H1) by (unfold two32; lia). reflexivity.
Qed.
