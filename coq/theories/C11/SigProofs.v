(* C11/SigProofs.v — the signature parser reads back what Signature::to_string / to_string_no_parens print,
   and only accepts ASCII without NUL. *)
From ZV Require Import Base.Bytes Base.Res Base.Sig C11.Model C11.Spec C11.Lemmas.
From Coq Require Import Lia.
Open Scope N_scope.

(* a D-Bus complete type: no unit, no maybe, no empty structure (dict keys are not restricted by this parser) *)
Fixpoint wf (s : sig) : bool :=
  match s with
  | SUnit | SMaybe _ => false
  | SArray c => wf c
  | SDict k v => wf k && wf v
  | SStruct fs => match fs with [] => false | _ => forallb wf fs end
  | _ => true
  end.

(* a body signature: nothing, or one complete type, or several (printed without the outer parentheses) *)
Definition body_sig_ok (s : sig) : bool := match s with SUnit => true | _ => wf s end.

Lemma show_head s : wf s = true -> exists c r, show s = c :: r /\ beq c "{" = false /\ simple_sig c = simple_sig c.
Proof.
  destruct s; cbn; try discriminate; intros _; eexists; eexists; (split; [reflexivity|split; reflexivity]).
Qed.

Lemma run_show s : wf s = true -> forall rest st top,
  sig_run (show s ++ rest) st top =
  match complete s st top with Some (st', top') => sig_run rest st' top' | None => None end.
Proof.
  induction s using sig_ind'; cbn [wf]; try discriminate; intros Hwf rest st top;
    try (cbn; reflexivity).
  - (* array *)
    cbn [show]. rewrite <- app_assoc. cbn [app B list_byte_of_string sig_run simple_sig beq Byte.eqb].
    change (Byte.eqb "a" "y") with false. cbn.
    destruct (show_head s Hwf) as (c & r & E & Hc & _).
    remember (show s ++ rest) as l eqn:El.
    assert (Hl : l = c :: (r ++ rest)) by (subst l; rewrite E; reflexivity).
    destruct l as [|c2 l']; [discriminate|]. injection Hl as -> ->. rewrite Hc.
    rewrite El. rewrite IHs by exact Hwf. reflexivity.
  - (* dict *)
    apply andb_prop in Hwf. destruct Hwf as [Hk Hv].
    cbn [show]. rewrite <- !app_assoc. cbn.
    rewrite IHs1 by exact Hk. cbn [complete]. rewrite IHs2 by exact Hv. cbn [complete]. cbn. reflexivity.
  - (* struct *)
    cbn [show]. rewrite <- !app_assoc. cbn.
    assert (Hin : forall fs', Forall (fun s => wf s = true -> forall rest st top,
                     sig_run (show s ++ rest) st top =
                     match complete s st top with Some (st', top') => sig_run rest st' top' | None => None end) fs' ->
                   forallb wf fs' = true -> forall acc rest',
                   sig_run (concat (map show fs') ++ rest') (FStruct acc :: st) top
                   = sig_run rest' (FStruct (rev fs' ++ acc) :: st) top).
    { induction fs' as [|f fs' IHf]; intros HF Hall acc rest'; [reflexivity|].
      inversion HF as [|? ? Hf HF']; subst. cbn in Hall. apply andb_prop in Hall. destruct Hall as [Hwf1 Hall].
      cbn [map concat]. rewrite <- app_assoc. rewrite Hf by exact Hwf1. cbn [complete].
      rewrite IHf by assumption. cbn [rev]. rewrite <- app_assoc. reflexivity. }
    destruct fs as [|f0 fs0]; [discriminate|].
    rewrite (Hin (f0 :: fs0) H Hwf [] (")"%byte :: rest)). rewrite app_nil_r.
    cbn [sig_run simple_sig]. cbn.
    change (rev fs0 ++ [f0]) with (rev (f0 :: fs0)).
    destruct (rev (f0 :: fs0)) as [|x acc] eqn:Er.
    { apply (f_equal (@length _)) in Er. rewrite rev_length in Er. discriminate. }
    change (rev acc ++ [x]) with (rev (x :: acc)). rewrite <- Er. rewrite rev_involutive. reflexivity.
Qed.

Lemma run_show_list fs : forallb wf fs = true -> forall rest top,
  sig_run (concat (map show fs) ++ rest) [] top = sig_run rest [] (rev fs ++ top).
Proof.
  induction fs as [|f fs IH]; intros Hall rest top; [reflexivity|].
  cbn in Hall. apply andb_prop in Hall. destruct Hall as [Hf Hall].
  cbn [map concat]. rewrite <- app_assoc. rewrite run_show by exact Hf. cbn [complete].
  rewrite IH by exact Hall. cbn [rev]. rewrite <- app_assoc. reflexivity.
Qed.

(* what a reader gets back from the SIGNATURE header field *)
Theorem parse_show_np s : wf s = true -> parse_sig (show_np s) = Some (norm_sig s).
Proof.
  intros Hwf. unfold parse_sig.
  destruct s; try discriminate;
    try (cbn [show_np]; rewrite <- (app_nil_r (show _)); rewrite run_show by exact Hwf; reflexivity).
  cbn [show_np]. cbn [wf] in Hwf. destruct fs as [|f0 fs0]; [discriminate|].
  rewrite <- (app_nil_r (concat _)). rewrite run_show_list by exact Hwf.
  cbn [sig_run]. rewrite app_nil_r, rev_involutive.
  destruct fs0; reflexivity.
Qed.

Theorem parse_show s : wf s = true -> parse_sig (show s) = Some s.
Proof.
  intros Hwf. unfold parse_sig. rewrite <- (app_nil_r (show s)). rewrite run_show by exact Hwf. reflexivity.
Qed.

(* ---------- accepted signatures are ASCII without NUL ---------- *)
Definition ascii_nz (c : byte) : bool := (0 <? bn c) && (bn c <? 128).
Definition sigchar (c : byte) : bool :=
  match simple_sig c with
  | Some _ => true
  | None => beq c "a" || beq c "(" || beq c ")" || beq c "{" || beq c "}"
  end.
Lemma sigchar_ascii c : sigchar c = true -> ascii_nz c = true.
Proof. destruct c; cbn; intros H; try discriminate H; reflexivity. Qed.

Lemma sig_run_chars n : forall l st top r, (length l <= n)%nat -> sig_run l st top = Some r -> forallb ascii_nz l = true.
Proof.
  induction n as [|n IH]; intros l st top r Hn H.
  - destruct l; [reflexivity|cbn in Hn; lia].
  - destruct l as [|c l]; [reflexivity|]. cbn [forallb].
    assert (Hc : sigchar c = true).
    { destruct (sigchar c) eqn:E; [reflexivity|]. exfalso. unfold sigchar in E. cbn [sig_run] in H.
      destruct (simple_sig c); [discriminate|].
      apply Bool.orb_false_iff in E. destruct E as [E E5]. apply Bool.orb_false_iff in E. destruct E as [E E4].
      apply Bool.orb_false_iff in E. destruct E as [E E3]. apply Bool.orb_false_iff in E. destruct E as [E1 E2].
      rewrite E1, E2, E3, E5 in H. discriminate. }
    rewrite (sigchar_ascii c Hc). cbn [andb]. cbn [sig_run] in H. cbn in Hn.
    destruct (simple_sig c).
    + destruct (complete s st top) as [[st' top']|]; [|discriminate]. eapply IH; [|exact H]. lia.
    + destruct (beq c "a").
      * destruct l as [|c2 l']; [discriminate|].
        destruct (beq c2 "{") eqn:E2.
        -- cbn [forallb]. apply Byte.byte_dec_bl in E2. subst c2. cbn [ascii_nz]. change (ascii_nz "{") with true. cbn [andb].
           eapply IH; [|exact H]. cbn in Hn. lia.
        -- eapply IH; [|exact H]. lia.
      * destruct (beq c "(").
        { eapply IH; [|exact H]. lia. }
        destruct (beq c ")").
        { destruct st as [|[|[|x acc]| | |] st']; try discriminate.
          destruct (complete _ st' top) as [[st2 top2]|]; [|discriminate]. eapply IH; [|exact H]. lia. }
        destruct (beq c "}"); [|discriminate].
        destruct st as [|[| | | |k v] st']; try discriminate.
        destruct (complete _ st' top) as [[st2 top2]|]; [|discriminate]. eapply IH; [|exact H]. lia.
Qed.

Lemma parse_sig_chars l g : parse_sig l = Some g -> forallb ascii_nz l = true.
Proof.
  unfold parse_sig. destruct (sig_run l [] []) eqn:E; [|discriminate]. intros _.
  eapply sig_run_chars; [apply Nat.le_refl|exact E].
Qed.

Lemma ascii_no_nul l : forallb ascii_nz l = true -> has_nul l = false.
Proof.
  unfold has_nul. induction l as [|c l IH]; [reflexivity|]. cbn [forallb existsb]. intros H.
  apply andb_prop in H. destruct H as [Hc Hl].
  rewrite IH by exact Hl. unfold ascii_nz in Hc. apply andb_prop in Hc. destruct Hc as [Hc _].
  destruct (bn c =? 0) eqn:E; [|reflexivity]. apply N.eqb_eq in E. rewrite E in Hc. discriminate.
Qed.
Lemma ascii_utf8 l : forallb ascii_nz l = true -> utf8_valid l = true.
Proof.
  induction l as [|c l IH]; [reflexivity|]. cbn [forallb utf8_valid]. intros H. apply andb_prop in H. destruct H as [Hc Hl].
  unfold ascii_nz in Hc. apply andb_prop in Hc. destruct Hc as [_ Hc]. rewrite Hc. apply IH. exact Hl.
Qed.

(* ---------- what the parser returns is well-formed (no unit or maybe inside, no empty structure) ---------- *)
Definition frame_wf (f : frame) : Prop :=
  match f with
  | FArr | FDictK => True
  | FStruct acc => forallb wf acc = true
  | FDictV k => wf k = true
  | FDictEnd k v => wf k = true /\ wf v = true
  end.

Lemma complete_wf s : forall st top st' top', wf s = true -> Forall frame_wf st -> forallb wf top = true ->
  complete s st top = Some (st', top') -> Forall frame_wf st' /\ forallb wf top' = true.
Proof.
  intros st. revert s. induction st as [|f st IH]; intros s top st' top' Hs Hst Ht H; cbn [complete] in H.
  - injection H as <- <-. split; [constructor|]. cbn. rewrite Hs, Ht. reflexivity.
  - inversion Hst as [|? ? Hf Hst']; subst. destruct f; try discriminate.
    + eapply IH; [| | |exact H]; auto.
    + injection H as <- <-. split; [|exact Ht]. constructor; [|exact Hst']. cbn in *. rewrite Hs, Hf. reflexivity.
    + injection H as <- <-. split; [|exact Ht]. constructor; [exact Hs|exact Hst'].
    + injection H as <- <-. split; [|exact Ht]. constructor; [split; assumption|exact Hst'].
Qed.

Lemma forallb_rev_wf l : forallb wf l = true -> forallb wf (rev l) = true.
Proof. rewrite !forallb_forall. intros H x Hx. apply H. apply in_rev. exact Hx. Qed.

Lemma simple_sig_wf c s : simple_sig c = Some s -> wf s = true.
Proof.
  unfold simple_sig.
  repeat match goal with |- (if ?x then _ else _) = _ -> _ => destruct x; [intros [= <-]; reflexivity|] end.
  discriminate.
Qed.

Lemma sig_run_wf n : forall l st top r, (length l <= n)%nat -> Forall frame_wf st -> forallb wf top = true ->
  sig_run l st top = Some r -> forallb wf r = true.
Proof.
  induction n as [|n IH]; intros l st top r Hn Hst Ht H.
  - destruct l; [|cbn in Hn; lia]. cbn in H. destruct st; [|discriminate]. injection H as <-. apply forallb_rev_wf. exact Ht.
  - destruct l as [|c l].
    { cbn in H. destruct st; [|discriminate]. injection H as <-. apply forallb_rev_wf. exact Ht. }
    cbn [sig_run] in H. cbn in Hn.
    destruct (simple_sig c) eqn:Es.
    + destruct (complete s st top) as [[st' top']|] eqn:Ec; [|discriminate].
      destruct (complete_wf _ _ _ _ _ (simple_sig_wf _ _ Es) Hst Ht Ec). eapply IH; [| | |exact H]; auto. lia.
    + destruct (beq c "a").
      * destruct l as [|c2 l']; [discriminate|]. destruct (beq c2 "{").
        -- eapply IH; [| | |exact H]; [cbn in Hn; lia|constructor; [exact I|exact Hst]|exact Ht].
        -- eapply IH; [| | |exact H]; [lia|constructor; [exact I|exact Hst]|exact Ht].
      * destruct (beq c "(").
        { eapply IH; [| | |exact H]; [lia|constructor; [reflexivity|exact Hst]|exact Ht]. }
        destruct (beq c ")").
        { destruct st as [|[|[|x acc]| | |] st']; try discriminate.
          inversion Hst as [|? ? Hf Hst']; subst.
          destruct (complete _ st' top) as [[st2 top2]|] eqn:Ec; [|discriminate].
          assert (Hw : wf (SStruct (rev (x :: acc))) = true).
          { cbn [wf]. pose proof (forallb_rev_wf _ Hf) as Hr. destruct (rev (x :: acc)) eqn:Er; [|exact Hr].
            apply (f_equal (@length _)) in Er. rewrite rev_length in Er. discriminate. }
          destruct (complete_wf _ _ _ _ _ Hw Hst' Ht Ec). eapply IH; [| | |exact H]; auto. lia. }
        destruct (beq c "}"); [|discriminate].
        destruct st as [|[| | | |k v] st']; try discriminate.
        inversion Hst as [|? ? Hf Hst']; subst. cbn in Hf. destruct Hf as [Hk Hv].
        destruct (complete _ st' top) as [[st2 top2]|] eqn:Ec; [|discriminate].
        assert (Hw : wf (SDict k v) = true) by (cbn; rewrite Hk, Hv; reflexivity).
        destruct (complete_wf _ _ _ _ _ Hw Hst' Ht Ec). eapply IH; [| | |exact H]; auto. lia.
Qed.

Lemma parse_sig_wf l s : parse_sig l = Some s -> s = SUnit \/ wf s = true.
Proof.
  unfold parse_sig. destruct (sig_run l [] []) as [r|] eqn:E; [|discriminate].
  pose proof (sig_run_wf (length l) l [] [] r (Nat.le_refl _) (Forall_nil _) (eq_refl : forallb wf [] = true) E) as Hr.
  destruct r as [|x [|y r']]; intros [= <-]; [left; reflexivity| |].
  - right. cbn in Hr. apply andb_prop in Hr. tauto.
  - right. cbn [wf]. exact Hr.
Qed.
