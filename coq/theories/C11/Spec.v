(* C11/Spec.v — the D-Bus message format written from the specification ("Message Protocol": fixed header, header-field
   array a(yv), padding to 8, body), independently of the serializer/deserializer mirrored in Model.v.

   * [spec_message]: the byte layout of a message with given header fields and body — an explicit formula: no
     position-dependent padding calls, elements are 4 fixed bytes + value, zero-padded to 8 BETWEEN elements.
   * [view]: what a reader must report for it.
   * hand-written encoders of a few body shapes ([enc_s], [enc_u], [enc_su], [enc_as], [enc_h], [enc_sh]).
   * [spec_parse] / [spec_stream]: a tolerant reference reader as the specification describes it (unknown header field
     codes are skipped whatever their value, unknown flag bits are ignored, messages of unknown type are dropped and the
     stream goes on).  Used as the oracle of C12 (accept/reject is free, crashing is not) and C13.
   Shared with Model.v: only arithmetic ([u32_bytes], [rd_u32], [padding], [zeros]), [utf8_valid] and the signature
   grammar [parse_sig] (C06's subject); name grammars come from C10/Spec.v. *)
From ZV Require Import Base.Bytes Base.Res Base.Sig C10.Spec C11.Model.
Open Scope N_scope.

Definition pad8 (x : bytes) : bytes := x ++ zeros (padding (len x) 8).
Definition pad4 (x : bytes) : bytes := x ++ zeros (padding (len x) 4).

(* ---------- header fields ---------- *)
Definition sig_char (v : wval) : byte :=
  match v with WStr _ => "s" | WPath _ => "o" | WSig _ => "g" | WU32 _ => "u" end%byte.
(* the value of an element starts 4 bytes after an 8-aligned offset: it never needs padding *)
Definition spec_value (e : endian) (v : wval) : bytes :=
  match v with
  | WStr s | WPath s => u32_bytes e (len s) ++ s ++ [x00]
  | WSig s => [nb (len s)] ++ s ++ [x00]
  | WU32 n => u32_bytes e n
  end.
Definition spec_element (e : endian) (f : N * wval) : bytes :=
  [nb (fst f); nb 1; sig_char (snd f); x00] ++ spec_value e (snd f).
Fixpoint spec_array (e : endian) (l : list (N * wval)) : bytes :=
  match l with
  | [] => []
  | [x] => spec_element e x
  | x :: r => pad8 (spec_element e x) ++ spec_array e r
  end.

(* header fields in ascending code order; SIGNATURE (8) is the body signature without outer parentheses and is omitted
   for an empty body signature; UNIX_FDS (9) is present iff the message carries descriptors *)
Definition spec_fields (h : hdr) (bsig : sig) (nfds : N) : list (N * wval) :=
  (match h_path h with Some s => [(1, WPath s)] | None => [] end)
  ++ (match h_iface h with Some s => [(2, WStr s)] | None => [] end)
  ++ (match h_member h with Some s => [(3, WStr s)] | None => [] end)
  ++ (match h_errname h with Some s => [(4, WStr s)] | None => [] end)
  ++ (match h_reply h with Some n => [(5, WU32 n)] | None => [] end)
  ++ (match h_dest h with Some s => [(6, WStr s)] | None => [] end)
  ++ (match h_sender h with Some s => [(7, WStr s)] | None => [] end)
  ++ (match bsig with SUnit => [] | _ => [(8, WSig (show_np bsig))] end)
  ++ (if nfds =? 0 then [] else [(9, WU32 nfds)]).

Definition spec_header (h : hdr) (body_len : N) (fl : list (N * wval)) : bytes :=
  let e := h_endian h in
  let arr := spec_array e fl in
  [endian_byte e; nb (h_type h); nb (h_flags h); nb 1]
  ++ u32_bytes e body_len ++ u32_bytes e (h_serial h) ++ u32_bytes e (len arr) ++ arr.

Definition spec_message (h : hdr) (bsig : sig) (body : bytes) (nfds : N) : bytes :=
  pad8 (spec_header h (len body) (spec_fields h bsig nfds)) ++ body.

(* the signature a reader reports: the complete types of the body; one type alone is that type, several form a structure *)
Definition norm_sig (s : sig) : sig :=
  match s with SStruct [x] => x | _ => s end.

Definition view (h : hdr) (bsig : sig) (body : bytes) (nfds : N) : hview :=
  {| hv_ph := {| ph_endian := h_endian h; ph_type := h_type h; ph_flags := h_flags h; ph_version := 1;
                 ph_body_len := len body; ph_serial := h_serial h |};
     hv_path := h_path h; hv_iface := h_iface h; hv_member := h_member h; hv_errname := h_errname h;
     hv_reply := h_reply h; hv_dest := h_dest h; hv_sender := h_sender h; hv_sig := norm_sig bsig;
     hv_fds := if nfds =? 0 then None else Some nfds |}.

(* ---------- a few body shapes, marshalled by hand (body starts 8-aligned: offset 0) ---------- *)
Definition enc_s (e : endian) (s : bytes) : bytes := u32_bytes e (len s) ++ s ++ [x00].
Definition enc_u (e : endian) (n : N) : bytes := u32_bytes e n.
Definition enc_su (e : endian) (s : bytes) (n : N) : bytes := pad4 (enc_s e s) ++ u32_bytes e n.
(* array of strings: u32 byte length of the elements, elements 4-aligned (the first one is at offset 4) *)
Fixpoint enc_strs (e : endian) (acc : bytes) (l : list bytes) : bytes :=
  match l with
  | [] => acc
  | s :: r => enc_strs e (pad4 acc ++ enc_s e s) r
  end.
Definition enc_as (e : endian) (l : list bytes) : bytes :=
  let elems := enc_strs e [] l in u32_bytes e (len elems) ++ elems.
Definition enc_h (e : endian) : bytes := u32_bytes e 0.               (* index 0 into the descriptor list *)
Definition enc_sh (e : endian) (s : bytes) : bytes := pad4 (enc_s e s) ++ u32_bytes e 0.

(* ---------- tolerant reference reader ---------- *)
Definition sp_take (b : bytes) (pos n : N) : option (bytes * N) :=
  if pos + n <=? len b then Some (takeN n (dropN pos b), pos + n) else None.
Definition sp_align (b : bytes) (pos a : N) : option N :=
  match sp_take b pos (padding pos a) with
  | Some (z, p) => if all_zero z then Some p else None
  | None => None
  end.
Definition sp_fixed (b : bytes) (pos a : N) : option (bytes * N) :=
  match sp_align b pos a with Some p => sp_take b p a | None => None end.
Definition sp_u32 (e : endian) (b : bytes) (pos : N) : option (N * N) :=
  match sp_fixed b pos 4 with Some (l, p) => Some (rd_u32 e l, p) | None => None end.
Definition sp_byte (b : bytes) (pos : N) : option (N * N) :=
  match sp_take b pos 1 with Some (c :: _, p) => Some (bn c, p) | _ => None end.
(* string-like: length, bytes without NUL, valid UTF-8, a NUL terminator that is really there *)
Definition sp_string (wide : bool) (e : endian) (b : bytes) (pos : N) : option (bytes * N) :=
  match (if wide then sp_u32 e b pos else sp_byte b pos) with
  | Some (n, p) =>
      match sp_take b p n with
      | Some (s, p1) =>
          match sp_take b p1 1 with
          | Some ([z], p2) => if (bn z =? 0) && negb (has_nul s) && utf8_valid s then Some (s, p2) else None
          | _ => None
          end
      | None => None
      end
  | None => None
  end.

(* one value of type [s], fully validated as the specification marshals it (booleans 0/1, zero padding, NUL-terminated
   UTF-8 strings, valid object paths and signatures, array contents, nesting limits 32 arrays / 32 structures / 64 in
   total).  Variants and file descriptors inside an ignored field are not followed: no constraint is derived then. *)
Definition sp_inc (which : N) (d : depths) : option depths :=
  let d' := match which with
            | 0 => {| d_struct := d_struct d + 1; d_array := d_array d; d_variant := d_variant d |}
            | _ => {| d_struct := d_struct d; d_array := d_array d + 1; d_variant := d_variant d |}
            end in
  if (d_struct d' <=? 32) && (d_array d' <=? 32) && (d_struct d' + d_array d' + d_variant d' <=? 64) then Some d' else None.

Fixpoint sp_arr_loop (elem : N -> option N) (b : bytes) (al endp : N) (k : nat) (q : N) {struct k} : option N :=
  if q =? endp then Some q
  else match k with
       | O => None
       | S k' =>
           match sp_align b q al with
           | Some q1 => match elem q1 with
                        | Some q2 => if q2 <=? endp then sp_arr_loop elem b al endp k' q2 else None
                        | None => None
                        end
           | None => None
           end
       end.
Fixpoint sp_dict_loop (kd vd : N -> option N) (b : bytes) (endp : N) (k : nat) (q : N) {struct k} : option N :=
  if q =? endp then Some q
  else match k with
       | O => None
       | S k' =>
           match sp_align b q 8 with
           | Some q1 =>
               match kd q1 with
               | Some q2 =>
                   if q2 <=? endp then
                     match vd q2 with
                     | Some q3 => if q3 <=? endp then sp_dict_loop kd vd b endp k' q3 else None
                     | None => None
                     end
                   else None
               | None => None
               end
           | None => None
           end
       end.
Section SpStructGo.
  Variable fld : sig -> N -> option N.
  Fixpoint sp_struct_go (l : list sig) (q : N) {struct l} : option N :=
    match l with
    | [] => Some q
    | f :: r => match fld f q with Some q' => sp_struct_go r q' | None => None end
    end.
End SpStructGo.

Fixpoint sp_value (s : sig) (d : depths) (e : endian) (b : bytes) (pos : N) {struct s} : option N :=
  match s with
  | SU8 => option_map snd (sp_take b pos 1)
  | SBool => match sp_u32 e b pos with Some (n, p) => if n <=? 1 then Some p else None | None => None end
  | SI16 | SU16 => option_map snd (sp_fixed b pos 2)
  | SI32 | SU32 => option_map snd (sp_fixed b pos 4)
  | SI64 | SU64 | SF64 => option_map snd (sp_fixed b pos 8)
  | SStr => option_map snd (sp_string true e b pos)
  | SObjPath => match sp_string true e b pos with Some (s', p) => if spec_object_path s' then Some p else None | None => None end
  | SSig => match sp_string false e b pos with
            | Some (s', p) => match parse_sig s' with Some _ => Some p | None => None end
            | None => None
            end
  | SArray c =>
      match sp_inc 1 d, sp_u32 e b pos with
      | Some d', Some (n, p) =>
          match sp_align b p (align_dbus c) with
          | Some start => sp_arr_loop (sp_value c d' e b) b (align_dbus c) (start + n) (S (length b)) start
          | None => None
          end
      | _, _ => None
      end
  | SDict kt vt =>
      match sp_inc 1 d, sp_u32 e b pos with
      | Some d', Some (n, p) =>
          match sp_align b p 8 with
          | Some start => sp_dict_loop (sp_value kt d' e b) (sp_value vt d' e b) b (start + n) (S (length b)) start
          | None => None
          end
      | _, _ => None
      end
  | SStruct fs =>
      match sp_align b pos 8, sp_inc 0 d with
      | Some p, Some d' => sp_struct_go (fun f q => sp_value f d' e b q) fs p
      | _, _ => None
      end
  | SVariant | SFd | SUnit | SMaybe _ => None
  end.

Record sfields := {
  s_path : option bytes; s_iface : option bytes; s_member : option bytes; s_errname : option bytes;
  s_reply : option N; s_dest : option bytes; s_sender : option bytes; s_sig : option sig; s_fds : option N; s_unk : N }.
Definition sfields_empty : sfields :=
  {| s_path := None; s_iface := None; s_member := None; s_errname := None; s_reply := None; s_dest := None;
     s_sender := None; s_sig := None; s_fds := None; s_unk := 0 |}.

Definition is_none {A} (o : option A) : bool := match o with None => true | Some _ => false end.

(* a known field: the type the specification prescribes for it, a value valid for it, at most once *)
Definition sp_known (code : N) (vs : sig) (e : endian) (b : bytes) (pos : N) (a : sfields) : option (sfields * N) :=
  let str (ok : bytes -> bool) (isn : bool) (upd : bytes -> sfields) :=
    match sp_string true e b pos with
    | Some (s, p) => if ok s && isn then Some (upd s, p) else None
    | None => None
    end in
  match code, vs with
  | 1, SObjPath => str spec_object_path (is_none (s_path a)) (fun s => {| s_path := Some s; s_iface := s_iface a; s_member := s_member a; s_errname := s_errname a; s_reply := s_reply a; s_dest := s_dest a; s_sender := s_sender a; s_sig := s_sig a; s_fds := s_fds a; s_unk := s_unk a |})
  | 2, SStr => str spec_interface (is_none (s_iface a)) (fun s => {| s_path := s_path a; s_iface := Some s; s_member := s_member a; s_errname := s_errname a; s_reply := s_reply a; s_dest := s_dest a; s_sender := s_sender a; s_sig := s_sig a; s_fds := s_fds a; s_unk := s_unk a |})
  | 3, SStr => str spec_member (is_none (s_member a)) (fun s => {| s_path := s_path a; s_iface := s_iface a; s_member := Some s; s_errname := s_errname a; s_reply := s_reply a; s_dest := s_dest a; s_sender := s_sender a; s_sig := s_sig a; s_fds := s_fds a; s_unk := s_unk a |})
  | 4, SStr => str spec_interface (is_none (s_errname a)) (fun s => {| s_path := s_path a; s_iface := s_iface a; s_member := s_member a; s_errname := Some s; s_reply := s_reply a; s_dest := s_dest a; s_sender := s_sender a; s_sig := s_sig a; s_fds := s_fds a; s_unk := s_unk a |})
  | 6, SStr => str spec_bus (is_none (s_dest a)) (fun s => {| s_path := s_path a; s_iface := s_iface a; s_member := s_member a; s_errname := s_errname a; s_reply := s_reply a; s_dest := Some s; s_sender := s_sender a; s_sig := s_sig a; s_fds := s_fds a; s_unk := s_unk a |})
  | 7, SStr => str spec_unique (is_none (s_sender a)) (fun s => {| s_path := s_path a; s_iface := s_iface a; s_member := s_member a; s_errname := s_errname a; s_reply := s_reply a; s_dest := s_dest a; s_sender := Some s; s_sig := s_sig a; s_fds := s_fds a; s_unk := s_unk a |})
  | 5, SU32 =>
      match sp_u32 e b pos with
      | Some (n, p) => if negb (n =? 0) && is_none (s_reply a) then Some ({| s_path := s_path a; s_iface := s_iface a; s_member := s_member a; s_errname := s_errname a; s_reply := Some n; s_dest := s_dest a; s_sender := s_sender a; s_sig := s_sig a; s_fds := s_fds a; s_unk := s_unk a |}, p) else None
      | None => None
      end
  | 9, SU32 =>
      match sp_u32 e b pos with
      | Some (n, p) => if is_none (s_fds a) then Some ({| s_path := s_path a; s_iface := s_iface a; s_member := s_member a; s_errname := s_errname a; s_reply := s_reply a; s_dest := s_dest a; s_sender := s_sender a; s_sig := s_sig a; s_fds := Some n; s_unk := s_unk a |}, p) else None
      | None => None
      end
  | 8, SSig =>
      match sp_string false e b pos with
      | Some (s, p) =>
          match parse_sig s with
          | Some g => if is_none (s_sig a) then Some ({| s_path := s_path a; s_iface := s_iface a; s_member := s_member a; s_errname := s_errname a; s_reply := s_reply a; s_dest := s_dest a; s_sender := s_sender a; s_sig := Some g; s_fds := s_fds a; s_unk := s_unk a |}, p) else None
          | None => None
          end
      | None => None
      end
  | _, _ => None
  end.

(* one element of the field array at [pos]: 8-aligned, code byte, signature of exactly one complete type, value *)
Definition sp_field (e : endian) (b : bytes) (pos : N) (a : sfields) : option (sfields * N) :=
  match sp_align b pos 8 with
  | Some p =>
      match sp_byte b p with
      | Some (code, p1) =>
          match sp_string false e b p1 with
          | Some (sg, p2) =>
              match parse_sig sg with
              | Some vs =>
                  match vs with
                  | SUnit => None
                  | _ =>
                      if lbeq (show vs) sg then       (* a single complete type *)
                        if code =? 0 then None        (* 0 is INVALID *)
                        else if code <=? 9 then sp_known code vs e b p2 a
                        else                           (* unknown header field: ignored, whatever its (valid) value *)
                          match sp_value vs field_value_depths e b p2 with
                          | Some p3 =>
                              Some ({| s_path := s_path a; s_iface := s_iface a; s_member := s_member a; s_errname := s_errname a;
                                       s_reply := s_reply a; s_dest := s_dest a; s_sender := s_sender a; s_sig := s_sig a;
                                       s_fds := s_fds a; s_unk := s_unk a + 1 |}, p3)
                          | None => None
                          end
                      else None
                  end
              | None => None
              end
          | None => None
          end
      | None => None
      end
  | None => None
  end.

Fixpoint sp_fields (fuel : nat) (e : endian) (b : bytes) (endp pos : N) (a : sfields) : option sfields :=
  if pos =? endp then Some a
  else
    match fuel with
    | O => None
    | S f =>
        match sp_field e b pos a with
        | Some (a', p3) => if p3 <=? endp then sp_fields f e b endp p3 a' else None
        | None => None
        end
    end.

(* what the reference reader makes of [b] as one complete message: None = not a message this reader vouches for *)
Record smsg := { sm_type : N; sm_view : hview; sm_body : bytes; sm_unknown_fields : N; sm_raw_flags : N }.

Definition spec_parse (b : bytes) : option smsg :=
  match b with
  | c0 :: _ =>
      match endian_of_byte c0 with
      | Some e =>
          match sp_byte b 1, sp_byte b 2, sp_byte b 3, sp_u32 e b 4, sp_u32 e b 8, sp_u32 e b 12 with
          | Some (ty, _), Some (fl, _), Some (ver, _), Some (bl, _), Some (sn, _), Some (flen, p) =>
              if (ver =? 1) && negb (sn =? 0) && negb (ty =? 0) && (len b <=? max_message_size) then
                match sp_fields (S (length b)) e b (p + flen) p sfields_empty with
                | Some a =>
                    match sp_align b (p + flen) 8 with
                    | Some off =>
                        if off + bl =? len b then
                          Some {| sm_type := ty;
                                  sm_view := {| hv_ph := {| ph_endian := e; ph_type := ty; ph_flags := fl mod 8 (* unknown bits ignored *);
                                                            ph_version := ver; ph_body_len := bl; ph_serial := sn |};
                                                hv_path := s_path a; hv_iface := s_iface a; hv_member := s_member a;
                                                hv_errname := s_errname a; hv_reply := s_reply a; hv_dest := s_dest a;
                                                hv_sender := s_sender a;
                                                hv_sig := match s_sig a with Some g => g | None => SUnit end;
                                                hv_fds := s_fds a |};
                                  sm_body := dropN off b; sm_unknown_fields := s_unk a; sm_raw_flags := fl |}
                        else None
                    | None => None
                    end
                | None => None
                end
              else None
          | _, _, _, _, _, _ => None
          end
      | None => None
      end
  | [] => None
  end.

(* a stream of messages followed by end-of-stream: what a reader following the specification delivers *)
Inductive item := IMsg (serial : N) | IErrMsg | IErrIo | IEnd | IHang | IFuel.

Definition spec_frame_len (stream : bytes) : option N :=
  match stream with
  | c0 :: _ =>
      match endian_of_byte c0 with
      | Some e =>
          match sp_u32 e stream 4, sp_u32 e stream 12 with
          | Some (bl, _), Some (flen, p) => Some (p + flen + padding (p + flen) 8 + bl)
          | _, _ => None
          end
      | None => None
      end
  | [] => None
  end.

(* None = the stream contains something the reference reader does not vouch for (no constraint) *)
Fixpoint spec_stream (fuel : nat) (stream : bytes) : option (list item) :=
  match fuel with
  | O => None
  | S f =>
      match stream with
      | [] => Some [IErrIo; IEnd]                       (* end of stream: reported as an I/O error, then the stream ends *)
      | _ =>
          match spec_frame_len stream with
          | Some n =>
              if n <=? len stream then
                match spec_parse (takeN n stream) with
                | Some m =>
                    match spec_stream f (dropN n stream) with
                    | Some rest =>
                        if (1 <=? sm_type m) && (sm_type m <=? 4)
                        then Some (IMsg (ph_serial (hv_ph (sm_view m))) :: rest)
                        else Some rest                    (* unknown type: dropped, the stream goes on *)
                    | None => None
                    end
                | None => None
                end
              else None
          | None => None
          end
      end
  end.
