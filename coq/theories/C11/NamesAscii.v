(* C11/NamesAscii.v — every string accepted by a name / object-path validator is ASCII without NUL, hence a
   well-formed UTF-8 D-Bus string (uses the executable grammars of C10/Spec.v through C10/Proofs.v). *)
From ZV Require Import Base.Bytes Base.Res Base.Sig C10.Model C10.Spec C10.Proofs C11.Model C11.SigProofs.
From Coq Require Import Lia.
Open Scope N_scope.

(* the characters a name or path can contain *)
Definition namech (c : byte) : bool :=
  is_alphanum c || beq c "_" || beq c "-" || beq c "." || beq c ":" || beq c "/".
Lemma namech_ascii c : namech c = true -> ascii_nz c = true.
Proof. destruct c; cbn; intros H; try discriminate H; reflexivity. Qed.

Lemma forallb_imp {A} (f g : A -> bool) l : (forall x, f x = true -> g x = true) -> forallb f l = true -> forallb g l = true.
Proof. intros H. induction l; cbn; [auto|]. intros Hl. apply andb_prop in Hl. destruct Hl. rewrite H, IHl; auto. Qed.

Lemma forallb_rev' {A} (f : A -> bool) l : forallb f (rev l) = true -> forallb f l = true.
Proof.
  rewrite !forallb_forall. intros H x Hx. apply H. apply -> in_rev. exact Hx.
Qed.

Lemma split_on_chars (P : byte -> bool) sep : P sep = true -> forall l cur,
  forallb (forallb P) (split_on_aux sep l cur) = true -> forallb P cur = true /\ forallb P l = true.
Proof.
  intros Hsep. induction l as [|c r IH]; intros cur H; cbn [split_on_aux] in H.
  - cbn in H. apply andb_prop in H. destruct H as [H _]. split; [apply forallb_rev'; exact H|reflexivity].
  - destruct (beq c sep) eqn:E.
    + cbn [forallb] in H. apply andb_prop in H. destruct H as [H1 H2].
      apply IH in H2. destruct H2 as [_ H2]. apply Byte.byte_dec_bl in E. subst c.
      split; [apply forallb_rev'; exact H1|]. cbn. rewrite Hsep, H2. reflexivity.
    + apply IH in H. destruct H as [H1 H2]. cbn in H1. apply andb_prop in H1. destruct H1 as [Hc Hcur].
      split; [exact Hcur|]. cbn. rewrite Hc, H2. reflexivity.
Qed.

Lemma split_chars (P : byte -> bool) sep s : P sep = true -> forallb (forallb P) (split_on sep s) = true -> forallb P s = true.
Proof. intros Hsep H. apply (split_on_chars P sep Hsep s []) in H. tauto. Qed.

Lemma elem_iface_ch e : elem_iface e = true -> forallb namech e = true.
Proof.
  destruct e as [|c r]; [discriminate|]. cbn [elem_iface forallb]. intros H. apply andb_prop in H. destruct H as [Hc Hr].
  assert (namech c = true) as ->.
  { unfold namech, is_alphanum, is_us in *. destruct (is_alpha c); cbn in *; [reflexivity|]. rewrite Hc. destruct (is_digit c); reflexivity. }
  cbn. revert Hr. apply forallb_imp. intros x Hx. unfold namech, is_us in *. destruct (is_alphanum x); cbn in *; [reflexivity|]. rewrite Hx. reflexivity.
Qed.
Lemma elem_wk_ch e : elem_wk e = true -> forallb namech e = true.
Proof.
  destruct e as [|c r]; [discriminate|]. cbn [elem_wk forallb]. intros H. apply andb_prop in H. destruct H as [Hc Hr].
  assert (namech c = true) as ->.
  { unfold namech, is_alphanum, is_us, is_hy in *. destruct (is_alpha c); cbn in *; [reflexivity|].
    destruct (beq c "_"); cbn in *; [destruct (is_digit c); reflexivity|]. rewrite Hc. destruct (is_digit c); reflexivity. }
  cbn. revert Hr. apply forallb_imp. intros x Hx. unfold namech, is_us, is_hy in *. destruct (is_alphanum x); cbn in *; [reflexivity|].
  destruct (beq x "_"); cbn in *; [reflexivity|]. rewrite Hx. reflexivity.
Qed.
Lemma elem_uq_ch e : elem_uq e = true -> forallb namech e = true.
Proof.
  destruct e as [|c r]; [discriminate|]. unfold elem_uq. apply forallb_imp. intros x Hx.
  unfold namech, is_us, is_hy in *. destruct (is_alphanum x); cbn in *; [reflexivity|].
  destruct (beq x "_"); cbn in *; [reflexivity|]. rewrite Hx. reflexivity.
Qed.
Lemma elem_path_ch e : elem_path e = true -> forallb namech e = true.
Proof.
  destruct e as [|c r]; [discriminate|]. unfold elem_path. apply forallb_imp. intros x Hx.
  unfold namech, is_us in *. destruct (is_alphanum x); cbn in *; [reflexivity|]. rewrite Hx. reflexivity.
Qed.

Lemma lbeq_eq a : forall b, lbeq a b = true -> a = b.
Proof.
  induction a as [|x a IH]; intros [|y b] H; cbn in H; try discriminate; [reflexivity|].
  apply andb_prop in H. destruct H as [H1 H2]. apply Byte.byte_dec_bl in H1. subst. f_equal. auto.
Qed.

Lemma iface_chars s : validate_interface s = true -> forallb namech s = true.
Proof.
  rewrite interface_ok. unfold spec_interface. intros H. apply andb_prop in H. destruct H as [H _].
  apply andb_prop in H. destruct H as [_ H]. apply (split_chars namech dot); [reflexivity|].
  revert H. apply forallb_imp. apply elem_iface_ch.
Qed.
Lemma wk_chars s : validate_well_known s = true -> forallb namech s = true.
Proof.
  rewrite well_known_ok. unfold spec_well_known. intros H. apply andb_prop in H. destruct H as [H _].
  apply andb_prop in H. destruct H as [_ H]. apply (split_chars namech dot); [reflexivity|].
  revert H. apply forallb_imp. apply elem_wk_ch.
Qed.
Lemma member_chars s : validate_member s = true -> forallb namech s = true.
Proof.
  rewrite member_ok. unfold spec_member. intros H. apply andb_prop in H. destruct H as [H _]. apply elem_iface_ch. exact H.
Qed.
Lemma unique_chars s : validate_unique s = true -> forallb namech s = true.
Proof.
  rewrite unique_ok. unfold spec_unique. intros H. apply andb_prop in H. destruct H as [H _].
  apply Bool.orb_true_iff in H. destruct H as [H|H].
  - apply lbeq_eq in H. subst s. reflexivity.
  - destruct s as [|c r]; [discriminate|]. apply andb_prop in H. destruct H as [Hc H].
    apply Byte.byte_dec_bl in Hc. subst c. cbn [forallb]. change (namech ":") with true. cbn [andb].
    apply andb_prop in H. destruct H as [_ H]. apply (split_chars namech dot); [reflexivity|].
    revert H. apply forallb_imp. apply elem_uq_ch.
Qed.
Lemma bus_chars s : validate_bus s = true -> forallb namech s = true.
Proof.
  unfold validate_bus. intros H. apply Bool.orb_true_iff in H. destruct H; [apply unique_chars|apply wk_chars]; assumption.
Qed.
Lemma path_chars s : validate_object_path s = true -> forallb namech s = true.
Proof.
  rewrite object_path_ok. unfold spec_object_path. destruct s as [|c r]; [discriminate|]. intros H.
  apply andb_prop in H. destruct H as [Hc H]. apply Byte.byte_dec_bl in Hc. subst c.
  cbn [forallb]. change (namech slash) with true. cbn [andb].
  destruct r as [|c2 r2]; [reflexivity|]. apply (split_chars namech slash); [reflexivity|].
  revert H. apply forallb_imp. apply elem_path_ch.
Qed.

Lemma namech_str s : forallb namech s = true -> has_nul s = false /\ utf8_valid s = true.
Proof.
  intros H. assert (forallb ascii_nz s = true) by (revert H; apply forallb_imp; apply namech_ascii).
  split; [apply ascii_no_nul|apply ascii_utf8]; assumption.
Qed.
