(* C11/AtPos.v — "the buffer holds the bytes x at absolute offset pos", and the deserializer primitives evaluated there. *)
From ZV Require Import Base.Bytes Base.Res Base.Sig C11.Model C11.Lemmas.
From Coq Require Import Lia ZifyBool ZifyN ZifyNat.
Open Scope N_scope.

Definition at_pos (b : bytes) (pos : N) (x : bytes) : Prop :=
  pos <= len b /\ exists rest, dropN pos b = x ++ rest.

Lemma at_pos_intro pre x post : at_pos (pre ++ x ++ post) (len pre) x.
Proof. split; [rewrite len_app; lia|]. exists post. apply dropN_app. Qed.

Lemma at_pos_len b pos x : at_pos b pos x -> pos + len x <= len b.
Proof.
  intros (Hle & rest & H). apply (f_equal len) in H. rewrite len_dropN, len_app in H. lia.
Qed.

Lemma at_pos_app b pos x y : at_pos b pos (x ++ y) -> at_pos b pos x /\ at_pos b (pos + len x) y.
Proof.
  intros Hxy. pose proof (at_pos_len _ _ _ Hxy) as Hl. rewrite len_app in Hl.
  destruct Hxy as (Hle & rest & H). split.
  - split; [exact Hle|]. exists (y ++ rest). rewrite H. apply app_assoc_reverse.
  - split; [lia|]. exists rest. rewrite <- dropN_dropN. rewrite H. rewrite <- app_assoc. apply dropN_app.
Qed.

Lemma at_pos_take b pos x : at_pos b pos x -> takeN (len x) (dropN pos b) = x.
Proof. intros (_ & rest & H). rewrite H. apply takeN_app. Qed.

Lemma at_pos_nth b pos c r : at_pos b pos (c :: r) -> nth_error b (N.to_nat pos) = Some c.
Proof.
  intros (Hle & rest & H). unfold dropN in H.
  rewrite <- (firstn_skipn (N.to_nat pos) b). rewrite H.
  rewrite nth_error_app2 by (rewrite firstn_length; lia).
  rewrite firstn_length. unfold len in Hle.
  replace (N.to_nat pos - Nat.min (N.to_nat pos) (length b))%nat with 0%nat by lia. reflexivity.
Qed.

Lemma next_slice_at' b pos s : at_pos b pos s -> next_slice b pos (len s) = Ok (s, pos + len s).
Proof.
  intros H. pose proof (at_pos_len _ _ _ H). unfold next_slice.
  destruct (len b <? pos + len s) eqn:E; [lia|]. rewrite (at_pos_take _ _ _ H). reflexivity.
Qed.

Lemma parse_padding_at' b pos a : at_pos b pos (zeros (padding pos a)) -> parse_padding b pos a = Ok (pos + padding pos a).
Proof.
  intros H. pose proof (at_pos_len _ _ _ H) as Hl. rewrite len_zeros in Hl. unfold parse_padding.
  destruct (padding pos a =? 0) eqn:E; [f_equal; lia|].
  destruct (len b <? pos + padding pos a) eqn:E2; [lia|].
  pose proof (at_pos_take _ _ _ H) as Ht. rewrite len_zeros in Ht. rewrite Ht, all_zero_zeros. reflexivity.
Qed.

Lemma de_u8_at' b pos c : at_pos b pos [c] -> de_u8 b pos = Ok (bn c, pos + 1).
Proof.
  intros H. unfold de_u8. pose proof (next_slice_at' b pos [c] H) as Hs. change (len [c]) with 1 in Hs. rewrite Hs. reflexivity.
Qed.

Lemma de_u32_at' e b pos n : at_pos b pos (u32_bytes e n) -> pos mod 4 = 0 -> n < two32 -> de_u32 e b pos = Ok (n, pos + 4).
Proof.
  intros H Hal Hn. unfold de_u32. rewrite parse_padding_aligned by (auto; lia). cbn [bind].
  pose proof (next_slice_at' b pos _ H) as Hs. rewrite len_u32 in Hs. rewrite Hs. cbn [bind].
  rewrite rd_u32_bytes by auto. reflexivity.
Qed.

Lemma all_zero_nul : all_zero [x00] = true. Proof. reflexivity. Qed.

(* a NUL-terminated string with a 4-byte length *)
Lemma de_str_wide_at e b pos s :
  at_pos b pos (u32_bytes e (len s) ++ s ++ [x00]) -> pos mod 4 = 0 -> len s < two32 ->
  has_nul s = false -> utf8_valid s = true ->
  de_str true e b pos = Ok (s, pos + 4, pos + 4 + len s + 1).
Proof.
  intros H Hal Hn Hz Hu. apply at_pos_app in H. destruct H as [H1 H2]. rewrite len_u32 in H2.
  apply at_pos_app in H2. destruct H2 as [H2 H3].
  unfold de_str. rewrite (de_u32_at' e b pos (len s) H1 Hal Hn). cbn [bind].
  rewrite (next_slice_at' b (pos + 4) s H2). cbn [bind]. rewrite Hz.
  pose proof (next_slice_at' b (pos + 4 + len s) [x00] H3) as H4. change (len [x00]) with 1 in H4. rewrite H4. cbn [bind].
  rewrite all_zero_nul. cbn [negb]. rewrite Hu. reflexivity.
Qed.

(* a NUL-terminated string with a 1-byte length *)
Lemma de_str_narrow_at e b pos s :
  at_pos b pos ([nb (len s)] ++ s ++ [x00]) -> len s < 256 ->
  has_nul s = false -> utf8_valid s = true ->
  de_str false e b pos = Ok (s, pos + 1, pos + 1 + len s + 1).
Proof.
  intros H Hn Hz Hu. apply at_pos_app in H. destruct H as [H1 H2]. change (len [nb (len s)]) with 1 in H2.
  apply at_pos_app in H2. destruct H2 as [H2 H3].
  unfold de_str. rewrite (de_u8_at' b pos _ H1). cbn [bind]. rewrite bn_nb_small by exact Hn.
  rewrite (next_slice_at' b (pos + 1) s H2). cbn [bind]. rewrite Hz.
  pose proof (next_slice_at' b (pos + 1 + len s) [x00] H3) as H4. change (len [x00]) with 1 in H4. rewrite H4. cbn [bind].
  rewrite all_zero_nul. cbn [negb]. rewrite Hu. reflexivity.
Qed.
