(* C11/Model.v — executable mirror of zbus' message building and parsing (no proofs in this file).

   Rust sources mirrored (zbus/src/message/*.rs, zvariant/src/dbus/{ser,de}.rs, zvariant/src/de.rs,
   zvariant/src/serialized/data.rs, zvariant/src/value.rs):
     Builder::build_generic, Fields::serialize, SignatureSerializer            -> [build_bytes], [ser_fields]
     Message::from_raw_parts, PrimaryHeader::read_from_data                    -> [from_raw_parts], [de_primary]
     Fields::deserialize / FieldsVisitor::visit_seq over dbus::Deserializer    -> [de_fields], [de_field], [de_variant]
     FieldPos::{build,new,read}, QuickFields::new                              -> [fp_build], [fp_new], [fp_read], [quick_fields]
     Message::{header,body}, Display, Debug                                    -> [header], [body], [display], [debug_ok]
     Data::slice (asserting)                                                   -> [data_slice]

   Conventions.  The D-Bus deserializer works on sub-slices (`bytes.slice(12..)`, `subslice(bytes, value_start..)`) that
   all extend to the END of the message, and computes alignment from `ctxt.position() + pos`; the model therefore uses
   one ABSOLUTE position into the whole message: every bounds check `pos + n > bytes.len()` and every alignment is the
   same number in both.  A Rust panic is the value [Panic].  Header-field values of any type are decoded ([de_value]:
   extent and success of zvariant's dynamically typed decoder); values other than `s o g u` are then skipped (unknown
   field code) or refused by the `TryFrom<Value>` conversion of FieldsVisitor (known code). *)
From ZV Require Import Base.Bytes Base.Res Base.Sig C10.Model.
Open Scope N_scope.

Inductive endian := LE | BE.
Definition endian_eqb (a b : endian) : bool := match a, b with LE, LE | BE, BE => true | _, _ => false end.
Definition endian_byte (e : endian) : byte := match e with LE => "l"%byte | BE => "B"%byte end.
(* EndianSig::try_from(u8) *)
Definition endian_of_byte (c : byte) : option endian :=
  if beq c "l"%byte then Some LE else if beq c "B"%byte then Some BE else None.

(* zbus::Error / zvariant::Error collapsed to the classes the harness can tell apart (messages are never compared) *)
Inductive err := EIncorrectEndian | EData | EExcessData | EInvalidField | EFuel.
Definition R := res err.

(* ---------- integers ---------- *)
Definition u32_bytes (e : endian) (n : N) : bytes :=
  let l := [nb n; nb (n / 256); nb (n / 65536); nb (n / 16777216)] in
  match e with LE => l | BE => rev l end.
Definition rd_u32 (e : endian) (l : bytes) : N :=
  match (match e with LE => l | BE => rev l end) with
  | [a; b; c; d] => bn a + 256 * bn b + 65536 * bn c + 16777216 * bn d
  | _ => 0
  end.
Definition two32 : N := 4294967296.

(* utils::padding_for_n_bytes *)
Definition padding (pos align : N) : N := (align - pos mod align) mod align.
Definition zeros (n : N) : bytes := repeat x00 (N.to_nat n).

(* ---------- UTF-8 well-formedness (core::str::from_utf8: RFC 3629 table, no surrogates, no overlongs) ---------- *)
Definition cont (c : byte) : bool := in_range 128 191 c.
Fixpoint utf8_valid (l : bytes) : bool :=
  match l with
  | [] => true
  | a :: r =>
      let x := bn a in
      if x <? 128 then utf8_valid r
      else if (194 <=? x) && (x <=? 223) then
        match r with b :: r' => cont b && utf8_valid r' | _ => false end
      else if (224 <=? x) && (x <=? 239) then
        match r with
        | b :: c :: r' =>
            (if x =? 224 then in_range 160 191 b else if x =? 237 then in_range 128 159 b else cont b)
            && cont c && utf8_valid r'
        | _ => false
        end
      else if (240 <=? x) && (x <=? 244) then
        match r with
        | b :: c :: d :: r' =>
            (if x =? 240 then in_range 144 191 b else if x =? 244 then in_range 128 143 b else cont b)
            && cont c && cont d && utf8_valid r'
        | _ => false
        end
      else false
  end.

(* ---------- signatures: the D-Bus grammar of zvariant_utils::signature::parse (any number of complete types;
   one type alone is returned as such, several become a structure, none is Unit).  Written as a deterministic
   stack machine (the grammar is LL(1): `a{` opens a dict entry, `a` otherwise an array); the combinator code
   itself is C06's subject, here only its language and result matter. ---------- *)
Definition simple_sig (c : byte) : option sig :=
  if beq c "y" then Some SU8 else if beq c "b" then Some SBool else if beq c "n" then Some SI16
  else if beq c "q" then Some SU16 else if beq c "i" then Some SI32 else if beq c "u" then Some SU32
  else if beq c "x" then Some SI64 else if beq c "t" then Some SU64 else if beq c "d" then Some SF64
  else if beq c "s" then Some SStr else if beq c "g" then Some SSig else if beq c "o" then Some SObjPath
  else if beq c "v" then Some SVariant else if beq c "h" then Some SFd else None.

Inductive frame := FArr | FStruct (acc : list sig) | FDictK | FDictV (k : sig) | FDictEnd (k v : sig).

(* a complete type [s] has just been read *)
Fixpoint complete (s : sig) (st : list frame) (top : list sig) : option (list frame * list sig) :=
  match st with
  | [] => Some ([], s :: top)
  | FArr :: st' => complete (SArray s) st' top
  | FStruct acc :: st' => Some (FStruct (s :: acc) :: st', top)
  | FDictK :: st' => Some (FDictV s :: st', top)
  | FDictV k :: st' => Some (FDictEnd k s :: st', top)
  | FDictEnd _ _ :: _ => None
  end.

Fixpoint sig_run (l : bytes) (st : list frame) (top : list sig) : option (list sig) :=
  match l with
  | [] => match st with [] => Some (rev top) | _ => None end
  | c :: r =>
      match simple_sig c with
      | Some s => match complete s st top with Some (st', top') => sig_run r st' top' | None => None end
      | None =>
          if beq c "a" then
            match r with
            | c2 :: r' => if beq c2 "{" then sig_run r' (FDictK :: st) top else sig_run r (FArr :: st) top
            | [] => None
            end
          else if beq c "(" then sig_run r (FStruct [] :: st) top
          else if beq c ")" then
            match st with
            | FStruct (x :: acc) :: st' =>
                match complete (SStruct (rev (x :: acc))) st' top with
                | Some (st2, top2) => sig_run r st2 top2
                | None => None
                end
            | _ => None
            end
          else if beq c "}" then
            match st with
            | FDictEnd k v :: st' =>
                match complete (SDict k v) st' top with Some (st2, top2) => sig_run r st2 top2 | None => None end
            | _ => None
            end
          else None
      end
  end.

Definition parse_sig (l : bytes) : option sig :=
  match sig_run l [] [] with
  | Some [] => Some SUnit
  | Some [s] => Some s
  | Some ss => Some (SStruct ss)
  | None => None
  end.

(* Signature::to_string_no_parens *)
Definition show_np (s : sig) : bytes :=
  match s with SStruct fs => concat (map show fs) | _ => show s end.

(* ---------- deserializer primitives (zvariant/src/de.rs DeserializerCommon), absolute positions ---------- *)
Definition all_zero (l : bytes) : bool := forallb (fun c => bn c =? 0) l.
Definition has_nul (l : bytes) : bool := existsb (fun c => bn c =? 0) l.

Definition parse_padding (b : bytes) (pos align : N) : R N :=
  let p := padding pos align in
  if p =? 0 then Ok pos
  else if len b <? pos + p then Err EData
  else if all_zero (takeN p (dropN pos b)) then Ok (pos + p) else Err EData.

Definition next_slice (b : bytes) (pos n : N) : R (bytes * N) :=
  if len b <? pos + n then Err EData else Ok (takeN n (dropN pos b), pos + n).

(* next_const_size_slice::<u32> *)
Definition de_u32 (e : endian) (b : bytes) (pos : N) : R (N * N) :=
  let* p := parse_padding b pos 4 in
  let* (l4, p') := next_slice b p 4 in
  Ok (rd_u32 e l4, p').

Definition de_u8 (b : bytes) (pos : N) : R (N * N) :=
  let* (l1, p') := next_slice b pos 1 in
  Ok (match l1 with c :: _ => bn c | [] => 0 end, p').

(* dbus::Deserializer::deserialize_str.  [wide] = 4-byte length (`s`, `o`), else 1-byte length (`g`, the signature of a variant).
   The trailing NUL must be present and zero (next_slice(1)?[0] != 0 => error; fix e43e6421).
   Result: the string, the absolute offset of its first byte, the position after the terminator. *)
Definition de_str (wide : bool) (e : endian) (b : bytes) (pos : N) : R (bytes * N * N) :=
  let* (n, p) := (if wide then de_u32 e b pos else de_u8 b pos) in
  let* (s, p') := next_slice b p n in
  if has_nul s then Err EData
  else
    let* (z, p2) := next_slice b p' 1 in
    if negb (all_zero z) then Err EData
    else if utf8_valid s then Ok (s, p, p2) else Err EData.

(* ---------- header field values ---------- *)
Inductive fval :=
| FStr (s : bytes) (start : N)       (* Value::Str, borrowed from the message at [start] *)
| FPath (s : bytes) (start : N)      (* Value::ObjectPath (validated by ObjectPath::try_from; fix c60ac51c) *)
| FSig (g : sig)                     (* Value::Signature *)
| FU32 (n : N)                       (* Value::U32 *)
| FOther.                            (* any other Value (only its extent matters: it is skipped or refused) *)

(* ---------- zvariant's general decoder of a dynamically typed value (ValueSeed over dbus::Deserializer), as far as its
   extent and success go.  Needed since fix 9e1c6e56: a header field with an unknown code is decoded as (u8, Value) and then
   skipped, so its value may have any type. ---------- *)
Record depths := { d_struct : N; d_array : N; d_variant : N }.
(* ContainerDepths::check: 32 structures, 32 arrays, 64 in total *)
Definition depth_check (d : depths) : R depths :=
  if 32 <? d_struct d then Err EData
  else if 32 <? d_array d then Err EData
  else if 64 <? d_struct d + d_array d + d_variant d then Err EData
  else Ok d.
Definition inc_struct (d : depths) : R depths :=
  depth_check {| d_struct := d_struct d + 1; d_array := d_array d; d_variant := d_variant d |}.
Definition inc_array (d : depths) : R depths :=
  depth_check {| d_struct := d_struct d; d_array := d_array d + 1; d_variant := d_variant d |}.
Definition inc_variant (d : depths) : R depths :=
  depth_check {| d_struct := d_struct d; d_array := d_array d; d_variant := d_variant d + 1 |}.

(* next_const_size_slice::<T> for a fixed-size basic type: size = alignment *)
Definition de_fixed (b : bytes) (pos a : N) : R N :=
  let* p := parse_padding b pos a in
  let* (_, p') := next_slice b p a in
  Ok p'.

(* ValueDeserializer, both stages up to the start of the value: the signature (a `g` string, one complete type),
   read a second time from the buffer in stage Value (bytes[sig_start] can panic in principle) *)
Definition variant_sig (e : endian) (b : bytes) (pos : N) : R (sig * N) :=
  let* (sg, _, p1) := de_str false e b pos in
  match parse_sig sg with
  | None => Err EData
  | Some _ =>
      match nth_error b (N.to_nat pos) with
      | None => Panic PIndex
      | Some lb =>
          let sig_len := bn lb in
          let sig_end := pos + 1 + sig_len in
          let value_start := sig_end + 1 in
          if len b <? sig_end then Err EData
          else
            match parse_sig (takeN sig_len (dropN (pos + 1) b)) with
            | None => Err EData
            | Some vs =>
                if (match vs with SUnit => true | _ => false end) || negb (len (show vs) =? sig_len) then Err EData
                else if len b <? value_start then Err EData
                else Ok (vs, value_start)
            end
      end
  end.

(* loops of the container decoders, parametrised by the decoder of an element *)
Fixpoint arr_loop (elem : N -> R N) (b : bytes) (al endp : N) (k : nat) (q : N) {struct k} : R N :=
  if q =? endp then Ok q                                   (* ArrayDeserializer::done *)
  else match k with
       | O => Err EFuel
       | S k' =>
           let* q1 := parse_padding b q al in              (* next_element: padding of the element *)
           let* q2 := elem q1 in
           if endp <? q2 then Err EData                    (* next: pos > start + len *)
           else arr_loop elem b al endp k' q2
       end.
Fixpoint dict_loop (kd vd : N -> R N) (b : bytes) (endp : N) (k : nat) (q : N) {struct k} : R N :=
  if q =? endp then Ok q
  else match k with
       | O => Err EFuel
       | S k' =>
           let* q1 := parse_padding b q 8 in               (* dict entries are 8-aligned *)
           let* q2 := kd q1 in
           if endp <? q2 then Err EData
           else
             let* q3 := vd q2 in
             if endp <? q3 then Err EData else dict_loop kd vd b endp k' q3
       end.
Section StructGo.   (* the field decoder is a parameter outside the fixpoint (as in List.map), so that nested recursion is accepted *)
  Variable fld : sig -> N -> R N.
  Fixpoint struct_go (l : list sig) (q : N) {struct l} : R N :=
    match l with
    | [] => Ok q
    | f :: r => let* q' := fld f q in struct_go r q'
    end.
End StructGo.

(* [vf] bounds the nesting of variants (each level increments the variant depth, limited to 64 in total: Proofs show the
   bound is never reached); arrays iterate at most once per byte (every element has at least one byte).
   File descriptors: Message::from_bytes is given a Data without descriptors, every index is unknown (Error::UnknownFd). *)
Fixpoint de_value (vf : nat) : sig -> depths -> endian -> bytes -> N -> R N :=
  fix on_sig (s : sig) (d : depths) (e : endian) (b : bytes) (pos : N) {struct s} : R N :=
    match s with
    | SUnit | SMaybe _ => Err EData
    | SU8 => let* (_, p) := next_slice b pos 1 in Ok p
    | SBool => let* (n, p) := de_u32 e b pos in if n <=? 1 then Ok p else Err EData
    | SI16 | SU16 => de_fixed b pos 2
    | SI32 | SU32 => de_fixed b pos 4
    | SI64 | SU64 | SF64 => de_fixed b pos 8
    | SStr => let* (_, _, p) := de_str true e b pos in Ok p
    | SObjPath => let* (s', _, p) := de_str true e b pos in if validate_object_path s' then Ok p else Err EData
    | SSig => let* (s', _, p) := de_str false e b pos in match parse_sig s' with Some _ => Ok p | None => Err EData end
    | SFd => let* (_, _) := de_u32 e b pos in Err EData
    | SArray c =>
        (* deserialize_seq + ArrayDeserializer::new: padding, depth, byte length, padding of the first element (even if none) *)
        let* p0 := parse_padding b pos 4 in
        let* d' := inc_array d in
        let* (n, p1) := de_u32 e b p0 in
        let* start := parse_padding b p1 (align_dbus c) in
        arr_loop (on_sig c d' e b) b (align_dbus c) (start + n) (S (length b)) start
    | SDict kt vt =>
        let* p0 := parse_padding b pos 4 in
        let* d' := inc_array d in
        let* (n, p1) := de_u32 e b p0 in
        let* start := parse_padding b p1 8 in
        dict_loop (on_sig kt d' e b) (on_sig vt d' e b) b (start + n) (S (length b)) start
    | SStruct fs =>
        let* p0 := parse_padding b pos 8 in
        let* d' := inc_struct d in
        struct_go (fun f q => on_sig f d' e b q) fs p0
    | SVariant =>
        let* (vs, vstart) := variant_sig e b pos in
        let* d' := inc_variant d in
        match vf with
        | O => Err EFuel
        | S vf' => de_value vf' vs d' e b vstart
        end
    end.

(* the value of a header field sits in an array (a(yv)), a structure and a variant: depths 1, 1, 1 — always within the limits *)
Definition field_value_depths : depths := {| d_struct := 1; d_array := 1; d_variant := 1 |}.

(* Value::deserialize inside a (yv) struct: ValueDeserializer stages Signature and Value *)
Definition de_variant (e : endian) (b : bytes) (pos : N) : R (fval * N) :=
  let sig_start := pos in
  (* stage Signature: <&str>::deserialize with signature `g`, then Signature::from_str *)
  let* (sg, _, p1) := de_str false e b pos in
  match parse_sig sg with
  | None => Err EData
  | Some _ =>
      (* stage Value: the signature is read again from the buffer *)
      match nth_error b (N.to_nat sig_start) with
      | None => Panic PIndex                                  (* self.de.0.bytes[self.sig_start] *)
      | Some lb =>
          let sig_len := bn lb in
          let sig_end := sig_start + 1 + sig_len in
          let value_start := sig_end + 1 in
          if len b <? sig_end then Err EData                  (* subslice(bytes, sig_start..sig_end) *)
          else
            match parse_sig (takeN sig_len (dropN (sig_start + 1) b)) with
            | None => Err EData
            | Some vs =>
                (* exactly one complete type (fix 73d38c84): not Unit, and its string form has the length on the wire *)
                if (match vs with SUnit => true | _ => false end) || negb (len (show vs) =? sig_len) then Err EData
                else if len b <? value_start then Err EData   (* subslice(bytes, value_start..) *)
                else
                  match vs with
                  | SStr => let* (s, st, p2) := de_str true e b value_start in Ok (FStr s st, p2)
                  | SObjPath =>
                      let* (s, st, p2) := de_str true e b value_start in
                      if validate_object_path s then Ok (FPath s st, p2) else Err EData
                  | SSig =>
                      let* (s, _, p2) := de_str false e b value_start in
                      match parse_sig s with Some g => Ok (FSig g, p2) | None => Err EData end
                  | SU32 => let* (n, p2) := de_u32 e b value_start in Ok (FU32 n, p2)
                  | _ => let* p2 := de_value 64 vs field_value_depths e b value_start in Ok (FOther, p2)   (* any other Value *)
                  end
            end
      end
  end.

(* one element `(yv)` of the fields array, read as (u8, Value) (fix 9e1c6e56): next_element pads to 8 (as do
   deserialize_seq and StructureDeserializer::new: three identical calls in a row, idempotent) *)
Definition de_field (e : endian) (b : bytes) (pos : N) : R (N * fval * N) :=
  let* p := parse_padding b pos 8 in
  let* (code, p1) := de_u8 b p in
  let* (v, p2) := de_variant e b p1 in
  Ok (code, v, p2).

(* message::Fields: string-like fields keep the offset of their bytes for QuickFields *)
Record fields := {
  f_path : option (bytes * N); f_iface : option (bytes * N); f_member : option (bytes * N);
  f_errname : option (bytes * N); f_reply : option N; f_dest : option (bytes * N);
  f_sender : option (bytes * N); f_sig : sig; f_fds : option N }.
Definition fields_empty : fields :=
  {| f_path := None; f_iface := None; f_member := None; f_errname := None; f_reply := None; f_dest := None;
     f_sender := None; f_sig := SUnit; f_fds := None |}.

(* FieldsVisitor::visit_seq: `match code { ... X::try_from(value) ... }`.  InterfaceName, MemberName, ErrorName and
   UniqueName convert through zvariant::Str, whose TryFrom validates (fix b3fdf920); ObjectPath was validated by the
   Value decoder; BusName validates. *)
Definition set_field (fs : fields) (code : N) (v : fval) : R fields :=
  match code, v with
  | 1, FPath s st => Ok {| f_path := Some (s, st); f_iface := f_iface fs; f_member := f_member fs; f_errname := f_errname fs; f_reply := f_reply fs; f_dest := f_dest fs; f_sender := f_sender fs; f_sig := f_sig fs; f_fds := f_fds fs |}
  | 2, FStr s st => if negb (validate_interface s) then Err EData else Ok {| f_path := f_path fs; f_iface := Some (s, st); f_member := f_member fs; f_errname := f_errname fs; f_reply := f_reply fs; f_dest := f_dest fs; f_sender := f_sender fs; f_sig := f_sig fs; f_fds := f_fds fs |}
  | 3, FStr s st => if negb (validate_member s) then Err EData else Ok {| f_path := f_path fs; f_iface := f_iface fs; f_member := Some (s, st); f_errname := f_errname fs; f_reply := f_reply fs; f_dest := f_dest fs; f_sender := f_sender fs; f_sig := f_sig fs; f_fds := f_fds fs |}
  | 4, FStr s st => if negb (validate_error s) then Err EData else Ok {| f_path := f_path fs; f_iface := f_iface fs; f_member := f_member fs; f_errname := Some (s, st); f_reply := f_reply fs; f_dest := f_dest fs; f_sender := f_sender fs; f_sig := f_sig fs; f_fds := f_fds fs |}
  | 5, FU32 n => if n =? 0 then Err EData
                 else Ok {| f_path := f_path fs; f_iface := f_iface fs; f_member := f_member fs; f_errname := f_errname fs; f_reply := Some n; f_dest := f_dest fs; f_sender := f_sender fs; f_sig := f_sig fs; f_fds := f_fds fs |}
  | 6, FStr s st => if validate_bus s
                    then Ok {| f_path := f_path fs; f_iface := f_iface fs; f_member := f_member fs; f_errname := f_errname fs; f_reply := f_reply fs; f_dest := Some (s, st); f_sender := f_sender fs; f_sig := f_sig fs; f_fds := f_fds fs |}
                    else Err EData
  | 7, FStr s st => if negb (validate_unique s) then Err EData else Ok {| f_path := f_path fs; f_iface := f_iface fs; f_member := f_member fs; f_errname := f_errname fs; f_reply := f_reply fs; f_dest := f_dest fs; f_sender := Some (s, st); f_sig := f_sig fs; f_fds := f_fds fs |}
  | 8, FSig g => Ok {| f_path := f_path fs; f_iface := f_iface fs; f_member := f_member fs; f_errname := f_errname fs; f_reply := f_reply fs; f_dest := f_dest fs; f_sender := f_sender fs; f_sig := g; f_fds := f_fds fs |}
  | 9, FU32 n => Ok {| f_path := f_path fs; f_iface := f_iface fs; f_member := f_member fs; f_errname := f_errname fs; f_reply := f_reply fs; f_dest := f_dest fs; f_sender := f_sender fs; f_sig := f_sig fs; f_fds := Some n |}
  | _, _ => Err EData
  end.

(* ArrayDeserializer::next_element / next over FieldsVisitor's `while let Some(..)`; [endp] = start + len.
   Every iteration reads at least the code byte, so [S (length b)] iterations always suffice (Proofs: never [EFuel]). *)
Fixpoint de_fields_loop (fuel : nat) (e : endian) (b : bytes) (endp pos : N) (fs : fields) : R (fields * N) :=
  if pos =? endp then Ok (fs, pos)
  else
    match fuel with
    | O => Err EFuel
    | S f =>
        let* (code, v, p') := de_field e b pos in
        if endp <? p' then Err EData            (* pos > start + len: invalid_length *)
        else if code =? 0 then Err EData        (* "invalid header field code 0" *)
        else if 9 <? code then de_fields_loop f e b endp p' fs     (* unknown header field: ignored *)
        else
          let* fs' := set_field fs code v in
          de_fields_loop f e b endp p' fs'
    end.

(* `a(yv)` at absolute offset 12: ArrayDeserializer::new, then the loop *)
Definition de_fields (e : endian) (b : bytes) : R (fields * N) :=
  let* (n, p) := de_u32 e b 12 in
  let* start := parse_padding b p 8 in
  de_fields_loop (S (length b)) e b (start + n) start fields_empty.

(* ---------- primary header `(yyyyuu)` ---------- *)
Record phdr := { ph_endian : endian; ph_type : N; ph_flags : N; ph_version : N; ph_body_len : N; ph_serial : N }.

Definition de_primary (e : endian) (b : bytes) : R (phdr * N) :=
  let* p0 := parse_padding b 0 8 in
  let* (c0, p1) := de_u8 b p0 in
  match endian_of_byte (nb c0) with            (* EndianSig: Deserialize_repr *)
  | None => Err EData
  | Some es =>
      let* (ty, p2) := de_u8 b p1 in
      if negb ((1 <=? ty) && (ty <=? 4)) then Err EData             (* Type: Deserialize_repr *)
      else
        let* (fl, p3) := de_u8 b p2 in                               (* BitFlags::from_bits_truncate (fix 0d33c3d1): known bits kept *)
        let* (ver, p4) := de_u8 b p3 in
        let* (bl, p5) := de_u32 e b p4 in
        let* (sn, p6) := de_u32 e b p5 in
        if sn =? 0 then Err EData                                    (* NonZeroU32 *)
        else Ok ({| ph_endian := es; ph_type := ty; ph_flags := fl mod 8; ph_version := ver; ph_body_len := bl; ph_serial := sn |}, p6)
  end.

(* ---------- FieldPos / QuickFields ---------- *)
Definition fieldpos := (N * N)%type.
Definition fp_not_present : fieldpos := (1, 0).
(* FieldPos::build: offsets come from pointer subtraction; u32 conversion failure => not present *)
Definition fp_build (b : bytes) (start flen : N) : fieldpos :=
  if (start <=? len b) && (start + flen <=? len b) && (start <? two32) && (start + flen <? two32)
  then (start, start + flen) else fp_not_present.
Definition fp_new (b : bytes) (o : option (bytes * N)) : fieldpos :=
  match o with Some (s, st) => fp_build b st (len s) | None => fp_not_present end.

Record quickf := {
  q_path : fieldpos; q_iface : fieldpos; q_member : fieldpos; q_errname : fieldpos; q_reply : option N;
  q_dest : fieldpos; q_sender : fieldpos; q_sig : sig; q_fds : option N }.
Definition quick_fields (b : bytes) (fs : fields) : quickf :=
  {| q_path := fp_new b (f_path fs); q_iface := fp_new b (f_iface fs); q_member := fp_new b (f_member fs);
     q_errname := fp_new b (f_errname fs); q_reply := f_reply fs; q_dest := fp_new b (f_dest fs);
     q_sender := fp_new b (f_sender fs); q_sig := f_sig fs; q_fds := f_fds fs |}.

(* FieldPos::read: slice, from_utf8(..).expect, T::try_from(s).expect *)
Definition fp_read (validate : bytes -> bool) (b : bytes) (fp : fieldpos) : R (option bytes) :=
  let (s, e) := fp in
  if (s <=? 1) && (e =? 0) then Ok None
  else if (e <? s) || (len b <? e) then Panic PSlice
  else
    let sl := takeN (e - s) (dropN s b) in
    if negb (utf8_valid sl) then Panic PUnwrap
    else if validate sl then Ok (Some sl) else Panic PUnwrap.

(* ---------- Message ---------- *)
Record msg := { m_ph : phdr; m_qf : quickf; m_bytes : bytes; m_body_offset : N }.

(* serialized::Data::slice(start..): assert!(start <= end) with end = len *)
Definition data_slice (b : bytes) (start : N) : R bytes :=
  if len b <? start then Panic PAssert else Ok (dropN start b).

Definition from_raw_parts (ctx : endian) (b : bytes) : R msg :=
  match b with
  | [] => Err EData                                                (* bytes.first().ok_or(OutOfBounds) (fix e5b4d5a2) *)
  | b0 :: _ =>
      match endian_of_byte b0 with
      | None => Err EIncorrectEndian
      | Some e =>
          if negb (endian_eqb e ctx) then Err EIncorrectEndian
          else
            (* PrimaryHeader::read_from_data *)
            let* (ph, size) := de_primary ctx b in
            if negb (size =? 12) then Panic PAssert                 (* assert_eq!(size, PRIMARY_HEADER_SIZE) *)
            else
              let* _ := data_slice b 12 in
              let* (fields_len, _) := de_u32 ctx b 12 in
              (* fields *)
              let* _ := data_slice b 12 in
              let* (fs, _) := de_fields ctx b in
              let header_len := 16 + fields_len in
              let body_offset := header_len + padding header_len 8 in
              if len b <? body_offset then Err EData                 (* body_offset > bytes.len() (fix e5b4d5a2) *)
              else Ok {| m_ph := ph; m_qf := quick_fields b fs; m_bytes := b; m_body_offset := body_offset |}
      end
  end.

Record hview := {
  hv_ph : phdr; hv_path : option bytes; hv_iface : option bytes; hv_member : option bytes; hv_errname : option bytes;
  hv_reply : option N; hv_dest : option bytes; hv_sender : option bytes; hv_sig : sig; hv_fds : option N }.

(* Message::header *)
Definition header (m : msg) : R hview :=
  let b := m_bytes m in let q := m_qf m in
  let* p := fp_read validate_object_path b (q_path q) in
  let* i := fp_read validate_interface b (q_iface q) in
  let* mb := fp_read validate_member b (q_member q) in
  let* en := fp_read validate_error b (q_errname q) in
  let* d := fp_read validate_bus b (q_dest q) in
  let* s := fp_read validate_unique b (q_sender q) in
  Ok {| hv_ph := m_ph m; hv_path := p; hv_iface := i; hv_member := mb; hv_errname := en; hv_reply := q_reply q;
        hv_dest := d; hv_sender := s; hv_sig := q_sig q; hv_fds := q_fds q |}.

(* Message::body: self.inner.bytes.slice(self.inner.body_offset..) *)
Definition body (m : msg) : R bytes := data_slice (m_bytes m) (m_body_offset m).

(* Display *)
Definition opt_sp (pre : bytes) (o : option bytes) : bytes := match o with Some s => pre ++ s | None => [] end.
Definition display (m : msg) : R bytes :=
  let* h := header m in
  let ty := ph_type (m_ph m) in
  let* first :=
    (if ty =? 1 then Ok (B "Method call" ++ opt_sp (B " ") (hv_member h))
     else if ty =? 2 then Ok (B "Method return")
     else if ty =? 3 then
       let* _ := body m in
       (* body.deserialize_unchecked::<&str>() *)
       let txt := match de_str true (ph_endian (m_ph m)) (m_bytes m) (m_body_offset m) with
                  | Ok (s, _, _) => B ": " ++ s | _ => [] end in
       Ok (B "Error" ++ opt_sp (B " ") (hv_errname h) ++ txt)
     else Ok (B "Signal" ++ opt_sp (B " ") (hv_member h))) in
  Ok (first ++ opt_sp (B " from ") (hv_sender h)).

(* Debug: header(), body().signature(), data().fds() *)
Definition debug_ok (m : msg) : R unit :=
  let* _ := header m in let* _ := body m in Ok tt.

(* body().deserialize::<Structure>() and friends: slicing first, then zvariant's general decoder (assumed to return) *)
Definition body_deser (m : msg) : R unit := let* _ := body m in Ok tt.

(* ---------- building ---------- *)
Record hdr := {
  h_endian : endian; h_type : N; h_flags : N; h_serial : N;
  h_path : option bytes; h_iface : option bytes; h_member : option bytes; h_errname : option bytes;
  h_reply : option N; h_dest : option bytes; h_sender : option bytes }.

Inductive wval := WStr (s : bytes) | WPath (s : bytes) | WSig (s : bytes) | WU32 (n : N).

(* Fields::serialize: the order of the `if let Some(..)` blocks *)
Definition opt_field (code : N) (mk : bytes -> wval) (o : option bytes) : list (N * wval) :=
  match o with Some s => [(code, mk s)] | None => [] end.
Definition field_list (h : hdr) (bsig : sig) (nfds : N) : list (N * wval) :=
  opt_field 1 WPath (h_path h) ++ opt_field 2 WStr (h_iface h) ++ opt_field 3 WStr (h_member h)
  ++ opt_field 4 WStr (h_errname h)
  ++ (match h_reply h with Some n => [(5, WU32 n)] | None => [] end)
  ++ opt_field 6 WStr (h_dest h) ++ opt_field 7 WStr (h_sender h)
  ++ (match bsig with SUnit => [] | _ => [(8, WSig (show_np bsig))] end)
  ++ (if nfds =? 0 then [] else [(9, WU32 nfds)]).

(* dbus::Serializer: add_padding(alignment) is computed from the absolute number of bytes written *)
Definition w_pad (pos align : N) : bytes := zeros (padding pos align).

(* one `(yv)` element written at absolute position [pos]; usize_to_u32 / usize_to_u8 assert *)
Definition ser_field (e : endian) (pos : N) (f : N * wval) : R bytes :=
  let (code, v) := f in
  let p8 := w_pad pos 8 in
  let pos1 := pos + len p8 + 1 in                       (* after the code byte *)
  match v with
  | WStr s | WPath s =>
      let c := match v with WPath _ => "o"%byte | _ => "s"%byte end in
      let sg := [nb 1; c; x00] in
      let p4 := w_pad (pos1 + 3) 4 in
      if two32 <=? len s then Panic PAssert
      else Ok (p8 ++ [nb code] ++ sg ++ p4 ++ u32_bytes e (len s) ++ s ++ [x00])
  | WSig s =>
      if 256 <=? len s then Panic PAssert
      else Ok (p8 ++ [nb code] ++ [nb 1; "g"%byte; x00] ++ [nb (len s)] ++ s ++ [x00])
  | WU32 n =>
      let p4 := w_pad (pos1 + 3) 4 in
      Ok (p8 ++ [nb code] ++ [nb 1; "u"%byte; x00] ++ p4 ++ u32_bytes e n)
  end.

Fixpoint ser_fields (e : endian) (pos : N) (l : list (N * wval)) : R bytes :=
  match l with
  | [] => Ok []
  | f :: r =>
      let* a := ser_field e pos f in
      let* rest := ser_fields e (pos + len a) r in
      Ok (a ++ rest)
  end.

Definition max_message_size : N := 134217728.

(* to_writer(&header) with signature ((yyyyuu)a(yv)): the array length is back-patched (SeqSerializer::end_seq) *)
Definition ser_header (h : hdr) (body_len : N) (bsig : sig) (nfds : N) : R bytes :=
  let e := h_endian h in
  let* arr := ser_fields e 16 (field_list h bsig nfds) in
  if two32 <=? len arr then Panic PAssert
  else Ok ([endian_byte e; nb (h_type h); nb (h_flags h); nb 1] ++ u32_bytes e body_len ++ u32_bytes e (h_serial h)
           ++ u32_bytes e (len arr) ++ arr).

(* Builder::build_generic: bytes of the message and the body offset *)
Definition build_bytes (h : hdr) (bsig : sig) (body_bytes : bytes) (nfds : N) : R (bytes * N) :=
  if two32 <=? len body_bytes then Err EExcessData
  else
    let* hb := ser_header h (len body_bytes) bsig nfds in
    let hdr_len := len hb in
    let body_offset := hdr_len + padding hdr_len 8 in
    if max_message_size <? body_offset + len body_bytes then Err EExcessData
    else Ok (hb ++ zeros (padding hdr_len 8) ++ body_bytes, body_offset).

(* the built Message: primary header and body offset are kept from the builder; the quick fields are produced (lazily in
   Rust, here at once) by `bytes.deserialize::<Header>().unwrap()`, i.e. the same two decoders *)
Definition build (h : hdr) (bsig : sig) (body_bytes : bytes) (nfds : N) : R msg :=
  let* (b, off) := build_bytes h bsig body_bytes nfds in
  match (let* (_, _) := de_primary (h_endian h) b in de_fields (h_endian h) b) with
  | Ok (fs, _) =>
      Ok {| m_ph := {| ph_endian := h_endian h; ph_type := h_type h; ph_flags := h_flags h; ph_version := 1;
                       ph_body_len := len body_bytes; ph_serial := h_serial h |};
            m_qf := quick_fields b fs; m_bytes := b; m_body_offset := off |}
  | Err _ => Panic PUnwrap
  | Panic p => Panic p
  end.

(* Builder::with_flags: NoReplyExpected only on method calls *)
Definition flags_allowed (ty fl : N) : bool := (fl <=? 7) && ((ty =? 1) || (fl mod 2 =? 0)).
