(* C11/Body.v — the handful of concrete body shapes used to compare `body().deserialize::<T>()`:
   model-side decoders written with the deserializer primitives of Model.v (dbus::Deserializer on the body slice,
   whose context position is the body offset; absolute positions as in Model.v).  No proofs here. *)
From ZV Require Import Base.Bytes Base.Res Base.Sig C11.Model.
Open Scope N_scope.

Inductive shape :=
| ShUnit | ShS (s : bytes) | ShU (n : N) | ShSU (s : bytes) (n : N) | ShAS (l : list bytes) | ShH | ShSH (s : bytes)
| ShHH (i j : N) | ShAH (l : list N) | ShHV (i j : N)     (* several typed descriptors: indexes into a table of files; the same file (the very same fd) may occur twice *)
| ShRaw (sg : bytes) (body : bytes) (nfds : N).

(* DynamicType::signature of the Rust value that is passed to Builder::build *)
Definition shape_sig (sh : shape) : option sig :=
  match sh with
  | ShUnit => Some SUnit | ShS _ => Some SStr | ShU _ => Some SU32 | ShSU _ _ => Some (SStruct [SStr; SU32])
  | ShAS _ => Some (SArray SStr) | ShH => Some SFd | ShSH _ => Some (SStruct [SStr; SFd])
  | ShHH _ _ => Some (SStruct [SFd; SFd]) | ShAH _ => Some (SArray SFd) | ShHV _ _ => Some (SStruct [SFd; SVariant])
  | ShRaw sg _ _ => parse_sig sg            (* Signature::try_from(&str) in build_raw_body *)
  end.
Definition len_list {A} (l : list A) : N := N.of_nat (length l).

(* the descriptors attached to the message, in order, each named by the file it refers to.  SerializerCommon::add_fd:
   the list holds the serializer's own clones, whose numbers are never the caller's, so every OCCURRENCE of a descriptor
   in the body is cloned and attached, and its index is its occurrence number; the size pass (FdList::Number) counts the
   same way, so UNIX_FDS = number of occurrences = number attached. *)
Definition shape_files (sh : shape) : list N :=
  match sh with
  | ShH | ShSH _ => [0]
  | ShHH i j | ShHV i j => [i; j]
  | ShAH l => l
  | _ => []
  end.
Definition shape_nfds (sh : shape) : N :=
  match sh with ShRaw _ _ n => n | _ => len_list (shape_files sh) end.

(* typed values decoded back from a message *)
Inductive tval := TUnit | TS (s : bytes) | TU (n : N) | TSU (s : bytes) (n : N) | TAS (l : list bytes) | TFd | TSFd (s : bytes)
| TFiles (l : list N)    (* the file each decoded descriptor refers to *)
| TNone.

(* Vec<String>: ArrayDeserializer::next_element pads to the element alignment before each element *)
Fixpoint de_strs (fuel : nat) (e : endian) (b : bytes) (endp pos : N) (acc : list bytes) : R (list bytes) :=
  if pos =? endp then Ok (rev acc)
  else
    match fuel with
    | O => Err EFuel
    | S f =>
        let* p := parse_padding b pos 4 in
        let* (s, _, p') := de_str true e b p in
        if endp <? p' then Err EData else de_strs f e b endp p' (s :: acc)
    end.

(* file descriptor: index into the descriptor list (DeserializerCommon::get_fd) *)
Definition de_fd (e : endian) (b : bytes) (pos nfds : N) : R (unit * N) :=
  let* (i, p) := de_u32 e b pos in
  if i <? nfds then Ok (tt, p) else Err EData.

(* a descriptor index resolved against the attached descriptors: which file it is *)
Definition de_fd_file (e : endian) (b : bytes) (pos : N) (files : list N) : R (N * N) :=
  let* (i, p) := de_u32 e b pos in
  match nth_error files (N.to_nat i) with Some f => Ok (f, p) | None => Err EData end.

(* Vec<Fd> *)
Fixpoint de_fds (fuel : nat) (e : endian) (b : bytes) (endp pos : N) (files acc : list N) : R (list N) :=
  if pos =? endp then Ok (rev acc)
  else
    match fuel with
    | O => Err EFuel
    | S f =>
        let* p := parse_padding b pos 4 in
        let* (x, p') := de_fd_file e b p files in
        if endp <? p' then Err EData else de_fds f e b endp p' files (x :: acc)
    end.

(* body().deserialize::<T>() for T chosen by the shape; the body signature is the one the message carries *)
Definition dec_typed (sh : shape) (e : endian) (b : bytes) (off nfds : N) : R tval :=
  match sh with
  | ShUnit => Ok TUnit
  | ShS _ => let* (s, _, _) := de_str true e b off in Ok (TS s)
  | ShU _ => let* (n, _) := de_u32 e b off in Ok (TU n)
  | ShSU _ _ =>
      let* p := parse_padding b off 8 in
      let* (s, _, p1) := de_str true e b p in
      let* (n, _) := de_u32 e b p1 in Ok (TSU s n)
  | ShAS _ =>
      let* (n, p) := de_u32 e b off in
      let* start := parse_padding b p 4 in
      let* l := de_strs (S (length b)) e b (start + n) start [] in Ok (TAS l)
  | ShH => let* _ := de_fd e b off nfds in Ok TFd
  | ShSH _ =>
      let* p := parse_padding b off 8 in
      let* (s, _, p1) := de_str true e b p in
      let* _ := de_fd e b p1 nfds in Ok (TSFd s)
  | ShHH _ _ =>
      let* p := parse_padding b off 8 in
      let* (x, p1) := de_fd_file e b p (shape_files sh) in
      let* (y, _) := de_fd_file e b p1 (shape_files sh) in Ok (TFiles [x; y])
  | ShAH _ =>
      let* (n, p) := de_u32 e b off in
      let* start := parse_padding b p 4 in
      let* l := de_fds (S (length b)) e b (start + n) start (shape_files sh) [] in Ok (TFiles l)
  | ShHV _ _ =>
      let* p := parse_padding b off 8 in
      let* (x, p1) := de_fd_file e b p (shape_files sh) in
      let* (vs, vstart) := variant_sig e b p1 in
      match vs with
      | SFd => let* (y, _) := de_fd_file e b vstart (shape_files sh) in Ok (TFiles [x; y])
      | _ => Err EData
      end
  | ShRaw _ _ _ => Ok TNone
  end.
