(* C23/Interp.v — looking keys up in the key/value pairs of an address value: the model's HashMap
   reads and the specification's association-list reads agree on [fields a] and give back a. *)
From ZV Require Import Base.Bytes Base.Res Base.WinnowFacts C23.Dec C23.Model C23.Spec C23.Codec C23.Skeleton.
From Coq Require Import Lia.

Lemma lbeq_refl a : lbeq a a = true.
Proof. now apply lbeq_eq. Qed.
Lemma lbeq_neq a b : a <> b -> lbeq a b = false.
Proof. intro H. destruct (lbeq a b) eqn:E; [apply lbeq_eq in E; contradiction|reflexivity]. Qed.
Lemma lbeq_false a b : lbeq a b = false -> a <> b.
Proof. intros H E. subst. rewrite lbeq_refl in H. discriminate. Qed.

(* ---- association lists ---- *)
Lemma assoc_app k l1 l2 : assoc k (l1 ++ l2) = match assoc k l1 with Some v => Some v | None => assoc k l2 end.
Proof. induction l1 as [|[k' v] l1 IH]; cbn; [reflexivity|]. destruct (lbeq k' k); [reflexivity|exact IH]. Qed.

Lemma assoc_notin k l : ~ In k (map fst l) -> assoc k l = None.
Proof.
  induction l as [|[k' v] l IH]; cbn; [reflexivity|]. intro H.
  rewrite lbeq_neq by (intro E; apply H; left; exact E). apply IH. intro E. apply H. now right.
Qed.

Lemma assoc_in k l v : assoc k l = Some v -> In k (map fst l).
Proof.
  induction l as [|[k' v'] l IH]; cbn; [discriminate|]. destruct (lbeq k' k) eqn:E.
  - apply lbeq_eq in E. now left.
  - intro H. right. now apply IH.
Qed.

Lemma find_app {A} (f : A -> bool) l1 l2 :
  find f (l1 ++ l2) = match find f l1 with Some x => Some x | None => find f l2 end.
Proof. induction l1 as [|x l1 IH]; cbn; [reflexivity|]. destruct (f x); [reflexivity|exact IH]. Qed.

(* HashMap built by inserts in order = first-match lookup, when no key repeats *)
Lemma hm_get_assoc k l : NoDup (map fst l) -> hm_get k l = assoc k l.
Proof.
  unfold hm_get. induction l as [|[k' v] l IH]; intro Hnd; [reflexivity|].
  cbn [rev map fst] in *. inversion Hnd as [|? ? Hni Hnd']; subst. rewrite find_app. cbn [assoc].
  destruct (lbeq k' k) eqn:E.
  - apply lbeq_eq in E. subst k'. specialize (IH Hnd'). rewrite (assoc_notin _ _ Hni) in IH.
    destruct (find (fun p => lbeq (fst p) k) (rev l)); [discriminate|]. cbn. now rewrite lbeq_refl.
  - rewrite <- (IH Hnd'). destruct (find (fun p => lbeq (fst p) k) (rev l)); [reflexivity|].
    cbn. now rewrite E.
Qed.

Lemma nodupb_NoDup l : nodupb l = true <-> NoDup l.
Proof.
  induction l as [|k l IH]; cbn; [split; [constructor|reflexivity]|]. rewrite andb_true_iff, negb_true_iff, IH.
  split.
  - intros [H1 H2]. constructor; [|exact H2]. intro Hin.
    assert (existsb (lbeq k) l = true) by (apply existsb_exists; exists k; split; [exact Hin|apply lbeq_refl]).
    congruence.
  - intro H. inversion H as [|? ? Hni Hnd]; subst. split; [|exact Hnd].
    destruct (existsb (lbeq k) l) eqn:E; [|reflexivity]. apply existsb_exists in E as [x [Hx1 Hx2]].
    apply lbeq_eq in Hx2. subst x. contradiction.
Qed.

Lemma NoDup_app' {A} (l1 l2 : list A) :
  NoDup l1 -> NoDup l2 -> (forall x, In x l1 -> ~ In x l2) -> NoDup (l1 ++ l2).
Proof.
  induction l1 as [|x l1 IH]; intros H1 H2 Hd; [exact H2|]. inversion H1 as [|? ? Hni H1']; subst.
  cbn. constructor.
  - intro Hin. apply in_app_or in Hin as [Hin|Hin]; [contradiction|]. apply (Hd x); [now left|exact Hin].
  - apply IH; [exact H1'|exact H2|]. intros y Hy. apply Hd. now right.
Qed.

(* ---- argv keys ---- *)
Definition akey (i : N) : bytes := B "argv" ++ show_dec i.

Lemma akey_inj i j : akey i = akey j -> i = j.
Proof. unfold akey. intro H. apply app_inv_head in H. now apply show_dec_inj. Qed.
Lemma akey_not_path i : akey i <> B "path".
Proof. discriminate. Qed.
Lemma akey_not_guid i : akey i <> B "guid".
Proof. discriminate. Qed.
Lemma akey_argv0 i : akey i = B "argv0" -> i = 0%N.
Proof. intro H. apply (akey_inj i 0). exact H. Qed.

Lemma akey_good i : key_good (akey i).
Proof.
  unfold key_good, key_ok, akey. cbn [B list_byte_of_string app]. cbn [forallb].
  change (is_alphanum "a") with true. change (is_alphanum "r") with true.
  change (is_alphanum "g") with true. change (is_alphanum "v") with true. cbn [andb].
  pose proof (show_dec_digits i) as H. induction (show_dec i) as [|c l IH]; [reflexivity|].
  cbn in *. apply andb_true_iff in H as [H1 H2]. rewrite (IH H2). unfold is_alphanum. rewrite H1.
  now rewrite orb_true_r.
Qed.

Lemma arg_keys_in k i args : In k (map fst (arg_fields i args)) -> exists j, (i <= j)%N /\ k = akey j.
Proof.
  revert i. induction args as [|a r IH]; intros i H; [destruct H|]. cbn in H. destruct H as [H|H].
  - exists i. split; [lia|]. now rewrite <- H.
  - apply IH in H as [j [Hj ->]]. exists j. split; [lia|reflexivity].
Qed.

Lemma arg_keys_nodup i args : NoDup (map fst (arg_fields i args)).
Proof.
  revert i. induction args as [|a r IH]; intro i; cbn; constructor; [|apply IH].
  intro H. apply arg_keys_in in H as [j [Hj E]]. apply akey_inj in E. lia.
Qed.

Lemma assoc_args_none k i args : (forall j, (i <= j)%N -> k <> akey j) -> assoc k (arg_fields i args) = None.
Proof.
  intro H. apply assoc_notin. intro Hin. apply arg_keys_in in Hin as [j [Hj E]]. exact (H j Hj E).
Qed.

(* ---- keys of an address value ---- *)
Lemma opt_keys k o : map fst (opt_field k o) = match o with Some _ => [k] | None => [] end.
Proof. destruct o; reflexivity. Qed.

Lemma exec_keys_nodup p a0 args g :
  NoDup (map fst ((B "path", p) :: opt_field (B "argv0") a0 ++ arg_fields 1 args ++ opt_field (B "guid") g)).
Proof.
  cbn [map fst]. rewrite !map_app, !opt_keys. constructor.
  - intro H. apply in_app_or in H as [H|H]; [destruct a0; [destruct H as [H|[]]; discriminate|destruct H]|].
    apply in_app_or in H as [H|H].
    + apply arg_keys_in in H as [j [_ E]]. symmetry in E. exact (akey_not_path j E).
    + destruct g; [destruct H as [H|[]]; discriminate|destruct H].
  - apply NoDup_app'.
    + destruct a0; repeat constructor; intros [].
    + apply NoDup_app'; [apply arg_keys_nodup|destruct g; repeat constructor; intros []|].
      intros x Hx Hg. apply arg_keys_in in Hx as [j [_ ->]].
      destruct g; [destruct Hg as [Hg|[]]; symmetry in Hg; exact (akey_not_guid j Hg)|destruct Hg].
    + intros x Hx Hin. destruct a0; [|destruct Hx]. destruct Hx as [<-|[]].
      apply in_app_or in Hin as [Hin|Hin].
      * apply arg_keys_in in Hin as [j [Hj E]]. symmetry in E. apply akey_argv0 in E. lia.
      * destruct g; [destruct Hin as [Hin|[]]; discriminate|destruct Hin].
Qed.

Lemma keys_nodup a : NoDup (keys a).
Proof.
  unfold keys, fields. destruct a as [g t]. cbn [a_guid a_transport].
  destruct t as [[p|p|p|p]|[h b pt f n]|c p|[p a0 args]]; cbn [tfields].
  1-4: destruct g; cbn; repeat constructor; cbn; intuition discriminate.
  - cbn [t_nonce t_host t_port t_bind t_family]. apply nodupb_NoDup.
    destruct n, b, f as [[|]|], g; reflexivity.
  - destruct g; cbn; repeat constructor; cbn; intuition discriminate.
  - cbn [x_path x_arg0 x_args]. rewrite <- app_comm_cons, <- !app_assoc. apply exec_keys_nodup.
Qed.

Lemma keys_good a : Forall key_good (keys a).
Proof.
  unfold keys, fields. destruct a as [g t]. cbn [a_guid a_transport].
  assert (Hg : Forall key_good (map fst (opt_field (B "guid") g))) by (destruct g; repeat constructor).
  rewrite map_app. apply Forall_app. split; [|exact Hg]. clear Hg.
  destruct t as [[p|p|p|p]|[h b pt f n]|c p|[p a0 args]]; cbn [tfields].
  1-4: repeat constructor.
  - cbn [t_nonce t_host t_port t_bind t_family]. destruct n, b, f as [[|]|]; repeat constructor.
  - repeat constructor.
  - cbn [x_path x_arg0 x_args map fst]. constructor; [reflexivity|]. rewrite map_app. apply Forall_app. split.
    + destruct a0; repeat constructor.
    + generalize 1%N. induction args as [|a r IH]; intro i; cbn; constructor; [apply akey_good|apply IH].
Qed.

(* ---- the argv loops ---- *)
Section Args.
  Variable post : list (bytes * bytes).
  Hypothesis post_none : forall j, assoc (akey j) post = None.

  Lemma assoc_akey_here pre i a rest :
    (forall j, (i <= j)%N -> assoc (akey j) pre = None) ->
    assoc (akey i) (pre ++ (akey i, a) :: rest) = Some a.
  Proof. intro H. rewrite assoc_app, (H i) by lia. cbn [assoc]. now rewrite lbeq_refl. Qed.

  Lemma pre_step pre i a :
    (forall j, (i <= j)%N -> assoc (akey j) pre = None) ->
    forall j, (i + 1 <= j)%N -> assoc (akey j) (pre ++ [(akey i, a)]) = None.
  Proof.
    intros H j Hj. rewrite assoc_app, (H j) by lia. cbn [assoc].
    rewrite lbeq_neq; [reflexivity|]. intro E. apply akey_inj in E. lia.
  Qed.

  Lemma exec_args_fields args : forall i pre o fuel,
    o = pre ++ arg_fields i args ++ post ->
    (forall k, hm_get k o = assoc k o) ->
    (forall j, (i <= j)%N -> assoc (akey j) pre = None) ->
    length args < fuel ->
    exec_args fuel i o = Some args.
  Proof.
    induction args as [|a r IH]; intros i pre o fuel Ho Hget Hpre Hf; (destruct fuel; [cbn in Hf; lia|]);
      cbn [exec_args]; fold (akey i); rewrite Hget.
    - rewrite Ho. cbn [arg_fields app]. rewrite assoc_app, (Hpre i), post_none by lia. reflexivity.
    - assert (E : assoc (akey i) o = Some a) by (rewrite Ho; cbn [arg_fields app]; now apply assoc_akey_here).
      rewrite E. rewrite (IH (i + 1)%N (pre ++ [(akey i, a)]) o fuel).
      + reflexivity.
      + rewrite Ho. cbn [arg_fields app]. now rewrite <- app_assoc.
      + exact Hget.
      + now apply pre_step.
      + cbn in Hf. lia.
  Qed.

  Lemma spec_args_fields args : forall i pre o fuel,
    o = pre ++ arg_fields i args ++ post ->
    (forall j, (i <= j)%N -> assoc (akey j) pre = None) ->
    length args < fuel ->
    spec_args fuel i o = args.
  Proof.
    induction args as [|a r IH]; intros i pre o fuel Ho Hpre Hf; (destruct fuel; [cbn in Hf; lia|]);
      cbn [spec_args]; fold (akey i).
    - rewrite Ho. cbn [arg_fields app]. rewrite assoc_app, (Hpre i), post_none by lia. reflexivity.
    - assert (E : assoc (akey i) o = Some a) by (rewrite Ho; cbn [arg_fields app]; now apply assoc_akey_here).
      rewrite E. f_equal. apply (IH (i + 1)%N (pre ++ [(akey i, a)])).
      + rewrite Ho. cbn [arg_fields app]. now rewrite <- app_assoc.
      + now apply pre_step.
      + cbn in Hf. lia.
  Qed.
End Args.
