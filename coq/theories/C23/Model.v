(* C23/Model.v — executable mirror of zbus/src/address/mod.rs and zbus/src/address/transport/*.rs
   as compiled on Linux with the `vsock` feature (Unix, Tcp, Vsock, Unixexec; Autolaunch and Launchd
   are cfg'd out, so their transport names are "unsupported").  No proofs in this file.

   Rust `&str`/`String`/`PathBuf`/`OsString`/`Vec<u8>` are all byte lists here; the parser input is the
   UTF-8 text of the `&str` (the code itself works on `address.as_bytes()`). *)
From ZV Require Import Base.Bytes Base.Res C23.Dec.

(* ---------------------------------------------------------------- values *)
Inductive unix_socket := UFile (p : bytes) | UAbstract (p : bytes) | UDir (p : bytes) | UTmpDir (p : bytes).
Inductive family := Ipv4 | Ipv6.
Record tcp := mkTcp { t_host : bytes; t_bind : option bytes; t_port : N; t_family : option family;
                      t_nonce : option bytes }.
Record unixexec := mkExec { x_path : bytes; x_arg0 : option bytes; x_args : list bytes }.
Inductive transport := TUnix (u : unix_socket) | TTcp (t : tcp) | TVsock (cid port : N) | TUnixexec (x : unixexec).
Record address := mkAddr { a_guid : option bytes; a_transport : transport }.

(* zbus::Error classes that FromStr can return *)
Inductive aerr := EAddress | EGuid.

(* ---------------------------------------------------------------- percent coding (transport/mod.rs) *)
(* matches!(c, '-' | '0'..='9' | 'A'..='Z' | 'a'..='z' | '_' | '/' | '.' | '\\' | '*') *)
Definition unreserved (c : byte) : bool :=
  match c with
  | "-"%byte | "_"%byte | "/"%byte | "."%byte | "\"%byte | "*"%byte => true
  | _ => is_digit c || is_upper c || is_lower c
  end.

(* fn decode_hex *)
Definition decode_hex (c : byte) : res aerr N :=
  if is_digit c then Ok (bn c - 48)%N
  else if in_range 97 102 c then Ok (bn c - 97 + 10)%N
  else if in_range 65 70 c then Ok (bn c - 65 + 10)%N
  else Err EAddress.

(* fn decode_percents: the Rust iterates over chars; a non-ASCII char is neither unreserved nor '%'
   nor a hex digit, so it ends in the same error as its first byte does here. *)
Fixpoint decode_percents (v : bytes) : res aerr bytes :=
  match v with
  | [] => Ok []
  | c :: r =>
      if unreserved c then
        let* d := decode_percents r in Ok (c :: d)
      else if beq c "%"%byte then
        match r with
        | h :: l :: r' =>
            let* hi := decode_hex h in
            let* lo := decode_hex l in
            let* d := decode_percents r' in
            Ok (nb (16 * hi + lo) :: d)
        | _ => Err EAddress               (* "incomplete percent-encoded sequence" *)
        end
      else Err EAddress                   (* "Invalid character in address" *)
  end.

(* const LOOKUP in encode_percents, 256 entries of 3 bytes *)
Definition LOOKUP : bytes := B
("%00%01%02%03%04%05%06%07%08%09%0a%0b%0c%0d%0e%0f" ++
 "%10%11%12%13%14%15%16%17%18%19%1a%1b%1c%1d%1e%1f" ++
 "%20%21%22%23%24%25%26%27%28%29%2a%2b%2c%2d%2e%2f" ++
 "%30%31%32%33%34%35%36%37%38%39%3a%3b%3c%3d%3e%3f" ++
 "%40%41%42%43%44%45%46%47%48%49%4a%4b%4c%4d%4e%4f" ++
 "%50%51%52%53%54%55%56%57%58%59%5a%5b%5c%5d%5e%5f" ++
 "%60%61%62%63%64%65%66%67%68%69%6a%6b%6c%6d%6e%6f" ++
 "%70%71%72%73%74%75%76%77%78%79%7a%7b%7c%7d%7e%7f" ++
 "%80%81%82%83%84%85%86%87%88%89%8a%8b%8c%8d%8e%8f" ++
 "%90%91%92%93%94%95%96%97%98%99%9a%9b%9c%9d%9e%9f" ++
 "%a0%a1%a2%a3%a4%a5%a6%a7%a8%a9%aa%ab%ac%ad%ae%af" ++
 "%b0%b1%b2%b3%b4%b5%b6%b7%b8%b9%ba%bb%bc%bd%be%bf" ++
 "%c0%c1%c2%c3%c4%c5%c6%c7%c8%c9%ca%cb%cc%cd%ce%cf" ++
 "%d0%d1%d2%d3%d4%d5%d6%d7%d8%d9%da%db%dc%dd%de%df" ++
 "%e0%e1%e2%e3%e4%e5%e6%e7%e8%e9%ea%eb%ec%ed%ee%ef" ++
 "%f0%f1%f2%f3%f4%f5%f6%f7%f8%f9%fa%fb%fc%fd%fe%ff").

(* &LOOKUP[pos..pos + 3] with pos = c as usize * 3 *)
Definition lookup (c : byte) : bytes := firstn 3 (skipn (3 * N.to_nat (bn c)) LOOKUP).

(* fn encode_percents: runs of unreserved bytes are copied, every other byte is replaced by its
   LOOKUP entry (the position()/slice loop of the Rust is this byte-wise map). *)
Fixpoint encode_percents (v : bytes) : bytes :=
  match v with
  | [] => []
  | c :: r => (if unreserved c then [c] else lookup c) ++ encode_percents r
  end.

(* ---------------------------------------------------------------- integers in text *)
(* Display of u16/u32/usize is [show_dec] of C23/Dec.v (decimal, no sign, no padding). *)

(* <uN as FromStr>::from_str (core::num, radix 10, unsigned): empty -> error; a single "+" or "-" ->
   error; one leading '+' is skipped; then every byte must be a digit; the value must fit. *)
Definition parse_unsigned (limit : N) (s : bytes) : option N :=
  match s with
  | [] => None
  | c :: r =>
      let digits := if beq c "+"%byte then r else s in
      match digits with
      | [] => None
      | _ => match uint_of_bytes digits with
             | Some u => let n := N.of_uint u in if (n <? limit)%N then Some n else None
             | None => None
             end
      end
  end.
Definition parse_u16 := parse_unsigned 65536.
Definition parse_u32 := parse_unsigned 4294967296.

(* ---------------------------------------------------------------- the winnow parser of FromStr for Address *)
(* take_while(0.., f): longest prefix satisfying f, and the rest *)
Fixpoint span (f : byte -> bool) (l : bytes) : bytes * bytes :=
  match l with
  | [] => ([], [])
  | c :: r => if f c then let (p, q) := span f r in (c :: p, q) else ([], l)
  end.
(* take_while(1.., f) *)
Definition take_while1 (f : byte -> bool) (l : bytes) : option (bytes * bytes) :=
  match span f l with
  | ([], _) => None
  | (p, q) => Some (p, q)
  end.
(* take_until(1.., b): the bytes before the first occurrence of b (at least one), rest starts at b;
   fails when b does not occur *)
Fixpoint find_byte (b : byte) (l : bytes) : option (bytes * bytes) :=
  match l with
  | [] => None
  | c :: r => if beq c b then Some ([], l)
              else match find_byte b r with Some (p, q) => Some (c :: p, q) | None => None end
  end.
Definition take_until1 (b : byte) (l : bytes) : option (bytes * bytes) :=
  match find_byte b l with
  | Some ([], _) => None
  | Some (p, q) => Some (p, q)
  | None => None
  end.

Definition comma : byte := ","%byte.
Definition not_comma (b : byte) : bool := negb (beq b comma).

(* let kv = (alphanumeric1, b'=', take_while(1.., |b| b != b',')) *)
Definition kv (l : bytes) : option ((bytes * bytes) * bytes) :=
  match take_while1 is_alphanum l with
  | None => None
  | Some (k, r) =>
      match r with
      | e :: r1 =>
          if beq e "="%byte then
            match take_while1 not_comma r1 with
            | Some (v, r2) => Some ((k, v), r2)
            | None => None
            end
          else None
      | [] => None
      end
  end.

(* separated(0.., kv, b','), winnow 0.7 separated0_: after the first element loop
   { checkpoint; ','; kv }, a failure of either resets to the checkpoint and stops with what was
   accumulated.  Every round consumes at least 4 bytes, so [length inp] rounds always suffice;
   running out of fuel is an explicit [None] (excluded by Proofs.sep_loop_fuel). *)
Fixpoint sep_loop (fuel : nat) (acc : list (bytes * bytes)) (inp : bytes) : option (list (bytes * bytes) * bytes) :=
  match fuel with
  | O => None
  | S f =>
      match inp with
      | c :: r =>
          if beq c comma then
            match kv r with
            | Some (p, r') => sep_loop f (acc ++ [p]) r'
            | None => Some (acc, inp)
            end
          else Some (acc, inp)
      | [] => Some (acc, inp)
      end
  end.
Definition separated0 (inp : bytes) : option (list (bytes * bytes) * bytes) :=
  match kv inp with
  | None => Some ([], inp)
  | Some (p, r) => sep_loop (S (length r)) [p] r
  end.

(* The options are accumulated into a HashMap<&str,&str> by successive insert (winnow's Accumulate for
   HashMap): a later pair replaces an earlier one with the same key.  Only `get`/`contains_key` are
   used afterwards, so the map is represented by the list of pairs in arrival order and [hm_get]
   returns the value of the last pair with that key. *)
Definition hm_get (k : bytes) (m : list (bytes * bytes)) : option bytes :=
  match find (fun p => lbeq (fst p) k) (List.rev m) with
  | Some p => Some (snd p)
  | None => None
  end.
Definition hm_contains (k : bytes) (m : list (bytes * bytes)) : bool :=
  match hm_get k m with Some _ => true | None => false end.

(* guid.rs validate_guid (after the fix commit: exactly 32 hex digits) *)
Definition validate_guid (g : bytes) : bool := Nat.eqb (length g) 32 && forallb is_hexdigit g.

(* Unix::from_options *)
Definition unix_from_options (o : list (bytes * bytes)) : res aerr unix_socket :=
  match hm_get (B "path") o, hm_get (B "abstract") o, hm_get (B "dir") o, hm_get (B "tmpdir") o with
  | Some p, None, None, None => Ok (UFile p)
  | None, Some p, None, None => Ok (UAbstract p)
  | None, None, Some p, None => Ok (UDir p)
  | None, None, None, Some p => Ok (UTmpDir p)
  | _, _, _, _ => Err EAddress
  end.

(* Unixexec::from_options: `while let Some(arg) = opts.get(format!("argv{arg_index}"))`.  The map has
   finitely many keys, so at most [length o] rounds find something; fuel exhaustion is explicit. *)
Fixpoint exec_args (fuel : nat) (i : N) (o : list (bytes * bytes)) : option (list bytes) :=
  match fuel with
  | O => None
  | S f =>
      match hm_get (B "argv" ++ show_dec i) o with
      | Some a => match exec_args f (i + 1)%N o with Some l => Some (a :: l) | None => None end
      | None => Some []
      end
  end.
Definition unixexec_from_options (o : list (bytes * bytes)) : res aerr unixexec :=
  match hm_get (B "path") o with
  | None => Err EAddress
  | Some p =>
      match exec_args (S (length o)) 1%N o with
      | Some args => Ok (mkExec p (hm_get (B "argv0") o) args)
      | None => Panic PUnreachable
      end
  end.

(* TcpTransportFamily::from_str *)
Definition family_from_str (f : bytes) : res aerr family :=
  if lbeq f (B "ipv4") then Ok Ipv4 else if lbeq f (B "ipv6") then Ok Ipv6 else Err EAddress.

(* Tcp::from_options *)
Definition tcp_from_options (o : list (bytes * bytes)) (nonce_tcp_required : bool) : res aerr tcp :=
  if hm_contains (B "bind") o then Err EAddress else
  match hm_get (B "host") o with
  | None => Err EAddress
  | Some host =>
      match hm_get (B "port") o with
      | None => Err EAddress
      | Some port =>
          match parse_u16 port with
          | None => Err EAddress
          | Some port =>
              let* fam := match hm_get (B "family") o with
                          | Some f => let* x := family_from_str f in Ok (Some x)
                          | None => Ok None
                          end in
              let* nonce := match hm_get (B "noncefile") o with
                            | Some f => let* x := decode_percents f in Ok (Some x)
                            | None => Ok None
                            end in
              if nonce_tcp_required && match nonce with None => true | Some _ => false end
              then Err EAddress
              else Ok (mkTcp host None port fam nonce)
          end
      end
  end.

(* Vsock::from_options *)
Definition vsock_from_options (o : list (bytes * bytes)) : res aerr transport :=
  match hm_get (B "cid") o with
  | None => Err EAddress
  | Some cid =>
      match parse_u32 cid with
      | None => Err EAddress
      | Some cid =>
          match hm_get (B "port") o with
          | None => Err EAddress
          | Some port =>
              match parse_u32 port with
              | None => Err EAddress
              | Some port => Ok (TVsock cid port)
              end
          end
      end
  end.

(* Transport::from_options (Linux, features p2p + vsock) *)
Definition transport_from_options (name : bytes) (o : list (bytes * bytes)) : res aerr transport :=
  if lbeq name (B "unix") then let* u := unix_from_options o in Ok (TUnix u)
  else if lbeq name (B "unixexec") then let* x := unixexec_from_options o in Ok (TUnixexec x)
  else if lbeq name (B "tcp") then let* t := tcp_from_options o false in Ok (TTcp t)
  else if lbeq name (B "nonce-tcp") then let* t := tcp_from_options o true in Ok (TTcp t)
  else if lbeq name (B "vsock") then vsock_from_options o
  else Err EAddress.                       (* unsupported transport *)

(* impl FromStr for Address:  (take_until(1.., ':'), ':', separated(0.., kv, ',')).parse(bytes)
   — `parse` demands end of input — then the guid option, then the transport. *)
Definition parse (s : bytes) : res aerr address :=
  match take_until1 ":"%byte s with
  | None => Err EAddress
  | Some (name, r) =>
      match r with
      | [] => Err EAddress
      | _colon :: r1 =>
          match separated0 r1 with
          | None => Panic PUnreachable
          | Some (opts, []) =>
              let* guid := match hm_get (B "guid") opts with
                           | Some g => if validate_guid g then Ok (Some g) else Err EGuid
                           | None => Ok None
                           end in
              let* t := transport_from_options name opts in
              Ok (mkAddr guid t)
          | Some (_, _ :: _) => Err EAddress
          end
      end
  end.

(* ---------------------------------------------------------------- Display *)
Definition show_unix_socket (u : unix_socket) : bytes :=
  match u with
  | UFile p => B "path=" ++ encode_percents p
  | UAbstract p => B "abstract=" ++ encode_percents p
  | UDir p => B "dir=" ++ encode_percents p
  | UTmpDir p => B "tmpdir=" ++ encode_percents p
  end.

Definition show_family (f : family) : bytes := match f with Ipv4 => B "ipv4" | Ipv6 => B "ipv6" end.

Definition show_tcp (t : tcp) : bytes :=
  (match t_nonce t with
   | Some n => B "nonce-tcp:noncefile=" ++ encode_percents n ++ B ","
   | None => B "tcp:"
   end) ++ B "host=" ++ encode_percents (t_host t) ++ B ",port=" ++ show_dec (t_port t) ++
  (match t_bind t with Some b => B ",bind=" ++ encode_percents b | None => [] end) ++
  (match t_family t with Some f => B ",family=" ++ show_family f | None => [] end).

(* for (index, arg) in args.iter().enumerate(): ",argv{index+1}=" *)
Fixpoint show_args (i : N) (args : list bytes) : bytes :=
  match args with
  | [] => []
  | a :: r => B ",argv" ++ show_dec i ++ B "=" ++ encode_percents a ++ show_args (i + 1)%N r
  end.

Definition show_unixexec (x : unixexec) : bytes :=
  B "unixexec:path=" ++ encode_percents (x_path x) ++
  (match x_arg0 x with Some a => B ",argv0=" ++ encode_percents a | None => [] end) ++
  show_args 1%N (x_args x).

Definition show_transport (t : transport) : bytes :=
  match t with
  | TUnix u => B "unix:" ++ show_unix_socket u
  | TTcp t => show_tcp t
  | TVsock c p => B "vsock:cid=" ++ show_dec c ++ B ",port=" ++ show_dec p
  | TUnixexec x => show_unixexec x
  end.

(* impl Display for Address *)
Definition show (a : address) : bytes :=
  show_transport (a_transport a) ++
  (match a_guid a with Some g => B ",guid=" ++ g | None => [] end).
