(* C23/Run.v — line driver.
     v <fields>       the address value <fields> is formatted and parsed back
     p <hex string>   the string is parsed
   <fields> = <transport>/<key>=<hex of raw value>,...  (see harness/haddr/src/main.rs)
   Output: model <TAB> spec <TAB> class.  The implementation's line is  <result>;<more>  and only
   <result> is compared with the spec field (props/C23.py meets_spec). *)
From ZV Require Import Base.Bytes Base.Res C23.Dec C23.Model C23.Spec C23.Known.

Definition obs_item (kv : bytes * bytes) : bytes := fst kv ++ "="%byte :: hex_of_bytes (snd kv).
Definition obs_fields (a : address) : bytes :=
  tname (a_transport a) ++ "/"%byte :: join [comma] (map obs_item (fields a)).
(* every error is the observation ERR: which error (Error::Address or Error::InvalidGUID) is not compared *)
Definition addr_eqb (a b : address) : bool := lbeq (obs_fields a) (obs_fields b).

Definition read_item (it : bytes) : option (bytes * bytes) :=
  match split_first "="%byte it with
  | Some (k, h) => match bytes_of_hex h with Some v => Some (k, v) | None => None end
  | None => None
  end.
Definition read_fields (f : bytes) : option (bytes * list (bytes * bytes)) :=
  match split_first "/"%byte f with
  | None => None
  | Some (name, rest) =>
      match (match rest with [] => Some [] | _ => map_opt read_item (split_on comma rest) end) with
      | Some kvs => Some (name, kvs)
      | None => None
      end
  end.

Definition class_tok (o : option bytes) : bytes := match o with Some c => c | None => dash end.

Definition run_v (f : bytes) : outp :=
  match read_fields f with
  | None => bad_case
  | Some (name, kvs) =>
      match spec_interp name kvs with
      | None => bad_case
      | Some a =>
          if wfb a && lbeq (obs_fields a) f then
            let s := show a in
            let back := match parse s with
                        | Ok b => B "OK:" ++ obs_fields b ++ B ":" ++ bool_tok (addr_eqb b a)
                        | Err _ => B "ERR"
                        | Panic _ => B "PANIC"
                        end in
            {| o_model := back ++ B ";" ++ hex_of_bytes s;
               o_spec := B "OK:" ++ obs_fields a ++ B ":T";
               o_class := class_tok (known_class (tname (a_transport a)) (items_of a (display_texts a))) |}
          else bad_case
      end
  end.

Definition string_items (s : bytes) : option (bytes * list item) :=
  match spec_items s with
  | Some (name, kts) =>
      match map_opt (fun kt => match spec_decode (snd kt) with Some v => Some ((fst kt, v), snd kt) | None => None end) kts with
      | Some its => Some (name, its)
      | None => None
      end
  | None => None
  end.

Definition run_p (h : bytes) : outp :=
  match bytes_of_hex h with
  | None => bad_case
  | Some s =>
      let model := match parse s with
                   | Ok a =>
                       let d := show a in
                       B "OK:" ++ obs_fields a ++ B ";" ++ hex_of_bytes d ++ B ";" ++
                       match parse d with Ok b => bool_tok (addr_eqb b a) | _ => B "E" end
                   | Err _ => B "ERR;;"
                   | Panic _ => B "PANIC"
                   end in
      match spec_denote s with
      | Some a =>
          {| o_model := model; o_spec := B "OK:" ++ obs_fields a;
             o_class := match string_items s with
                        | Some (name, its) => class_tok (known_class name its)
                        | None => dash
                        end |}
      | None => {| o_model := model; o_spec := dash; o_class := dash |}
      end
  end.

Definition run_case (line : bytes) : outp :=
  match words line with
  | cmd :: rest =>
      let arg := match rest with a :: _ => a | [] => [] end in
      if lbeq cmd (B "v") then run_v arg
      else if lbeq cmd (B "p") then run_p arg
      else bad_case
  | [] => bad_case
  end.

Definition run (line : bytes) : bytes := Bytes.render (run_case line).
