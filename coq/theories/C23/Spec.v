(* C23/Spec.v — what the D-Bus specification says about server addresses, written without reference to
   the parser of zbus ("Server Addresses": `transport:key=value,key=value`; each value is escaped: bytes of
   the set of optionally-escaped bytes [-0-9A-Za-z_/.\*] may stand for themselves, every other byte is
   written %XX, hex digits of either case, and "the value must be unescaped" when the address is read).

   * [Enc raw text]   the value-escaping relation (one raw value has many texts);
   * [fields a]       the transport name and the key / raw-value pairs an address value consists of;
   * [Encodes a s]    s is an address string for a: its transport name, its keys in order, each value in
                      any escaped form;
   * [spec_denote s]  the executable reading of an address string (split, unescape every value, interpret
                      the keys) used as the oracle on the implementation's output.
   The address value type itself is shared with the model (C23/Model.v). *)
From ZV Require Import Base.Bytes Base.Res C23.Dec C23.Model.

(* ---------------------------------------------------------------- value escaping *)
(* the set of optionally-escaped bytes, by code point:  - 0-9 A-Z a-z _ / . \ *  *)
Definition opt_escaped (c : byte) : bool :=
  let n := bn c in
  ((n =? 45) || ((48 <=? n) && (n <=? 57)) || ((65 <=? n) && (n <=? 90)) || ((97 <=? n) && (n <=? 122))
   || (n =? 95) || (n =? 47) || (n =? 46) || (n =? 92) || (n =? 42))%N.

Definition percent : byte := "%"%byte.

Inductive Enc : bytes -> bytes -> Prop :=
| Enc_nil : Enc [] []
| Enc_lit c r t : opt_escaped c = true -> Enc r t -> Enc (c :: r) (c :: t)
| Enc_esc c h l r t : hexval h = Some (bn c / 16)%N -> hexval l = Some (bn c mod 16)%N -> Enc r t ->
                      Enc (c :: r) (percent :: h :: l :: t).

(* executable unescaping (Proofs.spec_decode_Enc: spec_decode t = Some r <-> Enc r t) *)
Fixpoint spec_decode (t : bytes) : option bytes :=
  match t with
  | [] => Some []
  | c :: r =>
      if opt_escaped c then option_map (cons c) (spec_decode r)
      else if beq c percent then
        match r with
        | h :: l :: r' =>
            match hexval h, hexval l, spec_decode r' with
            | Some x, Some y, Some d => Some (nb (16 * x + y) :: d)
            | _, _, _ => None
            end
        | _ => None
        end
      else None
  end.

(* ---------------------------------------------------------------- what an address value consists of *)
Definition opt_field (k : bytes) (o : option bytes) : list (bytes * bytes) :=
  match o with Some v => [(k, v)] | None => [] end.

Fixpoint arg_fields (i : N) (args : list bytes) : list (bytes * bytes) :=
  match args with
  | [] => []
  | a :: r => (B "argv" ++ show_dec i, a) :: arg_fields (i + 1)%N r
  end.

Definition family_name (f : family) : bytes := match f with Ipv4 => B "ipv4" | Ipv6 => B "ipv6" end.

Definition tname (t : transport) : bytes :=
  match t with
  | TUnix _ => B "unix"
  | TTcp t => match t_nonce t with Some _ => B "nonce-tcp" | None => B "tcp" end
  | TVsock _ _ => B "vsock"
  | TUnixexec _ => B "unixexec"
  end.

Definition tfields (t : transport) : list (bytes * bytes) :=
  match t with
  | TUnix (UFile p) => [(B "path", p)]
  | TUnix (UAbstract p) => [(B "abstract", p)]
  | TUnix (UDir p) => [(B "dir", p)]
  | TUnix (UTmpDir p) => [(B "tmpdir", p)]
  | TTcp t => opt_field (B "noncefile") (t_nonce t) ++
              [(B "host", t_host t); (B "port", show_dec (t_port t))] ++
              opt_field (B "bind") (t_bind t) ++
              opt_field (B "family") (option_map family_name (t_family t))
  | TVsock c p => [(B "cid", show_dec c); (B "port", show_dec p)]
  | TUnixexec x => (B "path", x_path x) :: opt_field (B "argv0") (x_arg0 x) ++ arg_fields 1%N (x_args x)
  end.

Definition fields (a : address) : list (bytes * bytes) :=
  tfields (a_transport a) ++ opt_field (B "guid") (a_guid a).
Definition keys (a : address) : list bytes := map fst (fields a).
Definition values (a : address) : list bytes := map snd (fields a).

(* the text of an address: name ':' key '=' text ',' key '=' text ... *)
Definition render_item (kt : bytes * bytes) : bytes := fst kt ++ "="%byte :: snd kt.
Definition render_addr (name : bytes) (kts : list (bytes * bytes)) : bytes :=
  name ++ ":"%byte :: join [comma] (map render_item kts).

(* s is an address string for a *)
Definition Encodes (a : address) (s : bytes) : Prop :=
  exists ts, Forall2 Enc (values a) ts /\ s = render_addr (tname (a_transport a)) (combine (keys a) ts).

(* ---------------------------------------------------------------- invariants of the Rust types *)
(* well-formed UTF-8 (Unicode table 3-7); `String` fields only hold such bytes *)
Definition cont (c : byte) : bool := in_range 128 191 c.
Fixpoint utf8_valid (l : bytes) : bool :=
  match l with
  | [] => true
  | a :: r =>
      if (bn a <? 128)%N then utf8_valid r
      else if in_range 194 223 a then
        match r with b :: r' => cont b && utf8_valid r' | _ => false end
      else if in_range 224 239 a then
        match r with
        | b :: c :: r' =>
            (if (bn a =? 224)%N then in_range 160 191 b
             else if (bn a =? 237)%N then in_range 128 159 b else cont b) && cont c && utf8_valid r'
        | _ => false
        end
      else if in_range 240 244 a then
        match r with
        | b :: c :: d :: r' =>
            (if (bn a =? 240)%N then in_range 144 191 b
             else if (bn a =? 244)%N then in_range 128 143 b else cont b) && cont c && cont d && utf8_valid r'
        | _ => false
        end
      else false
  end.

Definition is_guid (g : bytes) : bool := Nat.eqb (length g) 32 && forallb is_hexdigit g.

(* what the types guarantee of an address value: the GUID is 32 hex digits (OwnedGuid), host and bind
   are `String`s, the port is a u16, cid and port of vsock are u32.  Paths, abstract names, argv and the
   nonce file are arbitrary bytes (PathBuf / OsString / Vec<u8>). *)
Definition wfb (a : address) : bool :=
  match a_guid a with Some g => is_guid g | None => true end &&
  match a_transport a with
  | TTcp t => (t_port t <? 65536)%N && utf8_valid (t_host t) &&
              match t_bind t with Some b => utf8_valid b | None => true end
  | TVsock c p => (c <? 4294967296)%N && (p <? 4294967296)%N
  | _ => true
  end.
Definition wf (a : address) : Prop := wfb a = true.

(* ---------------------------------------------------------------- reading an address string *)
(* the part before the first c, the part after it *)
Fixpoint split_first (c : byte) (l : bytes) : option (bytes * bytes) :=
  match l with
  | [] => None
  | x :: r => if beq x c then Some ([], r)
              else match split_first c r with Some (p, q) => Some (x :: p, q) | None => None end
  end.

Fixpoint map_opt {A C} (f : A -> option C) (l : list A) : option (list C) :=
  match l with
  | [] => Some []
  | x :: r => match f x, map_opt f r with Some y, Some ys => Some (y :: ys) | _, _ => None end
  end.

Fixpoint assoc (k : bytes) (l : list (bytes * bytes)) : option bytes :=
  match l with
  | [] => None
  | (k', v) :: r => if lbeq k' k then Some v else assoc k r
  end.

Fixpoint nodupb (l : list bytes) : bool :=
  match l with
  | [] => true
  | k :: r => negb (existsb (lbeq k) r) && nodupb r
  end.

(* keys: all keys the specification defines are alphanumeric *)
Definition key_ok (k : bytes) : bool := match k with [] => false | _ => forallb is_alphanum k end.

Fixpoint spec_args (fuel : nat) (i : N) (kv : list (bytes * bytes)) : list bytes :=
  match fuel with
  | O => []
  | S f => match assoc (B "argv" ++ show_dec i) kv with
           | Some a => a :: spec_args f (i + 1)%N kv
           | None => []
           end
  end.

Definition sget (kv : list (bytes * bytes)) (k : string) : option bytes := assoc (B k) kv.
Arguments sget kv k%string.

(* the endpoint a transport name and its (unescaped) key/value pairs denote *)
Definition spec_transport (name : bytes) (kv : list (bytes * bytes)) : option transport :=
  if lbeq name (B "unix") then
    match sget kv "path", sget kv "abstract", sget kv "dir", sget kv "tmpdir" with
    | Some p, None, None, None => Some (TUnix (UFile p))
    | None, Some p, None, None => Some (TUnix (UAbstract p))
    | None, None, Some p, None => Some (TUnix (UDir p))
    | None, None, None, Some p => Some (TUnix (UTmpDir p))
    | _, _, _, _ => None
    end
  else if lbeq name (B "tcp") || lbeq name (B "nonce-tcp") then
    match sget kv "host", sget kv "port" with
    | Some h, Some p =>
        match read_dec p with
        | Some n =>
            let fam := match sget kv "family" with
                       | None => Some None
                       | Some f => if lbeq f (B "ipv4") then Some (Some Ipv4)
                                   else if lbeq f (B "ipv6") then Some (Some Ipv6) else None
                       end in
            match fam with
            | Some fam =>
                if (n <? 65536)%N && utf8_valid h
                   && match sget kv "bind" with Some b => utf8_valid b | None => true end
                   && (negb (lbeq name (B "nonce-tcp")) || match sget kv "noncefile" with Some _ => true | None => false end)
                then Some (TTcp (mkTcp h (sget kv "bind") n fam (sget kv "noncefile")))
                else None
            | None => None
            end
        | None => None
        end
    | _, _ => None
    end
  else if lbeq name (B "vsock") then
    match sget kv "cid", sget kv "port" with
    | Some c, Some p =>
        match read_dec c, read_dec p with
        | Some c, Some p => if (c <? 4294967296)%N && (p <? 4294967296)%N then Some (TVsock c p) else None
        | _, _ => None
        end
    | _, _ => None
    end
  else if lbeq name (B "unixexec") then
    match sget kv "path" with
    | Some p => Some (TUnixexec (mkExec p (sget kv "argv0") (spec_args (length kv) 1%N kv)))
    | None => None
    end
  else None.

Definition spec_interp (name : bytes) (kv : list (bytes * bytes)) : option address :=
  match (match assoc (B "guid") kv with
         | None => Some None
         | Some g => if is_guid g then Some (Some g) else None
         end), spec_transport name kv with
  | Some g, Some t => Some (mkAddr g t)
  | _, _ => None
  end.

(* name ':' items; items separated by ','; each item key '=' text *)
Definition spec_items (s : bytes) : option (bytes * list (bytes * bytes)) :=
  match split_first ":"%byte s with
  | None => None
  | Some (name, rest) =>
      match (match rest with [] => Some [] | _ => map_opt (split_first "="%byte) (split_on comma rest) end) with
      | Some kts => Some (name, kts)
      | None => None
      end
  end.

Definition decode_item (kt : bytes * bytes) : option (bytes * bytes) :=
  match spec_decode (snd kt) with Some v => Some (fst kt, v) | None => None end.

Definition spec_denote (s : bytes) : option address :=
  match spec_items s with
  | None => None
  | Some (name, kts) =>
      if forallb (fun kt => key_ok (fst kt)) kts && nodupb (map fst kts) then
        match map_opt decode_item kts with
        | Some kvs => spec_interp name kvs
        | None => None
        end
      else None
  end.
