(* C23/Codec.v — the percent codec: the model's encoder and decoder against the specification's
   escaping relation [Enc].  Per-byte facts are decided by case analysis over the 256 bytes. *)
From ZV Require Import Base.Bytes Base.Res Base.WinnowFacts C23.Dec C23.Model C23.Spec.
From Coq Require Import Lia.

(* ---- per-byte facts (finite: 256 cases each) ---- *)
Lemma lookup_entry c : lookup c = [percent; hexdigit (bn c / 16); hexdigit (bn c mod 16)].
Proof. destruct c; vm_compute; reflexivity. Qed.

Lemma unreserved_opt_escaped c : unreserved c = opt_escaped c.
Proof. destruct c; vm_compute; reflexivity. Qed.

Lemma decode_hex_hexval c : decode_hex c = match hexval c with Some n => Ok n | None => Err EAddress end.
Proof. destruct c; vm_compute; reflexivity. Qed.

Lemma hexval_hi c : hexval (hexdigit (bn c / 16)) = Some (bn c / 16)%N.
Proof. destruct c; vm_compute; reflexivity. Qed.
Lemma hexval_lo c : hexval (hexdigit (bn c mod 16)) = Some (bn c mod 16)%N.
Proof. destruct c; vm_compute; reflexivity. Qed.
Lemma nb_hi_lo c : nb (16 * (bn c / 16) + bn c mod 16) = c.
Proof. destruct c; vm_compute; reflexivity. Qed.
Lemma hexval_lt16 c n : hexval c = Some n -> (n < 16)%N.
Proof. destruct c; vm_compute; intro H; try discriminate; injection H as <-; reflexivity. Qed.
Lemma percent_not_escaped : opt_escaped percent = false.
Proof. reflexivity. Qed.
Lemma bn_lt c : (bn c < 256)%N.
Proof. destruct c; vm_compute; reflexivity. Qed.

Lemma bn_nb n : (n < 256)%N -> bn (nb n) = n.
Proof.
  intro H. unfold nb, bn. rewrite N.mod_small by exact H.
  destruct (Byte.of_N n) as [b|] eqn:E.
  - now apply Byte.to_of_N.
  - apply Byte.of_N_None_iff in E. lia.
Qed.

Lemma hi_lo_of x y : (x < 16)%N -> (y < 16)%N ->
  (bn (nb (16 * x + y)) / 16 = x /\ bn (nb (16 * x + y)) mod 16 = y)%N.
Proof.
  intros Hx Hy. rewrite bn_nb by lia. split.
  - symmetry. apply (N.div_unique (16 * x + y) 16 x y); lia.
  - symmetry. apply (N.mod_unique (16 * x + y) 16 x y); lia.
Qed.

(* ---- the specification's decoder and the relation ---- *)
Lemma Enc_spec_decode r t : Enc r t -> spec_decode t = Some r.
Proof.
  induction 1 as [|c r t Hc _ IH|c h l r t Hh Hl _ IH]; cbn [spec_decode].
  - reflexivity.
  - now rewrite Hc, IH.
  - rewrite percent_not_escaped. unfold beq at 1. cbn [Byte.eqb percent].
    change (Byte.eqb percent percent) with true. cbn iota.
    rewrite Hh, Hl, IH. now rewrite nb_hi_lo.
Qed.

Lemma spec_decode_Enc_len n : forall t r, length t <= n -> spec_decode t = Some r -> Enc r t.
Proof.
  induction n as [|n IH]; intros t r Hn H.
  - destruct t; [|cbn in Hn; lia]. cbn in H. injection H as <-. constructor.
  - destruct t as [|c t]; [cbn in H; injection H as <-; constructor|].
    cbn [spec_decode] in H. destruct (opt_escaped c) eqn:Ec.
    + destruct (spec_decode t) as [d|] eqn:Ed; [|discriminate]. cbn in H. injection H as <-.
      apply Enc_lit; [exact Ec|]. apply IH; [cbn in Hn; lia|exact Ed].
    + destruct (beq c percent) eqn:Ep; [|discriminate]. apply beq_eq in Ep. subst c.
      destruct t as [|h [|l t]]; try discriminate.
      destruct (hexval h) as [x|] eqn:Eh; [|discriminate].
      destruct (hexval l) as [y|] eqn:El; [|discriminate].
      destruct (spec_decode t) as [d|] eqn:Ed; [|discriminate]. injection H as <-.
      pose proof (hi_lo_of x y (hexval_lt16 _ _ Eh) (hexval_lt16 _ _ El)) as [H1 H2].
      apply Enc_esc; [rewrite Eh; f_equal; symmetry; exact H1|rewrite El; f_equal; symmetry; exact H2|]. apply IH; [cbn in Hn; lia|exact Ed].
Qed.

Lemma spec_decode_Enc t r : spec_decode t = Some r <-> Enc r t.
Proof. split; [apply (spec_decode_Enc_len (length t)); lia|apply Enc_spec_decode]. Qed.

(* ---- the model's decoder is the specification's ---- *)
Lemma decode_percents_spec_len n : forall t, length t <= n ->
  decode_percents t = match spec_decode t with Some r => Ok r | None => Err EAddress end.
Proof.
  induction n as [|n IH]; intros t Hn.
  - destruct t; [reflexivity|cbn in Hn; lia].
  - destruct t as [|c t]; [reflexivity|]. cbn [decode_percents spec_decode].
    rewrite unreserved_opt_escaped. destruct (opt_escaped c).
    + rewrite IH by (cbn in Hn; lia). destruct (spec_decode t); reflexivity.
    + change (beq c "%"%byte) with (beq c percent). destruct (beq c percent); [|reflexivity].
      destruct t as [|h [|l t]]; try reflexivity.
      rewrite !decode_hex_hexval. destruct (hexval h); [|reflexivity]. cbn [bind].
      destruct (hexval l); [|reflexivity]. cbn [bind].
      rewrite IH by (cbn in Hn; lia). destruct (spec_decode t); reflexivity.
Qed.

Lemma decode_percents_spec t :
  decode_percents t = match spec_decode t with Some r => Ok r | None => Err EAddress end.
Proof. apply (decode_percents_spec_len (length t)). lia. Qed.

Lemma decode_percents_Enc t r : decode_percents t = Ok r <-> Enc r t.
Proof.
  rewrite decode_percents_spec, <- spec_decode_Enc. destruct (spec_decode t); split; intro H; try discriminate; congruence.
Qed.

(* the decoder never panics and fails only with Error::Address *)
Lemma decode_percents_total t : exists r, decode_percents t = Ok r \/ decode_percents t = Err EAddress.
Proof. rewrite decode_percents_spec. destruct (spec_decode t) as [r|]; [exists r|exists []]; auto. Qed.

(* ---- the encoder produces an escaped form ---- *)
Lemma encode_percents_Enc bs : Enc bs (encode_percents bs).
Proof.
  induction bs as [|c bs IH]; cbn [encode_percents]; [constructor|].
  rewrite unreserved_opt_escaped. destruct (opt_escaped c) eqn:Ec.
  - apply Enc_lit; assumption.
  - rewrite lookup_entry. cbn [app]. apply Enc_esc; [apply hexval_hi|apply hexval_lo|exact IH].
Qed.

Theorem percent_roundtrip bs : decode_percents (encode_percents bs) = Ok bs.
Proof. apply decode_percents_Enc, encode_percents_Enc. Qed.

(* an escaped form determines the raw value *)
Lemma Enc_functional r1 r2 t : Enc r1 t -> Enc r2 t -> r1 = r2.
Proof. intros H1 H2. apply Enc_spec_decode in H1, H2. congruence. Qed.

(* escaped text consists of optionally-escaped bytes, '%' and hex digits only *)
Definition text_byte (c : byte) : bool := opt_escaped c || beq c percent.
Lemma hexval_text_byte c n : hexval c = Some n -> text_byte c = true.
Proof. destruct c; vm_compute; intro H; try discriminate; reflexivity. Qed.
Lemma Enc_text r t : Enc r t -> forallb text_byte t = true.
Proof.
  induction 1 as [|c r t Hc _ IH|c h l r t Hh Hl _ IH]; cbn [forallb].
  - reflexivity.
  - unfold text_byte at 1. now rewrite Hc, IH.
  - rewrite (hexval_text_byte _ _ Hh), (hexval_text_byte _ _ Hl), IH. reflexivity.
Qed.

(* what Display writes equals the raw value exactly when every byte is in the safe set *)
Lemma encode_percents_id bs : forallb unreserved bs = true -> encode_percents bs = bs.
Proof.
  induction bs as [|c bs IH]; cbn; [reflexivity|]. intro H. apply andb_true_iff in H as [H1 H2].
  now rewrite H1, IH.
Qed.
Lemma encode_percents_length bs : length bs <= length (encode_percents bs).
Proof.
  induction bs as [|c bs IH]; cbn [encode_percents]; [lia|]. rewrite app_length.
  destruct (unreserved c); [cbn; lia|rewrite lookup_entry; cbn; lia].
Qed.
Lemma encode_percents_fixed bs : encode_percents bs = bs -> forallb unreserved bs = true.
Proof.
  induction bs as [|c bs IH]; cbn [encode_percents forallb]; [reflexivity|].
  destruct (unreserved c) eqn:Ec.
  - cbn. intro H. injection H as H. now apply IH.
  - rewrite lookup_entry. cbn. intro H. injection H as H1 H2.
    pose proof (encode_percents_length bs) as Hl.
    apply (f_equal (@length byte)) in H2. cbn in H2. lia.
Qed.
Lemma encode_percents_nil bs : encode_percents bs = [] <-> bs = [].
Proof.
  split; [|intros ->; reflexivity]. destruct bs as [|c bs]; [reflexivity|]. cbn [encode_percents].
  destruct (unreserved c); [discriminate|rewrite lookup_entry; discriminate].
Qed.
