(* C23/Dec.v — decimal numerals as byte strings, through Coq's own Decimal library
   ([N.to_uint] / [N.of_uint]); used by the model (Display of integers, FromStr of integers) and by
   the specification (the numeral that denotes a port / cid / argv index). *)
From ZV Require Import Base.Bytes.
From Coq Require Import Decimal DecimalN DecimalPos.

Fixpoint bytes_of_uint (u : Decimal.uint) : bytes :=
  match u with
  | Nil => []
  | D0 r => "0"%byte :: bytes_of_uint r | D1 r => "1"%byte :: bytes_of_uint r
  | D2 r => "2"%byte :: bytes_of_uint r | D3 r => "3"%byte :: bytes_of_uint r
  | D4 r => "4"%byte :: bytes_of_uint r | D5 r => "5"%byte :: bytes_of_uint r
  | D6 r => "6"%byte :: bytes_of_uint r | D7 r => "7"%byte :: bytes_of_uint r
  | D8 r => "8"%byte :: bytes_of_uint r | D9 r => "9"%byte :: bytes_of_uint r
  end.
Definition show_dec (n : N) : bytes := bytes_of_uint (N.to_uint n).

Fixpoint uint_of_bytes (l : bytes) : option Decimal.uint :=
  match l with
  | [] => Some Nil
  | c :: r =>
      match uint_of_bytes r with
      | None => None
      | Some u =>
          match c with
          | "0"%byte => Some (D0 u) | "1"%byte => Some (D1 u) | "2"%byte => Some (D2 u)
          | "3"%byte => Some (D3 u) | "4"%byte => Some (D4 u) | "5"%byte => Some (D5 u)
          | "6"%byte => Some (D6 u) | "7"%byte => Some (D7 u) | "8"%byte => Some (D8 u)
          | "9"%byte => Some (D9 u) | _ => None
          end
      end
  end.


(* a numeral: at least one digit, nothing else (leading zeros allowed) *)
Definition read_dec (l : bytes) : option N :=
  match l with
  | [] => None
  | _ => match uint_of_bytes l with Some u => Some (N.of_uint u) | None => None end
  end.

(* ---- facts ---- *)
Lemma uint_of_bytes_of_uint u : uint_of_bytes (bytes_of_uint u) = Some u.
Proof. induction u; cbn; try rewrite IHu; reflexivity. Qed.

Lemma bytes_of_uint_digits u : forallb is_digit (bytes_of_uint u) = true.
Proof. induction u; cbn; try rewrite IHu; reflexivity. Qed.

Lemma to_uint_not_nil n : N.to_uint n <> Nil.
Proof. destruct n as [|p]; cbn; [discriminate|]. apply DecimalPos.Unsigned.to_uint_nonnil. Qed.

Lemma show_dec_nonempty n : show_dec n <> [].
Proof.
  unfold show_dec. pose proof (to_uint_not_nil n) as H. destruct (N.to_uint n); [contradiction|..]; discriminate.
Qed.

Lemma show_dec_digits n : forallb is_digit (show_dec n) = true.
Proof. apply bytes_of_uint_digits. Qed.

Lemma read_show_dec n : read_dec (show_dec n) = Some n.
Proof.
  unfold read_dec. pose proof (show_dec_nonempty n) as Hn. destruct (show_dec n) eqn:E; [contradiction|].
  rewrite <- E. unfold show_dec. rewrite uint_of_bytes_of_uint. now rewrite DecimalN.Unsigned.of_to.
Qed.

Lemma show_dec_inj a b : show_dec a = show_dec b -> a = b.
Proof.
  intro H. pose proof (read_show_dec a) as Ha. rewrite H, read_show_dec in Ha. congruence.
Qed.
