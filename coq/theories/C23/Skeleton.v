(* C23/Skeleton.v — both readers on a string of the shape  name ':' key '=' text ',' key '=' text ...
   (the model's winnow parser and the specification's split-based reader) recover the name and the
   key/text pairs. *)
From ZV Require Import Base.Bytes Base.Res Base.WinnowFacts C23.Dec C23.Model C23.Spec C23.Codec.
From Coq Require Import Lia.

Definition eqc : byte := "="%byte.
Definition colon : byte := ":"%byte.

(* ---- per-byte facts ---- *)
Lemma alnum_not_eq c : is_alphanum c = true -> beq c eqc = false /\ beq c comma = false.
Proof. destruct c; vm_compute; intro H; try discriminate; split; reflexivity. Qed.
Lemma text_byte_sep c : text_byte c = true -> not_comma c = true /\ beq c comma = false /\ beq c eqc = false.
Proof. destruct c; vm_compute; intro H; try discriminate; repeat split; reflexivity. Qed.

(* ---- shapes ---- *)
Definition key_good (k : bytes) : Prop := key_ok k = true.
Definition text_good (t : bytes) : Prop := forallb text_byte t = true.
Definition item_good (kt : bytes * bytes) : Prop := key_good (fst kt) /\ text_good (snd kt).
Definition name_good (n : bytes) : Prop := n <> [] /\ Forall (fun c => beq c colon = false) n.

Lemma key_good_inv k : key_good k -> k <> [] /\ forallb is_alphanum k = true.
Proof. unfold key_good, key_ok. destruct k; [discriminate|]. intro H. split; [discriminate|exact H]. Qed.

Lemma text_good_not_comma t : text_good t -> forallb not_comma t = true.
Proof.
  unfold text_good. induction t as [|c t IH]; cbn; [reflexivity|]. intro H.
  apply andb_true_iff in H as [H1 H2]. apply text_byte_sep in H1 as [H1 _]. now rewrite H1, IH.
Qed.

Definition tail_str (kts : list (bytes * bytes)) : bytes :=
  flat_map (fun kt => comma :: render_item kt) kts.

Lemma join_items kt kts : join [comma] (map render_item (kt :: kts)) = render_item kt ++ tail_str kts.
Proof.
  revert kt. induction kts as [|kt2 kts IH]; intro kt.
  - cbn. now rewrite app_nil_r.
  - change (join [comma] (map render_item (kt :: kt2 :: kts)))
      with (render_item kt ++ [comma] ++ join [comma] (map render_item (kt2 :: kts))).
    rewrite IH. reflexivity.
Qed.

Lemma tail_str_shape kts : tail_str kts = [] \/ exists r, tail_str kts = comma :: r.
Proof. destruct kts as [|kt kts]; [left; reflexivity|right; cbn; eauto]. Qed.

Lemma tail_str_length kts : length kts <= length (tail_str kts).
Proof.
  induction kts as [|kt kts IH]; [cbn; lia|].
  change (tail_str (kt :: kts)) with (comma :: render_item kt ++ tail_str kts).
  cbn [length]. rewrite app_length. lia.
Qed.

(* ---- the model's combinators ---- *)
Lemma span_app f p q : forallb f p = true ->
  match q with [] => True | c :: _ => f c = false end -> span f (p ++ q) = (p, q).
Proof.
  intros Hp Hq. induction p as [|c p IH]; cbn [app].
  - destruct q as [|c q]; cbn; [reflexivity|now rewrite Hq].
  - cbn in Hp. apply andb_true_iff in Hp as [H1 H2]. cbn [span]. now rewrite H1, IH.
Qed.

Lemma kv_item k t rest : key_good k -> t <> [] -> forallb not_comma t = true ->
  (rest = [] \/ exists r, rest = comma :: r) ->
  kv (k ++ eqc :: t ++ rest) = Some ((k, t), rest).
Proof.
  intros Hk Ht Hc Hr. apply key_good_inv in Hk as [Hk1 Hk2].
  unfold kv, take_while1. rewrite (span_app is_alphanum k (eqc :: t ++ rest) Hk2) by reflexivity.
  destruct k as [|k0 k]; [contradiction|].
  change (beq eqc "="%byte) with true. cbn iota.
  rewrite (span_app not_comma t rest Hc).
  - destruct t; [contradiction|reflexivity].
  - destruct Hr as [->|[r ->]]; [exact I|reflexivity].
Qed.

Definition item_ne (kt : bytes * bytes) : Prop := item_good kt /\ snd kt <> [].

Lemma sep_loop_items kts : forall fuel acc, length kts < fuel -> Forall item_ne kts ->
  sep_loop fuel acc (tail_str kts) = Some (acc ++ kts, []).
Proof.
  induction kts as [|[k t] kts IH]; intros fuel acc Hf Hg.
  - destruct fuel; [cbn in Hf; lia|]. cbn. now rewrite app_nil_r.
  - destruct fuel; [cbn in Hf; lia|]. inversion Hg as [|? ? [[Hk Ht] Hne] Hg']; subst. cbn in Hk, Ht, Hne.
    change (tail_str ((k, t) :: kts)) with (comma :: (k ++ eqc :: t) ++ tail_str kts).
    cbn [sep_loop]. change (beq comma comma) with true. cbn iota.
    replace ((k ++ eqc :: t) ++ tail_str kts) with (k ++ eqc :: t ++ tail_str kts)
      by (rewrite <- app_assoc; reflexivity).
    rewrite kv_item; [|exact Hk|exact Hne|now apply text_good_not_comma|apply tail_str_shape].
    rewrite IH; [|cbn in Hf; lia|exact Hg']. now rewrite <- app_assoc.
Qed.

Lemma separated0_items kts : Forall item_ne kts ->
  separated0 (join [comma] (map render_item kts)) = Some (kts, []).
Proof.
  intro Hg. destruct kts as [|[k t] kts]; [reflexivity|].
  rewrite join_items. inversion Hg as [|? ? [[Hk Ht] Hne] Hg']; subst. cbn in Hk, Ht, Hne.
  unfold separated0, render_item. cbn [fst snd].
  replace ((k ++ "="%byte :: t) ++ tail_str kts) with (k ++ eqc :: t ++ tail_str kts)
    by (rewrite <- app_assoc; reflexivity).
  rewrite kv_item; [|exact Hk|exact Hne|now apply text_good_not_comma|apply tail_str_shape].
  rewrite sep_loop_items; [reflexivity| |exact Hg']. pose proof (tail_str_length kts). lia.
Qed.

Lemma find_byte_app b p q : Forall (fun c => beq c b = false) p -> find_byte b (p ++ b :: q) = Some (p, b :: q).
Proof.
  induction 1 as [|c p Hc _ IH]; cbn [app find_byte].
  - now rewrite beq_refl.
  - now rewrite Hc, IH.
Qed.

Definition guid_option (opts : list (bytes * bytes)) : res aerr (option bytes) :=
  match hm_get (B "guid") opts with
  | Some g => if validate_guid g then Ok (Some g) else Err EGuid
  | None => Ok None
  end.

Lemma parse_render name kts : name_good name -> Forall item_ne kts ->
  parse (render_addr name kts) =
  (let* guid := guid_option kts in
   let* t := transport_from_options name kts in
   Ok (mkAddr guid t)).
Proof.
  intros [Hn1 Hn2] Hg. unfold parse, render_addr, take_until1.
  rewrite (find_byte_app colon name _ Hn2). destruct name as [|n0 name]; [contradiction|].
  rewrite separated0_items by exact Hg. reflexivity.
Qed.

(* ---- the specification's reader ---- *)
Lemma split_first_app c p q : Forall (fun x => beq x c = false) p -> split_first c (p ++ c :: q) = Some (p, q).
Proof.
  induction 1 as [|x p Hx _ IH]; cbn [app split_first].
  - now rewrite beq_refl.
  - now rewrite Hx, IH.
Qed.

Lemma key_no_sep k : key_good k -> Forall (fun c => beq c eqc = false) k /\ no_sep comma k.
Proof.
  intro Hk. apply key_good_inv in Hk as [_ Hk]. unfold no_sep.
  induction k as [|c k IH]; [split; constructor|].
  cbn in Hk. apply andb_true_iff in Hk as [H1 H2]. apply alnum_not_eq in H1 as [H1 H1'].
  destruct (IH H2) as [I1 I2]. split; constructor; assumption.
Qed.

Lemma text_no_sep t : text_good t -> no_sep comma t.
Proof.
  unfold text_good, no_sep. induction t as [|c t IH]; [constructor|]. cbn. intro H.
  apply andb_true_iff in H as [H1 H2]. apply text_byte_sep in H1 as [_ [H1 _]]. constructor; auto.
Qed.

Lemma render_item_no_comma kt : item_good kt -> no_sep comma (render_item kt).
Proof.
  intros [Hk Ht]. unfold render_item, no_sep. apply Forall_app. split; [apply key_no_sep, Hk|].
  constructor; [reflexivity|apply text_no_sep, Ht].
Qed.

Lemma map_opt_items kts : Forall item_good kts -> map_opt (split_first eqc) (map render_item kts) = Some kts.
Proof.
  induction 1 as [|[k t] kts [Hk Ht] _ IH]; [reflexivity|]. cbn [map map_opt]. unfold render_item at 1.
  cbn [fst snd]. rewrite split_first_app by apply key_no_sep, Hk. now rewrite IH.
Qed.

Lemma spec_items_render name kts : name_good name -> Forall item_good kts ->
  spec_items (render_addr name kts) = Some (name, kts).
Proof.
  intros [_ Hn] Hg. unfold spec_items, render_addr. rewrite split_first_app by exact Hn.
  destruct kts as [|kt kts]; [reflexivity|].
  assert (Hne : join [comma] (map render_item (kt :: kts)) <> []).
  { rewrite join_items. unfold render_item. destruct (fst kt); discriminate. }
  destruct (join [comma] (map render_item (kt :: kts))) eqn:E; [contradiction|]. rewrite <- E.
  rewrite split_join.
  - pose proof (map_opt_items _ Hg) as Hm. unfold eqc in Hm. now rewrite Hm.
  - discriminate.
  - clear E Hne. induction Hg; constructor; [now apply render_item_no_comma|assumption].
Qed.
