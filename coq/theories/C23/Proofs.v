(* C23/Proofs.v — main proofs of C23. *)
From ZV Require Import Base.Bytes Base.Res Base.WinnowFacts.
From ZV Require Import C23.Dec C23.Model C23.Spec C23.Known C23.Codec C23.Skeleton C23.Interp.
From Coq Require Import Lia FinFun.

Local Arguments show_dec : simpl never.
Local Arguments read_dec : simpl never.
Local Arguments utf8_valid : simpl never.
Local Arguments is_guid : simpl never.
Local Arguments validate_guid : simpl never.
Local Arguments parse_u16 : simpl never.
Local Arguments parse_u32 : simpl never.
Local Arguments decode_percents : simpl never.
Local Arguments encode_percents : simpl never.
Local Arguments N.ltb : simpl never.

(* ---------------------------------------------------------------- items *)
Definition EncItem (kv kt : bytes * bytes) : Prop := fst kt = fst kv /\ Enc (snd kv) (snd kt).

Lemma enc_items l : forall ts, Forall2 Enc (map snd l) ts -> Forall2 EncItem l (combine (map fst l) ts).
Proof.
  induction l as [|[k v] l IH]; intros ts H; inversion H; subst; cbn; constructor.
  - split; [reflexivity|assumption].
  - now apply IH.
Qed.

Lemma enc_items_keys l kts : Forall2 EncItem l kts -> map fst kts = map fst l.
Proof. induction 1 as [|kv kt l kts [Hk _] _ IH]; cbn; [reflexivity|]. now rewrite Hk, IH. Qed.

Lemma enc_items_good l kts : Forall key_good (map fst l) -> Forall2 EncItem l kts -> Forall item_good kts.
Proof.
  intros Hk H. induction H as [|kv kt l kts [Hkey Henc] _ IH]; [constructor|].
  inversion Hk; subst. constructor; [|now apply IH]. split; [now rewrite Hkey|].
  unfold text_good. now apply (Enc_text (snd kv)).
Qed.

Lemma enc_items_decode l kts : Forall2 EncItem l kts -> map_opt decode_item kts = Some l.
Proof.
  induction 1 as [|[k v] [k' t] l kts [Hk Henc] _ IH]; [reflexivity|]. cbn in Hk, Henc. subst k'.
  cbn [map_opt]. unfold decode_item at 1. cbn [fst snd]. apply Enc_spec_decode in Henc. now rewrite Henc, IH.
Qed.

Lemma tname_good t : name_good (tname t).
Proof.
  destruct t as [u|t| |x]; cbn; [| destruct (t_nonce t) | |]; (split; [discriminate|repeat constructor]).
Qed.

(* ---------------------------------------------------------------- the specification reads fields back *)
Lemma tfields_no_guid t : assoc (B "guid") (tfields t) = None.
Proof.
  destruct t as [[p|p|p|p]|[h b pt f n]|c p|[p a0 args]]; cbn [tfields]; try reflexivity.
  - cbn [t_nonce t_host t_port t_bind t_family]. destruct n, b, f as [[|]|]; reflexivity.
  - cbn [x_path x_arg0 x_args]. cbn [assoc]. change (lbeq (B "path") (B "guid")) with false. cbn iota.
    rewrite assoc_app. destruct a0; cbn; apply assoc_args_none; intros j _ E; symmetry in E; exact (akey_not_guid j E).
Qed.

Lemma wf_guid a g : wf a -> a_guid a = Some g -> is_guid g = true.
Proof. unfold wf, wfb. intros H E. rewrite E in H. now apply andb_true_iff in H as [H _]. Qed.

Lemma spec_guid_fields a : wf a ->
  match assoc (B "guid") (fields a) with
  | None => Some None
  | Some g => if is_guid g then Some (Some g) else None
  end = Some (a_guid a).
Proof.
  intro Hwf. unfold fields. rewrite assoc_app, tfields_no_guid. destruct (a_guid a) as [g|] eqn:E; [|reflexivity].
  cbn. change (lbeq (B "guid") (B "guid")) with true. cbn iota. now rewrite (wf_guid a g Hwf E).
Qed.

Lemma arg_fields_length args : forall i, length (arg_fields i args) = length args.
Proof. induction args as [|a r IH]; intro i; cbn; [reflexivity|now rewrite IH]. Qed.

Lemma spec_transport_fields a : wf a -> spec_transport (tname (a_transport a)) (fields a) = Some (a_transport a).
Proof.
  intro Hwf. unfold wf, wfb in Hwf. apply andb_true_iff in Hwf as [_ Hwf]. unfold fields.
  destruct a as [g t]. cbn [a_guid a_transport] in *.
  destruct t as [[p|p|p|p]|[h b pt f n]|c p|[p a0 args]].
  1-4: destruct g; reflexivity.
  - apply andb_true_iff in Hwf as [Hwf Hb]. apply andb_true_iff in Hwf as [Hp Hh].
    cbn [t_port t_host t_bind] in *.
    destruct n, b, f as [[|]|], g; cbn -[N.ltb]; rewrite read_show_dec; cbn -[N.ltb]; rewrite Hp, Hh, ?Hb; reflexivity.
  - apply andb_true_iff in Hwf as [Hc Hp].
    destruct g; cbn -[N.ltb]; rewrite !read_show_dec; cbn -[N.ltb]; rewrite Hc, Hp; reflexivity.
  - unfold spec_transport. cbn [tname tfields x_path x_arg0 x_args].
    change (lbeq (B "unixexec") (B "unix")) with false.
    change (lbeq (B "unixexec") (B "tcp") || lbeq (B "unixexec") (B "nonce-tcp")) with false.
    change (lbeq (B "unixexec") (B "vsock")) with false.
    change (lbeq (B "unixexec") (B "unixexec")) with true. cbn iota.
    set (o := ((B "path", p) :: opt_field (B "argv0") a0 ++ arg_fields 1 args) ++ opt_field (B "guid") g).
    assert (Ho : o = ((B "path", p) :: opt_field (B "argv0") a0) ++ arg_fields 1 args ++ opt_field (B "guid") g)
      by (unfold o; cbn [app]; now rewrite <- app_assoc).
    assert (Hpath : sget o "path" = Some p) by reflexivity.
    assert (Ha0 : sget o "argv0" = a0).
    { unfold sget, o. cbn [app assoc]. change (lbeq (B "path") (B "argv0")) with false. cbn iota.
      rewrite !assoc_app. destruct a0 as [a0|]; [reflexivity|]. cbn [opt_field assoc].
      rewrite assoc_args_none; [destruct g; reflexivity|]. intros j Hj E. symmetry in E. apply akey_argv0 in E. lia. }
    rewrite Hpath, Ha0. do 3 f_equal.
    apply (spec_args_fields (opt_field (B "guid") g)) with (pre := (B "path", p) :: opt_field (B "argv0") a0).
    + intro j. destruct g; reflexivity.
    + exact Ho.
    + intros j Hj. cbn [assoc]. rewrite lbeq_neq by (intro E; symmetry in E; exact (akey_not_path j E)).
      destruct a0; [|reflexivity]. cbn [opt_field assoc]. rewrite lbeq_neq; [reflexivity|]. intro E. symmetry in E. apply akey_argv0 in E. lia.
    + unfold o. rewrite !app_length. cbn [length]. 
      rewrite app_length, arg_fields_length. lia.
Qed.

Lemma spec_interp_fields a : wf a -> spec_interp (tname (a_transport a)) (fields a) = Some a.
Proof.
  intro Hwf. unfold spec_interp. rewrite (spec_guid_fields a Hwf), (spec_transport_fields a Hwf).
  destruct a; reflexivity.
Qed.

Theorem encodes_denote a s : wf a -> Encodes a s -> spec_denote s = Some a.
Proof.
  intros Hwf [ts [Hts ->]]. unfold values, keys in *. apply enc_items in Hts.
  pose proof (enc_items_keys _ _ Hts) as Hkeys.
  pose proof (enc_items_good _ _ (keys_good a) Hts) as Hgood.
  unfold spec_denote. rewrite (spec_items_render _ _ (tname_good _) Hgood).
  assert (Hk : forallb (fun kt => key_ok (fst kt)) (combine (map fst (fields a)) ts) = true).
  { apply forallb_forall. intros kt Hin. rewrite Forall_forall in Hgood. now destruct (Hgood kt Hin). }
  rewrite Hk, Hkeys. pose proof (keys_nodup a) as Hnd. apply nodupb_NoDup in Hnd. unfold keys in Hnd.
  rewrite Hnd. cbn [andb]. rewrite (enc_items_decode _ _ Hts). now apply spec_interp_fields.
Qed.

(* ---------------------------------------------------------------- Display writes an address string for the value *)
Definition enc_item (kv : bytes * bytes) : bytes * bytes := (fst kv, encode_percents (snd kv)).

Lemma combine_display a : combine (keys a) (display_texts a) = map enc_item (fields a).
Proof.
  unfold keys, display_texts, values. induction (fields a) as [|[k v] l IH]; cbn; [reflexivity|]. now rewrite IH.
Qed.

Lemma tail_str_app l1 l2 : tail_str (l1 ++ l2) = tail_str l1 ++ tail_str l2.
Proof. unfold tail_str. now rewrite flat_map_app. Qed.

Lemma tail_str_cons x l : tail_str (x :: l) = comma :: render_item x ++ tail_str l.
Proof. reflexivity. Qed.

Lemma render_cons name kt kts : render_addr name (kt :: kts) = name ++ colon :: render_item kt ++ tail_str kts.
Proof. unfold render_addr. now rewrite join_items. Qed.

Lemma show_args_tail args : forall i, show_args i args = tail_str (map enc_item (arg_fields i args)).
Proof.
  induction args as [|a r IH]; intro i; [reflexivity|].
  cbn [show_args arg_fields map]. change (tail_str (?x :: ?l)) with (comma :: render_item x ++ tail_str l).
  rewrite IH. unfold render_item, enc_item. cbn [fst snd]. cbn [B list_byte_of_string app].
  rewrite <- !app_assoc. reflexivity.
Qed.

Lemma digit_unreserved c : is_digit c = true -> unreserved c = true.
Proof. destruct c; vm_compute; intro H; try discriminate; reflexivity. Qed.
Lemma hexdigit_unreserved c : is_hexdigit c = true -> unreserved c = true.
Proof. destruct c; vm_compute; intro H; try discriminate; reflexivity. Qed.

Lemma forallb_impl {A} (f g : A -> bool) l : (forall x, f x = true -> g x = true) -> forallb f l = true -> forallb g l = true.
Proof. intros H. induction l as [|x l IH]; cbn; [reflexivity|]. intro E. apply andb_true_iff in E as [E1 E2]. now rewrite (H x E1), IH. Qed.

Lemma encode_show_dec n : encode_percents (show_dec n) = show_dec n.
Proof. apply encode_percents_id, (forallb_impl is_digit); [apply digit_unreserved|apply show_dec_digits]. Qed.

Lemma encode_guid g : is_guid g = true -> encode_percents g = g.
Proof.
  unfold is_guid. intro H. apply andb_true_iff in H as [_ H].
  apply encode_percents_id, (forallb_impl is_hexdigit); [apply hexdigit_unreserved|exact H].
Qed.

Lemma show_render a : wf a -> show a = render_addr (tname (a_transport a)) (map enc_item (fields a)).
Proof.
  intro Hwf. unfold show, fields. rewrite map_app.
  assert (Hg : match a_guid a with Some g => B ",guid=" ++ g | None => [] end
               = tail_str (map enc_item (opt_field (B "guid") (a_guid a)))).
  { destruct (a_guid a) as [g|] eqn:E; [|reflexivity]. cbn. unfold render_item, enc_item. cbn [fst snd].
    rewrite (encode_guid g (wf_guid a g Hwf E)). now rewrite app_nil_r. }
  rewrite Hg. clear Hg Hwf. generalize (map enc_item (opt_field (B "guid") (a_guid a))) as gl. intro gl.
  destruct (a_transport a) as [[p|p|p|p]|[h b pt f n]|c p|[p a0 args]].
  1-4: cbn [tfields map]; rewrite <- app_comm_cons, render_cons; cbn [app]; unfold render_item, enc_item; cbn;
       now rewrite <- ?app_assoc.
  - cbn [tfields t_nonce t_host t_port t_bind t_family tname].
    destruct n, b, f as [[|]|]; cbn [opt_field option_map map app]; rewrite render_cons, !tail_str_cons;
      unfold show_transport, show_tcp; cbn [t_nonce t_host t_port t_bind t_family];
      unfold render_item, enc_item; cbn [fst snd]; rewrite ?encode_show_dec;
      cbn [B list_byte_of_string app family_name show_family];
      repeat (rewrite <- ?app_assoc; cbn [app]); reflexivity.
  - cbn [tfields map app]. rewrite render_cons, !tail_str_cons.
    unfold render_item, enc_item. cbn [fst snd]. rewrite !encode_show_dec. cbn.
    repeat (rewrite <- ?app_assoc; cbn [app]). reflexivity.
  - cbn [tfields x_path x_arg0 x_args tname show_transport]. unfold show_unixexec. cbn [x_path x_arg0 x_args].
    cbn [map]. rewrite <- app_comm_cons. rewrite render_cons, !map_app, !tail_str_app, show_args_tail.
    unfold render_item at 1. unfold enc_item at 1. cbn [fst snd].
    destruct a0 as [a0|]; cbn [opt_field map tail_str flat_map]; unfold render_item, enc_item; cbn [fst snd];
      cbn [B list_byte_of_string app]; repeat (rewrite <- ?app_assoc; cbn [app]); reflexivity.
Qed.

Theorem show_encodes a : wf a -> Encodes a (show a).
Proof.
  intro Hwf. exists (display_texts a). split.
  - unfold display_texts. induction (values a); cbn; constructor; [apply encode_percents_Enc|assumption].
  - rewrite combine_display. now apply show_render.
Qed.

(* ---------------------------------------------------------------- FromStr on an address string, outside the known classes *)
Definition nonce_key : bytes := B "noncefile".
Definition bind_key : bytes := B "bind".

(* an item as the code can read it: non-empty text; literal unless it is the nonce file *)
Definition LitItem (kv kt : bytes * bytes) : Prop :=
  fst kt = fst kv /\ snd kt <> [] /\ Enc (snd kv) (snd kt) /\ (lbeq (fst kv) nonce_key = false -> snd kt = snd kv).

Lemma lit_items l : forall ts, Forall2 Enc (map snd l) ts ->
  k_empty_value (combine l ts) = false -> k_undecoded (combine l ts) = false ->
  Forall2 LitItem l (combine (map fst l) ts).
Proof.
  induction l as [|[k v] l IH]; intros ts H He Hu; inversion H as [|? t ? ts' Henc H']; subst; cbn [map combine fst]; constructor.
  - unfold k_empty_value, k_undecoded in *. cbn [combine existsb] in He, Hu.
    apply orb_false_iff in He as [He _]. apply orb_false_iff in Hu as [Hu _].
    unfold i_text, i_key, i_val in *. cbn [fst snd] in *.
    split; [reflexivity|]. split; [destruct t; [discriminate|discriminate]|]. split; [exact Henc|].
    intro Hk. cbn [fst] in Hk. unfold nonce_key in Hk. rewrite Hk in Hu. cbn [negb andb] in Hu. apply negb_false_iff in Hu. now apply lbeq_eq in Hu.
  - unfold k_empty_value, k_undecoded in *. cbn [combine existsb] in He, Hu.
    apply orb_false_iff in He as [_ He]. apply orb_false_iff in Hu as [_ Hu]. now apply IH.
Qed.

Lemma lit_all l kts : Forall2 LitItem l kts -> Forall (fun kv => lbeq (fst kv) nonce_key = false) l -> kts = l.
Proof.
  induction 1 as [|[k v] [k' t] l kts (Hk & _ & _ & Hl) _ IH]; intro Hn; [reflexivity|].
  inversion Hn as [|? ? Hn1 Hn2]; subst. cbn [fst snd] in *. subst k'. rewrite (Hl Hn1). now rewrite IH.
Qed.

Lemma lit_enc l kts : Forall2 LitItem l kts -> Forall2 EncItem l kts.
Proof. induction 1 as [|? ? ? ? (Hk & _ & He & _) _ IH]; constructor; [split; assumption|exact IH]. Qed.

Lemma lit_ne l kts : Forall key_good (map fst l) -> Forall2 LitItem l kts -> Forall item_ne kts.
Proof.
  intros Hk H. pose proof (enc_items_good _ _ Hk (lit_enc _ _ H)) as Hg.
  induction H as [|kv kt l kts (_ & Hne & _ & _) _ IH]; [constructor|].
  inversion Hg; subst. inversion Hk; subst. constructor; [split; assumption|now apply IH].
Qed.

Lemma existsb_key_combine (g : bytes -> bool) l : forall ts, length ts = length l ->
  existsb (fun i => g (i_key i)) (combine l ts) = existsb (fun kv => g (fst kv)) l.
Proof.
  induction l as [|kv l IH]; intros [|t ts] Hlen; try discriminate; [reflexivity|].
  cbn [combine existsb]. unfold i_key at 1. cbn [fst]. f_equal. apply IH. now injection Hlen.
Qed.

Definition no_bind (t : transport) : Prop := match t with TTcp t => t_bind t = None | _ => True end.

Lemma no_bind_of_class a ts : length ts = length (fields a) ->
  k_tcp_bind (tname (a_transport a)) (items_of a ts) = false -> no_bind (a_transport a).
Proof.
  intros Hlen H. unfold k_tcp_bind, items_of in H.
  rewrite (existsb_key_combine (fun k => lbeq k (B "bind")) _ _ Hlen) in H.
  destruct (a_transport a) as [u|[h b pt f n]| |x] eqn:E; cbn; try exact I.
  destruct b as [b|]; [|reflexivity]. exfalso. unfold fields in H. rewrite E in H.
  rewrite existsb_app in H. cbn [tfields t_nonce t_host t_port t_bind t_family tname] in H.
  destruct n; cbn in H; discriminate.
Qed.

Lemma digit_not_plus c : is_digit c = true -> beq c "+"%byte = false.
Proof. destruct c; vm_compute; intro H; try discriminate; reflexivity. Qed.

Lemma parse_unsigned_show limit n : (n <? limit)%N = true -> parse_unsigned limit (show_dec n) = Some n.
Proof.
  intro H. unfold parse_unsigned. pose proof (show_dec_nonempty n) as Hne. pose proof (show_dec_digits n) as Hd.
  destruct (show_dec n) as [|c r] eqn:E; [contradiction|]. cbn in Hd. apply andb_true_iff in Hd as [Hc _].
  rewrite (digit_not_plus c Hc). rewrite <- E. unfold show_dec. rewrite uint_of_bytes_of_uint.
  rewrite DecimalN.Unsigned.of_to, H. reflexivity.
Qed.

Lemma fields_no_nonce a :
  match a_transport a with TTcp t => t_nonce t = None | _ => True end ->
  Forall (fun kv => lbeq (fst kv) nonce_key = false) (fields a).
Proof.
  intro H. unfold fields. apply Forall_app. split; [|destruct (a_guid a); repeat constructor].
  destruct (a_transport a) as [[p|p|p|p]|[h b pt f n]|c p|[p a0 args]]; cbn [tfields].
  1-4: repeat constructor.
  - cbn in H. subst n. cbn [t_nonce t_host t_port t_bind t_family]. destruct b, f as [[|]|]; repeat constructor.
  - repeat constructor.
  - cbn [x_path x_arg0 x_args]. constructor; [reflexivity|]. apply Forall_app. split; [destruct a0; repeat constructor|].
    generalize 1%N. induction args as [|a1 r IH]; intro i; cbn; constructor; [reflexivity|apply IH].
Qed.

Lemma guid_option_fields a kts : wf a -> map fst kts = keys a ->
  assoc (B "guid") kts = assoc (B "guid") (fields a) -> guid_option kts = Ok (a_guid a).
Proof.
  intros Hwf Hk Hg. unfold guid_option. rewrite hm_get_assoc by (rewrite Hk; apply keys_nodup). rewrite Hg.
  unfold fields. rewrite assoc_app, tfields_no_guid. destruct (a_guid a) as [g|] eqn:E; [|reflexivity].
  cbn. change (validate_guid g) with (is_guid g). now rewrite (wf_guid a g Hwf E).
Qed.

(* the transport, when the options are the fields themselves *)
Lemma transport_fields_lit a : wf a -> no_bind (a_transport a) ->
  match a_transport a with TTcp t => t_nonce t = None | _ => True end ->
  transport_from_options (tname (a_transport a)) (fields a) = Ok (a_transport a).
Proof.
  intros Hwf Hb Hn. pose proof (keys_nodup a) as Hnd. unfold keys in Hnd.
  assert (Hget : forall k, hm_get k (fields a) = assoc k (fields a)) by (intro k; now apply hm_get_assoc).
  unfold wf, wfb in Hwf. apply andb_true_iff in Hwf as [_ Hwf]. clear Hnd.
  destruct a as [g t]. cbn [a_guid a_transport] in *. unfold fields in *. cbn [a_guid a_transport] in *.
  destruct t as [[p|p|p|p]|[h b pt f n]|c p|[p a0 args]].
  1-4: unfold transport_from_options; cbn [tname]; change (lbeq (B "unix") (B "unix")) with true; cbn iota;
       unfold unix_from_options; rewrite !Hget; destruct g; reflexivity.
  - cbn in Hb, Hn. subst b n. apply andb_true_iff in Hwf as [Hwf _]. apply andb_true_iff in Hwf as [Hp _].
    cbn [t_port] in Hp. unfold transport_from_options. cbn [tname t_nonce].
    change (lbeq (B "tcp") (B "unix")) with false. change (lbeq (B "tcp") (B "unixexec")) with false.
    change (lbeq (B "tcp") (B "tcp")) with true. cbn iota.
    unfold tcp_from_options, hm_contains. rewrite !Hget.
    destruct f as [[|]|], g; cbn -[N.ltb]; unfold parse_u16; rewrite (parse_unsigned_show _ _ Hp); reflexivity.
  - apply andb_true_iff in Hwf as [Hc Hp]. unfold transport_from_options. cbn [tname].
    change (lbeq (B "vsock") (B "unix")) with false. change (lbeq (B "vsock") (B "unixexec")) with false.
    change (lbeq (B "vsock") (B "tcp")) with false. change (lbeq (B "vsock") (B "nonce-tcp")) with false.
    change (lbeq (B "vsock") (B "vsock")) with true. cbn iota.
    unfold vsock_from_options. rewrite !Hget.
    destruct g; cbn -[N.ltb]; unfold parse_u32; rewrite (parse_unsigned_show _ _ Hc); cbn -[N.ltb];
      rewrite (parse_unsigned_show _ _ Hp); reflexivity.
  - unfold transport_from_options. cbn [tname].
    change (lbeq (B "unixexec") (B "unix")) with false. change (lbeq (B "unixexec") (B "unixexec")) with true. cbn iota.
    unfold unixexec_from_options. rewrite !Hget. cbn [tfields x_path x_arg0 x_args] in *.
    set (o := ((B "path", p) :: opt_field (B "argv0") a0 ++ arg_fields 1 args) ++ opt_field (B "guid") g) in *.
    assert (Ho : o = ((B "path", p) :: opt_field (B "argv0") a0) ++ arg_fields 1 args ++ opt_field (B "guid") g)
      by (unfold o; cbn [app]; now rewrite <- app_assoc).
    assert (Hpath : assoc (B "path") o = Some p) by reflexivity.
    assert (Ha0 : assoc (B "argv0") o = a0).
    { unfold o. cbn [app assoc]. change (lbeq (B "path") (B "argv0")) with false. cbn iota.
      rewrite !assoc_app. destruct a0 as [a0|]; [reflexivity|]. cbn [opt_field assoc].
      rewrite assoc_args_none; [destruct g; reflexivity|]. intros j Hj E. symmetry in E. apply akey_argv0 in E. lia. }
    rewrite Hpath, Ha0.
    rewrite (exec_args_fields (opt_field (B "guid") g)) with (args := args) (pre := (B "path", p) :: opt_field (B "argv0") a0).
    + reflexivity.
    + intro j. destruct g; reflexivity.
    + exact Ho.
    + exact Hget.
    + intros j Hj. cbn [assoc]. rewrite lbeq_neq by (intro E; symmetry in E; exact (akey_not_path j E)).
      destruct a0; [|reflexivity]. cbn [opt_field assoc]. rewrite lbeq_neq; [reflexivity|]. intro E. symmetry in E. apply akey_argv0 in E. lia.
    + unfold o. rewrite !app_length. cbn [length]. rewrite app_length, arg_fields_length. lia.
Qed.

Ltac lit_inv :=
  repeat match goal with
  | H : Forall2 LitItem (_ :: _) _ |- _ => inversion H; subst; clear H
  | H : Forall2 LitItem [] _ |- _ => inversion H; subst; clear H
  end;
  repeat match goal with
  | H : LitItem _ ?kt |- _ => destruct kt as [? ?]; destruct H as (? & ? & ? & ?); cbn [fst snd] in *; subst
  end;
  repeat match goal with
  | H : lbeq ?x nonce_key = false -> _ |- _ => first [specialize (H eq_refl); subst | clear H]
  end.

Lemma known_class_none name its : known_class name its = None ->
  k_tcp_bind name its = false /\ k_empty_value its = false /\ k_undecoded its = false.
Proof.
  unfold known_class. destruct (k_tcp_bind name its); [discriminate|].
  destruct (k_empty_value its); [discriminate|]. destruct (k_undecoded its); [discriminate|]. auto.
Qed.

Lemma Forall2_length' {A C} (R : A -> C -> Prop) l1 l2 : Forall2 R l1 l2 -> length l2 = length l1.
Proof. induction 1; cbn; congruence. Qed.

Theorem roundtrip_partial a ts : wf a -> Forall2 Enc (values a) ts -> ~ Known_C23 a ts ->
  parse (render_addr (tname (a_transport a)) (combine (keys a) ts)) = Ok a.
Proof.
  intros Hwf Henc Hk. unfold Known_C23 in Hk.
  assert (Hnone : known_class (tname (a_transport a)) (items_of a ts) = None)
    by (destruct (known_class _ _); [exfalso; apply Hk; discriminate|reflexivity]).
  clear Hk. apply known_class_none in Hnone as (Hb & He & Hu).
  assert (Hlen : length ts = length (fields a))
    by (rewrite (Forall2_length' _ _ _ Henc); unfold values; apply map_length).
  apply (no_bind_of_class a ts Hlen) in Hb. unfold values, keys, items_of in *.
  pose proof (lit_items _ _ Henc He Hu) as Hlit. clear Henc He Hu Hlen.
  pose proof (lit_ne _ _ (keys_good a) Hlit) as Hne.
  pose proof (enc_items_keys _ _ (lit_enc _ _ Hlit)) as Hkeys.
  rewrite (parse_render _ _ (tname_good _) Hne).
  set (kts := combine (map fst (fields a)) ts) in *. clearbody kts.
  destruct (match a_transport a with TTcp t => t_nonce t | _ => None end) as [n|] eqn:En.
  - (* nonce-tcp: the nonce file is decoded by the code *)
    destruct a as [g t]. cbn [a_transport a_guid] in *. destruct t as [| [h b pt f n'] | |]; try discriminate.
    cbn in En, Hb. subst n' b. pose proof Hwf as Hwf'. unfold wf, wfb in Hwf'. cbn [a_guid a_transport t_port t_host t_bind] in Hwf'.
    apply andb_true_iff in Hwf' as [Hg Hwf']. apply andb_true_iff in Hwf' as [Hwf' _].
    apply andb_true_iff in Hwf' as [Hp _]. clear Hne Hkeys Hwf.
    unfold fields in Hlit. cbn [a_transport a_guid tfields t_nonce t_host t_port t_bind t_family] in Hlit.
    destruct f as [[|]|], g as [g|]; cbn [opt_field option_map app family_name] in Hlit; lit_inv;
      match goal with He : Enc n ?tn |- _ => apply decode_percents_Enc in He end;
      unfold guid_option, transport_from_options, tcp_from_options, hm_contains; cbn -[N.ltb];
      change (validate_guid ?x) with (is_guid x); rewrite ?Hg; cbn -[N.ltb];
      unfold parse_u16; rewrite (parse_unsigned_show _ _ Hp); cbn -[N.ltb];
      match goal with He : decode_percents _ = Ok n |- _ => rewrite He end; reflexivity.
  - (* every other address: the options are the fields themselves *)
    assert (Hn : match a_transport a with TTcp t => t_nonce t = None | _ => True end)
      by (destruct (a_transport a); auto).
    rewrite (lit_all _ _ Hlit (fields_no_nonce a Hn)).
    rewrite (guid_option_fields a (fields a) Hwf eq_refl eq_refl).
    rewrite (transport_fields_lit a Hwf Hb Hn). destruct a; reflexivity.
Qed.

Corollary display_roundtrip_partial a : wf a -> ~ Known_C23_display a -> parse (show a) = Ok a.
Proof.
  intros Hwf Hk. rewrite (show_render a Hwf), <- combine_display.
  apply roundtrip_partial; [exact Hwf| |exact Hk].
  unfold display_texts. induction (values a); cbn; constructor; [apply encode_percents_Enc|assumption].
Qed.

(* ---------------------------------------------------------------- the fuel of the two loops is never exhausted: FromStr never panics *)
Lemma span_length f l : forall p q, span f l = (p, q) -> length q <= length l.
Proof.
  induction l as [|c l IH]; intros p q H; cbn in H.
  - injection H as <- <-. cbn. lia.
  - destruct (f c).
    + destruct (span f l) as [p' q'] eqn:E. injection H as <- <-. specialize (IH _ _ eq_refl). cbn. lia.
    + injection H as <- <-. lia.
Qed.

Lemma kv_length l p r : kv l = Some (p, r) -> length r <= length l.
Proof.
  unfold kv, take_while1. destruct (span is_alphanum l) as [k r0] eqn:E1. destruct k as [|k0 k]; [discriminate|].
  destruct r0 as [|e r1]; [discriminate|]. destruct (beq e "="%byte); [|discriminate].
  destruct (span not_comma r1) as [v r2] eqn:E2. destruct v; [discriminate|]. intro H. injection H as <- <-.
  apply span_length in E1, E2. cbn in *. lia.
Qed.

Lemma sep_loop_fuel fuel : forall acc inp, length inp < fuel -> sep_loop fuel acc inp <> None.
Proof.
  induction fuel as [|fuel IH]; intros acc inp Hf; [lia|]. cbn [sep_loop].
  destruct inp as [|c r]; [discriminate|]. destruct (beq c comma); [|discriminate].
  destruct (kv r) as [[p r']|] eqn:E; [|discriminate]. apply IH. apply kv_length in E. cbn in Hf. lia.
Qed.

Lemma separated0_total inp : separated0 inp <> None.
Proof. unfold separated0. destruct (kv inp) as [[p r]|]; [apply sep_loop_fuel; lia|discriminate]. Qed.

Lemma hm_get_in k o v : hm_get k o = Some v -> In k (map fst o).
Proof.
  unfold hm_get. destruct (find _ (rev o)) as [p|] eqn:E; [|discriminate]. intros _.
  apply find_some in E as [Hin Hk]. apply lbeq_eq in Hk. subst k. apply in_rev in Hin. now apply in_map.
Qed.

Lemma exec_args_none fuel : forall i o, exec_args fuel i o = None ->
  forall n, n < fuel -> In (akey (i + N.of_nat n)) (map fst o).
Proof.
  induction fuel as [|fuel IH]; intros i o H n Hn; [lia|]. cbn [exec_args] in H. fold (akey i) in H.
  destruct (hm_get (akey i) o) as [a|] eqn:E; [|discriminate].
  destruct (exec_args fuel (i + 1)%N o) eqn:E2; [discriminate|].
  destruct n as [|n].
  - replace (i + N.of_nat 0)%N with i by lia. now apply hm_get_in in E.
  - replace (i + N.of_nat (S n))%N with (i + 1 + N.of_nat n)%N by lia. apply (IH _ _ E2). lia.
Qed.

Lemma exec_args_total o : exec_args (S (length o)) 1%N o <> None.
Proof.
  intro H. pose proof (exec_args_none _ _ _ H) as Hin.
  set (ks := map (fun n => akey (1 + N.of_nat n)) (seq 0 (S (length o)))).
  assert (Hnd : NoDup ks).
  { apply FinFun.Injective_map_NoDup; [|apply seq_NoDup]. intros x y E. apply akey_inj in E. lia. }
  assert (Hincl : incl ks (map fst o)).
  { intros k Hk. apply in_map_iff in Hk as [n [<- Hn]]. apply in_seq in Hn. apply Hin. lia. }
  pose proof (NoDup_incl_length Hnd Hincl) as Hl. unfold ks in Hl. rewrite !map_length, seq_length in Hl. lia.
Qed.

Lemma transport_no_panic name o p : transport_from_options name o <> Panic p.
Proof.
  unfold transport_from_options.
  destruct (lbeq name (B "unix")).
  { unfold unix_from_options. destruct (hm_get (B "path") o), (hm_get (B "abstract") o), (hm_get (B "dir") o), (hm_get (B "tmpdir") o); discriminate. }
  destruct (lbeq name (B "unixexec")).
  { unfold unixexec_from_options. destruct (hm_get (B "path") o); [|discriminate].
    pose proof (exec_args_total o). destruct (exec_args (S (length o)) 1 o); [discriminate|contradiction]. }
  assert (Htcp : forall b, tcp_from_options o b <> Panic p).
  { intro b. unfold tcp_from_options. destruct (hm_contains (B "bind") o); [discriminate|].
    destruct (hm_get (B "host") o); [|discriminate]. destruct (hm_get (B "port") o); [|discriminate].
    destruct (parse_u16 _); [|discriminate].
    destruct (hm_get (B "family") o) as [f|]; [unfold family_from_str; destruct (lbeq f (B "ipv4")); [|destruct (lbeq f (B "ipv6"))]|]; cbn [bind]; try discriminate;
    (destruct (hm_get (B "noncefile") o) as [nf|]; [destruct (decode_percents_total nf) as [r [-> | ->]]|]; cbn [bind]; try discriminate;
     match goal with |- context [if ?c then _ else _] => destruct c; discriminate end). }
  destruct (lbeq name (B "tcp")). { specialize (Htcp false). destruct (tcp_from_options o false); cbn; congruence. }
  destruct (lbeq name (B "nonce-tcp")). { specialize (Htcp true). destruct (tcp_from_options o true); cbn; congruence. }
  destruct (lbeq name (B "vsock")); [|discriminate].
  unfold vsock_from_options. destruct (hm_get (B "cid") o); [|discriminate]. destruct (parse_u32 _); [|discriminate].
  destruct (hm_get (B "port") o); [|discriminate]. destruct (parse_u32 _); discriminate.
Qed.

Theorem parse_no_panic s p : parse s <> Panic p.
Proof.
  unfold parse. destruct (take_until1 ":"%byte s) as [[name r]|]; [|discriminate].
  destruct r as [|c r1]; [discriminate|]. pose proof (separated0_total r1) as Ht.
  destruct (separated0 r1) as [[opts rest]|]; [|contradiction]. destruct rest; [|discriminate].
  destruct (hm_get (B "guid") opts) as [g|]; [destruct (validate_guid g)|]; cbn [bind]; try discriminate;
    (pose proof (transport_no_panic name opts p) as Hp; destruct (transport_from_options name opts); cbn [bind]; congruence).
Qed.

(* ---------------------------------------------------------------- witnesses: the full statements fail *)
Definition w_undecoded : address := mkAddr None (TUnix (UFile (B "/tmp/a b"))).
Definition w_empty : address := mkAddr None (TUnixexec (mkExec (B "sh") None [B "-c"; []])).
Definition w_bind : address := mkAddr None (TTcp (mkTcp (B "h") (Some (B "b")) 80 None None)).

Lemma undecoded_value_refuted : exists a, wf a /\ parse (show a) <> Ok a.
Proof. exists w_undecoded. split; [reflexivity|]. vm_compute. discriminate. Qed.
Lemma empty_value_refuted : exists a, wf a /\ parse (show a) <> Ok a.
Proof. exists w_empty. split; [reflexivity|]. vm_compute. discriminate. Qed.
Lemma tcp_bind_refuted : exists a, wf a /\ parse (show a) <> Ok a.
Proof. exists w_bind. split; [reflexivity|]. vm_compute. discriminate. Qed.

(* what exactly happens on the witnesses *)
Lemma undecoded_value_witness :
  show w_undecoded = B "unix:path=/tmp/a%20b" /\
  parse (show w_undecoded) = Ok (mkAddr None (TUnix (UFile (B "/tmp/a%20b")))) /\
  Known_C23_display w_undecoded.
Proof. repeat split; try (vm_compute; reflexivity). vm_compute. discriminate. Qed.
Lemma empty_value_witness :
  show w_empty = B "unixexec:path=sh,argv1=-c,argv2=" /\ parse (show w_empty) = Err EAddress /\ Known_C23_display w_empty.
Proof. repeat split; try (vm_compute; reflexivity). vm_compute. discriminate. Qed.
Lemma tcp_bind_witness :
  show w_bind = B "tcp:host=h,port=80,bind=b" /\ parse (show w_bind) = Err EAddress /\ Known_C23_display w_bind.
Proof. repeat split; try (vm_compute; reflexivity). vm_compute. discriminate. Qed.

(* the decoding clause: an address string whose path is written with an escape *)
Lemma decoding_refuted : exists a s, wf a /\ Encodes a s /\ parse s <> Ok a.
Proof.
  exists w_undecoded, (B "unix:path=/tmp/a%20b"). split; [reflexivity|]. split.
  - exists [B "/tmp/a%20b"]. split; [|reflexivity]. constructor; [|constructor]. apply spec_decode_Enc. reflexivity.
  - vm_compute. discriminate.
Qed.

(* ---------------------------------------------------------------- non-vacuity *)
Definition ex_nonce : address :=
  mkAddr (Some (B "0123456789abcdef0123456789ABCDEF"))
         (TTcp (mkTcp (B "localhost") None 4142 (Some Ipv6) (Some (B "/a/file, with spaces%")))).
Definition ex_exec : address :=
  mkAddr None (TUnixexec (mkExec (B "/usr/bin/dbus-daemon") (Some (B "daemon"))
    [B "--session"; B "-x"; B "3"; B "4"; B "5"; B "6"; B "7"; B "8"; B "9"; B "10"; B "11"])).

Example ex_nonce_ok : wf ex_nonce /\ ~ Known_C23_display ex_nonce /\
  show ex_nonce = B "nonce-tcp:noncefile=/a/file%2c%20with%20spaces%25,host=localhost,port=4142,family=ipv6,guid=0123456789abcdef0123456789ABCDEF".
Proof. split; [reflexivity|]. split; [intro H; apply H; vm_compute; reflexivity|vm_compute; reflexivity]. Qed.
Example ex_exec_ok : wf ex_exec /\ ~ Known_C23_display ex_exec /\ parse (show ex_exec) = Ok ex_exec.
Proof. split; [reflexivity|]. split; [intro H; apply H; vm_compute; reflexivity|vm_compute; reflexivity]. Qed.
(* an alternative escaping of the same address (upper-case hex, escaped safe bytes) is still read back *)
Example ex_alt_encoding :
  let ts := [B "%2Fa/file%2C%20with%20spaces%25"; B "localhost"; B "4142"; B "ipv6"; B "0123456789abcdef0123456789ABCDEF"] in
  Forall2 Enc (values ex_nonce) ts /\ ~ Known_C23 ex_nonce ts.
Proof.
  split.
  - repeat constructor; apply spec_decode_Enc; reflexivity.
  - intro H; apply H; vm_compute; reflexivity.
Qed.
Example ex_percent : decode_percents (encode_percents [x00; "%"; "a"; xff; ","; " "]%byte) = Ok [x00; "%"; "a"; xff; ","; " "]%byte
  /\ encode_percents [x00; "%"; "a"; xff; ","; " "]%byte = B "%00%25a%ff%2c%20".
Proof. split; vm_compute; reflexivity. Qed.

(* ---------------------------------------------------------------- the class of Display's output, read off the value *)
Lemma existsb_ext {A} (f g : A -> bool) l : (forall x, f x = g x) -> existsb f l = existsb g l.
Proof. intro H. induction l as [|x l IH]; cbn; [reflexivity|]. now rewrite H, IH. Qed.
Lemma existsb_map' {A C} (f : C -> bool) (h : A -> C) l : existsb f (map h l) = existsb (fun x => f (h x)) l.
Proof. induction l as [|x l IH]; cbn; [reflexivity|]. now rewrite IH. Qed.

Lemma display_items a :
  items_of a (display_texts a) = map (fun kv => (kv, encode_percents (snd kv))) (fields a).
Proof.
  unfold items_of, display_texts, values. induction (fields a) as [|kv l IH]; cbn; [reflexivity|]. now rewrite IH.
Qed.

Lemma encode_empty v : match encode_percents v with [] => true | _ => false end = match v with [] => true | _ => false end.
Proof.
  destruct v as [|c v]; [reflexivity|]. pose proof (proj1 (encode_percents_nil (c :: v))) as H.
  destruct (encode_percents (c :: v)); [specialize (H eq_refl); discriminate|reflexivity].
Qed.

Lemma encode_same v : lbeq (encode_percents v) v = forallb unreserved v.
Proof.
  destruct (forallb unreserved v) eqn:E.
  - rewrite (encode_percents_id v E). apply lbeq_refl.
  - apply lbeq_neq. intro H. apply encode_percents_fixed in H. congruence.
Qed.

Lemma known_display_exact a : Known_C23_display a <-> display_known a = true.
Proof.
  unfold Known_C23_display, Known_C23, known_class, display_known.
  assert (H1 : k_tcp_bind (tname (a_transport a)) (items_of a (display_texts a)) = dk_bind a).
  { unfold k_tcp_bind, dk_bind. rewrite display_items, existsb_map'. reflexivity. }
  assert (H2 : k_empty_value (items_of a (display_texts a)) = dk_empty a).
  { unfold k_empty_value, dk_empty. rewrite display_items, existsb_map'. apply existsb_ext. intro kv.
    unfold i_text. cbn [snd]. apply encode_empty. }
  assert (H3 : k_undecoded (items_of a (display_texts a)) = dk_undecoded a).
  { unfold k_undecoded, dk_undecoded. rewrite display_items, existsb_map'. apply existsb_ext. intro kv.
    unfold i_text, i_key, i_val. cbn [fst snd]. now rewrite encode_same. }
  rewrite H1, H2, H3. destruct (dk_bind a), (dk_empty a), (dk_undecoded a); cbn;
    (split; [reflexivity|discriminate]) || (split; [intro H; exfalso; now apply H|discriminate]).
Qed.

Corollary display_denotes a : wf a -> spec_denote (show a) = Some a.
Proof. intro H. apply encodes_denote; [exact H|now apply show_encodes]. Qed.
