(* C23/Known.v — the known-deviation classes of C23 as decidable predicates.

   An address string is looked at as its transport name plus items (key, raw value v, text t) with
   [Enc v t].  The code deviates from the specification only when
     tcp_bind         a tcp / nonce-tcp address carries the key `bind` (Display writes it, FromStr refuses it);
     empty_value      some value text is empty (FromStr requires at least one byte after '=');
     undecoded_value  some value other than `noncefile` is written in a form different from its raw bytes,
                      i.e. uses a %XX escape (FromStr keeps the text as it is: only `noncefile` is unescaped).
   For the string produced by Display, t = encode_percents v, so the last two read: "some value is
   empty" / "some value other than the nonce file contains a byte outside [-0-9A-Za-z_/.\*]". *)
From ZV Require Import Base.Bytes Base.Res C23.Dec C23.Model C23.Spec.

Definition item := ((bytes * bytes) * bytes)%type.     (* ((key, raw value), text) *)
Definition i_key (i : item) : bytes := fst (fst i).
Definition i_val (i : item) : bytes := snd (fst i).
Definition i_text (i : item) : bytes := snd i.

Definition is_tcp_name (name : bytes) : bool := lbeq name (B "tcp") || lbeq name (B "nonce-tcp").

Definition k_tcp_bind (name : bytes) (its : list item) : bool :=
  is_tcp_name name && existsb (fun i => lbeq (i_key i) (B "bind")) its.
Definition k_empty_value (its : list item) : bool :=
  existsb (fun i => match i_text i with [] => true | _ => false end) its.
Definition k_undecoded (its : list item) : bool :=
  existsb (fun i => negb (lbeq (i_key i) (B "noncefile")) && negb (lbeq (i_text i) (i_val i))) its.

Definition known_class (name : bytes) (its : list item) : option bytes :=
  if k_tcp_bind name its then Some (B "tcp_bind")
  else if k_empty_value its then Some (B "empty_value")
  else if k_undecoded its then Some (B "undecoded_value")
  else None.

(* the items of an address value written with the texts ts *)
Definition items_of (a : address) (ts : list bytes) : list item := combine (fields a) ts.

(* Known_C23 for an address string of a written with texts ts, and for what Display prints *)
Definition Known_C23 (a : address) (ts : list bytes) : Prop :=
  known_class (tname (a_transport a)) (items_of a ts) <> None.
Definition display_texts (a : address) : list bytes := map encode_percents (values a).
Definition Known_C23_display (a : address) : Prop := Known_C23 a (display_texts a).

(* the same predicate for Display's output, read off the value alone:
   bind is set on a tcp address, or some value is empty, or some value other than the nonce file
   contains a byte that Display has to escape *)
Definition dk_bind (a : address) : bool :=
  is_tcp_name (tname (a_transport a)) && existsb (fun kv => lbeq (fst kv) (B "bind")) (fields a).
Definition dk_empty (a : address) : bool :=
  existsb (fun kv => match snd kv with [] => true | _ => false end) (fields a).
Definition dk_undecoded (a : address) : bool :=
  existsb (fun kv => negb (lbeq (fst kv) (B "noncefile")) && negb (forallb unreserved (snd kv))) (fields a).
Definition display_known (a : address) : bool := dk_bind a || dk_empty a || dk_undecoded a.
