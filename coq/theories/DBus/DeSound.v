(* DBus/DeSound.v — C03, soundness of the D-Bus decoder model (DBus/De.v): for every fuel, buffer, cursor,
   offset, byte order, depth counters and signature (all structs non-empty), whatever [de_any] accepts is a
   value of that signature, well-formed as far as the decoder checks ([wfL]), within the nesting limits, and
   the bytes it consumed are exactly the specification's marshalling ([Spec.marshal], descriptors by handle) of
   that value at that position.  Only the cursor moves.  No dependency on DBus/Run.v. *)
From ZV Require Import Base.Bytes Base.Res Base.Sig Base.SigParse Base.Utf8 Base.WinnowFacts
                       DBus.Val DBus.Spec DBus.Ser DBus.De DBus.SerFacts DBus.SerProofs DBus.DeNoPanic DBus.DeFacts
                       DBus.DeSoundBase DBus.DeSoundDefs.
From Coq Require Import Lia.
Local Open Scope N_scope.

(* the descriptor table handed to the decoder maps index i to handle i (what the harness and Run.v use) *)
Definition fds_id (l : list N) : Prop := forall i h, nthN l i = Some h -> h = i.

Definition dOK (d : depths) (v : dval) : Prop := depth_ok (d_struct d) (d_array d) (d_variant d) v = true.

(* every descriptor handle in the value is an entry of the table *)
Definition fdsOK (fds : list N) (v : dval) : Prop := Forall (fun h => nthN fds h = Some h) (fds_of v).

Lemma Forall_concat_map {A B} (P : B -> Prop) (f : A -> list B) l :
  Forall (fun x => Forall P (f x)) l -> Forall P (concat (map f l)).
Proof. induction 1 as [|x l Hx Hl IH]; cbn [map concat]; [constructor|]. apply Forall_app. split; assumption. Qed.

Definition Snd (st : dstate) (v : dval) (st' : dstate) : Prop :=
  frame st st' /\ t_dep st' = t_dep st /\ t_pos st <= t_pos st' /\ t_pos st' <= blen st /\
  vsig v = t_sig st /\ wfL v = true /\ dOK (t_dep st) v /\ fdsOK (t_fds st) v /\
  forall kk, seg (t_bytes st) (t_pos st) (t_pos st') = marshal (t_e st) ByHandle v (tabs st) kk.

Lemma blen_pos st p : blen (tset_pos st p) = blen st. Proof. reflexivity. Qed.
Lemma blen_dep st d : blen (tset_dep st d) = blen st. Proof. reflexivity. Qed.
Lemma blen_sig st g : blen (tset_sig st g) = blen st. Proof. reflexivity. Qed.
Lemma tabs_pos st p : tabs (tset_pos st p) = t_pos0 st + p. Proof. reflexivity. Qed.
Lemma tabs_dep st d : tabs (tset_dep st d) = tabs st. Proof. reflexivity. Qed.
Lemma tabs_sig st g : tabs (tset_sig st g) = tabs st. Proof. reflexivity. Qed.

Ltac simp_st :=
  repeat (progress (cbn [tset_pos tset_dep tset_sig t_cfg t_e t_pos0 t_bytes t_pos t_sig t_dep t_fds] in *;
                    rewrite ?blen_pos, ?blen_dep, ?blen_sig, ?tabs_pos, ?tabs_dep, ?tabs_sig in *)).

(* ---------- depth counters ---------- *)
Lemma inc_variant_inv d d' : inc_variant d = Ok d' ->
  d_struct d' = d_struct d /\ d_array d' = d_array d /\ d_variant d' = d_variant d + 1 /\
  d_struct d + d_array d + d_variant d + 1 <= 64.
Proof.
  unfold inc_variant, dcheck. cbn [d_struct d_array d_variant d_maybe].
  destruct (32 <? d_struct d); [discriminate|]. destruct (32 <? d_array d); [discriminate|].
  destruct (N.ltb_spec 64 (d_struct d + d_array d + (d_variant d + 1) + d_maybe d)); [discriminate|].
  intros Hq; inversion Hq; subst d'. cbn. repeat split; lia.
Qed.
Lemma inc_array_inv d d' : inc_array d = Ok d' ->
  d_struct d' = d_struct d /\ d_array d' = d_array d + 1 /\ d_variant d' = d_variant d /\ dec_array d' = d /\
  d_array d + 1 <= 32 /\ d_struct d + d_array d + d_variant d + 1 <= 64.
Proof.
  unfold inc_array, dcheck. cbn [d_struct d_array d_variant d_maybe].
  destruct (32 <? d_struct d); [discriminate|]. destruct (N.ltb_spec 32 (d_array d + 1)); [discriminate|].
  destruct (N.ltb_spec 64 (d_struct d + (d_array d + 1) + d_variant d + d_maybe d)); [discriminate|].
  intros Hq; inversion Hq; subst d'. cbn. repeat split; try lia.
  unfold dec_array. cbn. destruct d; cbn. f_equal. lia.
Qed.
Lemma inc_struct_inv d d' : inc_struct d = Ok d' ->
  d_struct d' = d_struct d + 1 /\ d_array d' = d_array d /\ d_variant d' = d_variant d /\ dec_struct d' = d /\
  d_struct d + 1 <= 32 /\ d_struct d + d_array d + d_variant d + 1 <= 64.
Proof.
  unfold inc_struct, dcheck. cbn [d_struct d_array d_variant d_maybe].
  destruct (N.ltb_spec 32 (d_struct d + 1)); [discriminate|]. destruct (32 <? d_array d); [discriminate|].
  destruct (N.ltb_spec 64 (d_struct d + 1 + d_array d + d_variant d + d_maybe d)); [discriminate|].
  intros Hq; inversion Hq; subst d'. cbn. repeat split; try lia.
  unfold dec_struct. cbn. destruct d; cbn. f_equal. lia.
Qed.

Lemma show_struct fs : show (SStruct fs) = B "(" ++ concat (map show fs) ++ B ")".
Proof. reflexivity. Qed.

Lemma marshal_variant e fm x pos k :
  marshal e fm (VVariant x) pos k =
  (nb (len (show (vsig x))) :: show (vsig x) ++ [x00])
  ++ marshal e fm x (pos + len (nb (len (show (vsig x))) :: show (vsig x) ++ [x00])) k.
Proof. reflexivity. Qed.

Lemma parse_padding_bound st al st' : parse_padding st al = Ok st' -> t_pos st <= blen st -> t_pos st' <= blen st.
Proof.
  unfold parse_padding. destruct (padn (tabs st) al =? 0); [intros Hq; inversion Hq; auto|].
  destruct (N.ltb_spec (blen st) (t_pos st + padn (tabs st) al)); [discriminate|].
  destruct (forallb _ _); [|discriminate]. intros Hq; inversion Hq. simp_st. lia.
Qed.

(* ---------- the element loops ---------- *)
Section LoopsSound.
  Variable de : dstate -> res cerr (dval * dstate).
  Hypothesis Hde : forall st v st', sig_ne (t_sig st) = true -> fds_id (t_fds st) ->
                                    de st = Ok (v, st') -> Snd st v st'.

  Lemma arr_loop_sound start n c :
    forall k st acc l st', t_sig st = c -> sig_ne c = true -> fds_id (t_fds st) -> t_pos st <= blen st ->
    arr_loop de (align_dbus c) start n c k st acc = Ok (l, st') ->
    exists l2, l = rev acc ++ l2 /\ frame st st' /\ t_dep st' = t_dep st /\ t_pos st <= t_pos st' /\
      t_pos st' = start + n /\ t_pos st' <= blen st /\
      Forall (fun x => wfL x = true /\ sig_eqb (vsig x) c = true /\ dOK (t_dep st) x /\ fdsOK (t_fds st) x) l2 /\
      forall kk, seg (t_bytes st) (t_pos st) (t_pos st') = mseq (t_e st) ByHandle l2 (tabs st) kk.
  Proof.
    induction k as [|k IH]; intros st acc l st' Hs Hne Hfd Hbd; [discriminate|]. cbn [arr_loop].
    destruct (N.eqb_spec (t_pos st) (start + n)) as [Epos|Epos].
    - intros H. inversion H; subst l st'. exists []. rewrite app_nil_r. split; [reflexivity|].
      split; [apply frame_refl|]. repeat split; try lia; [constructor|]. intros kk. now rewrite seg_nil.
    - destruct (parse_padding st (align_dbus c)) as [s1| |] eqn:E1; cbn [bind]; try discriminate.
      destruct (de s1) as [[v s2]| |] eqn:E2; cbn [bind]; try discriminate.
      destruct (N.ltb_spec (start + n) (t_pos s2)) as [Hov|Hov]; [discriminate|].
      destruct (sig_eqb (vsig v) c) eqn:Ev; cbn [negb]; [|discriminate].
      intros H.
      pose proof (parse_padding_bound _ _ _ E1 Hbd) as Hb1.
      destruct (parse_padding_ok _ _ _ E1) as [-> Hp]. simp_st.
      assert (P1 : sig_ne (t_sig (tset_pos st (t_pos st + padn (tabs st) (align_dbus c)))) = true) by (simp_st; congruence).
      destruct (Hde _ _ _ P1 Hfd E2) as (F2 & D2 & L2 & B2 & S2 & W2 & O2 & K2 & M2). simp_st.
      destruct F2 as (A1 & A2 & A3 & A4 & A5 & A6). simp_st.
      assert (Hs2 : t_sig s2 = c) by congruence.
      assert (Hfd2 : fds_id (t_fds s2)) by (rewrite A6; exact Hfd).
      assert (Hbd2 : t_pos s2 <= blen s2) by (unfold blen in *; rewrite A4; exact B2).
      destruct (IH s2 (v :: acc) l st' Hs2 Hne Hfd2 Hbd2 H) as (l2 & El & F3 & D3 & L3 & P3 & B3 & Fa & M3).
      exists (v :: l2). split; [rewrite El; cbn [rev]; now rewrite <- app_assoc|].
      split; [eapply frame_trans; [|exact F3]; repeat split; assumption|].
      split; [congruence|]. split; [lia|]. split; [exact P3|].
      split; [unfold blen in *; rewrite A4 in B3; exact B3|].
      split.
      + constructor; [repeat split; assumption|]. rewrite D2, A6 in Fa. exact Fa.
      + intros kk. rewrite (seg_cat _ _ (t_pos st + padn (tabs st) (align_dbus c))) by lia.
        rewrite (seg_cat _ _ (t_pos s2) (t_pos st')) by lia.
        assert (T1 : t_pos0 st + (t_pos st + padn (tabs st) (align_dbus c)) = tabs st + padn (tabs st) (align_dbus c))
          by (unfold tabs; lia).
        rewrite T1 in M2. rewrite Hp, (M2 kk).
        rewrite A4 in M3. rewrite (M3 (kk + nfds v)). cbn [mseq].
        rewrite (marshal_align _ _ v (tabs st)). rewrite (sig_eqb_eq _ _ Ev).
        rewrite <- app_assoc. f_equal. f_equal. rewrite A2. f_equal.
        rewrite len_app, len_pad, <- (M2 kk), len_seg by exact B2.
        unfold tabs in *. rewrite A3. lia.
  Qed.

  Lemma dict_loop_sound start n ks vs :
    forall k st acc l st', t_sig st = ks -> sig_ne ks = true -> sig_ne vs = true -> fds_id (t_fds st) ->
    t_pos st <= blen st ->
    dict_loop de start n ks vs k st acc = Ok (l, st') ->
    exists l2, l = rev acc ++ l2 /\ frame st st' /\ t_dep st' = t_dep st /\ t_pos st <= t_pos st' /\
      t_pos st' = start + n /\ t_pos st' <= blen st /\
      Forall (fun p => wfL (fst p) = true /\ wfL (snd p) = true /\ sig_eqb (vsig (fst p)) ks = true /\
                       sig_eqb (vsig (snd p)) vs = true /\ dOK (t_dep st) (fst p) /\ dOK (t_dep st) (snd p) /\
                       fdsOK (t_fds st) (fst p) /\ fdsOK (t_fds st) (snd p)) l2 /\
      forall kk, seg (t_bytes st) (t_pos st) (t_pos st') = mentries (t_e st) ByHandle l2 (tabs st) kk.
  Proof.
    induction k as [|k IH]; intros st acc l st' Hs Hnk Hnv Hfd Hbd; [discriminate|]. cbn [dict_loop].
    destruct (N.eqb_spec (t_pos st) (start + n)) as [Epos|Epos].
    - intros H. inversion H; subst l st'. exists []. rewrite app_nil_r. split; [reflexivity|].
      split; [apply frame_refl|]. repeat split; try lia; [constructor|]. intros kk. now rewrite seg_nil.
    - destruct (parse_padding st 8) as [s1| |] eqn:E1; cbn [bind]; try discriminate.
      destruct (de s1) as [[kv s2]| |] eqn:E2; cbn [bind]; try discriminate.
      destruct (N.ltb_spec (start + n) (t_pos s2)) as [Hov|Hov]; [discriminate|].
      destruct (de (tset_sig s2 vs)) as [[vv s3]| |] eqn:E3; cbn [bind]; try discriminate.
      destruct (N.ltb_spec (start + n) (t_pos s3)) as [Hov3|Hov3]; [discriminate|].
      destruct (sig_eqb (vsig kv) ks) eqn:Ek; cbn [negb orb]; [|discriminate].
      destruct (sig_eqb (vsig vv) vs) eqn:Ev; cbn [negb]; [|discriminate].
      intros H.
      pose proof (parse_padding_bound _ _ _ E1 Hbd) as Hb1.
      destruct (parse_padding_ok _ _ _ E1) as [-> Hp]. simp_st.
      assert (P1 : sig_ne (t_sig (tset_pos st (t_pos st + padn (tabs st) 8))) = true) by (simp_st; congruence).
      destruct (Hde _ _ _ P1 Hfd E2) as (F2 & D2 & L2 & B2 & S2 & W2 & O2 & K2 & M2). simp_st.
      destruct F2 as (A1 & A2 & A3 & A4 & A5 & A6). simp_st.
      assert (P2 : sig_ne (t_sig (tset_sig s2 vs)) = true) by (simp_st; exact Hnv).
      assert (Hfd2 : fds_id (t_fds (tset_sig s2 vs))) by (simp_st; rewrite A6; exact Hfd).
      destruct (Hde _ _ _ P2 Hfd2 E3) as (F3 & D3 & L3 & B3 & S3 & W3 & O3 & K3 & M3). simp_st.
      destruct F3 as (C1 & C2 & C3 & C4 & C5 & C6). simp_st.
      assert (Hs3 : t_sig (tset_sig s3 ks) = ks) by reflexivity.
      assert (Hfd3 : fds_id (t_fds (tset_sig s3 ks))) by (simp_st; rewrite C6, A6; exact Hfd).
      assert (Hbd3 : t_pos (tset_sig s3 ks) <= blen (tset_sig s3 ks)) by (simp_st; unfold blen in *; rewrite C4; exact B3).
      destruct (IH (tset_sig s3 ks) ((kv, vv) :: acc) l st' Hs3 Hnk Hnv Hfd3 Hbd3 H)
        as (l2 & El & F4 & D4 & L4 & P4 & B4 & Fa & M4). simp_st.
      exists ((kv, vv) :: l2). split; [rewrite El; cbn [rev]; now rewrite <- app_assoc|].
      split.
      { eapply frame_trans; [|exact F4]. repeat split; simp_st; congruence. }
      split; [congruence|]. split; [lia|]. split; [exact P4|].
      split; [unfold blen in *; rewrite C4, A4 in B4; exact B4|].
      split.
      + constructor.
        * cbn [fst snd]. rewrite D2 in O3. rewrite A6 in K3. repeat split; assumption.
        * rewrite D3, D2, C6, A6 in Fa. exact Fa.
      + intros kk. rewrite (seg_cat _ _ (t_pos st + padn (tabs st) 8)) by lia.
        rewrite (seg_cat _ _ (t_pos s2) (t_pos st')) by lia.
        rewrite (seg_cat _ (t_pos s2) (t_pos s3) (t_pos st')) by lia.
        rewrite A4, A2 in M3. rewrite C4, A4, C2, A2 in M4.
        rewrite Hp, (M2 kk), (M3 (kk + nfds kv)), (M4 (kk + nfds kv + nfds vv)). cbn [mentries].
        assert (T1 : t_pos0 st + (t_pos st + padn (tabs st) 8) = tabs st + len (pad (tabs st) 8))
          by (rewrite len_pad; unfold tabs; lia).
        assert (T2 : tabs s2 =
                     tabs st + len (pad (tabs st) 8) + len (marshal (t_e st) ByHandle kv (tabs st + len (pad (tabs st) 8)) kk)).
        { unfold tabs at 1. rewrite <- T1, <- (M2 kk), len_seg by exact B2. rewrite A3. lia. }
        assert (T3 : tabs s3 = tabs s2 + len (marshal (t_e st) ByHandle vv (tabs s2) (kk + nfds kv))).
        { unfold blen in B3. rewrite A4 in B3. rewrite <- (M3 (kk + nfds kv)), len_seg by exact B3.
          unfold tabs. rewrite C3. lia. }
        rewrite T3, T1, T2. reflexivity.
  Qed.

  Lemma struct_loop_sound :
    forall gs st acc l st', forallb sig_ne gs = true -> fds_id (t_fds st) -> (t_pos st <= blen st \/ gs <> []) ->
    struct_loop de gs st acc = Ok (l, st') ->
    exists l2, l = rev acc ++ l2 /\ frame st st' /\ t_dep st' = t_dep st /\ t_pos st <= t_pos st' /\
      t_pos st' <= blen st /\ map vsig l2 = gs /\
      Forall (fun x => wfL x = true /\ dOK (t_dep st) x /\ fdsOK (t_fds st) x) l2 /\
      forall kk, seg (t_bytes st) (t_pos st) (t_pos st') = mseq (t_e st) ByHandle l2 (tabs st) kk.
  Proof.
    induction gs as [|g gs IH]; intros st acc l st' Hne Hfd Hbd; cbn [struct_loop].
    - intros H. inversion H; subst l st'. exists []. rewrite app_nil_r. split; [reflexivity|].
      split; [apply frame_refl|]. destruct Hbd as [Hbd|Hbd]; [|congruence].
      repeat split; try lia; [constructor|]. intros kk. now rewrite seg_nil.
    - cbn [forallb] in Hne. apply andb_true_iff in Hne as [Hg Hne].
      destruct (de (tset_sig st g)) as [[v sub]| |] eqn:E2; cbn [bind]; try discriminate.
      intros H.
      assert (P1 : sig_ne (t_sig (tset_sig st g)) = true) by (simp_st; exact Hg).
      assert (Hfd1 : fds_id (t_fds (tset_sig st g))) by (simp_st; exact Hfd).
      destruct (Hde _ _ _ P1 Hfd1 E2) as (F2 & D2 & L2 & B2 & S2 & W2 & O2 & K2 & M2). simp_st.
      assert (Hbd2 : t_pos (tset_pos st (t_pos sub)) <= blen (tset_pos st (t_pos sub)) \/ gs <> []) by (left; simp_st; exact B2).
      destruct (IH (tset_pos st (t_pos sub)) (v :: acc) l st' Hne Hfd Hbd2 H)
        as (l2 & El & F3 & D3 & L3 & B3 & Mp & Fa & M3). simp_st.
      exists (v :: l2). split; [rewrite El; cbn [rev]; now rewrite <- app_assoc|].
      split; [eapply frame_trans; [apply (frame_pos st (t_pos sub))|exact F3]|].
      split; [exact D3|]. split; [lia|]. split; [exact B3|].
      split; [cbn [map]; congruence|].
      split; [constructor; [repeat split; assumption|exact Fa]|].
      intros kk. rewrite (seg_cat _ _ (t_pos sub)) by lia. rewrite (M2 kk), (M3 (kk + nfds v)). cbn [mseq].
      f_equal. f_equal. rewrite <- (M2 kk), len_seg by exact B2. unfold tabs. lia.
  Qed.
End LoopsSound.

(* ---------- leaves ---------- *)
Lemma snd_fixed st n (k : nat) x st' v : N.of_nat k = n -> n <> 0 ->
  rd_fixed st n = Ok (x, st') -> vsig v = t_sig st -> wfL v = true ->
  (match v with VVariant _ | VArray _ _ | VDict _ _ _ | VStruct _ => False | _ => True end) ->
  fdsOK (t_fds st) v ->
  (forall kk, marshal (t_e st) ByHandle v (tabs st) kk = pad (tabs st) n ++ enc (t_e st) k x) ->
  Snd st v st'.
Proof.
  intros Hk Hn0 E Hv Hw Hleaf Hfds Hm. destruct (rd_fixed_ok st n x st' k Hk E) as (-> & Hb & Hs & Hx). simp_st.
  split; [apply frame_pos|]. split; [reflexivity|]. simp_st. split; [lia|]. split; [exact Hb|].
  split; [exact Hv|]. split; [exact Hw|]. split.
  - unfold dOK. destruct v; try contradiction; reflexivity.
  - split; [exact Hfds|]. intros kk. rewrite Hs. symmetry. apply Hm.
Qed.

Lemma pow256_1 : 256 ^ 1 = 256. Proof. reflexivity. Qed.
Lemma pow256_2 : 256 ^ 2 = 65536. Proof. reflexivity. Qed.
Lemma pow256_4 : 256 ^ 4 = 4294967296. Proof. reflexivity. Qed.
Lemma pow256_8 : 256 ^ 8 = 18446744073709551616. Proof. reflexivity. Qed.

Lemma rd_fixed_lt st n x st' (k : nat) : N.of_nat k = n -> rd_fixed st n = Ok (x, st') -> x < 256 ^ n.
Proof. intros Hk E. now destruct (rd_fixed_ok st n x st' k Hk E) as (_ & _ & _ & Hx). Qed.

Lemma enc1 e x : x < 256 -> enc e 1 x = [nb x].
Proof. intros H. destruct e; cbn; now rewrite N.mod_small. Qed.

(* ---------- the decoder ---------- *)
Theorem de_any_sound : forall fuel st v st',
  sig_ne (t_sig st) = true -> fds_id (t_fds st) -> de_any fuel st = Ok (v, st') -> Snd st v st'.
Proof.
  induction fuel as [|f IH]; intros st v st' Hne Hfd; [discriminate|].
  destruct (t_sig st) as [ | | | | | | | | | | | | | | |c|ks vs|fs|c'] eqn:Hs.
  - (* unit *) cbn [de_any]. rewrite Hs. discriminate.
  - (* u8 *) cbn [de_any]. rewrite Hs. destruct (rd_fixed st 1) as [[x s1]| |] eqn:E; cbn [bind]; try discriminate.
    intros H; inversion H; subst v st'. pose proof (rd_fixed_lt st 1 x s1 1%nat eq_refl E) as Hx. rewrite pow256_1 in Hx.
    apply (snd_fixed st 1 1%nat x s1 (VU8 x) eq_refl ltac:(lia) E);
      [now rewrite Hs | cbn [wfL]; now apply N.ltb_lt | exact I | constructor | intros kk; cbn [marshal]; rewrite pad_1; now rewrite enc1].
  - (* bool *) cbn [de_any]. rewrite Hs. destruct (rd_fixed st 4) as [[x s1]| |] eqn:E; cbn [bind]; try discriminate.
    destruct (N.eqb_spec x 1) as [->|N1].
    + intros H; inversion H; subst v st'.
      apply (snd_fixed st 4 4%nat 1 s1 (VBool true) eq_refl ltac:(lia) E);
        [now rewrite Hs | reflexivity | exact I | constructor | intros kk; reflexivity].
    + destruct (N.eqb_spec x 0) as [->|N0]; [|discriminate].
      intros H; inversion H; subst v st'.
      apply (snd_fixed st 4 4%nat 0 s1 (VBool false) eq_refl ltac:(lia) E);
        [now rewrite Hs | reflexivity | exact I | constructor | intros kk; reflexivity].
  - (* i16 *) cbn [de_any]. rewrite Hs. destruct (rd_fixed st 2) as [[x s1]| |] eqn:E; cbn [bind]; try discriminate.
    intros H; inversion H; subst v st'. pose proof (rd_fixed_lt st 2 x s1 2%nat eq_refl E) as Hx. rewrite pow256_2 in Hx.
    destruct (twos_untwos16 x Hx) as [T1 T2].
    apply (snd_fixed st 2 2%nat x s1 (VI16 (untwos 16 x)) eq_refl ltac:(lia) E);
      [now rewrite Hs | exact T2 | exact I | constructor | intros kk; cbn [marshal]; now rewrite T1].
  - (* u16 *) cbn [de_any]. rewrite Hs. destruct (rd_fixed st 2) as [[x s1]| |] eqn:E; cbn [bind]; try discriminate.
    intros H; inversion H; subst v st'. pose proof (rd_fixed_lt st 2 x s1 2%nat eq_refl E) as Hx. rewrite pow256_2 in Hx.
    apply (snd_fixed st 2 2%nat x s1 (VU16 x) eq_refl ltac:(lia) E);
      [now rewrite Hs | cbn [wfL]; now apply N.ltb_lt | exact I | constructor | intros kk; reflexivity].
  - (* i32 *) cbn [de_any]. rewrite Hs. destruct (rd_fixed st 4) as [[x s1]| |] eqn:E; cbn [bind]; try discriminate.
    intros H; inversion H; subst v st'. pose proof (rd_fixed_lt st 4 x s1 4%nat eq_refl E) as Hx. rewrite pow256_4 in Hx.
    destruct (twos_untwos32 x Hx) as [T1 T2].
    apply (snd_fixed st 4 4%nat x s1 (VI32 (untwos 32 x)) eq_refl ltac:(lia) E);
      [now rewrite Hs | exact T2 | exact I | constructor | intros kk; cbn [marshal]; now rewrite T1].
  - (* u32 *) cbn [de_any]. rewrite Hs. destruct (rd_fixed st 4) as [[x s1]| |] eqn:E; cbn [bind]; try discriminate.
    intros H; inversion H; subst v st'. pose proof (rd_fixed_lt st 4 x s1 4%nat eq_refl E) as Hx. rewrite pow256_4 in Hx.
    apply (snd_fixed st 4 4%nat x s1 (VU32 x) eq_refl ltac:(lia) E);
      [now rewrite Hs | cbn [wfL]; now apply N.ltb_lt | exact I | constructor | intros kk; reflexivity].
  - (* i64 *) cbn [de_any]. rewrite Hs. destruct (rd_fixed st 8) as [[x s1]| |] eqn:E; cbn [bind]; try discriminate.
    intros H; inversion H; subst v st'. pose proof (rd_fixed_lt st 8 x s1 8%nat eq_refl E) as Hx. rewrite pow256_8 in Hx.
    destruct (twos_untwos64 x Hx) as [T1 T2].
    apply (snd_fixed st 8 8%nat x s1 (VI64 (untwos 64 x)) eq_refl ltac:(lia) E);
      [now rewrite Hs | exact T2 | exact I | constructor | intros kk; cbn [marshal]; now rewrite T1].
  - (* u64 *) cbn [de_any]. rewrite Hs. destruct (rd_fixed st 8) as [[x s1]| |] eqn:E; cbn [bind]; try discriminate.
    intros H; inversion H; subst v st'. pose proof (rd_fixed_lt st 8 x s1 8%nat eq_refl E) as Hx. rewrite pow256_8 in Hx.
    apply (snd_fixed st 8 8%nat x s1 (VU64 x) eq_refl ltac:(lia) E);
      [now rewrite Hs | cbn [wfL]; now apply N.ltb_lt | exact I | constructor | intros kk; reflexivity].
  - (* f64 *) cbn [de_any]. rewrite Hs. destruct (rd_fixed st 8) as [[x s1]| |] eqn:E; cbn [bind]; try discriminate.
    intros H; inversion H; subst v st'. pose proof (rd_fixed_lt st 8 x s1 8%nat eq_refl E) as Hx. rewrite pow256_8 in Hx.
    apply (snd_fixed st 8 8%nat x s1 (VF64 x) eq_refl ltac:(lia) E);
      [now rewrite Hs | cbn [wfL]; now apply N.ltb_lt | exact I | constructor | intros kk; reflexivity].
  - (* string *) cbn [de_any]. rewrite Hs. destruct (de_str st) as [[s s1]| |] eqn:E; cbn [bind]; try discriminate.
    intros H; inversion H; subst v st'.
    destruct (de_str_4 st s s1 (or_introl Hs) E) as (p' & -> & L1 & B1 & S1 & W1). simp_st.
    split; [apply frame_pos|]. split; [reflexivity|]. simp_st. split; [lia|]. split; [exact B1|].
    split; [now rewrite Hs|]. split; [exact W1|]. split; [reflexivity|]. split; [constructor|].
    intros kk. rewrite S1. reflexivity.
  - (* signature *) cbn [de_any]. rewrite Hs. destruct (de_str st) as [[s s1]| |] eqn:E; cbn [bind]; try discriminate.
    destruct (parse_sig (c_gv (t_cfg s1)) s) as [g|] eqn:Eg; [|discriminate].
    intros H; inversion H; subst v st'.
    destruct (de_str_1 st s s1 (or_introl Hs) E) as (-> & B1 & S1 & _ & L1). simp_st.
    destruct (parse_sig_inv _ _ _ Eg) as [_ Hshow].
    assert (Ht : sig_text g (negb (lbeq (show g) s)) = s /\
                 (negb (negb (lbeq (show g) s)) || match g with SStruct (_ :: _ :: _) => true | _ => false end) = true).
    { destruct (lbeq (show g) s) eqn:El.
      - apply lbeq_eq in El. split; [exact El|reflexivity].
      - destruct Hshow as [Hsh|(x & y & l & -> & Hsh)].
        + exfalso. subst s. assert (lbeq (show g) (show g) = true) by (now apply lbeq_eq). congruence.
        + split; [symmetry; exact Hsh|reflexivity]. }
    destruct Ht as [Ht1 Ht2].
    split; [apply frame_pos|]. split; [reflexivity|]. simp_st. split; [lia|]. split; [exact B1|].
    split; [now rewrite Hs|]. split.
    { cbn [wfL]. rewrite Ht1, Ht2, andb_true_r. now apply N.leb_le. }
    split; [reflexivity|]. split; [constructor|].
    intros kk. rewrite S1. cbn [marshal]. fold (sig_text g (negb (lbeq (show g) s))).
    now rewrite Ht1.
  - (* object path *) cbn [de_any]. rewrite Hs. destruct (de_str st) as [[s s1]| |] eqn:E; cbn [bind]; try discriminate.
    destruct (path_ok s) eqn:Hp; [|discriminate].
    intros H; inversion H; subst v st'.
    destruct (de_str_4 st s s1 (or_intror Hs) E) as (p' & -> & L1 & B1 & S1 & W1). simp_st.
    split; [apply frame_pos|]. split; [reflexivity|]. simp_st. split; [lia|]. split; [exact B1|].
    split; [now rewrite Hs|]. split.
    { cbn [wfL]. rewrite Hp. unfold str_ok in W1. apply andb_true_iff in W1 as [_ W1]. exact W1. }
    split; [reflexivity|]. split; [constructor|].
    intros kk. rewrite S1. reflexivity.
  - (* variant *)
    cbn [de_any]. rewrite Hs.
    destruct (de_str (tset_sig st SSig)) as [[s st1]| |] eqn:Eds; cbn [bind]; try discriminate.
    destruct (parse_sig (c_gv (t_cfg st)) s) as [g0|] eqn:Eg0; cbn [bind]; [|discriminate].
    destruct (nthN (t_bytes st) (t_pos st)) as [lb|] eqn:Elb; [|discriminate].
    destruct (N.ltb_spec (blen st) (t_pos st + 1 + bn lb)) as [Hb1|Hb1]; [discriminate|].
    destruct (parse_sig (c_gv (t_cfg st)) (takeN (bn lb) (dropN (t_pos st + 1) (t_bytes st)))) as [g|] eqn:Eg; [|discriminate].
    destruct (match g with SUnit => true | _ => false end) eqn:Eu; cbn [orb]; [discriminate|].
    destruct (N.eqb_spec (len (show g)) (bn lb)) as [Elen|Elen]; cbn [negb]; [|discriminate].
    destruct (N.ltb_spec (blen st) (t_pos st + 1 + bn lb + 1)) as [Hb2|Hb2]; [discriminate|].
    destruct (inc_variant (t_dep (tset_sig st1 SVariant))) as [d| |] eqn:Ei; cbn [bind]; try discriminate.
    destruct (de_any f _) as [[x inner']| |] eqn:Ein; cbn [bind]; try discriminate.
    intros H; inversion H; subst v st'. clear H.
    destruct (de_str_1 (tset_sig st SSig) s st1 (or_introl eq_refl) Eds) as (-> & B1 & S1 & S1' & L1). simp_st.
    assert (Hlb : lb = nb (len s)) by (eapply nthN_seg_head; eauto).
    assert (Hbn : bn lb = len s) by (rewrite Hlb; apply bn_nb; lia).
    rewrite Hbn in *. rewrite <- seg_add, S1' in Eg.
    destruct (parse_sig_inv _ _ _ Eg) as [Hneg Hshow].
    assert (Hsg : s = show g).
    { destruct Hshow as [Hsh|(x0 & y0 & l0 & -> & Hsh)]; [exact Hsh|]. exfalso.
      rewrite show_struct, <- Hsh, !len_app in Elen.
      change (len (B "(")) with 1 in Elen. change (len (B ")")) with 1 in Elen. lia. }
    destruct (inc_variant_inv _ _ Ei) as (V1 & V2 & V3 & V4). simp_st.
    apply IH in Ein; [|simp_st; exact Hneg|simp_st; exact Hfd].
    destruct Ein as (F2 & D2 & L2 & B2 & S2 & W2 & O2 & K2 & M2). simp_st.
    destruct F2 as (A1 & A2 & A3 & A4 & A5 & A6). simp_st.
    replace (t_pos st + 1 + len s + 1 + (t_pos inner' - (t_pos st + 1 + len s + 1))) with (t_pos inner') by lia.
    split; [repeat split; simp_st; congruence|]. split; [reflexivity|]. simp_st.
    split; [lia|]. split; [exact B2|]. split; [now rewrite Hs|]. split.
    { cbn [wfL]. rewrite W2, S2, <- Hsg. cbn [andb]. now apply N.leb_le. }
    split.
    { unfold dOK in *. cbn [depth_ok]. rewrite V1, V2, V3 in O2. rewrite O2, andb_true_r. apply N.leb_le. lia. }
    split; [exact K2|].
    intros kk. rewrite (seg_cat _ _ (t_pos st + 1 + len s + 1)) by lia. rewrite S1, (M2 kk).
    rewrite marshal_variant, S2, <- Hsg. f_equal. f_equal.
    rewrite len_cons, len_app. change (len [x00]) with 1. unfold tabs. cbn [t_pos0 t_pos]. lia.
  - (* fd *) cbn [de_any]. rewrite Hs. destruct (rd_fixed st 4) as [[x s1]| |] eqn:E; cbn [bind]; try discriminate.
    destruct (nthN (t_fds s1) x) as [h|] eqn:Eh; [|discriminate].
    intros H; inversion H; subst v st'.
    assert (Hh : h = x).
    { apply Hfd. destruct (rd_fixed_ok st 4 x s1 4%nat eq_refl E) as (-> & _). exact Eh. }
    subst h.
    apply (snd_fixed st 4 4%nat x s1 (VFd x) eq_refl ltac:(lia) E);
      [now rewrite Hs | reflexivity | exact I | | intros kk; reflexivity].
    constructor; [|constructor]. destruct (rd_fixed_ok st 4 x s1 4%nat eq_refl E) as (-> & _). exact Eh.
  - (* array *)
    rewrite (de_any_array f st c Hs).
    destruct (parse_padding st 4) as [s1| |] eqn:E1; cbn [bind]; try discriminate.
    destruct (inc_array (t_dep s1)) as [d| |] eqn:Ei; cbn [bind]; try discriminate.
    destruct (next_slice (tset_dep s1 d) 4) as [[b s2]| |] eqn:E2; cbn [bind]; try discriminate.
    destruct (align_of c) as [al| |] eqn:Ea; cbn [bind]; try discriminate.
    destruct (parse_padding s2 al) as [s3| |] eqn:E3; cbn [bind]; try discriminate.
    destruct (arr_loop _ _ _ _ _ _ _ _) as [[l s4]| |] eqn:E4; cbn [bind]; try discriminate.
    intros H; inversion H; subst v st'. clear H.
    assert (Hal : al = align_dbus c) by (destruct c; cbn in Ea; inversion Ea; reflexivity). subst al.
    destruct (parse_padding_ok _ _ _ E1) as [-> Hp1]. simp_st.
    destruct (inc_array_inv _ _ Ei) as (I1 & I2 & I3 & I4 & I5 & I6).
    destruct (next_slice_ok _ _ _ _ E2) as (-> & Hb2 & Hsb & Hlb). simp_st.
    assert (Hb3 : t_pos s3 <= blen st).
    { apply (parse_padding_bound _ _ _ E3). simp_st. exact Hb2. }
    destruct (parse_padding_ok _ _ _ E3) as [-> Hp3]. simp_st.
    cbn [sig_ne] in Hne.
    eapply (arr_loop_sound (de_any f) IH) in E4; [|reflexivity|exact Hne|simp_st; exact Hfd|simp_st; exact Hb3].
    destruct E4 as (l2 & El & F4 & D4 & L4 & P4 & B4 & Fa & M4). simp_st. cbn [rev app] in El. subst l2.
    destruct F4 as (A1 & A2 & A3 & A4 & A5 & A6). simp_st.
    set (q1 := t_pos st + padn (tabs st) 4) in *.
    set (q3 := q1 + 4 + padn (t_pos0 st + (q1 + 4)) (align_dbus c)) in *.
    split; [repeat split; simp_st; congruence|]. split; [simp_st; rewrite D4; exact I4|]. simp_st.
    split; [lia|]. split; [exact B4|]. split; [now rewrite Hs|]. split.
    { cbn [wfL]. apply forallb_forall. intros x Hin. rewrite Forall_forall in Fa.
      destruct (Fa x Hin) as (W & T & _). now rewrite W, T. }
    split.
    { unfold dOK. cbn [depth_ok]. apply andb_true_iff. split; [apply andb_true_iff; split; apply N.leb_le; lia|].
      apply forallb_forall. intros x Hin. rewrite Forall_forall in Fa. destruct (Fa x Hin) as (_ & _ & O & _).
      unfold dOK in O. rewrite I1, I2, I3 in O. exact O. }
    split.
    { unfold fdsOK. cbn [fds_of]. apply Forall_concat_map. eapply Forall_impl; [|exact Fa]. intros x (_ & _ & _ & K). exact K. }
    intros kk. rewrite (seg_cat _ _ q1) by lia. rewrite (seg_cat _ q1 (q1 + 4)) by lia.
    rewrite (seg_cat _ (q1 + 4) q3) by lia. rewrite Hp1, <- Hsb, Hp3, (M4 kk).
    rewrite marshal_array. cbv zeta. rewrite len_pad.
    assert (T1 : t_pos0 st + (q1 + 4) = tabs st + padn (tabs st) 4 + 4) by (unfold q1, tabs; lia).
    rewrite T1. rewrite len_pad.
    assert (T3 : t_pos0 st + q3 = tabs st + padn (tabs st) 4 + 4 + padn (tabs st + padn (tabs st) 4 + 4) (align_dbus c))
      by (unfold q3; rewrite T1; unfold q1, tabs; lia).
    rewrite T3. f_equal. f_equal.
    rewrite <- T3, <- (M4 kk), len_seg by exact B4.
    replace (t_pos s4 - q3) with (dec (t_e st) b) by lia.
    replace 4%nat with (length b) by lia. symmetry. apply enc_dec.
  - (* dict *)
    rewrite (de_any_dict f st ks vs Hs).
    destruct (parse_padding st 4) as [s1| |] eqn:E1; cbn [bind]; try discriminate.
    destruct (inc_array (t_dep s1)) as [d| |] eqn:Ei; cbn [bind]; try discriminate.
    destruct (next_slice (tset_dep s1 d) 4) as [[b s2]| |] eqn:E2; cbn [bind]; try discriminate.
    destruct (parse_padding s2 8) as [s3| |] eqn:E3; cbn [bind]; try discriminate.
    destruct (dict_loop _ _ _ _ _ _ _ _) as [[l s4]| |] eqn:E4; cbn [bind]; try discriminate.
    intros H; inversion H; subst v st'. clear H.
    destruct (parse_padding_ok _ _ _ E1) as [-> Hp1]. simp_st.
    destruct (inc_array_inv _ _ Ei) as (I1 & I2 & I3 & I4 & I5 & I6).
    destruct (next_slice_ok _ _ _ _ E2) as (-> & Hb2 & Hsb & Hlb). simp_st.
    assert (Hb3 : t_pos s3 <= blen st).
    { apply (parse_padding_bound _ _ _ E3). simp_st. exact Hb2. }
    destruct (parse_padding_ok _ _ _ E3) as [-> Hp3]. simp_st.
    cbn [sig_ne] in Hne. apply andb_true_iff in Hne as [Hnk Hnv].
    eapply (dict_loop_sound (de_any f) IH) in E4; [|reflexivity|exact Hnk|exact Hnv|simp_st; exact Hfd|simp_st; exact Hb3].
    destruct E4 as (l2 & El & F4 & D4 & L4 & P4 & B4 & Fa & M4). simp_st. cbn [rev app] in El. subst l2.
    destruct F4 as (A1 & A2 & A3 & A4 & A5 & A6). simp_st.
    set (q1 := t_pos st + padn (tabs st) 4) in *.
    set (q3 := q1 + 4 + padn (t_pos0 st + (q1 + 4)) 8) in *.
    split; [repeat split; simp_st; congruence|]. split; [simp_st; rewrite D4; exact I4|]. simp_st.
    split; [lia|]. split; [exact B4|]. split; [now rewrite Hs|]. split.
    { cbn [wfL]. apply forallb_forall. intros x Hin. rewrite Forall_forall in Fa.
      destruct (Fa x Hin) as (W1 & W2 & T1 & T2 & _). now rewrite W1, W2, T1, T2. }
    split.
    { unfold dOK. cbn [depth_ok]. apply andb_true_iff. split; [apply andb_true_iff; split; apply N.leb_le; lia|].
      apply forallb_forall. intros x Hin. rewrite Forall_forall in Fa. destruct (Fa x Hin) as (_ & _ & _ & _ & O1 & O2 & _).
      unfold dOK in O1, O2. rewrite I1, I2, I3 in O1, O2. now rewrite O1, O2. }
    split.
    { unfold fdsOK. cbn [fds_of]. apply Forall_concat_map. eapply Forall_impl; [|exact Fa].
      intros x (_ & _ & _ & _ & _ & _ & K1 & K2). apply Forall_app. split; assumption. }
    intros kk. rewrite (seg_cat _ _ q1) by lia. rewrite (seg_cat _ q1 (q1 + 4)) by lia.
    rewrite (seg_cat _ (q1 + 4) q3) by lia. rewrite Hp1, <- Hsb, Hp3, (M4 kk).
    rewrite marshal_dict. cbv zeta. rewrite len_pad.
    assert (T1 : t_pos0 st + (q1 + 4) = tabs st + padn (tabs st) 4 + 4) by (unfold q1, tabs; lia).
    rewrite T1. rewrite len_pad.
    assert (T3 : t_pos0 st + q3 = tabs st + padn (tabs st) 4 + 4 + padn (tabs st + padn (tabs st) 4 + 4) 8)
      by (unfold q3; rewrite T1; unfold q1, tabs; lia).
    rewrite T3. f_equal. f_equal.
    rewrite <- T3, <- (M4 kk), len_seg by exact B4.
    replace (t_pos s4 - q3) with (dec (t_e st) b) by lia.
    replace 4%nat with (length b) by lia. symmetry. apply enc_dec.
  - (* struct *)
    rewrite (de_any_struct f st fs Hs).
    destruct (parse_padding st 8) as [s1| |] eqn:E1; cbn [bind]; try discriminate.
    destruct (inc_struct (t_dep s1)) as [d| |] eqn:Ei; cbn [bind]; try discriminate.
    destruct (struct_loop _ _ _ _) as [[l s4]| |] eqn:E4; cbn [bind]; try discriminate.
    cbn [sig_ne] in Hne. apply andb_true_iff in Hne as [Hnn Hne].
    assert (Hfs : fs <> []) by (destruct fs; [discriminate|congruence]).
    replace (match fs with [] => s4 | _ :: _ => tset_dep s4 (dec_struct (t_dep s4)) end)
      with (tset_dep s4 (dec_struct (t_dep s4))) by (destruct fs; [congruence|reflexivity]).
    intros H; inversion H; subst v st'. clear H.
    destruct (parse_padding_ok _ _ _ E1) as [-> Hp1]. simp_st.
    destruct (inc_struct_inv _ _ Ei) as (I1 & I2 & I3 & I4 & I5 & I6).
    eapply (struct_loop_sound (de_any f) IH) in E4; [|exact Hne|simp_st; exact Hfd|right; exact Hfs].
    destruct E4 as (l2 & El & F4 & D4 & L4 & B4 & Mp & Fa & M4). simp_st. cbn [rev app] in El. subst l2.
    destruct F4 as (A1 & A2 & A3 & A4 & A5 & A6). simp_st.
    split; [repeat split; simp_st; congruence|]. split; [simp_st; rewrite D4; exact I4|]. simp_st.
    split; [lia|]. split; [exact B4|]. split; [cbn [vsig]; rewrite Mp; now rewrite Hs|]. split.
    { cbn [wfL]. apply andb_true_iff. split.
      - destruct l; [|reflexivity]. cbn in Mp. congruence.
      - apply forallb_forall. intros x Hin. rewrite Forall_forall in Fa. now destruct (Fa x Hin) as (W & _). }
    split.
    { unfold dOK. cbn [depth_ok]. apply andb_true_iff. split; [apply andb_true_iff; split; apply N.leb_le; lia|].
      apply forallb_forall. intros x Hin. rewrite Forall_forall in Fa. destruct (Fa x Hin) as (_ & O & _).
      unfold dOK in O. rewrite I1, I2, I3 in O. exact O. }
    split.
    { unfold fdsOK. cbn [fds_of]. apply Forall_concat_map. eapply Forall_impl; [|exact Fa]. intros x (_ & _ & K). exact K. }
    intros kk. rewrite (seg_cat _ _ (t_pos st + padn (tabs st) 8)) by lia. rewrite Hp1, (M4 kk).
    rewrite marshal_struct. cbv zeta. rewrite len_pad. f_equal. f_equal. unfold tabs. lia.
  - (* maybe *) cbn [de_any]. rewrite Hs. discriminate.
Qed.
