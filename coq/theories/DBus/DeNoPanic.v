(* DBus/DeNoPanic.v — C04 over the decoder model: which inputs can make it panic.
   Every slice, index and unreachable! of the decode path is an explicit outcome of DBus/De.v; the only Panic
   that survives is Signature::alignment(Format::DBus) on a maybe type, reachable only when the gvariant
   feature is compiled in (otherwise `m` does not parse). *)
From ZV Require Import Base.Bytes Base.Res Base.Sig Base.SigParse Base.Utf8 DBus.Val DBus.Spec DBus.Ser DBus.De.
From Coq Require Import Lia.
Local Open Scope N_scope.

Fixpoint maybe_free (s : sig) : bool :=
  match s with
  | SMaybe _ => false
  | SArray c => maybe_free c
  | SDict k v => maybe_free k && maybe_free v
  | SStruct fs => forallb maybe_free fs
  | _ => true
  end.

(* without the gvariant feature the parser never produces a maybe *)
Lemma simple_maybe_free c s : simple_of c = Some s -> maybe_free s = true.
Proof. destruct c; cbn; intros H; inversion H; reflexivity. Qed.

Lemma parse_maybe_free : forall fuel,
  (forall inp s r, parse_one fuel false inp = Some (s, r) -> maybe_free s = true) /\
  (forall inp l r, parse_many fuel false inp = (l, r) -> forallb maybe_free l = true).
Proof.
  induction fuel as [|f [IH1 IHm]]; split.
  - intros inp s r H. discriminate H.
  - intros inp l r H. inversion H. reflexivity.
  - intros inp s r H. cbn [parse_one] in H. destruct inp as [|c t]; [discriminate|].
    destruct (simple_of c) eqn:Es; [inversion H; subst; eapply simple_maybe_free; eauto|].
    destruct (beq c "a").
    + destruct t as [|c' r1]; [discriminate|]. destruct (beq c' "{").
      * destruct (parse_one f false r1) as [[k r2]|] eqn:Ek; [|discriminate].
        destruct (parse_one f false r2) as [[v [|c4 r4]]|] eqn:Ev; try discriminate.
        destruct (beq c4 "}"); [|discriminate]. inversion H; subst. cbn.
        rewrite (IH1 _ _ _ Ek), (IH1 _ _ _ Ev). reflexivity.
      * destruct (parse_one f false (c' :: r1)) as [[c0 r']|] eqn:E0; [|discriminate].
        inversion H; subst. cbn. eapply IH1; eauto.
    + destruct (beq c "(").
      * destruct (parse_many f false t) as [[|x l] [|c4 r']] eqn:Em; try discriminate.
        destruct (beq c4 ")"); [|discriminate]. inversion H; subst. cbn [maybe_free]. eapply IHm; eauto.
      * destruct (beq c "m"); [discriminate|]. destruct (beq c "h"); [|discriminate]. inversion H; reflexivity.
  - intros inp l r H. cbn [parse_many] in H. destruct (parse_one f false inp) as [[s r1]|] eqn:E1.
    + destruct (parse_many f false r1) as [l' r'] eqn:Em. inversion H; subst. cbn. rewrite (IH1 _ _ _ E1), (IHm _ _ _ Em). reflexivity.
    + inversion H. reflexivity.
Qed.

Lemma parse_sig_maybe_free s g : parse_sig false s = Some g -> maybe_free g = true.
Proof.
  unfold parse_sig. destruct s as [|c t]; [intros H; inversion H; reflexivity|].
  destruct (parse_many (sig_fuel (c :: t)) false (c :: t)) as [l r] eqn:Em.
  pose proof (proj2 (parse_maybe_free _) _ _ _ Em) as Hl.
  destruct l as [|x [|y l]]; [discriminate| |]; destruct r; try discriminate; intros H; inversion H; subst.
  - cbn in Hl. now rewrite andb_true_r in Hl.
  - exact Hl.
Qed.

(* small helpers: none of the primitive readers panics *)
Lemma parse_padding_np st al : is_panic (parse_padding st al) = false.
Proof.
  unfold parse_padding. destruct (padn (tabs st) al =? 0); [reflexivity|].
  destruct (blen st <? t_pos st + padn (tabs st) al); [reflexivity|].
  destruct (forallb _ _); reflexivity.
Qed.
Lemma next_slice_np st n : is_panic (next_slice st n) = false.
Proof. unfold next_slice. destruct (blen st <? t_pos st + n); reflexivity. Qed.

Ltac np_bind :=
  match goal with
  | |- is_panic (bind ?r _) = false => let E := fresh "E" in destruct r as [?| |] eqn:E; cbn [bind]; [|reflexivity|exfalso]
  end.

Lemma rd_fixed_np st n : is_panic (rd_fixed st n) = false.
Proof.
  unfold rd_fixed. pose proof (parse_padding_np st n) as H1.
  destruct (parse_padding st n) as [s1| |]; cbn [bind] in *; try reflexivity; try discriminate.
  pose proof (next_slice_np s1 n) as H2. destruct (next_slice s1 n) as [[b s2]| |]; cbn [bind] in *; try reflexivity; discriminate.
Qed.

Lemma de_str_np st : is_panic (de_str st) = false.
Proof.
  unfold de_str.
  assert (H0 : is_panic (match t_sig st with
                         | SSig | SVariant => let* (b, st0) := next_slice st 1 in Ok (dec LE b, st0)
                         | SStr | SObjPath => let* st0 := parse_padding st 4 in let* (b, st1) := next_slice st0 4 in Ok (dec (t_e st1) b, st1)
                         | _ => Err ESigMismatch
                         end) = false).
  { destruct (t_sig st); try reflexivity.
    - pose proof (parse_padding_np st 4). destruct (parse_padding st 4) as [s1| |]; cbn [bind] in *; try reflexivity; try discriminate.
      pose proof (next_slice_np s1 4). destruct (next_slice s1 4) as [[b s2]| |]; cbn [bind] in *; try reflexivity; discriminate.
    - pose proof (next_slice_np st 1). destruct (next_slice st 1) as [[b s2]| |]; cbn [bind] in *; try reflexivity; discriminate.
    - pose proof (parse_padding_np st 4). destruct (parse_padding st 4) as [s1| |]; cbn [bind] in *; try reflexivity; try discriminate.
      pose proof (next_slice_np s1 4). destruct (next_slice s1 4) as [[b s2]| |]; cbn [bind] in *; try reflexivity; discriminate.
    - pose proof (next_slice_np st 1). destruct (next_slice st 1) as [[b s2]| |]; cbn [bind] in *; try reflexivity; discriminate. }
  destruct (match t_sig st with SSig | SVariant => _ | SStr | SObjPath => _ | _ => _ end) as [[n s1]| |]; cbn [bind] in *; try reflexivity; try discriminate.
  pose proof (next_slice_np s1 n). destruct (next_slice s1 n) as [[s s2]| |]; cbn [bind] in *; try reflexivity; try discriminate.
  destruct (negb (nul_free s)); [reflexivity|].
  pose proof (next_slice_np s2 1). destruct (next_slice s2 1) as [[t s3]| |]; cbn [bind] in *; try reflexivity; try discriminate.
  destruct (negb (forallb (fun c : byte => bn c =? 0) t)); [reflexivity|]. destruct (utf8_valid s); reflexivity.
Qed.
