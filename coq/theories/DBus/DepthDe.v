(* DBus/DepthDe.v — C07, deserializer half: decoding a valid encoding of a well-formed value that exceeds the nesting
   limits of the specification fails with a depth error.  The values before the first one that exceeds are decoded by
   the completeness theorem of the decoder (C02, DBus/DeComplete.v), taken here as a Section hypothesis. *)
From ZV Require Import Base.Bytes Base.Res Base.Sig Base.SigParse Base.SigParseFacts Base.Utf8
  DBus.Val DBus.Spec DBus.Ser DBus.SerFacts DBus.SerProofs DBus.De DBus.DeFacts DBus.DeCompleteFacts DBus.DepthIff.
From Coq Require Import Lia.
Local Open Scope N_scope.

Lemma tabs_sig st g : tabs (tset_sig st g) = tabs st. Proof. reflexivity. Qed.
Lemma tabs_dep st d : tabs (tset_dep st d) = tabs st. Proof. reflexivity. Qed.

Lemma de_any_variant f st : t_sig st = SVariant ->
  de_any (S f) st =
  (let sig_start := t_pos st in
   let* (s, st1) := de_str (tset_sig st SSig) in
   let* _ := match parse_sig (c_gv (t_cfg st)) s with Some g => Ok g | None => Err ESigParse end in
   let st1 := tset_sig st1 SVariant in
   match nthN (t_bytes st) sig_start with
   | None => Panic PIndex
   | Some lb =>
       let sig_len := bn lb in
       let value_start := (sig_start + 1 + sig_len + 1)%N in
       if (blen st <? sig_start + 1 + sig_len)%N then Err EBounds else
       let slice := takeN sig_len (dropN (sig_start + 1) (t_bytes st)) in
       match parse_sig (c_gv (t_cfg st)) slice with
       | None => Err ESigParse
       | Some g =>
           if (match g with SUnit => true | _ => false end) || negb (len (show g) =? sig_len)%N then Err ESigMismatch else
           if (blen st <? value_start)%N then Err EBounds else
           let* d := inc_variant (t_dep st1) in
           let inner := {| t_cfg := t_cfg st; t_e := t_e st; t_pos0 := t_pos0 st; t_bytes := t_bytes st;
                           t_pos := value_start; t_sig := g; t_dep := d; t_fds := t_fds st |} in
           let* (v, inner') := de_any f inner in
           Ok (VVariant v, tset_pos st1 (t_pos st1 + (t_pos inner' - value_start)))
       end
   end).
Proof. intros H. cbn [de_any]. rewrite H. reflexivity. Qed.

Lemma vdepths_in l x : In x l -> (vdepth x <= vdepths l)%nat.
Proof. induction l as [|y l IH]; [contradiction|]. intros [->|H]; cbn [vdepths]; [lia|]. specialize (IH H). lia. Qed.

(* ---------- how much fuel the failing run needs ----------
   either the nesting depth of the value, or — however deep the value is — what is left up to the 64 containers the
   counters allow (the decoder stops at the first container beyond a limit; [de_fuel] = 70 is enough at top level) *)
Definition tot (d : depths) : N := d_struct d + d_array d + d_variant d.
Definition fuel_ok (fuel : nat) (d : depths) (v : dval) : Prop :=
  (vdepth v <= fuel)%nat \/ (1 <= fuel /\ 65 <= fuel + N.to_nat (tot d))%nat.

Lemma fuel_ok_pos fuel d v : fuel_ok fuel d v -> (1 <= fuel)%nat.
Proof. intros [H|[H _]]; [pose proof (vdepth_pos v); lia|exact H]. Qed.
Lemma fuel_ok_good f d x : tot d <= 64 -> fuel_ok f d x ->
  depth_ok (d_struct d) (d_array d) (d_variant d) x = true -> (vdepth x <= f)%nat.
Proof.
  intros Ht [H|[_ H]] Hd; [exact H|]. pose proof (depth_ok_vdepth x _ _ _ Ht Hd) as Hx. unfold tot in *. lia.
Qed.
Lemma fuel_ok_elems f d d' l (mk : list dval -> dval) :
  (forall x, In x l -> (S (vdepth x) <= vdepth (mk l))%nat) ->
  tot d' = tot d + 1 -> tot d' <= 64 -> fuel_ok (S f) d (mk l) -> Forall (fuel_ok f d') l.
Proof.
  intros Hin E Ht H. apply Forall_forall. intros x Hx. destruct H as [H|[_ H]].
  - left. specialize (Hin x Hx). lia.
  - right. lia.
Qed.

Section Exceeds.
  (* C02 (DBus/DeComplete.v [de_complete]): a valid encoding of a value within the limits decodes to that value *)
  Hypothesis Hcomplete : forall v fuel st fm k,
    wf v = true -> t_sig st = vsig v -> fits (t_dep st) v ->
    len (marshal (t_e st) fm v (tabs st) k) < 2 ^ 32 -> N.of_nat (length (t_fds st)) <= 2 ^ 32 ->
    at_ (t_bytes st) (t_pos st) (marshal (t_e st) fm v (tabs st) k) -> fds_match fm (t_fds st) k v ->
    (vdepth v <= fuel)%nat ->
    de_any fuel st = Ok (v, adv st (len (marshal (t_e st) fm v (tabs st) k))).

  Definition dbad (v : dval) : Prop :=
    forall fuel st fm k,
      wf v = true -> t_sig st = vsig v -> dep_ok (t_dep st) ->
      len (marshal (t_e st) fm v (tabs st) k) < 2 ^ 32 -> N.of_nat (length (t_fds st)) <= 2 ^ 32 ->
      at_ (t_bytes st) (t_pos st) (marshal (t_e st) fm v (tabs st) k) -> fds_match fm (t_fds st) k v ->
      fuel_ok fuel (t_dep st) v ->
      depth_ok (d_struct (t_dep st)) (d_array (t_dep st)) (d_variant (t_dep st)) v = false ->
      exists j, de_any fuel st = Err (EDepth j).

  Lemma dbad_leaf v : (match v with VVariant _ | VArray _ _ | VDict _ _ _ | VStruct _ => False | _ => True end) -> dbad v.
  Proof. intros H fuel st fm k _ _ _ _ _ _ _ _ Hd. destruct v; try contradiction; cbn in Hd; discriminate. Qed.

  (* ---------- structs ---------- *)
  Lemma struct_loop_bad f fm : forall l, Forall dbad l -> forall st k acc,
    forallb wf l = true -> dep_ok (t_dep st) ->
    len (mseq (t_e st) fm l (tabs st) k) < 2 ^ 32 -> N.of_nat (length (t_fds st)) <= 2 ^ 32 ->
    at_ (t_bytes st) (t_pos st) (mseq (t_e st) fm l (tabs st) k) ->
    fdsm fm (t_fds st) k (concat (map fds_of l)) ->
    tot (t_dep st) <= 64 -> Forall (fuel_ok f (t_dep st)) l ->
    forallb (depth_ok (d_struct (t_dep st)) (d_array (t_dep st)) (d_variant (t_dep st))) l = false ->
    exists j, struct_loop (de_any f) (map vsig l) st acc = Err (EDepth j).
  Proof.
    induction 1 as [|x l Hbx Hl IH]; intros st k acc Hw Hd Hlen Hfl Hat Hfd Htot Hv Hdep.
    - cbn in Hdep. discriminate.
    - cbn [forallb] in Hw, Hdep. apply andb_true_iff in Hw as [Hwx Hw]. apply Forall_cons_iff in Hv as [Hvx Hv].
      cbn [map concat mseq] in *. rewrite len_app in Hlen.
      set (b := marshal (t_e st) fm x (tabs st) k) in *.
      apply fdsm_app in Hfd as [Hfx Hfr].
      pose proof (at_app_l _ _ _ _ Hat) as Hatx. apply at_app_r in Hat.
      cbn [struct_loop].
      destruct (depth_ok (d_struct (t_dep st)) (d_array (t_dep st)) (d_variant (t_dep st)) x) eqn:Hdx.
      + cbn [andb] in Hdep.
        assert (G := Hcomplete x f (tset_sig st (vsig x)) fm k Hwx eq_refl (conj Hd Hdx)).
        rewrite tabs_sig in G. cbn [tset_sig t_e t_fds t_bytes t_pos] in G. fold b in G.
        specialize (G ltac:(lia) Hfl Hatx Hfx (fuel_ok_good _ _ _ Htot Hvx Hdx)). rewrite G. cbn [bind].
        change (tset_pos st (t_pos (adv (tset_sig st (vsig x)) (len b)))) with (adv st (len b)).
        assert (G2 := IH (adv st (len b)) (k + nfds x) (x :: acc) Hw Hd).
        rewrite tabs_adv in G2. cbn [adv tset_pos t_e t_fds t_bytes t_pos t_dep] in G2.
        apply G2; try assumption; lia.
      + assert (G := Hbx f (tset_sig st (vsig x)) fm k Hwx eq_refl Hd).
        rewrite tabs_sig in G. cbn [tset_sig t_e t_fds t_bytes t_pos] in G. fold b in G.
        destruct (G ltac:(lia) Hfl Hatx Hfx Hvx Hdx) as [j Hj]. rewrite Hj. cbn [bind]. eauto.
  Qed.

  Lemma dbad_struct l : Forall dbad l -> dbad (VStruct l).
  Proof.
    intros HF fuel st fm k Hw Hs Hd Hlen Hfl Hat Hfd Hv Hdep.
    pose proof (fuel_ok_pos _ _ _ Hv) as Hf1. destruct fuel as [|f]; [lia|].
    cbn [vsig] in Hs. rewrite (de_any_struct f st _ Hs).
    cbn [wf] in Hw. apply andb_true_iff in Hw as [_ Hw].
    rewrite marshal_struct in Hlen, Hat. cbv zeta in Hlen, Hat. rewrite len_app, len_pad in Hlen. rewrite len_pad in Hat.
    rewrite (parse_padding_at st 8 (at_app_l _ _ _ _ Hat)). cbn [bind].
    apply at_app_r in Hat. rewrite len_pad in Hat.
    set (p := padn (tabs st) 8) in *.
    change (t_dep (adv st p)) with (t_dep st).
    cbn [depth_ok] in Hdep.
    destruct ((d_struct (t_dep st) + 1 <=? 32) && (d_struct (t_dep st) + d_array (t_dep st) + d_variant (t_dep st) + 1 <=? 64)) eqn:Hlim.
    2:{ destruct (inc_struct_bad _ Hd Hlim) as [j Hj]. rewrite Hj. cbn [bind]. eauto. }
    cbn [andb] in Hdep. apply andb_true_iff in Hlim as [Ha Ht]. apply N.leb_le in Ha, Ht.
    destruct (inc_struct_ok (t_dep st) Hd Ha Ht) as (d' & Hinc & Hd' & E1 & E2 & E3).
    rewrite Hinc. cbn [bind].
    assert (G := struct_loop_bad f fm l HF (tset_dep (adv st p) d') k [] Hw Hd').
    rewrite tabs_dep, tabs_adv in G. cbn [tset_dep adv tset_pos t_e t_fds t_bytes t_pos t_dep] in G.
    rewrite E1, E2, E3 in G. unfold fds_match in Hfd. cbn [fds_of] in Hfd.
    assert (Et : tot d' = tot (t_dep st) + 1) by (unfold tot; lia).
    assert (Ht' : tot d' <= 64) by (unfold tot in *; lia).
    assert (Hvl : Forall (fuel_ok f d') l).
    { apply (fuel_ok_elems f (t_dep st) d' l VStruct); try assumption.
      intros x Hx. rewrite vdepth_struct. pose proof (vdepths_in l x Hx). lia. }
    destruct (G ltac:(lia) Hfl Hat Hfd Ht' Hvl Hdep) as [j Hj].
    cbn [adv tset_dep tset_pos t_cfg t_e t_pos0 t_bytes t_pos t_sig t_dep t_fds] in Hj |- *.
    rewrite Hj. cbn [bind]. eauto.
  Qed.

  (* ---------- arrays ---------- *)
  Lemma forallb_wf_sig el l : forallb (fun x => wf x && sig_eqb (vsig x) el) l = true -> forallb wf l = true.
  Proof.
    intros H. apply forallb_forall. intros x Hx. rewrite forallb_forall in H. specialize (H x Hx).
    now apply andb_true_iff in H as [H _].
  Qed.

  Lemma arr_loop_bad f fm el : forall l, Forall dbad l -> forall st k fuelk acc start n,
    forallb (fun x => wf x && sig_eqb (vsig x) el) l = true ->
    t_sig st = el -> dep_ok (t_dep st) ->
    len (mseq (t_e st) fm l (tabs st) k) < 2 ^ 32 -> N.of_nat (length (t_fds st)) <= 2 ^ 32 ->
    at_ (t_bytes st) (t_pos st) (mseq (t_e st) fm l (tabs st) k) ->
    t_pos st + len (mseq (t_e st) fm l (tabs st) k) = start + n ->
    fdsm fm (t_fds st) k (concat (map fds_of l)) ->
    tot (t_dep st) <= 64 -> Forall (fuel_ok f (t_dep st)) l -> (length l < fuelk)%nat ->
    forallb (depth_ok (d_struct (t_dep st)) (d_array (t_dep st)) (d_variant (t_dep st))) l = false ->
    exists j, arr_loop (de_any f) (align_dbus el) start n el fuelk st acc = Err (EDepth j).
  Proof.
    induction 1 as [|x l Hbx Hl IH]; intros st k fuelk acc start n Hw Hs Hd Hlen Hfl Hat Hend Hfd Htot Hv Hfu Hdep.
    - cbn in Hdep. discriminate.
    - cbn [forallb] in Hw, Hdep. apply andb_true_iff in Hw as [Hwx Hw]. apply andb_true_iff in Hwx as [Hwx Hsx].
      pose proof (sig_eqb_eq _ _ Hsx) as Hex. apply Forall_cons_iff in Hv as [Hvx Hv].
      cbn [map concat mseq length] in *. rewrite len_app in Hlen, Hend.
      set (b := marshal (t_e st) fm x (tabs st) k) in *.
      apply fdsm_app in Hfd as [Hfx Hfr].
      pose proof (at_app_l _ _ _ _ Hat) as Hatx. apply at_app_r in Hat.
      pose proof (marshal_nonempty (t_e st) fm x (tabs st) k Hwx) as Hne. fold b in Hne.
      destruct fuelk as [|k']; [lia|]. cbn [arr_loop].
      destruct (N.eqb_spec (t_pos st) (start + n)) as [E|_]; [lia|].
      pose proof (marshal_realign (t_e st) fm x (tabs st) k) as Hre. fold b in Hre. rewrite Hex in Hre.
      set (pd := padn (tabs st) (align_dbus el)) in *.
      set (b' := marshal (t_e st) fm x (tabs st + pd) k) in *.
      assert (Hlb : len b = pd + len b') by (rewrite Hre, len_app, len_pad; reflexivity).
      rewrite Hre in Hatx.
      rewrite (parse_padding_at st _ (at_app_l _ _ _ _ Hatx)). fold pd. cbn [bind].
      apply at_app_r in Hatx. rewrite len_pad in Hatx. fold pd in Hatx.
      assert (Hsx' : t_sig (adv st pd) = vsig x) by (cbn; congruence).
      destruct (depth_ok (d_struct (t_dep st)) (d_array (t_dep st)) (d_variant (t_dep st)) x) eqn:Hdx.
      + cbn [andb] in Hdep.
        assert (G := Hcomplete x f (adv st pd) fm k Hwx Hsx' (conj Hd Hdx)).
        rewrite tabs_adv in G. change (t_e (adv st pd)) with (t_e st) in G. change (t_fds (adv st pd)) with (t_fds st) in G.
        change (t_bytes (adv st pd)) with (t_bytes st) in G. change (t_pos (adv st pd)) with (t_pos st + pd) in G.
        fold pd b' in G.
        specialize (G ltac:(lia) Hfl Hatx Hfx (fuel_ok_good _ _ _ Htot Hvx Hdx)). rewrite G. cbn [bind].
        rewrite adv_adv. rewrite <- Hlb.
        change (t_pos (adv st (len b))) with (t_pos st + len b).
        destruct (N.ltb_spec (start + n) (t_pos st + len b)) as [|_]; [lia|].
        rewrite Hsx. cbn [negb].
        assert (G2 := IH (adv st (len b)) (k + nfds x) k' (x :: acc) start n Hw Hs Hd).
        rewrite tabs_adv in G2. change (t_e (adv st (len b))) with (t_e st) in G2.
        change (t_fds (adv st (len b))) with (t_fds st) in G2. change (t_bytes (adv st (len b))) with (t_bytes st) in G2.
        change (t_pos (adv st (len b))) with (t_pos st + len b) in G2. change (t_dep (adv st (len b))) with (t_dep st) in G2.
        apply G2; try assumption; lia.
      + assert (G := Hbx f (adv st pd) fm k Hwx Hsx' Hd).
        rewrite tabs_adv in G. change (t_e (adv st pd)) with (t_e st) in G. change (t_fds (adv st pd)) with (t_fds st) in G.
        change (t_bytes (adv st pd)) with (t_bytes st) in G. change (t_pos (adv st pd)) with (t_pos st + pd) in G.
        fold pd b' in G.
        destruct (G ltac:(lia) Hfl Hatx Hfx Hvx Hdx) as [j Hj]. rewrite Hj. cbn [bind]. eauto.
  Qed.

  Lemma dbad_array el l : Forall dbad l -> dbad (VArray el l).
  Proof.
    intros HF fuel st fm k Hw Hs Hd Hlen Hfl Hat Hfd Hv Hdep.
    pose proof (fuel_ok_pos _ _ _ Hv) as Hf1. destruct fuel as [|f]; [lia|].
    cbn [vsig] in Hs. rewrite (de_any_array f st _ Hs).
    cbn [wf] in Hw. apply andb_true_iff in Hw as [Hel Hw].
    rewrite marshal_array in Hlen, Hat. cbv zeta in Hlen, Hat. rewrite !len_pad in Hlen, Hat.
    rewrite !len_app, !len_pad, len_enc in Hlen. change (N.of_nat 4) with 4 in Hlen.
    set (p0 := padn (tabs st) 4) in *. set (p1 := padn (tabs st + p0 + 4) (align_dbus el)) in *.
    set (body := mseq (t_e st) fm l (tabs st + p0 + 4 + p1) k) in *.
    rewrite (parse_padding_at st 4 (at_app_l _ _ _ _ Hat)). fold p0. cbn [bind].
    apply at_app_r in Hat. rewrite len_pad in Hat. fold p0 in Hat.
    change (t_dep (adv st p0)) with (t_dep st).
    cbn [depth_ok] in Hdep.
    destruct ((d_array (t_dep st) + 1 <=? 32) && (d_struct (t_dep st) + d_array (t_dep st) + d_variant (t_dep st) + 1 <=? 64)) eqn:Hlim.
    2:{ destruct (inc_array_bad _ Hd Hlim) as [j Hj]. rewrite Hj. cbn [bind]. eauto. }
    cbn [andb] in Hdep. apply andb_true_iff in Hlim as [Ha Ht]. apply N.leb_le in Ha, Ht.
    destruct (inc_array_ok (t_dep st) Hd Ha Ht) as (d' & Hinc & Hdec & Hd' & E1 & E2 & E3).
    rewrite Hinc. cbn [bind].
    pose proof (at_app_l _ _ _ _ Hat) as Hat4. apply at_app_r in Hat. rewrite len_enc in Hat. change (N.of_nat 4) with 4 in Hat.
    set (s1 := tset_dep (adv st p0) d').
    rewrite (next_slice_at' s1 _ 4 Hat4) by (now rewrite len_enc). cbn [bind].
    change (t_e (adv s1 4)) with (t_e st). rewrite dec_enc4 by lia.
    rewrite (single_align el Hel). cbn [bind].
    set (s2 := adv s1 4).
    assert (T2 : tabs s2 = tabs st + p0 + 4) by (subst s2 s1; rewrite tabs_adv, tabs_dep, tabs_adv; reflexivity).
    assert (Hpp : parse_padding s2 (align_dbus el) = Ok (adv s2 p1)).
    { unfold p1. rewrite <- T2. apply parse_padding_at. rewrite T2. exact (at_app_l _ _ _ _ Hat). }
    rewrite Hpp. cbn [bind].
    apply at_app_r in Hat. rewrite len_pad in Hat. fold p1 in Hat.
    set (s4 := tset_sig (adv s2 p1) el).
    assert (T4 : tabs s4 = tabs st + p0 + 4 + p1) by (subst s4; rewrite tabs_sig, tabs_adv, T2; reflexivity).
    assert (G := arr_loop_bad f fm el l HF s4 k (S (length (t_bytes s4))) [] (t_pos s4) (len body) Hw eq_refl Hd').
    rewrite T4 in G. change (t_e s4) with (t_e st) in G. change (t_fds s4) with (t_fds st) in G.
    change (t_bytes s4) with (t_bytes st) in G. change (t_pos s4) with (t_pos st + p0 + 4 + p1) in G.
    change (t_dep s4) with d' in G. fold body in G. rewrite E1, E2, E3 in G.
    unfold fds_match in Hfd. cbn [fds_of] in Hfd.
    pose proof (mseq_length (t_e st) fm l (tabs st + p0 + 4 + p1) k (forallb_wf_sig _ _ Hw)) as Hml. fold body in Hml.
    pose proof (at_bound _ _ _ Hat) as Hbd. unfold len in Hbd at 2.
    assert (Et : tot d' = tot (t_dep st) + 1) by (unfold tot; lia).
    assert (Ht' : tot d' <= 64) by (unfold tot in *; lia).
    assert (Hvl : Forall (fuel_ok f d') l).
    { apply (fuel_ok_elems f (t_dep st) d' l (VArray el)); try assumption.
      intros x Hx. rewrite vdepth_array. pose proof (vdepths_in l x Hx). lia. }
    destruct (G ltac:(lia) Hfl Hat eq_refl Hfd Ht' Hvl ltac:(lia) Hdep) as [j Hj].
    fold s4. change (t_pos s4) with (t_pos st + p0 + 4 + p1). change (t_bytes s4) with (t_bytes st).
    rewrite Hj. cbn [bind]. eauto.
  Qed.

  (* ---------- dicts ---------- *)
  Lemma dict_loop_bad f fm ks vs : forall l, Forall (fun p => dbad (fst p) /\ dbad (snd p)) l ->
    forall st k fuelk acc start n,
    forallb (fun p => wf (fst p) && wf (snd p) && sig_eqb (vsig (fst p)) ks && sig_eqb (vsig (snd p)) vs) l = true ->
    t_sig st = ks -> dep_ok (t_dep st) ->
    len (mentries (t_e st) fm l (tabs st) k) < 2 ^ 32 -> N.of_nat (length (t_fds st)) <= 2 ^ 32 ->
    at_ (t_bytes st) (t_pos st) (mentries (t_e st) fm l (tabs st) k) ->
    t_pos st + len (mentries (t_e st) fm l (tabs st) k) = start + n ->
    fdsm fm (t_fds st) k (concat (map (fun p => fds_of (fst p) ++ fds_of (snd p)) l)) ->
    tot (t_dep st) <= 64 -> Forall (fun p => fuel_ok f (t_dep st) (fst p) /\ fuel_ok f (t_dep st) (snd p)) l ->
    (length l < fuelk)%nat ->
    forallb (fun p => depth_ok (d_struct (t_dep st)) (d_array (t_dep st)) (d_variant (t_dep st)) (fst p)
                      && depth_ok (d_struct (t_dep st)) (d_array (t_dep st)) (d_variant (t_dep st)) (snd p)) l = false ->
    exists j, dict_loop (de_any f) start n ks vs fuelk st acc = Err (EDepth j).
  Proof.
    induction 1 as [|[kx x] l [Hbk Hbx] Hl IH]; intros st k fuelk acc start n Hw Hs Hd Hlen Hfl Hat Hend Hfd Htot Hv Hfu Hdep.
    - cbn in Hdep. discriminate.
    - cbn [forallb fst snd] in Hw, Hdep. apply andb_true_iff in Hw as [Hw1 Hw].
      apply Forall_cons_iff in Hv as [[Hvk Hvx] Hv]. cbn [fst snd] in Hvk, Hvx.
      apply andb_true_iff in Hw1 as [Hw1 Hsx]. apply andb_true_iff in Hw1 as [Hw1 Hsk]. apply andb_true_iff in Hw1 as [Hwk Hwx].
      pose proof (sig_eqb_eq _ _ Hsk) as Hek. pose proof (sig_eqb_eq _ _ Hsx) as Hex.
      cbn [map concat mentries length fst snd] in *. rewrite !len_app, !len_pad in Hlen, Hend. rewrite !len_pad in Hat.
      set (p8 := padn (tabs st) 8) in *.
      set (b1 := marshal (t_e st) fm kx (tabs st + p8) k) in *.
      set (b2 := marshal (t_e st) fm x (tabs st + p8 + len b1) (k + nfds kx)) in *.
      apply fdsm_app in Hfd as [Hfe Hfr]. apply fdsm_app in Hfe as [Hfk Hfx].
      rewrite app_length, Nat2N.inj_add in Hfr.
      pose proof (at_app_l _ _ _ _ Hat) as Hat0. apply at_app_r in Hat. rewrite len_pad in Hat. fold p8 in Hat.
      pose proof (at_app_l _ _ _ _ Hat) as Hat1. apply at_app_r in Hat.
      pose proof (at_app_l _ _ _ _ Hat) as Hat2. apply at_app_r in Hat.
      pose proof (marshal_nonempty (t_e st) fm kx (tabs st + p8) k Hwk) as Hne. fold b1 in Hne.
      destruct fuelk as [|k']; [lia|]. cbn [dict_loop].
      destruct (N.eqb_spec (t_pos st) (start + n)) as [E|_]; [lia|].
      rewrite (parse_padding_at st 8 Hat0). fold p8. cbn [bind].
      assert (Hsk' : t_sig (adv st p8) = vsig kx) by (cbn; congruence).
      destruct (depth_ok (d_struct (t_dep st)) (d_array (t_dep st)) (d_variant (t_dep st)) kx) eqn:Hdk.
      2:{ assert (G := Hbk f (adv st p8) fm k Hwk Hsk' Hd).
          rewrite tabs_adv in G. change (t_e (adv st p8)) with (t_e st) in G. change (t_fds (adv st p8)) with (t_fds st) in G.
          change (t_bytes (adv st p8)) with (t_bytes st) in G. change (t_pos (adv st p8)) with (t_pos st + p8) in G.
          fold b1 in G.
          destruct (G ltac:(lia) Hfl Hat1 Hfk Hvk Hdk) as [j Hj]. rewrite Hj. cbn [bind]. eauto. }
      assert (G := Hcomplete kx f (adv st p8) fm k Hwk Hsk' (conj Hd Hdk)).
      rewrite tabs_adv in G. change (t_e (adv st p8)) with (t_e st) in G. change (t_fds (adv st p8)) with (t_fds st) in G.
      change (t_bytes (adv st p8)) with (t_bytes st) in G. change (t_pos (adv st p8)) with (t_pos st + p8) in G.
      fold b1 in G.
      specialize (G ltac:(lia) Hfl Hat1 Hfk (fuel_ok_good _ _ _ Htot Hvk Hdk)). rewrite G. cbn [bind].
      set (s2 := adv (adv st p8) (len b1)).
      change (t_pos s2) with (t_pos st + p8 + len b1).
      destruct (N.ltb_spec (start + n) (t_pos st + p8 + len b1)) as [|_]; [lia|].
      assert (T2 : tabs (tset_sig s2 vs) = tabs st + p8 + len b1) by (subst s2; rewrite tabs_sig, !tabs_adv; reflexivity).
      destruct (depth_ok (d_struct (t_dep st)) (d_array (t_dep st)) (d_variant (t_dep st)) x) eqn:Hdx.
      2:{ assert (G2 := Hbx f (tset_sig s2 vs) fm (k + nfds kx) Hwx ltac:(cbn; congruence) Hd).
          rewrite T2 in G2. change (t_e (tset_sig s2 vs)) with (t_e st) in G2. change (t_fds (tset_sig s2 vs)) with (t_fds st) in G2.
          change (t_bytes (tset_sig s2 vs)) with (t_bytes st) in G2. change (t_pos (tset_sig s2 vs)) with (t_pos st + p8 + len b1) in G2.
          fold b2 in G2.
          destruct (G2 ltac:(lia) Hfl Hat2 Hfx Hvx Hdx) as [j Hj]. rewrite Hj. cbn [bind]. eauto. }
      cbn [andb] in Hdep.
      assert (G2 := Hcomplete x f (tset_sig s2 vs) fm (k + nfds kx) Hwx ltac:(cbn; congruence) (conj Hd Hdx)).
      rewrite T2 in G2. change (t_e (tset_sig s2 vs)) with (t_e st) in G2. change (t_fds (tset_sig s2 vs)) with (t_fds st) in G2.
      change (t_bytes (tset_sig s2 vs)) with (t_bytes st) in G2. change (t_pos (tset_sig s2 vs)) with (t_pos st + p8 + len b1) in G2.
      fold b2 in G2.
      specialize (G2 ltac:(lia) Hfl Hat2 Hfx (fuel_ok_good _ _ _ Htot Hvx Hdx)). rewrite G2. cbn [bind].
      set (s3 := adv (tset_sig s2 vs) (len b2)).
      change (t_pos s3) with (t_pos st + p8 + len b1 + len b2).
      destruct (N.ltb_spec (start + n) (t_pos st + p8 + len b1 + len b2)) as [|_]; [lia|].
      rewrite Hsk, Hsx. cbn [negb orb].
      set (s4 := tset_sig s3 ks).
      assert (T4 : tabs s4 = tabs st + p8 + len b1 + len b2) by (subst s4 s3 s2; rewrite tabs_sig, tabs_adv, tabs_sig, !tabs_adv; reflexivity).
      assert (G3 := IH s4 (k + nfds kx + nfds x) k' ((kx, x) :: acc) start n Hw eq_refl Hd).
      rewrite T4 in G3. change (t_e s4) with (t_e st) in G3. change (t_fds s4) with (t_fds st) in G3.
      change (t_bytes s4) with (t_bytes st) in G3. change (t_pos s4) with (t_pos st + p8 + len b1 + len b2) in G3.
      change (t_dep s4) with (t_dep st) in G3.
      apply G3; try assumption; try lia.
      unfold nfds. replace (k + N.of_nat (length (fds_of kx)) + N.of_nat (length (fds_of x)))
        with (k + (N.of_nat (length (fds_of kx)) + N.of_nat (length (fds_of x)))) by lia. exact Hfr.
  Qed.

  Lemma forallb_wf_keys ks vs l :
    forallb (fun p => wf (fst p) && wf (snd p) && sig_eqb (vsig (fst p)) ks && sig_eqb (vsig (snd p)) vs) l = true ->
    forallb (fun q : dval * dval => wf (fst q)) l = true.
  Proof.
    intros H. apply forallb_forall. intros x Hx. rewrite forallb_forall in H. specialize (H x Hx).
    apply andb_true_iff in H as [H _]. apply andb_true_iff in H as [H _]. now apply andb_true_iff in H as [H _].
  Qed.
  Lemma vdepthp_in l p : In p l -> (vdepth (fst p) <= vdepthp l /\ vdepth (snd p) <= vdepthp l)%nat.
  Proof. induction l as [|y l IH]; [contradiction|]. intros [->|H]; cbn [vdepthp]; [lia|]. specialize (IH H). lia. Qed.

  Lemma dbad_dict ks vs l : Forall (fun p => dbad (fst p) /\ dbad (snd p)) l -> dbad (VDict ks vs l).
  Proof.
    intros HF fuel st fm k Hw Hs Hd Hlen Hfl Hat Hfd Hv Hdep.
    pose proof (fuel_ok_pos _ _ _ Hv) as Hf1. destruct fuel as [|f]; [lia|].
    cbn [vsig] in Hs. rewrite (de_any_dict f st _ _ Hs).
    cbn [wf] in Hw. apply andb_true_iff in Hw as [Hw0 Hw].
    rewrite marshal_dict in Hlen, Hat. cbv zeta in Hlen, Hat. rewrite !len_pad in Hlen, Hat.
    rewrite !len_app, !len_pad, len_enc in Hlen. change (N.of_nat 4) with 4 in Hlen.
    set (p0 := padn (tabs st) 4) in *. set (p1 := padn (tabs st + p0 + 4) 8) in *.
    set (body := mentries (t_e st) fm l (tabs st + p0 + 4 + p1) k) in *.
    rewrite (parse_padding_at st 4 (at_app_l _ _ _ _ Hat)). fold p0. cbn [bind].
    apply at_app_r in Hat. rewrite len_pad in Hat. fold p0 in Hat.
    change (t_dep (adv st p0)) with (t_dep st).
    cbn [depth_ok] in Hdep.
    destruct ((d_array (t_dep st) + 1 <=? 32) && (d_struct (t_dep st) + d_array (t_dep st) + d_variant (t_dep st) + 1 <=? 64)) eqn:Hlim.
    2:{ destruct (inc_array_bad _ Hd Hlim) as [j Hj]. rewrite Hj. cbn [bind]. eauto. }
    cbn [andb] in Hdep. apply andb_true_iff in Hlim as [Ha Ht]. apply N.leb_le in Ha, Ht.
    destruct (inc_array_ok (t_dep st) Hd Ha Ht) as (d' & Hinc & Hdec & Hd' & E1 & E2 & E3).
    rewrite Hinc. cbn [bind].
    pose proof (at_app_l _ _ _ _ Hat) as Hat4. apply at_app_r in Hat. rewrite len_enc in Hat. change (N.of_nat 4) with 4 in Hat.
    set (s1 := tset_dep (adv st p0) d').
    rewrite (next_slice_at' s1 _ 4 Hat4) by (now rewrite len_enc). cbn [bind].
    change (t_e (adv s1 4)) with (t_e st). rewrite dec_enc4 by lia.
    set (s2 := adv s1 4).
    assert (T2 : tabs s2 = tabs st + p0 + 4) by (subst s2 s1; rewrite tabs_adv, tabs_dep, tabs_adv; reflexivity).
    assert (Hpp : parse_padding s2 8 = Ok (adv s2 p1)).
    { unfold p1. rewrite <- T2. apply parse_padding_at. rewrite T2. exact (at_app_l _ _ _ _ Hat). }
    rewrite Hpp. cbn [bind].
    apply at_app_r in Hat. rewrite len_pad in Hat. fold p1 in Hat.
    set (s4 := tset_sig (adv s2 p1) ks).
    assert (T4 : tabs s4 = tabs st + p0 + 4 + p1) by (subst s4; rewrite tabs_sig, tabs_adv, T2; reflexivity).
    assert (G := dict_loop_bad f fm ks vs l HF s4 k (S (length (t_bytes s4))) [] (t_pos s4) (len body) Hw eq_refl Hd').
    rewrite T4 in G. change (t_e s4) with (t_e st) in G. change (t_fds s4) with (t_fds st) in G.
    change (t_bytes s4) with (t_bytes st) in G. change (t_pos s4) with (t_pos st + p0 + 4 + p1) in G.
    change (t_dep s4) with d' in G. fold body in G. rewrite E1, E2, E3 in G.
    unfold fds_match in Hfd. cbn [fds_of] in Hfd.
    pose proof (mentries_length (t_e st) fm l (tabs st + p0 + 4 + p1) k (forallb_wf_keys _ _ _ Hw)) as Hml. fold body in Hml.
    pose proof (at_bound _ _ _ Hat) as Hbd. unfold len in Hbd at 2.
    assert (Et : tot d' = tot (t_dep st) + 1) by (unfold tot; lia).
    assert (Ht' : tot d' <= 64) by (unfold tot in *; lia).
    assert (Hvl : Forall (fun p => fuel_ok f d' (fst p) /\ fuel_ok f d' (snd p)) l).
    { apply Forall_forall. intros p Hp. pose proof (vdepthp_in l p Hp) as [V1 V2]. unfold fuel_ok in Hv. rewrite vdepth_dict in Hv.
      destruct Hv as [Hv|[_ Hv]]; [split; left; lia|split; right; lia]. }
    destruct (G ltac:(lia) Hfl Hat eq_refl Hfd Ht' Hvl ltac:(lia) Hdep) as [j Hj].
    fold s4. change (t_pos s4) with (t_pos st + p0 + 4 + p1). change (t_bytes s4) with (t_bytes st).
    rewrite Hj. cbn [bind]. eauto.
  Qed.

  (* ---------- variants ---------- *)
  Lemma dbad_variant x : dbad x -> dbad (VVariant x).
  Proof.
    intros Hbx fuel st fm k Hw Hs Hd Hlen Hfl Hat Hfd Hv Hdep.
    pose proof (fuel_ok_pos _ _ _ Hv) as Hf1. destruct fuel as [|f]; [lia|].
    cbn [vsig] in Hs. rewrite (de_any_variant f st Hs). cbv zeta.
    cbn [wf] in Hw. apply andb_true_iff in Hw as [Hw Hl255]. apply andb_true_iff in Hw as [Hw Hso]. apply N.leb_le in Hl255.
    cbn [marshal] in Hlen, Hat.
    remember (vsig x) as g eqn:Eg. set (sg := show g) in *.
    set (hdr := nb (len sg) :: sg ++ [x00]) in *.
    rewrite len_app in Hlen.
    assert (Hlh : len hdr = 1 + len sg + 1) by (unfold hdr; rewrite len_cons, len_app; change (len [x00]) with 1; lia).
    pose proof (at_app_l _ _ _ _ Hat) as Hh. apply at_app_r in Hat.
    pose proof (at_bound _ _ _ Hh) as Hbd. rewrite Hlh in Hbd.
    (* stage Signature *)
    rewrite (de_str_1 (tset_sig st SSig) sg (or_introl eq_refl) Hl255 (ascii_show g) Hh). cbn [bind].
    pose proof (parse_show (c_gv (t_cfg st)) g (single_printable g Hso)) as Hps. fold sg in Hps.
    rewrite Hps. cbn [bind].
    (* stage Value: the length byte and the signature slice are read again *)
    rewrite (at_nth _ _ _ (at_cons_l _ _ _ _ Hh)).
    rewrite (bn_nb (len sg)) by lia.
    unfold blen.
    destruct (N.ltb_spec (len (t_bytes st)) (t_pos st + 1 + len sg)) as [|_]; [lia|].
    pose proof (at_app_l _ _ _ _ (at_cons_r _ _ _ _ Hh)) as Hsl.
    rewrite (at_slice _ _ _ Hsl). rewrite Hps.
    assert (Hgu : (match g with SUnit => true | _ => false end) = false) by (destruct g; try reflexivity; discriminate Hso).
    rewrite Hgu. fold sg. rewrite N.eqb_refl. cbn [negb orb].
    destruct (N.ltb_spec (len (t_bytes st)) (t_pos st + 1 + len sg + 1)) as [|_]; [lia|].
    match goal with |- context [inc_variant ?d] => change d with (t_dep st) end.
    cbn [depth_ok] in Hdep.
    destruct (d_struct (t_dep st) + d_array (t_dep st) + d_variant (t_dep st) + 1 <=? 64) eqn:Ht.
    2:{ destruct (inc_variant_bad _ Hd Ht) as [j Hj]. rewrite Hj. cbn [bind]. eauto. }
    cbn [andb] in Hdep. apply N.leb_le in Ht.
    destruct (inc_variant_ok (t_dep st) Hd Ht) as (d' & Hinc & Hd' & E1 & E2 & E3).
    rewrite Hinc. cbn [bind].
    match goal with |- context [de_any f ?i] => set (inner := i) end.
    assert (Ti : tabs inner = tabs st + len hdr) by (subst inner; unfold tabs; cbn [t_pos0 t_pos]; lia).
    assert (G := Hbx f inner fm k Hw Eg Hd').
    rewrite Ti in G. change (t_e inner) with (t_e st) in G. change (t_fds inner) with (t_fds st) in G.
    change (t_bytes inner) with (t_bytes st) in G. change (t_pos inner) with (t_pos st + 1 + len sg + 1) in G.
    change (t_dep inner) with d' in G. rewrite E1, E2, E3 in G.
    replace (t_pos st + 1 + len sg + 1) with (t_pos st + len hdr) in G by lia.
    assert (Hvx : fuel_ok f d' x).
    { assert (Et : tot d' = tot (t_dep st) + 1) by (unfold tot; lia).
      destruct Hv as [Hv|[_ Hv]]; [left; cbn [vdepth] in Hv; lia|right; unfold tot in *; lia]. }
    unfold fds_match in Hfd. cbn [fds_of] in Hfd.
    destruct (G ltac:(lia) Hfl Hat Hfd Hvx Hdep) as [j Hj]. rewrite Hj. cbn [bind]. eauto.
  Qed.

  (* ---------- all values ---------- *)
  Theorem de_bad : forall v, dbad v.
  Proof.
    induction v using dval_ind'.
    - now apply dbad_leaf.
    - now apply dbad_variant.
    - now apply dbad_array.
    - now apply dbad_dict.
    - now apply dbad_struct.
  Qed.
End Exceeds.

(* ---------- statements outside the section ---------- *)
(* the statement of C02 used above, literally DBus/DeComplete.v [de_complete] *)
Definition complete_statement : Prop :=
  forall v fuel st fm k,
    wf v = true -> t_sig st = vsig v -> fits (t_dep st) v ->
    len (marshal (t_e st) fm v (tabs st) k) < 2 ^ 32 -> N.of_nat (length (t_fds st)) <= 2 ^ 32 ->
    at_ (t_bytes st) (t_pos st) (marshal (t_e st) fm v (tabs st) k) -> fds_match fm (t_fds st) k v ->
    (vdepth v <= fuel)%nat ->
    de_any fuel st = Ok (v, adv st (len (marshal (t_e st) fm v (tabs st) k))).

Theorem de_exceeds : complete_statement ->
  forall v fuel st fm k,
    wf v = true -> t_sig st = vsig v -> dep_ok (t_dep st) ->
    len (marshal (t_e st) fm v (tabs st) k) < 2 ^ 32 -> N.of_nat (length (t_fds st)) <= 2 ^ 32 ->
    at_ (t_bytes st) (t_pos st) (marshal (t_e st) fm v (tabs st) k) -> fds_match fm (t_fds st) k v ->
    fuel_ok fuel (t_dep st) v ->
    depth_ok (d_struct (t_dep st)) (d_array (t_dep st)) (d_variant (t_dep st)) v = false ->
    exists j, de_any fuel st = Err (EDepth j).
Proof. intros Hc v. exact (de_bad Hc v). Qed.

(* exactly, and the counters come back *)
Theorem de_iff : complete_statement ->
  forall v fuel st fm k,
    wf v = true -> t_sig st = vsig v -> dep_ok (t_dep st) ->
    len (marshal (t_e st) fm v (tabs st) k) < 2 ^ 32 -> N.of_nat (length (t_fds st)) <= 2 ^ 32 ->
    at_ (t_bytes st) (t_pos st) (marshal (t_e st) fm v (tabs st) k) -> fds_match fm (t_fds st) k v ->
    (vdepth v <= fuel)%nat ->
    ((exists r, de_any fuel st = Ok r) <-> depth_ok (d_struct (t_dep st)) (d_array (t_dep st)) (d_variant (t_dep st)) v = true) /\
    ((exists j, de_any fuel st = Err (EDepth j)) <-> depth_ok (d_struct (t_dep st)) (d_array (t_dep st)) (d_variant (t_dep st)) v = false) /\
    (forall v' st', de_any fuel st = Ok (v', st') -> v' = v /\ t_dep st' = t_dep st).
Proof.
  intros Hc v fuel st fm k Hw Hs Hd Hl Hfl Hat Hfd Hv.
  destruct (depth_ok (d_struct (t_dep st)) (d_array (t_dep st)) (d_variant (t_dep st)) v) eqn:Hdep.
  - pose proof (Hc v fuel st fm k Hw Hs (conj Hd Hdep) Hl Hfl Hat Hfd Hv) as Hok.
    split; [|split].
    + split; [reflexivity|]. intros _. eexists. exact Hok.
    + split; [|discriminate]. intros [j Hj]. rewrite Hok in Hj. discriminate.
    + intros v' st' H. rewrite Hok in H. injection H as <- <-. split; reflexivity.
  - destruct (de_exceeds Hc v fuel st fm k Hw Hs Hd Hl Hfl Hat Hfd (or_introl Hv) Hdep) as [j Hj].
    split; [|split].
    + split; [|discriminate]. intros [r Hr]. rewrite Hj in Hr. discriminate.
    + split; [reflexivity|]. intros _. eauto.
    + intros v' st' H. rewrite Hj in H. discriminate.
Qed.

(* ---------- the entry points, with the decoder's own fuel ---------- *)
Lemma at_0 (b rest : bytes) : at_ (b ++ rest) 0 b.
Proof. exists [], rest. split; reflexivity. Qed.

Lemma de_any_top_exceeds : complete_statement -> forall c e pos fm v rest fds,
  wf v = true -> len (marshal e fm v pos 0) < 2 ^ 32 -> N.of_nat (length fds) <= 2 ^ 32 -> fds_match fm fds 0 v ->
  within_limits v = false ->
  exists j, de_any de_fuel (init_dstate c e pos (vsig v) (marshal e fm v pos 0 ++ rest) fds) = Err (EDepth j).
Proof.
  intros Hc c e pos fm v rest fds Hw Hl Hfl Hfd Hlim.
  apply (de_exceeds Hc v de_fuel (init_dstate c e pos (vsig v) (marshal e fm v pos 0 ++ rest) fds) fm 0 Hw eq_refl dep_ok0).
  - unfold tabs. cbn [init_dstate t_e t_pos0 t_pos]. rewrite N.add_0_r. exact Hl.
  - exact Hfl.
  - unfold tabs. cbn [init_dstate t_e t_pos0 t_pos t_bytes]. rewrite N.add_0_r. apply at_0.
  - exact Hfd.
  - right. unfold de_fuel, tot. cbn. lia.
  - exact Hlim.
Qed.

(* Data::deserialize::<Value>() on a valid encoding of a variant whose content exceeds the limits *)
Theorem de_value_top_exceeds : complete_statement -> forall c e pos fm x rest fds,
  wf (VVariant x) = true -> len (marshal e fm (VVariant x) pos 0) < 2 ^ 32 -> N.of_nat (length fds) <= 2 ^ 32 ->
  fds_match fm fds 0 (VVariant x) -> within_limits (VVariant x) = false ->
  exists j, de_value_top c e pos (marshal e fm (VVariant x) pos 0 ++ rest) fds = Err (EDepth j).
Proof.
  intros Hc c e pos fm x rest fds Hw Hl Hfl Hfd Hlim. unfold de_value_top.
  destruct (de_any_top_exceeds Hc c e pos fm (VVariant x) rest fds Hw Hl Hfl Hfd Hlim) as [j Hj].
  cbn [vsig] in Hj. rewrite Hj. cbn [bind]. eauto.
Qed.

(* Data::deserialize_for_dynamic_signature::<Structure>() on a valid message body *)
Theorem de_struct_top_exceeds : complete_statement -> forall c e pos fm l rest fds,
  wf (VStruct l) = true -> len (marshal e fm (VStruct l) pos 0) < 2 ^ 32 -> N.of_nat (length fds) <= 2 ^ 32 ->
  fds_match fm fds 0 (VStruct l) -> within_limits (VStruct l) = false ->
  exists j, de_struct_top c e pos (vsig (VStruct l)) (marshal e fm (VStruct l) pos 0 ++ rest) fds = Err (EDepth j).
Proof.
  intros Hc c e pos fm l rest fds Hw Hl Hfl Hfd Hlim. unfold de_struct_top.
  destruct (de_any_top_exceeds Hc c e pos fm (VStruct l) rest fds Hw Hl Hfl Hfd Hlim) as [j Hj].
  cbn [vsig] in Hj |- *. rewrite Hj. cbn [bind]. eauto.
Qed.

(* ---------- non-vacuity (computed, no hypothesis) ---------- *)
Example de_tower32 : exists n,
  de_value_top {| c_gv := false; c_oaa := false |} LE 3 (marshal_rx LE 3 (VVariant (atower 32))) [] = Ok (atower 32, n).
Proof. eexists. vm_compute. reflexivity. Qed.
Example de_tower33 :
  wf (VVariant (atower 33)) = true /\ within_limits (VVariant (atower 33)) = false /\
  de_value_top {| c_gv := false; c_oaa := false |} LE 3 (marshal_rx LE 3 (VVariant (atower 33))) [] = Err (EDepth DArray).
Proof. repeat split; vm_compute; reflexivity. Qed.
(* a value far deeper than the decoder's fuel still gets the depth error, not fuel exhaustion *)
Example de_tower100 :
  de_value_top {| c_gv := false; c_oaa := false |} BE 0 (marshal_rx BE 0 (VVariant (atower 100))) [] = Err (EDepth DArray).
Proof. vm_compute. reflexivity. Qed.
