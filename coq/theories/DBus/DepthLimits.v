(* DBus/DepthLimits.v — the numbers in the counter check of the serializer/deserializer model ([dcheck], DBus/Ser.v) and
   in the specification's nesting rule ([depth_ok], DBus/Spec.v) are the constants of zvariant/src/container_depths.rs
   as re-read by tools/gen_depth_consts.py (DBus/GeneratedDepth.v). *)
From ZV Require Import Base.Bytes Base.Res Base.Sig DBus.Val DBus.Spec DBus.Ser DBus.GeneratedDepth.
From Coq Require Import Lia.
Local Open Scope N_scope.

Lemma dcheck_ok_iff d :
  dcheck d = Ok d <-> (d_struct d <= 32 /\ d_array d <= 32 /\ d_struct d + d_array d + d_variant d + d_maybe d <= 64).
Proof.
  unfold dcheck.
  destruct (N.ltb_spec 32 (d_struct d)); [split; [discriminate|lia]|].
  destruct (N.ltb_spec 32 (d_array d)); [split; [discriminate|lia]|].
  destruct (N.ltb_spec 64 (d_struct d + d_array d + d_variant d + d_maybe d)); [split; [discriminate|lia]|].
  split; [lia|reflexivity].
Qed.

Lemma dcheck_err d r : dcheck d = r -> r = Ok d \/ exists k, r = Err (EDepth k).
Proof.
  unfold dcheck. intros <-.
  destruct (32 <? d_struct d); [right; eauto|]. destruct (32 <? d_array d); [right; eauto|].
  destruct (64 <? _); [right; eauto|]. left; reflexivity.
Qed.

Lemma limits_are_spec :
  (max_struct_depth, max_array_depth, max_total_depth) = (32, 32, 64) ->
  (forall d : depths,
     dcheck d = Ok d <->
     (d_struct d <= max_struct_depth /\ d_array d <= max_array_depth /\
      d_struct d + d_array d + d_variant d + d_maybe d <= max_total_depth)) /\
  (forall d : depths, dcheck d = Ok d \/ exists k, dcheck d = Err (EDepth k)) /\
  (forall ds da dv x,
     depth_ok ds da dv (VVariant x) = (ds + da + dv + 1 <=? max_total_depth) && depth_ok ds da (dv + 1) x) /\
  (forall ds da dv el l,
     depth_ok ds da dv (VArray el l)
     = (da + 1 <=? max_array_depth) && (ds + da + dv + 1 <=? max_total_depth) && forallb (depth_ok ds (da + 1) dv) l) /\
  (forall ds da dv ks vs l,
     depth_ok ds da dv (VDict ks vs l)
     = (da + 1 <=? max_array_depth) && (ds + da + dv + 1 <=? max_total_depth)
       && forallb (fun p => depth_ok ds (da + 1) dv (fst p) && depth_ok ds (da + 1) dv (snd p)) l) /\
  (forall ds da dv l,
     depth_ok ds da dv (VStruct l)
     = (ds + 1 <=? max_struct_depth) && (ds + da + dv + 1 <=? max_total_depth) && forallb (depth_ok (ds + 1) da dv) l).
Proof.
  intros H.
  assert (Hs : max_struct_depth = 32) by exact (f_equal (fun t => fst (fst t)) H).
  assert (Ha : max_array_depth = 32) by exact (f_equal (fun t => snd (fst t)) H).
  assert (Ht : max_total_depth = 64) by exact (f_equal snd H).
  rewrite Hs, Ha, Ht.
  split; [intros d; apply dcheck_ok_iff|].
  split; [intros d; destruct (dcheck_err d _ eq_refl) as [E|[k E]]; [left|right; exists k]; exact E|].
  repeat split.
Qed.
