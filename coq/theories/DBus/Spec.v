(* DBus/Spec.v — the D-Bus marshalling rules, written from the specification ("Marshaling (Wire
   Format)"): per-type alignment and size, zero padding to the type's alignment relative to the
   start of the message, u32 length prefixes, nul terminators, array length = bytes of the element
   data excluding the padding after the length, dict entries and structs 8-aligned, variants =
   signature + value.  Shares nothing with the model of zvariant's serializer (DBus/Ser.v). *)
From ZV Require Import Base.Bytes Base.Sig Base.SigParse Base.Utf8 DBus.Val.

Inductive endian := LE | BE.

Definition padn (pos align : N) : N := ((align - pos mod align) mod align)%N.
Definition zeros (n : N) : bytes := repeat x00 (N.to_nat n).
Definition pad (pos align : N) : bytes := zeros (padn pos align).

Fixpoint le_bytes (n : nat) (x : N) : bytes :=
  match n with O => [] | S k => nb (x mod 256) :: le_bytes k (x / 256) end.
Definition enc (e : endian) (n : nat) (x : N) : bytes :=
  match e with LE => le_bytes n x | BE => rev (le_bytes n x) end.
Definition twos (bits : N) (z : Z) : N := Z.to_N (z mod 2 ^ Z.of_N bits).

(* descriptors in traversal order *)
Fixpoint fds_of (v : dval) : list N :=
  match v with
  | VFd h => [h]
  | VVariant x => fds_of x
  | VArray _ l | VStruct l => concat (map fds_of l)
  | VDict _ _ l => concat (map (fun p => fds_of (fst p) ++ fds_of (snd p)) l)
  | _ => []
  end.
Definition nfds (v : dval) : N := N.of_nat (length (fds_of v)).

(* A UNIX_FD is marshalled as an index into the array of descriptors that accompanies the message.
   [ByOccurrence]: the k-th descriptor of the value (in traversal order) is the k-th of the array — what an
   encoder that attaches one descriptor per occurrence must write.  [ByHandle]: VFd h denotes "entry h of the
   array" — how a decoder reads it. *)
Inductive fdmode := ByOccurrence | ByHandle.

Section Marshal.
  Variable e : endian.
  Variable fm : fdmode.

  Fixpoint marshal (v : dval) (pos : N) (k : N) {struct v} : bytes :=
    let seq := fix seq (l : list dval) (p : N) (k : N) {struct l} : bytes :=
                 match l with
                 | [] => []
                 | x :: r => let b := marshal x p k in b ++ seq r (p + len b)%N (k + nfds x)%N
                 end in
    let entries := fix entries (l : list (dval * dval)) (p : N) (k : N) {struct l} : bytes :=
                 match l with
                 | [] => []
                 | (key, x) :: r =>
                     let b0 := pad p 8 in
                     let b1 := marshal key (p + len b0)%N k in
                     let b2 := marshal x (p + len b0 + len b1)%N (k + nfds key)%N in
                     b0 ++ b1 ++ b2 ++ entries r (p + len b0 + len b1 + len b2)%N (k + nfds key + nfds x)%N
                 end in
    match v with
    | VU8 n => [nb n]
    | VBool b => pad pos 4 ++ enc e 4 (if b then 1 else 0)
    | VI16 z => pad pos 2 ++ enc e 2 (twos 16 z)
    | VU16 n => pad pos 2 ++ enc e 2 n
    | VI32 z => pad pos 4 ++ enc e 4 (twos 32 z)
    | VU32 n => pad pos 4 ++ enc e 4 n
    | VI64 z => pad pos 8 ++ enc e 8 (twos 64 z)
    | VU64 n => pad pos 8 ++ enc e 8 n
    | VF64 b => pad pos 8 ++ enc e 8 b
    | VStr s | VPath s => pad pos 4 ++ enc e 4 (len s) ++ s ++ [x00]
    | VSigv s np => let t := if np then show_noparens s else show s in nb (len t) :: t ++ [x00]
    | VFd h => pad pos 4 ++ enc e 4 (match fm with ByOccurrence => k | ByHandle => h end)
    | VVariant x =>
        let hdr := nb (len (show (vsig x))) :: show (vsig x) ++ [x00] in
        hdr ++ marshal x (pos + len hdr)%N k
    | VArray el l =>
        let p0 := pad pos 4 in
        let p1 := pad (pos + len p0 + 4) (align_dbus el) in
        let body := seq l (pos + len p0 + 4 + len p1)%N k in
        p0 ++ enc e 4 (len body) ++ p1 ++ body
    | VDict _ _ l =>
        let p0 := pad pos 4 in
        let p1 := pad (pos + len p0 + 4) 8 in
        let body := entries l (pos + len p0 + 4 + len p1)%N k in
        p0 ++ enc e 4 (len body) ++ p1 ++ body
    | VStruct l =>
        let p0 := pad pos 8 in p0 ++ seq l (pos + len p0)%N k
    end.
End Marshal.

Definition marshal_top (e : endian) (pos : N) (v : dval) : bytes := marshal e ByOccurrence v pos 0.
Definition marshal_rx (e : endian) (pos : N) (v : dval) : bytes := marshal e ByHandle v pos 0.

(* ---- well-formed values of a signature (what "valid D-Bus value" means) ---- *)
Definition nul_free (s : bytes) : bool := forallb (fun c => negb (N.eqb (bn c) 0)) s.
Definition str_ok (s : bytes) : bool := nul_free s && utf8_valid s && (len s <? 2 ^ 32)%N.

(* object path grammar of the specification *)
Definition path_elem_ok (el : bytes) : bool :=
  match el with [] => false | _ => forallb (fun x => is_alphanum x || beq x "_"%byte) el end.
Definition path_ok (s : bytes) : bool :=
  match s with
  | c :: r => beq c "/"%byte && (match r with [] => true | _ => forallb path_elem_ok (split_on "/"%byte r) end)
  | [] => false
  end.

(* a signature that is a single complete D-Bus type (no unit, no maybe, non-empty structs, basic keys) *)
Fixpoint single_ok (s : sig) : bool :=
  match s with
  | SUnit | SMaybe _ => false
  | SArray c => single_ok c
  | SDict k v => is_basic k && single_ok v
  | SStruct fs => (match fs with [] => false | _ => true end) && forallb single_ok fs
  | _ => true
  end.
(* what a SIGNATURE-typed value may hold: any sequence of complete types whose WIRE text (without the outer
   parentheses when np) is at most 255 bytes *)
Definition sigval_ok (s : sig) (np : bool) : bool :=
  (match s with SUnit => true | SStruct fs => forallb single_ok fs && negb (Nat.eqb (length fs) 0) | _ => single_ok s end)
  && (len (if np then show_noparens s else show s) <=? 255)%N.

Fixpoint wf (v : dval) : bool :=
  match v with
  | VU8 n => (n <? 256)%N
  | VBool _ => true
  | VI16 z => (-32768 <=? z)%Z && (z <? 32768)%Z
  | VU16 n => (n <? 65536)%N
  | VI32 z => (-2147483648 <=? z)%Z && (z <? 2147483648)%Z
  | VU32 n => (n <? 4294967296)%N
  | VI64 z => (-9223372036854775808 <=? z)%Z && (z <? 9223372036854775808)%Z
  | VU64 n => (n <? 18446744073709551616)%N
  | VF64 b => (b <? 18446744073709551616)%N
  | VStr s => str_ok s
  | VPath s => path_ok s && (len s <? 2 ^ 32)%N
  | VSigv s np => sigval_ok s np && (negb np || match s with SStruct (_ :: _ :: _) => true | _ => false end)
  | VFd _ => true
  | VVariant x => wf x && single_ok (vsig x) && (len (show (vsig x)) <=? 255)%N
  | VArray el l => single_ok el && forallb (fun x => wf x && sig_eqb (vsig x) el) l
  | VDict k vs l => is_basic k && single_ok vs
                    && forallb (fun p => wf (fst p) && wf (snd p) && sig_eqb (vsig (fst p)) k
                                         && sig_eqb (vsig (snd p)) vs) l
  | VStruct l => (match l with [] => false | _ => true end) && forallb wf l
  end.

(* ---- nesting limits of the specification: at most 32 arrays (dicts count as arrays), 32 structs and
   64 containers in total (variants count as containers) on any root-to-leaf path of the value ---- *)
Fixpoint depth_ok (ds da dv : N) (v : dval) {struct v} : bool :=
  match v with
  | VVariant x => (ds + da + dv + 1 <=? 64)%N && depth_ok ds da (dv + 1) x
  | VArray _ l => (da + 1 <=? 32)%N && (ds + da + dv + 1 <=? 64)%N && forallb (depth_ok ds (da + 1) dv) l
  | VDict _ _ l => (da + 1 <=? 32)%N && (ds + da + dv + 1 <=? 64)%N
                   && forallb (fun p => depth_ok ds (da + 1) dv (fst p) && depth_ok ds (da + 1) dv (snd p)) l
  | VStruct l => (ds + 1 <=? 32)%N && (ds + da + dv + 1 <=? 64)%N && forallb (depth_ok (ds + 1) da dv) l
  | _ => true
  end.
Definition within_limits (v : dval) : bool := depth_ok 0 0 0 v.
