(* DBus/DepthDeClosed.v — C07, deserializer half without premise: the Section hypothesis of DBus/DepthDe.v is the
   completeness theorem of the decoder model (C02, DBus/DeComplete.v [de_complete]). *)
From ZV Require Import Base.Bytes Base.Res Base.Sig DBus.Val DBus.Spec DBus.Ser DBus.SerProofs DBus.De
  DBus.DeCompleteFacts DBus.DeComplete DBus.DepthIff DBus.DepthDe.
Local Open Scope N_scope.

Lemma complete_holds : complete_statement.
Proof. exact de_complete. Qed.

Definition de_exceeds_closed := de_exceeds complete_holds.
Definition de_iff_closed := de_iff complete_holds.
Definition de_value_top_exceeds_closed := de_value_top_exceeds complete_holds.
Definition de_struct_top_exceeds_closed := de_struct_top_exceeds complete_holds.

(* the entry points, exactly: a valid encoding is decoded iff the value is within the limits *)
Theorem de_value_top_iff c e pos fm x rest fds :
  wf (VVariant x) = true -> len (marshal e fm (VVariant x) pos 0) < 2 ^ 32 -> N.of_nat (length fds) <= 2 ^ 32 ->
  fds_match fm fds 0 (VVariant x) ->
  ((exists r, de_value_top c e pos (marshal e fm (VVariant x) pos 0 ++ rest) fds = Ok r) <-> within_limits (VVariant x) = true) /\
  ((exists j, de_value_top c e pos (marshal e fm (VVariant x) pos 0 ++ rest) fds = Err (EDepth j)) <-> within_limits (VVariant x) = false).
Proof.
  intros Hw Hl Hfl Hfd.
  destruct (within_limits (VVariant x)) eqn:Hlim.
  - pose proof (de_value_top_complete c e fm pos x rest fds Hw Hlim Hl Hfl Hfd) as Hok.
    split; split; try reflexivity; try discriminate.
    + intros _. eexists. exact Hok.
    + intros [j Hj]. rewrite Hok in Hj. discriminate.
  - destruct (de_value_top_exceeds_closed c e pos fm x rest fds Hw Hl Hfl Hfd Hlim) as [j Hj].
    split; split; try reflexivity; try discriminate.
    + intros [r Hr]. rewrite Hj in Hr. discriminate.
    + intros _. eauto.
Qed.
