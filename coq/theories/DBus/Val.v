(* DBus/Val.v — dynamic values in the sense of the D-Bus specification (and of zvariant::Value),
   their signature, typing, and the text syntax shared with the Rust harness. *)
From ZV Require Import Base.Bytes Base.Sig Base.SigParse.

Inductive dval :=
| VU8 (n : N) | VBool (b : bool) | VI16 (z : Z) | VU16 (n : N) | VI32 (z : Z) | VU32 (n : N)
| VI64 (z : Z) | VU64 (n : N) | VF64 (bits : N)
| VStr (s : bytes)
| VSigv (s : sig) (np : bool)   (* np: the wire form omits the outer parentheses of a multi-type signature *)
| VPath (s : bytes)
| VVariant (v : dval)
| VFd (h : N)                                   (* index into the caller's descriptor table *)
| VArray (elem : sig) (l : list dval)
| VDict (k v : sig) (l : list (dval * dval))
| VStruct (l : list dval).

(* Value::value_signature *)
Fixpoint vsig (v : dval) : sig :=
  match v with
  | VU8 _ => SU8 | VBool _ => SBool | VI16 _ => SI16 | VU16 _ => SU16 | VI32 _ => SI32 | VU32 _ => SU32
  | VI64 _ => SI64 | VU64 _ => SU64 | VF64 _ => SF64 | VStr _ => SStr | VSigv _ _ => SSig | VPath _ => SObjPath
  | VVariant _ => SVariant | VFd _ => SFd
  | VArray e _ => SArray e
  | VDict k v _ => SDict k v
  | VStruct l => SStruct (map vsig l)
  end.

(* ---------------- text syntax ----------------
   y N | b 0/1 | n Z | q N | i Z | u N | x Z | t N | d HEX16 | s HEX | o HEX | g SIG("-" = empty) | h N
   v VALUE | a ELEMSIG COUNT VALUE* | e KSIG VSIG COUNT (KEY VALUE)* | r COUNT VALUE*              *)
Definition tok (s : string) : bytes := B s.

Fixpoint hexN_aux (l : bytes) (acc : N) : option N :=
  match l with
  | [] => Some acc
  | c :: r => match hexval c with Some d => hexN_aux r (16 * acc + d)%N | None => None end
  end.
Definition N_of_hex (l : bytes) : option N := match l with [] => None | _ => hexN_aux l 0%N end.

Fixpoint hex_digits (n : nat) (x : N) (acc : bytes) : bytes :=
  match n with O => acc | S k => hex_digits k (x / 16)%N (hexdigit (x mod 16) :: acc) end.
Definition hex16 (x : N) : bytes := hex_digits 16 x [].

Definition sig_tok (s : sig) : bytes := match show s with [] => B "-" | t => t end.
Definition sig_of_tok (gv : bool) (t : bytes) : option sig :=
  if lbeq t (B "-") then Some SUnit else parse_sig gv t.

Definition hexs (t : bytes) : option bytes := if lbeq t (B "-") then Some [] else bytes_of_hex t.
Definition hext (b : bytes) : bytes := match b with [] => B "-" | _ => hex_of_bytes b end.

Fixpoint parse_val (fuel : nat) (ts : list bytes) {struct fuel} : option (dval * list bytes) :=
  match fuel with
  | O => None
  | S f =>
      match ts with
      | [] => None
      | t :: r =>
          let num1 (k : N -> dval) := match r with a :: r' => option_map (fun n => (k n, r')) (N_of_dec a) | [] => None end in
          let int1 (k : Z -> dval) := match r with a :: r' => option_map (fun n => (k n, r')) (Z_of_dec a) | [] => None end in
          if lbeq t (B "y") then num1 VU8
          else if lbeq t (B "b") then num1 (fun n => VBool (negb (N.eqb n 0)))
          else if lbeq t (B "n") then int1 VI16
          else if lbeq t (B "q") then num1 VU16
          else if lbeq t (B "i") then int1 VI32
          else if lbeq t (B "u") then num1 VU32
          else if lbeq t (B "x") then int1 VI64
          else if lbeq t (B "t") then num1 VU64
          else if lbeq t (B "h") then num1 VFd
          else if lbeq t (B "d") then match r with a :: r' => option_map (fun n => (VF64 n, r')) (N_of_hex a) | [] => None end
          else if lbeq t (B "s") then match r with a :: r' => option_map (fun s => (VStr s, r')) (hexs a) | [] => None end
          else if lbeq t (B "o") then match r with a :: r' => option_map (fun s => (VPath s, r')) (hexs a) | [] => None end
          else if lbeq t (B "g") then match r with a :: r' => option_map (fun s => (VSigv s false, r')) (sig_of_tok true a) | [] => None end
          else if lbeq t (B "v") then option_map (fun '(v, r') => (VVariant v, r')) (parse_val f r)
          else if lbeq t (B "a") then
            match r with
            | es :: cnt :: r' =>
                match sig_of_tok true es, N_of_dec cnt with
                | Some e, Some n => option_map (fun '(l, r'') => (VArray e l, r'')) (parse_vals f (N.to_nat n) r')
                | _, _ => None
                end
            | _ => None
            end
          else if lbeq t (B "e") then
            match r with
            | ks :: vs :: cnt :: r' =>
                match sig_of_tok true ks, sig_of_tok true vs, N_of_dec cnt with
                | Some k, Some v, Some n => option_map (fun '(l, r'') => (VDict k v l, r'')) (parse_pairs f (N.to_nat n) r')
                | _, _, _ => None
                end
            | _ => None
            end
          else if lbeq t (B "r") then
            match r with
            | cnt :: r' =>
                match N_of_dec cnt with
                | Some n => option_map (fun '(l, r'') => (VStruct l, r'')) (parse_vals f (N.to_nat n) r')
                | None => None
                end
            | _ => None
            end
          else None
      end
  end
with parse_vals (fuel : nat) (n : nat) (ts : list bytes) {struct fuel} : option (list dval * list bytes) :=
  match fuel with
  | O => None
  | S f =>
      match n with
      | O => Some ([], ts)
      | S n' =>
          match parse_val f ts with
          | Some (v, r) => option_map (fun '(l, r') => (v :: l, r')) (parse_vals f n' r)
          | None => None
          end
      end
  end
with parse_pairs (fuel : nat) (n : nat) (ts : list bytes) {struct fuel} : option (list (dval * dval) * list bytes) :=
  match fuel with
  | O => None
  | S f =>
      match n with
      | O => Some ([], ts)
      | S n' =>
          match parse_val f ts with
          | Some (k, r) =>
              match parse_val f r with
              | Some (v, r2) => option_map (fun '(l, r') => ((k, v) :: l, r')) (parse_pairs f n' r2)
              | None => None
              end
          | None => None
          end
      end
  end.

Definition val_of_tokens (ts : list bytes) : option dval :=
  match parse_val (2 * length ts + 2) ts with Some (v, []) => Some v | _ => None end.

Fixpoint show_val (v : dval) : list bytes :=
  match v with
  | VU8 n => [B "y"; dec_of_N n] | VBool b => [B "b"; if b then B "1" else B "0"]
  | VI16 z => [B "n"; dec_of_Z z] | VU16 n => [B "q"; dec_of_N n]
  | VI32 z => [B "i"; dec_of_Z z] | VU32 n => [B "u"; dec_of_N n]
  | VI64 z => [B "x"; dec_of_Z z] | VU64 n => [B "t"; dec_of_N n]
  | VF64 n => [B "d"; hex16 n]
  | VStr s => [B "s"; hext s] | VPath s => [B "o"; hext s] | VSigv s _ => [B "g"; sig_tok s]
  | VFd h => [B "h"; dec_of_N h]
  | VVariant x => B "v" :: show_val x
  | VArray e l => B "a" :: sig_tok e :: dec_of_N (N.of_nat (length l)) :: concat (map show_val l)
  | VDict k vs l => B "e" :: sig_tok k :: sig_tok vs :: dec_of_N (N.of_nat (length l))
                     :: concat (map (fun p => show_val (fst p) ++ show_val (snd p)) l)
  | VStruct l => B "r" :: dec_of_N (N.of_nat (length l)) :: concat (map show_val l)
  end.
Definition val_text (v : dval) : bytes := join [sp] (show_val v).
