(* DBus/SerFacts.v — bookkeeping lemmas for the serializer proof: list/length arithmetic, the back-patch,
   decidable equality of signatures, standalone versions of the local fixpoints of [marshal] and [ser]. *)
From ZV Require Import Base.Bytes Base.Res Base.Sig Base.SigParse Base.SigParseFacts DBus.Val DBus.Spec DBus.Ser.
From Coq Require Import Lia.

(* ---------- lengths ---------- *)
Lemma len_app (a b : bytes) : len (a ++ b) = (len a + len b)%N.
Proof. unfold len. rewrite app_length. lia. Qed.
Lemma len_nil : len [] = 0%N. Proof. reflexivity. Qed.
Lemma len_cons c (a : bytes) : len (c :: a) = (1 + len a)%N.
Proof. unfold len. cbn [length]. lia. Qed.
Lemma len_zeros n : len (zeros n) = n.
Proof. unfold len, zeros. rewrite repeat_length. lia. Qed.
Lemma le_bytes_length n x : length (le_bytes n x) = n.
Proof. revert x. induction n; intros x; cbn; [reflexivity|]. now rewrite IHn. Qed.
Lemma len_enc e n x : len (enc e n x) = N.of_nat n.
Proof. unfold len. destruct e; cbn; rewrite ?rev_length, le_bytes_length; reflexivity. Qed.
Lemma length_enc e n x : length (enc e n x) = n.
Proof. destruct e; cbn; rewrite ?rev_length, le_bytes_length; reflexivity. Qed.

Lemma takeN_app (a b : bytes) : takeN (len a) (a ++ b) = a.
Proof. unfold takeN, len. rewrite Nat2N.id. rewrite firstn_app, Nat.sub_diag, firstn_all. cbn. apply app_nil_r. Qed.
Lemma dropN_app (a b : bytes) : dropN (len a) (a ++ b) = b.
Proof. unfold dropN, len. rewrite Nat2N.id. rewrite skipn_app, Nat.sub_diag, skipn_all. reflexivity. Qed.

(* the back-patch of the array length *)
Lemma patch_mid (a b c b' : bytes) : length b' = length b ->
  patch (a ++ b ++ c) (len a) b' = a ++ b' ++ c.
Proof.
  intros H. unfold patch. rewrite takeN_app. f_equal. f_equal.
  replace (len a + len b')%N with (len (a ++ b)) by (rewrite len_app; unfold len; rewrite H; reflexivity).
  rewrite app_assoc. apply dropN_app.
Qed.

(* le_bytes ignores the bits above its width *)
Lemma le_bytes_mod n x : le_bytes n (x mod 2 ^ (8 * N.of_nat n)) = le_bytes n x.
Proof.
  revert x. induction n as [|n IH]; intros x; [reflexivity|].
  cbn [le_bytes]. replace (8 * N.of_nat (S n))%N with (8 + 8 * N.of_nat n)%N by lia.
  rewrite N.pow_add_r. change (2 ^ 8)%N with 256%N.
  set (M := (2 ^ (8 * N.of_nat n))%N). assert (HM : M <> 0%N) by (apply N.pow_nonzero; lia).
  rewrite (N.mod_mul_r x 256 M) by lia.
  f_equal.
  - f_equal. rewrite (N.mul_comm 256). rewrite N.mod_add by lia. apply N.mod_mod. lia.
  - rewrite <- (IH (x / 256)%N). f_equal. fold M. rewrite (N.mul_comm 256). rewrite N.div_add by lia.
    rewrite N.div_small by (apply N.mod_lt; lia). reflexivity.
Qed.
Lemma enc_mod32 e x : enc e 4 (x mod 2 ^ 32) = enc e 4 x.
Proof. unfold enc. change (2 ^ 32)%N with (2 ^ (8 * N.of_nat 4))%N. now rewrite le_bytes_mod. Qed.

Lemma padn_1 p : padn p 1 = 0%N.
Proof. unfold padn. rewrite N.mod_1_r. reflexivity. Qed.
Lemma pad_1 p : pad p 1 = [].
Proof. unfold pad. now rewrite padn_1. Qed.

(* ---------- signatures ---------- *)
Lemma sig_eqb_eq : forall a b, sig_eqb a b = true -> a = b.
Proof.
  induction a using sig_ind'; intros b Hab; destruct b; cbn in Hab; try discriminate; try reflexivity.
  - f_equal. now apply IHa.
  - apply andb_true_iff in Hab as [H1 H2]. f_equal; [now apply IHa1|now apply IHa2].
  - f_equal. revert fs0 Hab. induction H as [|x l Hx Hl IH]; intros [|y l'] Hab; try discriminate; [reflexivity|].
    apply andb_true_iff in Hab as [H1 H2]. f_equal; [now apply Hx|now apply IH].
  - f_equal. now apply IHa.
Qed.

Lemma basic_printable g : is_basic g = true -> printable g = true.
Proof. destruct g; cbn; congruence. Qed.
Lemma single_printable : forall g, single_ok g = true -> printable g = true.
Proof.
  induction g using sig_ind'; cbn; intros Hs; try discriminate; try reflexivity.
  - auto.
  - apply andb_true_iff in Hs as [H1 H2]. rewrite (basic_printable _ H1). cbn. auto.
  - apply andb_true_iff in Hs as [H1 H2]. rewrite H1. cbn.
    apply forallb_forall. intros x Hin. rewrite Forall_forall in H. rewrite forallb_forall in H2. auto.
Qed.

(* ---------- standalone versions of marshal's local fixpoints ---------- *)
Section M.
  Variables (e : endian) (fm : fdmode).
  Fixpoint mseq (l : list dval) (p k : N) : bytes :=
    match l with
    | [] => []
    | x :: r => let b := marshal e fm x p k in b ++ mseq r (p + len b)%N (k + nfds x)%N
    end.
  Fixpoint mentries (l : list (dval * dval)) (p k : N) : bytes :=
    match l with
    | [] => []
    | (key, x) :: r =>
        let b0 := pad p 8 in
        let b1 := marshal e fm key (p + len b0)%N k in
        let b2 := marshal e fm x (p + len b0 + len b1)%N (k + nfds key)%N in
        b0 ++ b1 ++ b2 ++ mentries r (p + len b0 + len b1 + len b2)%N (k + nfds key + nfds x)%N
    end.
  Lemma marshal_array el l pos k :
    marshal e fm (VArray el l) pos k =
    let p0 := pad pos 4 in
    let p1 := pad (pos + len p0 + 4) (align_dbus el) in
    let body := mseq l (pos + len p0 + 4 + len p1)%N k in
    p0 ++ enc e 4 (len body) ++ p1 ++ body.
  Proof. reflexivity. Qed.
  Lemma marshal_dict ks vs l pos k :
    marshal e fm (VDict ks vs l) pos k =
    let p0 := pad pos 4 in
    let p1 := pad (pos + len p0 + 4) 8 in
    let body := mentries l (pos + len p0 + 4 + len p1)%N k in
    p0 ++ enc e 4 (len body) ++ p1 ++ body.
  Proof. reflexivity. Qed.
  Lemma marshal_struct l pos k :
    marshal e fm (VStruct l) pos k = let p0 := pad pos 8 in p0 ++ mseq l (pos + len p0)%N k.
  Proof. reflexivity. Qed.
End M.

(* ---------- standalone versions of ser's local fixpoints ---------- *)
Fixpoint ser_elems (l : list sval) (st : sstate) : res cerr sstate :=
  match l with [] => Ok st | y :: r => let* st1 := ser y st in ser_elems r st1 end.
Fixpoint ser_fields (l : list sval) (idx : nat) (st : sstate) : res cerr sstate :=
  match l with
  | [] => Ok st
  | y :: r => let* (g, idx') := field_sig st idx in
              let* sub := ser y (sub_of st g) in
              ser_fields r idx' (back_from st sub)
  end.
Fixpoint ser_nfields (l : list (bytes * sval)) (idx : nat) (st : sstate) : res cerr sstate :=
  match l with
  | [] => Ok st
  | (_, y) :: r => let* (g, idx') := field_sig st idx in
                   let* sub := ser y (sub_of st g) in
                   ser_nfields r idx' (back_from st sub)
  end.
Fixpoint ser_entries (l : list (sval * sval)) (ks vs : sig) (st : sstate) : res cerr sstate :=
  match l with
  | [] => Ok st
  | (k, y) :: r => let st := padded st 8 in
                   let* st := ser k st in
                   let* st := ser y (set_sig st vs) in
                   ser_entries r ks vs (set_sig st ks)
  end.

Lemma ser_seq l st :
  ser (XSeq l) st = let* (st, start, fp, asig) := seq_begin st in
                    let* st := ser_elems l st in seq_end st start fp asig.
Proof. reflexivity. Qed.
Lemma ser_tuple l st :
  ser (XTuple l) st =
  let* (st, k) := struct_begin st in
  match k with
  | KStruct saved => let* st := ser_fields l 0%nat st in Ok (set_dep st saved)
  | KSeq start fp asig => let* st := ser_elems l st in seq_end st start fp asig
  | KMap _ _ _ _ _ => Panic PUnreachable
  end.
Proof. cbn [ser]. destruct (struct_begin st) as [[st' k]| |]; [|reflexivity|reflexivity]. cbn [bind]. destruct k; try reflexivity. destruct l; reflexivity. Qed.
Fixpoint ser_nelems (l : list (bytes * sval)) (st : sstate) : res cerr sstate :=
  match l with [] => Ok st | (_, y) :: r => let* st1 := ser y st in ser_nelems r st1 end.
Fixpoint ser_nentries (l : list (bytes * sval)) (ks vs : sig) (st : sstate) : res cerr sstate :=
  match l with
  | [] => Ok st
  | (k, y) :: r => let st := padded st 8 in
                   let* st := ser_str st k in
                   let* st := ser y (set_sig st vs) in
                   ser_nentries r ks vs (set_sig st ks)
  end.
Lemma ser_struct_named l st :
  ser (XStruct l) st =
  let* (st, k) := struct_begin st in
  match k with
  | KStruct saved => let* st := ser_nfields l 0%nat st in Ok (set_dep st saved)
  | KSeq start fp asig => let* st := ser_nelems l st in seq_end st start fp asig
  | KMap start fp asig ks vs => let* st := ser_nentries l ks vs st in seq_end st start fp asig
  end.
Proof. reflexivity. Qed.
Lemma ser_map l st ks vs : s_sig st = SDict ks vs ->
  ser (XMap l) st = let* (st, start, fp, asig) := seq_begin st in
                    let* st := ser_entries l ks vs st in seq_end st start fp asig.
Proof. intros Hs. cbn [ser]. rewrite Hs. reflexivity. Qed.
