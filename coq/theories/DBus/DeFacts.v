(* DBus/DeFacts.v — standalone versions of the decoder's local loops, the frame property (decoding changes
   only the cursor and the depth counters) and the no-panic theorem of C04 for the D-Bus format. *)
From ZV Require Import Base.Bytes Base.Res Base.Sig Base.SigParse Base.Utf8 DBus.Val DBus.Spec DBus.Ser DBus.De DBus.DeNoPanic.
From Coq Require Import Lia.
Local Open Scope N_scope.



Lemma de_any_array f st c : t_sig st = SArray c ->
  de_any (S f) st =
  (let* st := parse_padding st 4 in
   let* d := inc_array (t_dep st) in
   let st := tset_dep st d in
   let* (b, st) := next_slice st 4 in
   let n := dec (t_e st) b in
   let* al := align_of c in
   let* st := parse_padding st al in
   let asig := t_sig st in
   let st := tset_sig st c in
   let start := t_pos st in
   let* (l, st) := arr_loop (de_any f) al start n c (S (length (t_bytes st))) st [] in
   Ok (VArray c l, tset_sig (tset_dep st (dec_array (t_dep st))) asig)).
Proof. intros H. cbn [de_any]. rewrite H. reflexivity. Qed.

Lemma de_any_dict f st ks vs : t_sig st = SDict ks vs ->
  de_any (S f) st =
  (let* st := parse_padding st 4 in
   let* d := inc_array (t_dep st) in
   let st := tset_dep st d in
   let* (b, st) := next_slice st 4 in
   let n := dec (t_e st) b in
   let* st := parse_padding st 8 in
   let asig := t_sig st in
   let st := tset_sig st ks in
   let start := t_pos st in
   let* (l, st) := dict_loop (de_any f) start n ks vs (S (length (t_bytes st))) st [] in
   Ok (VDict ks vs l, tset_sig (tset_dep st (dec_array (t_dep st))) asig)).
Proof. intros H. cbn [de_any]. rewrite H. reflexivity. Qed.

Lemma de_any_struct f st fs : t_sig st = SStruct fs ->
  de_any (S f) st =
  (let* st := parse_padding st 8 in
   let* d := inc_struct (t_dep st) in
   let st := tset_dep st d in
   let* (l, st) := struct_loop (de_any f) fs st [] in
   Ok (VStruct l, match fs with [] => st | _ => tset_dep st (dec_struct (t_dep st)) end)).
Proof. intros H. cbn [de_any]. rewrite H. reflexivity. Qed.

(* ---------- frame: only the cursor and the depth counters move ---------- *)
Definition frame (a b : dstate) : Prop :=
  t_cfg b = t_cfg a /\ t_e b = t_e a /\ t_pos0 b = t_pos0 a /\ t_bytes b = t_bytes a /\ t_sig b = t_sig a /\ t_fds b = t_fds a.
Lemma frame_refl a : frame a a. Proof. repeat split. Qed.
Lemma frame_trans a b c : frame a b -> frame b c -> frame a c.
Proof. unfold frame. intuition congruence. Qed.
Lemma frame_pos a p : frame a (tset_pos a p). Proof. repeat split. Qed.
Lemma frame_dep a d : frame a (tset_dep a d). Proof. repeat split. Qed.

(* outcome is not a panic, and a success leaves the frame intact *)
Definition Q {A} (st : dstate) (r : res cerr (A * dstate)) : Prop :=
  match r with Panic _ => False | Err _ => True | Ok (_, st') => frame st st' end.
Definition Q1 (st : dstate) (r : res cerr dstate) : Prop :=
  match r with Panic _ => False | Err _ => True | Ok st' => frame st st' end.

Lemma parse_padding_Q st al : Q1 st (parse_padding st al).
Proof.
  unfold parse_padding. destruct (padn (tabs st) al =? 0); [apply frame_refl|].
  destruct (blen st <? t_pos st + padn (tabs st) al); [exact I|].
  destruct (forallb _ _); [apply frame_pos|exact I].
Qed.
Lemma next_slice_Q st n : Q st (next_slice st n).
Proof. unfold next_slice. destruct (blen st <? t_pos st + n); [exact I|apply frame_pos]. Qed.
Lemma rd_fixed_Q st n : Q st (rd_fixed st n).
Proof.
  unfold rd_fixed. pose proof (parse_padding_Q st n) as H1.
  destruct (parse_padding st n) as [s1| |]; cbn [bind Q1] in *; try exact I; try contradiction.
  pose proof (next_slice_Q s1 n) as H2. destruct (next_slice s1 n) as [[b s2]| |]; cbn [bind Q] in *; try exact I; try contradiction.
  eapply frame_trans; eauto.
Qed.
Lemma de_str_Q st : Q st (de_str st).
Proof.
  unfold de_str.
  set (hd := match t_sig st with
             | SSig | SVariant => let* (b, st0) := next_slice st 1 in Ok (dec LE b, st0)
             | SStr | SObjPath => let* st0 := parse_padding st 4 in let* (b, st1) := next_slice st0 4 in Ok (dec (t_e st1) b, st1)
             | _ => Err ESigMismatch
             end).
  assert (H0 : Q st hd).
  { subst hd. destruct (t_sig st); try exact I.
    - pose proof (parse_padding_Q st 4) as H1. destruct (parse_padding st 4) as [s1| |]; cbn [bind Q1] in *; try exact I; try contradiction.
      pose proof (next_slice_Q s1 4) as H2. destruct (next_slice s1 4) as [[b s2]| |]; cbn [bind Q] in *; try exact I; try contradiction.
      eapply frame_trans; eauto.
    - pose proof (next_slice_Q st 1) as H2. destruct (next_slice st 1) as [[b s2]| |]; cbn [bind Q] in *; try exact I; try contradiction. exact H2.
    - pose proof (parse_padding_Q st 4) as H1. destruct (parse_padding st 4) as [s1| |]; cbn [bind Q1] in *; try exact I; try contradiction.
      pose proof (next_slice_Q s1 4) as H2. destruct (next_slice s1 4) as [[b s2]| |]; cbn [bind Q] in *; try exact I; try contradiction.
      eapply frame_trans; eauto.
    - pose proof (next_slice_Q st 1) as H2. destruct (next_slice st 1) as [[b s2]| |]; cbn [bind Q] in *; try exact I; try contradiction. exact H2. }
  destruct hd as [[n s1]| |]; cbn [bind Q] in *; try exact I; try contradiction.
  pose proof (next_slice_Q s1 n) as H2. destruct (next_slice s1 n) as [[s s2]| |]; cbn [bind Q] in *; try exact I; try contradiction.
  destruct (negb (nul_free s)); [exact I|].
  pose proof (next_slice_Q s2 1) as H3. destruct (next_slice s2 1) as [[t s3]| |]; cbn [bind Q] in *; try exact I; try contradiction.
  destruct (negb (forallb (fun c : byte => bn c =? 0) t)); [exact I|]. destruct (utf8_valid s); [|exact I].
  cbn [Q]. eapply frame_trans; [exact H0|]. eapply frame_trans; eauto.
Qed.

(* ---------- the decoder never panics without the gvariant feature, and keeps the frame ---------- *)
Definition Pre (st : dstate) : Prop := c_gv (t_cfg st) = false /\ maybe_free (t_sig st) = true.

Lemma Pre_frame a b : Pre a -> frame a b -> Pre b.
Proof. intros [H1 H2] (F1 & _ & _ & _ & F5 & _). split; congruence. Qed.

Section LoopsQ.
  Variable de : dstate -> res cerr (dval * dstate).
  Hypothesis Hde : forall st, Pre st -> Q st (de st).

  Lemma arr_loop_Q al start n c : forall k st acc, Pre st -> Q st (arr_loop de al start n c k st acc).
  Proof.
    induction k as [|k IH]; intros st acc HP; [exact I|]. cbn [arr_loop].
    destruct (t_pos st =? start + n); [apply frame_refl|].
    pose proof (parse_padding_Q st al) as H1. destruct (parse_padding st al) as [s1| |]; cbn [bind Q1] in *; try exact I; try contradiction.
    pose proof (Hde s1 (Pre_frame _ _ HP H1)) as H2. destruct (de s1) as [[v s2]| |]; cbn [bind Q] in *; try exact I; try contradiction.
    destruct (start + n <? t_pos s2); [exact I|]. destruct (negb (sig_eqb (vsig v) c)); [exact I|].
    assert (F : frame st s2) by (eapply frame_trans; eauto).
    pose proof (IH s2 (v :: acc) (Pre_frame _ _ HP F)) as H3.
    destruct (arr_loop de al start n c k s2 (v :: acc)) as [[l s3]| |]; cbn [Q] in *; try exact I; try contradiction.
    eapply frame_trans; eauto.
  Qed.

  Lemma dict_loop_Q start n ks vs : maybe_free vs = true ->
    forall k st acc, Pre st -> t_sig st = ks -> Q st (dict_loop de start n ks vs k st acc).
  Proof.
    intros Hvs. induction k as [|k IH]; intros st acc HP Hs; [exact I|]. cbn [dict_loop].
    destruct (t_pos st =? start + n); [apply frame_refl|].
    pose proof (parse_padding_Q st 8) as H1. destruct (parse_padding st 8) as [s1| |]; cbn [bind Q1] in *; try exact I; try contradiction.
    pose proof (Hde s1 (Pre_frame _ _ HP H1)) as H2. destruct (de s1) as [[kv s2]| |]; cbn [bind Q] in *; try exact I; try contradiction.
    destruct (start + n <? t_pos s2); [exact I|].
    assert (F2 : frame st s2) by (eapply frame_trans; eauto).
    assert (P2 : Pre (tset_sig s2 vs)).
    { destruct HP as [G1 G2]. destruct F2 as (E1 & _). split; cbn; congruence. }
    pose proof (Hde _ P2) as H3. destruct (de (tset_sig s2 vs)) as [[vv s3]| |]; cbn [bind Q] in *; try exact I; try contradiction.
    destruct (start + n <? t_pos s3); [exact I|].
    destruct (negb (sig_eqb (vsig kv) ks) || negb (sig_eqb (vsig vv) vs)); [exact I|].
    assert (F3 : frame st (tset_sig s3 ks)).
    { destruct F2 as (A1 & A2 & A3 & A4 & A5 & A6). destruct H3 as (B1 & B2 & B3 & B4 & B5 & B6). cbn in *.
      repeat split; cbn; congruence. }
    pose proof (IH (tset_sig s3 ks) ((kv, vv) :: acc) (Pre_frame _ _ HP F3) eq_refl) as H4.
    destruct (dict_loop de start n ks vs k (tset_sig s3 ks) ((kv, vv) :: acc)) as [[l s4]| |]; cbn [Q] in *; try exact I; try contradiction.
    eapply frame_trans; eauto.
  Qed.

  Lemma struct_loop_Q : forall gs st acc, c_gv (t_cfg st) = false -> forallb maybe_free gs = true ->
    Q st (struct_loop de gs st acc).
  Proof.
    induction gs as [|g gs IH]; intros st acc Hc Hm; [apply frame_refl|]. cbn [struct_loop].
    cbn [forallb] in Hm. apply andb_true_iff in Hm as [Hg Hm].
    assert (P : Pre (tset_sig st g)) by (split; assumption).
    pose proof (Hde _ P) as H2. destruct (de (tset_sig st g)) as [[v sub]| |]; cbn [bind Q] in *; try exact I; try contradiction.
    pose proof (IH (tset_pos st (t_pos sub)) (v :: acc) Hc Hm) as H3.
    destruct (struct_loop de gs (tset_pos st (t_pos sub)) (v :: acc)) as [[l s3]| |]; cbn [Q] in *; try exact I; try contradiction.
    eapply frame_trans; [apply frame_pos|exact H3].
  Qed.
End LoopsQ.

Lemma de_str_in_bounds st s st' : t_sig st = SSig -> de_str st = Ok (s, st') -> t_pos st < blen st.
Proof.
  unfold de_str. intros Hs. rewrite Hs. unfold next_slice at 1.
  destruct (N.ltb_spec (blen st) (t_pos st + 1)); cbn [bind]; [discriminate|]. intros _. lia.
Qed.

Lemma nthN_some {A} (l : list A) i : i < N.of_nat (length l) -> exists x, nthN l i = Some x.
Proof.
  intros H. unfold nthN. destruct (N.ltb_spec i (N.of_nat (length l))); [|lia].
  destruct (nth_error l (N.to_nat i)) eqn:E; [eauto|]. apply nth_error_None in E. lia.
Qed.

Lemma dcheck_np d p : dcheck d <> Panic p.
Proof. unfold dcheck. repeat match goal with |- context [if ?b then _ else _] => destruct b end; discriminate. Qed.
Lemma inc_variant_np d p : inc_variant d <> Panic p. Proof. apply dcheck_np. Qed.
Lemma inc_array_np d p : inc_array d <> Panic p. Proof. apply dcheck_np. Qed.
Lemma inc_struct_np d p : inc_struct d <> Panic p. Proof. apply dcheck_np. Qed.

Ltac stepQ H :=
  match goal with
  | |- Q _ (bind ?r _) => destruct r as [?| |] eqn:?; cbn [bind Q Q1] in *; try exact I; try contradiction
  end.

Theorem de_any_Q : forall fuel st, Pre st -> Q st (de_any fuel st).
Proof.
  induction fuel as [|f IH]; intros st HP; [exact I|].
  destruct HP as [Hc Hm]. destruct (t_sig st) as [ | | | | | | | | | | | | | | |c|k v|fs|c'] eqn:Hs.
  all: try (cbn [de_any]; rewrite Hs; exact I).
  all: try (cbn [de_any]; rewrite Hs;
            pose proof (rd_fixed_Q st 1) as R1; pose proof (rd_fixed_Q st 2) as R2;
            pose proof (rd_fixed_Q st 4) as R4; pose proof (rd_fixed_Q st 8) as R8;
            repeat match goal with
                   | |- context [rd_fixed ?s ?n] => destruct (rd_fixed s n) as [[? ?]| |]; cbn [bind Q] in *; try exact I; try contradiction
                   end;
            repeat match goal with |- context [if ?b then _ else _] => destruct b end;
            repeat match goal with |- context [match ?x with Some _ => _ | None => _ end] => destruct x end;
            cbn [Q]; try exact I; assumption).
  - (* string *)
    cbn [de_any]. rewrite Hs. pose proof (de_str_Q st) as H. destruct (de_str st) as [[s s1]| |]; cbn [bind Q] in *; try exact I; try contradiction. exact H.
  - (* signature *)
    cbn [de_any]. rewrite Hs. pose proof (de_str_Q st) as H. destruct (de_str st) as [[s s1]| |]; cbn [bind Q] in *; try exact I; try contradiction.
    destruct (parse_sig _ s); cbn [Q]; [exact H|exact I].
  - (* object path *)
    cbn [de_any]. rewrite Hs. pose proof (de_str_Q st) as H. destruct (de_str st) as [[s s1]| |]; cbn [bind Q] in *; try exact I; try contradiction.
    destruct (path_ok s); cbn [Q]; [exact H|exact I].
  - (* variant *)
    cbn [de_any]. rewrite Hs.
    pose proof (de_str_Q (tset_sig st SSig)) as H. destruct (de_str (tset_sig st SSig)) as [[s s1]| |] eqn:Eds; cbn [bind Q] in *; try exact I; try contradiction.
    destruct (parse_sig (c_gv (t_cfg st)) s) as [g0|]; cbn [bind]; [|exact I].
    pose proof (de_str_in_bounds (tset_sig st SSig) _ _ eq_refl Eds) as Hb. cbn in Hb.
    destruct (nthN_some (t_bytes st) (t_pos st) Hb) as [lb Hlb]. rewrite Hlb.
    destruct (blen st <? t_pos st + 1 + bn lb); [exact I|].
    destruct (parse_sig (c_gv (t_cfg st)) _) as [g|] eqn:Eg; [|exact I].
    destruct (_ || _); [exact I|]. destruct (blen st <? _); [exact I|].
    destruct (inc_variant _) as [d| |] eqn:Ei; cbn [bind]; try exact I.
    2:{ exfalso. eapply inc_variant_np; eauto. }
    match goal with |- context [de_any f ?inner] => pose proof (IH inner) as Hi end.
    rewrite Hc in Eg. apply parse_sig_maybe_free in Eg.
    specialize (Hi (conj Hc Eg)).
    match goal with |- context [de_any f ?inner] => destruct (de_any f inner) as [[v inner']| |] end; cbn [bind Q] in *; try exact I; try contradiction.
    destruct H as (A1 & A2 & A3 & A4 & A5 & A6). cbn in *. repeat split; cbn; congruence.
  - (* array *)
    rewrite (de_any_array f st c Hs). cbn [maybe_free] in Hm.
    pose proof (parse_padding_Q st 4) as H1. destruct (parse_padding st 4) as [s1| |]; cbn [bind Q1] in *; try exact I; try contradiction.
    destruct (inc_array (t_dep s1)) as [d| |] eqn:Ei; cbn [bind]; try exact I.
    2:{ exfalso. eapply inc_array_np; eauto. }
    pose proof (next_slice_Q (tset_dep s1 d) 4) as H2. destruct (next_slice (tset_dep s1 d) 4) as [[b s2]| |]; cbn [bind Q] in *; try exact I; try contradiction.
    assert (Ha : align_of c = Ok (align_dbus c)) by (destruct c; try reflexivity; discriminate Hm). rewrite Ha. cbn [bind].
    pose proof (parse_padding_Q s2 (align_dbus c)) as H3. destruct (parse_padding s2 (align_dbus c)) as [s3| |]; cbn [bind Q1] in *; try exact I; try contradiction.
    assert (F3 : frame st s3).
    { eapply frame_trans; [exact H1|]. eapply frame_trans; [apply frame_dep|]. eapply frame_trans; eauto. }
    assert (P3 : Pre (tset_sig s3 c)).
    { destruct F3 as (E1 & _). split; cbn; congruence. }
    pose proof (arr_loop_Q (de_any f) IH (align_dbus c) (t_pos (tset_sig s3 c)) (dec (t_e s2) b) c
                  (S (length (t_bytes (tset_sig s3 c)))) (tset_sig s3 c) [] P3) as H4.
    destruct (arr_loop _ _ _ _ _ _ _ _) as [[l s4]| |]; cbn [bind Q] in *; try exact I; try contradiction.
    destruct F3 as (A1 & A2 & A3 & A4 & A5 & A6). destruct H4 as (B1 & B2 & B3 & B4 & B5 & B6). cbn in *.
    repeat split; cbn; congruence.
  - (* dict *)
    rewrite (de_any_dict f st k v Hs). cbn [maybe_free] in Hm. apply andb_true_iff in Hm as [Hk Hv].
    pose proof (parse_padding_Q st 4) as H1. destruct (parse_padding st 4) as [s1| |]; cbn [bind Q1] in *; try exact I; try contradiction.
    destruct (inc_array (t_dep s1)) as [d| |] eqn:Ei; cbn [bind]; try exact I.
    2:{ exfalso. eapply inc_array_np; eauto. }
    pose proof (next_slice_Q (tset_dep s1 d) 4) as H2. destruct (next_slice (tset_dep s1 d) 4) as [[b s2]| |]; cbn [bind Q] in *; try exact I; try contradiction.
    pose proof (parse_padding_Q s2 8) as H3. destruct (parse_padding s2 8) as [s3| |]; cbn [bind Q1] in *; try exact I; try contradiction.
    assert (F3 : frame st s3).
    { eapply frame_trans; [exact H1|]. eapply frame_trans; [apply frame_dep|]. eapply frame_trans; eauto. }
    assert (P3 : Pre (tset_sig s3 k)).
    { destruct F3 as (E1 & _). split; cbn; congruence. }
    pose proof (dict_loop_Q (de_any f) IH (t_pos (tset_sig s3 k)) (dec (t_e s2) b) k v Hv
                  (S (length (t_bytes (tset_sig s3 k)))) (tset_sig s3 k) [] P3 eq_refl) as H4.
    destruct (dict_loop _ _ _ _ _ _ _ _) as [[l s4]| |]; cbn [bind Q] in *; try exact I; try contradiction.
    destruct F3 as (A1 & A2 & A3 & A4 & A5 & A6). destruct H4 as (B1 & B2 & B3 & B4 & B5 & B6). cbn in *.
    repeat split; cbn; congruence.
  - (* struct *)
    rewrite (de_any_struct f st fs Hs). cbn [maybe_free] in Hm.
    pose proof (parse_padding_Q st 8) as H1. destruct (parse_padding st 8) as [s1| |]; cbn [bind Q1] in *; try exact I; try contradiction.
    destruct (inc_struct (t_dep s1)) as [d| |] eqn:Ei; cbn [bind]; try exact I.
    2:{ exfalso. eapply inc_struct_np; eauto. }
    assert (Hc1 : c_gv (t_cfg (tset_dep s1 d)) = false) by (destruct H1 as (E1 & _); cbn; congruence).
    pose proof (struct_loop_Q (de_any f) IH fs (tset_dep s1 d) [] Hc1 Hm) as H4.
    destruct (struct_loop _ _ _ _) as [[l s4]| |]; cbn [bind Q] in *; try exact I; try contradiction.
    destruct H1 as (A1 & A2 & A3 & A4 & A5 & A6). destruct H4 as (B1 & B2 & B3 & B4 & B5 & B6). cbn in *.
    destruct fs; repeat split; cbn; congruence.
Qed.

Corollary de_any_nopanic fuel st : c_gv (t_cfg st) = false -> maybe_free (t_sig st) = true ->
  is_panic (de_any fuel st) = false.
Proof.
  intros H1 H2. pose proof (de_any_Q fuel st (conj H1 H2)) as H. destruct (de_any fuel st) as [[? ?]| |]; [reflexivity|reflexivity|contradiction].
Qed.

(* top-level entry points *)
Lemma de_value_top_nopanic c e pos b fds : c_gv c = false -> is_panic (de_value_top c e pos b fds) = false.
Proof.
  intros Hc. unfold de_value_top.
  pose proof (de_any_nopanic de_fuel (init_dstate c e pos SVariant b fds) Hc eq_refl) as H.
  destruct (de_any de_fuel _) as [[v st]| |]; cbn [bind] in *; try reflexivity; try discriminate.
  destruct v; reflexivity.
Qed.
Lemma de_struct_top_nopanic c e pos g b fds : c_gv c = false -> maybe_free g = true ->
  is_panic (de_struct_top c e pos g b fds) = false.
Proof.
  intros Hc Hg. unfold de_struct_top.
  assert (Hg' : maybe_free (match g with SStruct _ => g | _ => SStruct [g] end) = true).
  { destruct g; cbn in *; rewrite ?Hg; reflexivity. }
  pose proof (de_any_nopanic de_fuel (init_dstate c e pos _ b fds) Hc Hg') as H.
  destruct (de_any de_fuel _) as [[v st]| |]; cbn [bind] in *; try reflexivity; discriminate.
Qed.

(* the known class: with the gvariant feature compiled in, `amy` panics (alignment of a maybe in D-Bus format) *)
Lemma maybe_panics : exists c e pos g b fds, c_gv c = true /\ de_struct_top c e pos g b fds = Panic PUnreachable.
Proof.
  exists {| c_gv := true; c_oaa := false |}, LE, 0, (SArray (SMaybe SU8)), [x00; x00; x00; x00], [].
  split; [reflexivity|]. vm_compute. reflexivity.
Qed.
