(* DBus/De.v — executable mirror of zvariant::dbus::Deserializer (zvariant/src/dbus/de.rs),
   DeserializerCommon (zvariant/src/de.rs) and of the dynamic-value visitors (ValueSeed,
   SignatureSeed, ValueVisitor in zvariant/src/value.rs; Array::append, Dict::append).
   Target: a dynamic Value for the deserializer's signature.  Every slice, index and unreachable!
   on this path is an explicit outcome.  No proofs here. *)
From ZV Require Import Base.Bytes Base.Res Base.Sig Base.SigParse Base.Utf8 DBus.Val DBus.Spec DBus.Ser.

Local Open Scope N_scope.

Record dstate := {
  t_cfg : cfg; t_e : endian; t_pos0 : N;
  t_bytes : bytes; t_pos : N;           (* pos may exceed the length after a string (pos += 1 unchecked) *)
  t_sig : sig; t_dep : depths; t_fds : list N }.

Definition tset_pos st p := {| t_cfg := t_cfg st; t_e := t_e st; t_pos0 := t_pos0 st; t_bytes := t_bytes st; t_pos := p; t_sig := t_sig st; t_dep := t_dep st; t_fds := t_fds st |}.
Definition tset_sig st g := {| t_cfg := t_cfg st; t_e := t_e st; t_pos0 := t_pos0 st; t_bytes := t_bytes st; t_pos := t_pos st; t_sig := g; t_dep := t_dep st; t_fds := t_fds st |}.
Definition tset_dep st d := {| t_cfg := t_cfg st; t_e := t_e st; t_pos0 := t_pos0 st; t_bytes := t_bytes st; t_pos := t_pos st; t_sig := t_sig st; t_dep := d; t_fds := t_fds st |}.

Definition blen (st : dstate) : N := len (t_bytes st).
Definition tabs (st : dstate) : N := (t_pos0 st + t_pos st)%N.

(* parse_padding *)
Definition parse_padding (st : dstate) (al : N) : res cerr dstate :=
  let p := padn (tabs st) al in
  if (p =? 0)%N then Ok st
  else if (blen st <? t_pos st + p)%N then Err EBounds
  else if forallb (fun c => (bn c =? 0)%N) (takeN p (dropN (t_pos st) (t_bytes st)))
       then Ok (tset_pos st (t_pos st + p)) else Err EPadding.

(* next_slice *)
Definition next_slice (st : dstate) (n : N) : res cerr (bytes * dstate) :=
  if (blen st <? t_pos st + n)%N then Err EBounds
  else Ok (takeN n (dropN (t_pos st) (t_bytes st)), tset_pos st (t_pos st + n)).

Fixpoint le_val (l : bytes) : N := match l with [] => 0 | c :: r => bn c + 256 * le_val r end%N.
Definition dec (e : endian) (l : bytes) : N := match e with LE => le_val l | BE => le_val (rev l) end.
Definition untwos (bits : N) (x : N) : Z :=
  if (x <? 2 ^ (bits - 1))%N then Z.of_N x else (Z.of_N x - 2 ^ Z.of_N bits)%Z.

Definition rd_fixed (st : dstate) (n : N) : res cerr (N * dstate) :=
  let* st := parse_padding st n in
  let* (b, st) := next_slice st n in Ok (dec (t_e st) b, st).

(* deserialize_str: returns the string bytes (already checked nul-free and UTF-8) *)
Definition de_str (st : dstate) : res cerr (bytes * dstate) :=
  let* (n, st) := match t_sig st with
                  | SSig | SVariant => let* (b, st) := next_slice st 1 in Ok (dec LE b, st)
                  | SStr | SObjPath => let* st := parse_padding st 4 in
                                       let* (b, st) := next_slice st 4 in Ok (dec (t_e st) b, st)
                  | _ => Err ESigMismatch
                  end in
  let* (s, st) := next_slice st n in
  if negb (nul_free s) then Err EValue
  else
    (* the trailing nul byte is read with next_slice(1) and must be 0 (after the fix: commit) *)
    let* (t, st) := next_slice st 1 in
    if negb (forallb (fun c => (bn c =? 0)%N) t) then Err EValue
    else if utf8_valid s then Ok (s, st) else Err EUtf8.

(* canonical form of a decoded Dict (BTreeMap: one entry per key, later wins; printed sorted by key text) *)
Definition f64_nan (b : N) : bool := ((b / 2 ^ 52) mod 2048 =? 2047)%N && negb ((b mod 2 ^ 52) =? 0)%N.
Definition f64_zero (b : N) : bool := (b mod 2 ^ 63 =? 0)%N.
Definition key_eq (a b : dval) : bool :=
  match a, b with
  | VF64 x, VF64 y => if f64_nan x || f64_nan y then (x =? y)%N else (x =? y)%N || (f64_zero x && f64_zero y)
  | _, _ => lbeq (val_text a) (val_text b)
  end.
Fixpoint bytes_leb (a b : bytes) : bool :=
  match a, b with
  | [], _ => true
  | _ :: _, [] => false
  | x :: a', y :: b' => if (bn x <? bn y)%N then true else if (bn y <? bn x)%N then false else bytes_leb a' b'
  end.
Fixpoint dict_insert_sorted (p : dval * dval) (l : list (dval * dval)) : list (dval * dval) :=
  match l with
  | [] => [p]
  | q :: r => if bytes_leb (val_text (fst p)) (val_text (fst q)) then p :: l else q :: dict_insert_sorted p r
  end.
Definition dict_put (l : list (dval * dval)) (k v : dval) : list (dval * dval) :=
  (* BTreeMap::insert keeps the OLD key object and replaces the value *)
  if existsb (fun q => key_eq (fst q) k) l
  then map (fun q => if key_eq (fst q) k then (fst q, v) else q) l
  else dict_insert_sorted (k, v) l.

(* Value::Dict is a BTreeMap: canonical form of a decoded value (applied bottom-up) *)
Fixpoint canon (v : dval) : dval :=
  match v with
  | VVariant x => VVariant (canon x)
  | VArray e l => VArray e (map canon l)
  | VStruct l => VStruct (map canon l)
  | VDict k vs l => VDict k vs (fold_left (fun acc p => dict_put acc (canon (fst p)) (canon (snd p))) l [])
  | _ => v
  end.

Definition nthN {A} (l : list A) (i : N) : option A :=
  if (i <? N.of_nat (length l))%N then nth_error l (N.to_nat i) else None.

(* the element loops of ArrayDeserializer / ArrayMapDeserializer / StructureDeserializer, parameterised by the
   recursive decoder *)
Section Loops.
  Variable de : dstate -> res cerr (dval * dstate).

  Fixpoint arr_loop (al start n : N) (c : sig) (k : nat) (st : dstate) (acc : list dval) {struct k}
    : res cerr (list dval * dstate) :=
    match k with
    | O => Err EFuel
    | S k' =>
        if (t_pos st =? start + n) then Ok (rev acc, st)
        else
          let* st := parse_padding st al in
          let* (v, st) := de st in
          if (start + n <? t_pos st) then Err EBounds
          else if negb (sig_eqb (vsig v) c) then Err ESigMismatch
          else arr_loop al start n c k' st (v :: acc)
    end.

  Fixpoint dict_loop (start n : N) (ks vs : sig) (k : nat) (st : dstate) (acc : list (dval * dval)) {struct k}
    : res cerr (list (dval * dval) * dstate) :=
    match k with
    | O => Err EFuel
    | S k' =>
        if (t_pos st =? start + n) then Ok (rev acc, st)
        else
          let* st := parse_padding st 8 in
          let* (kv, st) := de st in
          if (start + n <? t_pos st) then Err EBounds else
          let* (vv, st) := de (tset_sig st vs) in
          if (start + n <? t_pos st) then Err EBounds else
          let st := tset_sig st ks in
          if negb (sig_eqb (vsig kv) ks) || negb (sig_eqb (vsig vv) vs) then Err ESigMismatch
          else dict_loop start n ks vs k' st ((kv, vv) :: acc)
    end.

  Fixpoint struct_loop (gs : list sig) (st : dstate) (acc : list dval) {struct gs}
    : res cerr (list dval * dstate) :=
    match gs with
    | [] => Ok (rev acc, st)
    | g :: r =>
        let* (v, sub) := de (tset_sig st g) in
        struct_loop r (tset_pos st (t_pos sub)) (v :: acc)
    end.
End Loops.

Fixpoint de_any (fuel : nat) (st : dstate) {struct fuel} : res cerr (dval * dstate) :=
  match fuel with
  | O => Err EFuel
  | S f =>
      let fixedN (n : N) (k : N -> dval) := let* (x, st) := rd_fixed st n in Ok (k x, st) in
      match t_sig st with
      | SUnit => Err EType                         (* visit_unit is not implemented by ValueSeed *)
      | SU8 => fixedN 1 VU8
      | SBool => let* (x, st) := rd_fixed st 4 in
                 if (x =? 1)%N then Ok (VBool true, st) else if (x =? 0)%N then Ok (VBool false, st) else Err EValue
      | SI16 => fixedN 2 (fun x => VI16 (untwos 16 x))
      | SU16 => fixedN 2 VU16
      | SI32 => fixedN 4 (fun x => VI32 (untwos 32 x))
      | SU32 => fixedN 4 VU32
      | SI64 => fixedN 8 (fun x => VI64 (untwos 64 x))
      | SU64 => fixedN 8 VU64
      | SF64 => fixedN 8 VF64
      | SFd => let* (i, st) := rd_fixed st 4 in
               match nthN (t_fds st) i with Some h => Ok (VFd h, st) | None => Err EUnknownFd end
      | SStr => let* (s, st) := de_str st in Ok (VStr s, st)
      | SObjPath => let* (s, st) := de_str st in
                    if path_ok s then Ok (VPath s, st) else Err EValue    (* ObjectPath::try_from (after the fix: commit) *)
      | SSig => let* (s, st) := de_str st in
                match parse_sig (c_gv (t_cfg st)) s with Some g => Ok (VSigv g (negb (lbeq (show g) s)), st) | None => Err ESigParse end
      | SVariant =>
          (* deserialize_seq: padding for alignment 1; ValueDeserializer, stages Signature then Value *)
          let sig_start := t_pos st in
          let* (s, st1) := de_str (tset_sig st SSig) in
          let* _ := match parse_sig (c_gv (t_cfg st)) s with Some g => Ok g | None => Err ESigParse end in
          let st1 := tset_sig st1 SVariant in
          (* stage Value: re-read the length byte and the signature slice from the buffer *)
          match nthN (t_bytes st) sig_start with
          | None => Panic PIndex
          | Some lb =>
              let sig_len := bn lb in
              let value_start := (sig_start + 1 + sig_len + 1)%N in
              if (blen st <? sig_start + 1 + sig_len)%N then Err EBounds else
              let slice := takeN sig_len (dropN (sig_start + 1) (t_bytes st)) in
              match parse_sig (c_gv (t_cfg st)) slice with
              | None => Err ESigParse
              | Some g =>
                  (* a variant carries exactly one complete type (after the fix: commit) *)
                  if (match g with SUnit => true | _ => false end) || negb (len (show g) =? sig_len)%N then Err ESigMismatch else
                  if (blen st <? value_start)%N then Err EBounds else
                  let* d := inc_variant (t_dep st1) in
                  let inner := {| t_cfg := t_cfg st; t_e := t_e st; t_pos0 := t_pos0 st; t_bytes := t_bytes st;
                                  t_pos := value_start; t_sig := g; t_dep := d; t_fds := t_fds st |} in
                  let* (v, inner') := de_any f inner in
                  (* self.de.0.pos += de.0.pos, with de.0.pos relative to value_start *)
                  Ok (VVariant v, tset_pos st1 (t_pos st1 + (t_pos inner' - value_start)))
              end
          end
      | SArray c =>
          let* st := parse_padding st 4 in
          let* d := inc_array (t_dep st) in
          let st := tset_dep st d in
          let* (b, st) := next_slice st 4 in
          let n := dec (t_e st) b in
          let* al := align_of c in
          let* st := parse_padding st al in
          let asig := t_sig st in
          let st := tset_sig st c in
          let start := t_pos st in
          let* (l, st) := arr_loop (de_any f) al start n c (S (length (t_bytes st))) st [] in
          Ok (VArray c l, tset_sig (tset_dep st (dec_array (t_dep st))) asig)
      | SDict ks vs =>
          let* st := parse_padding st 4 in
          let* d := inc_array (t_dep st) in
          let st := tset_dep st d in
          let* (b, st) := next_slice st 4 in
          let n := dec (t_e st) b in
          let* st := parse_padding st 8 in
          let asig := t_sig st in
          let st := tset_sig st ks in
          let start := t_pos st in
          let* (l, st) := dict_loop (de_any f) start n ks vs (S (length (t_bytes st))) st [] in
          Ok (VDict ks vs l, tset_sig (tset_dep st (dec_array (t_dep st))) asig)
      | SStruct fs =>
          let* st := parse_padding st 8 in
          let* d := inc_struct (t_dep st) in
          let st := tset_dep st d in
          let* (l, st) := struct_loop (de_any f) fs st [] in
          Ok (VStruct l, match fs with [] => st | _ => tset_dep st (dec_struct (t_dep st)) end)
      | SMaybe _ => Err EOther     (* deserialize_option: error without option-as-array, signature mismatch with it *)
      end
  end.

Definition de_fuel : nat := 70%nat.

Definition init_dstate (c : cfg) (e : endian) (pos : N) (g : sig) (b : bytes) (fds : list N) : dstate :=
  {| t_cfg := c; t_e := e; t_pos0 := pos; t_bytes := b; t_pos := 0; t_sig := g; t_dep := depths0; t_fds := fds |}.

(* Data::deserialize::<Value>() : signature "v" *)
Definition de_value_top (c : cfg) (e : endian) (pos : N) (b : bytes) (fds : list N) : res cerr (dval * N) :=
  let* (v, st) := de_any de_fuel (init_dstate c e pos SVariant b fds) in
  match v with VVariant x => Ok (x, t_pos st) | _ => Err EOther end.

(* Data::deserialize_for_dynamic_signature::<_, Structure>(sig) : non-struct signatures are wrapped *)
Definition de_struct_top (c : cfg) (e : endian) (pos : N) (g : sig) (b : bytes) (fds : list N) : res cerr (dval * N) :=
  let g' := match g with SStruct _ => g | _ => SStruct [g] end in
  let* (v, st) := de_any de_fuel (init_dstate c e pos g' b fds) in Ok (v, t_pos st).
