(* DBus/DeSoundTop.v — C03 at the entry points used by the harness and by DBus/Run.v:
   [de_sound] in plain take/drop form, soundness of Data::deserialize::<Value> ([de_value_top]) and of
   deserialize_for_dynamic_signature ([de_struct_top]) with the identity descriptor table [seqN nf],
   the partial theorem (signatures inside the value within the D-Bus grammar), the refutation of the full
   statement (two witnesses), and the correctness of the decision procedure [spec_de] of DBus/Run.v
   (given the completeness theorem of C02 as a Section hypothesis). *)
From ZV Require Import Base.Bytes Base.Res Base.Sig Base.SigParse Base.Utf8 Base.WinnowFacts
                       DBus.Val DBus.Spec DBus.Ser DBus.De DBus.SerFacts DBus.SerProofs DBus.DeNoPanic DBus.DeFacts
                       DBus.DeSoundBase DBus.DeSoundDefs DBus.DeSound DBus.Run.
From Coq Require Import Lia.
Local Open Scope N_scope.

(* ---------- the identity descriptor table ---------- *)
Lemma length_seqN n : length (seqN n) = N.to_nat n.
Proof. unfold seqN. now rewrite map_length, seq_length. Qed.
Lemma nthN_seqN_some n i : i < n -> nthN (seqN n) i = Some i.
Proof.
  intros H. unfold nthN. rewrite length_seqN. destruct (N.ltb_spec i (N.of_nat (N.to_nat n))) as [_|Hc]; [|lia].
  unfold seqN. rewrite nth_error_map. rewrite (nth_error_nth' _ 0%nat) by (rewrite seq_length; lia).
  rewrite seq_nth by lia. cbn [option_map]. f_equal. lia.
Qed.
Lemma nthN_seqN n i h : nthN (seqN n) i = Some h -> h = i /\ i < n.
Proof.
  unfold nthN. rewrite length_seqN. destruct (N.ltb_spec i (N.of_nat (N.to_nat n))) as [Hl|_]; [|discriminate].
  intros H. assert (Hi : i < n) by lia. pose proof (nthN_seqN_some n i Hi) as H2. unfold nthN in H2.
  rewrite length_seqN in H2. destruct (N.ltb_spec i (N.of_nat (N.to_nat n))); [|lia]. split; [congruence|exact Hi].
Qed.
Lemma fds_id_seqN n : fds_id (seqN n).
Proof. intros i h H. now destruct (nthN_seqN n i h H). Qed.

Lemma fdsOK_seqN n v : fdsOK (seqN n) v -> Forall (fun h => h < n) (fds_of v).
Proof. unfold fdsOK. apply Forall_impl. intros h H. now destruct (nthN_seqN n h h H). Qed.

(* ---------- C03, lenient form, for every start state ---------- *)
Theorem de_sound : forall fuel st v st' nf,
  sig_ne (t_sig st) = true -> t_fds st = seqN nf -> de_any fuel st = Ok (v, st') ->
  (t_cfg st' = t_cfg st /\ t_e st' = t_e st /\ t_pos0 st' = t_pos0 st /\ t_bytes st' = t_bytes st /\
   t_sig st' = t_sig st /\ t_fds st' = t_fds st /\ t_dep st' = t_dep st) /\
  t_pos st <= t_pos st' /\ t_pos st' <= blen st /\
  vsig v = t_sig st /\ wfL v = true /\
  depth_ok (d_struct (t_dep st)) (d_array (t_dep st)) (d_variant (t_dep st)) v = true /\
  Forall (fun h => h < nf) (fds_of v) /\
  takeN (t_pos st' - t_pos st) (dropN (t_pos st) (t_bytes st)) = marshal (t_e st) ByHandle v (tabs st) 0.
Proof.
  intros fuel st v st' nf Hne Hfd E.
  assert (Hid : fds_id (t_fds st)) by (rewrite Hfd; apply fds_id_seqN).
  destruct (de_any_sound fuel st v st' Hne Hid E) as (F & D & L & B0 & S & W & O & K & M).
  destruct F as (A1 & A2 & A3 & A4 & A5 & A6).
  split; [repeat split; assumption|]. repeat split; try assumption.
  - apply fdsOK_seqN. now rewrite <- Hfd.
  - exact (M 0).
Qed.

(* ---------- what "valid encoding at the start of b" means ---------- *)
Definition valid_enc (e : endian) (pos nf : N) (b : bytes) (v : dval) (n : N) : Prop :=
  wf v = true /\ within_limits v = true /\ Forall (fun h => h < nf) (fds_of v) /\
  n <= len b /\ takeN n b = marshal_rx e pos v.
(* the same with the decoder's notion of well-formedness *)
Definition valid_encL (e : endian) (pos nf : N) (b : bytes) (v : dval) (n : N) : Prop :=
  wfL v = true /\ within_limits v = true /\ Forall (fun h => h < nf) (fds_of v) /\
  n <= len b /\ takeN n b = marshal_rx e pos v.

Lemma valid_encL_strict e pos nf b v n : valid_encL e pos nf b v n -> sigs_strict v = true -> valid_enc e pos nf b v n.
Proof. intros (W & R) Hs. split; [now apply wfL_strict_wf|exact R]. Qed.

Lemma init_sound c e pos g b nf v st' :
  sig_ne g = true -> de_any de_fuel (init_dstate c e pos g b (seqN nf)) = Ok (v, st') ->
  vsig v = g /\ valid_encL e pos nf b v (t_pos st').
Proof.
  intros Hne E.
  destruct (de_sound de_fuel (init_dstate c e pos g b (seqN nf)) v st' nf Hne eq_refl E) as (_ & L & B0 & S & W & O & K & M).
  unfold tabs, blen, init_dstate, depths0 in *. cbn [t_pos t_bytes t_e t_sig t_dep t_pos0 d_struct d_array d_variant] in *.
  rewrite N.sub_0_r, N.add_0_r in M. unfold dropN in M. cbn [N.to_nat skipn] in M.
  split; [exact S|]. repeat split; assumption.
Qed.

(* Data::deserialize::<Value>() *)
Theorem de_value_top_sound c e pos b nf x n :
  de_value_top c e pos b (seqN nf) = Ok (x, n) -> valid_encL e pos nf b (VVariant x) n.
Proof.
  unfold de_value_top. destruct (de_any de_fuel _) as [[v st']| |] eqn:E; cbn [bind]; try discriminate.
  destruct (init_sound c e pos SVariant b nf v st' eq_refl E) as [Hs Hv].
  destruct v; try discriminate. intros H; inversion H; subst. exact Hv.
Qed.

(* Data::deserialize_for_dynamic_signature::<Structure>(g) *)
Definition wrap_sig (g : sig) : sig := match g with SStruct _ => g | _ => SStruct [g] end.
Lemma wrap_sig_ne g : sig_ne g = true -> sig_ne (wrap_sig g) = true.
Proof. destruct g; cbn; intros H; rewrite ?H; reflexivity. Qed.

Theorem de_struct_top_sound c e pos g b nf v n : sig_ne g = true ->
  de_struct_top c e pos g b (seqN nf) = Ok (v, n) -> vsig v = wrap_sig g /\ valid_encL e pos nf b v n.
Proof.
  intros Hne. unfold de_struct_top. fold (wrap_sig g).
  destruct (de_any de_fuel _) as [[v' st']| |] eqn:E; cbn [bind]; try discriminate.
  intros H; inversion H; subst. exact (init_sound c e pos (wrap_sig g) b nf v st' (wrap_sig_ne g Hne) E).
Qed.

(* the signatures the line protocol can name have non-empty structs *)
Lemma sig_of_tok_ne gv t g : sig_of_tok gv t = Some g -> sig_ne g = true.
Proof.
  unfold sig_of_tok. destruct (lbeq t (B "-")); [intros H; inversion H; reflexivity|].
  intros H. now destruct (parse_sig_inv gv t g H).
Qed.

(* ---------- the partial theorems: outside the known class the full statement holds ---------- *)
Theorem value_sound_strict c e pos b nf x n :
  de_value_top c e pos b (seqN nf) = Ok (x, n) -> sig_lenient (VVariant x) = false ->
  valid_enc e pos nf b (VVariant x) n /\ sigs_nest_ok (VVariant x) = true.
Proof.
  intros E Hl. unfold sig_lenient in Hl. apply orb_false_iff in Hl as [H1 H2].
  apply negb_false_iff in H1. apply negb_false_iff in H2. split; [|exact H2].
  apply valid_encL_strict; [eapply de_value_top_sound; eauto|exact H1].
Qed.
Theorem struct_sound_strict c e pos g b nf v n : sig_ne g = true ->
  de_struct_top c e pos g b (seqN nf) = Ok (v, n) -> sig_lenient v = false ->
  vsig v = wrap_sig g /\ valid_enc e pos nf b v n /\ sigs_nest_ok v = true.
Proof.
  intros Hne E Hl. unfold sig_lenient in Hl. apply orb_false_iff in Hl as [H1 H2].
  apply negb_false_iff in H1. apply negb_false_iff in H2.
  destruct (de_struct_top_sound c e pos g b nf v n Hne E) as [Hs Hv].
  split; [exact Hs|]. split; [|exact H2]. now apply valid_encL_strict.
Qed.

(* ---------- the full statement is false of the faithful model ---------- *)
Definition hexb (s : string) : bytes := match bytes_of_hex (B s) with Some b => b | None => [] end.
Definition cfg0 : cfg := {| c_gv := false; c_oaa := false |}.

(* (a) a variant of type a{vs} (dict with a non-basic key type) holding the empty dict *)
Definition wit_key : bytes := hexb "05617b76737d00000000000000000000".
(* (b) a variant whose signature nests 33 arrays, holding the empty array *)
Definition wit_nest : bytes :=
  hexb "22616161616161616161616161616161616161616161616161616161616161616161790000000000".

Lemma wit_key_accepted :
  de_value_top cfg0 LE 0 wit_key (seqN 0) = Ok (VDict SVariant SStr [], 16) /\
  wf (VVariant (VDict SVariant SStr [])) = false /\ sigs_strict (VVariant (VDict SVariant SStr [])) = false.
Proof. vm_compute. repeat split. Qed.

Lemma wit_nest_accepted :
  exists x, de_value_top cfg0 LE 0 wit_nest (seqN 0) = Ok (x, 40) /\
            sigs_nest_ok (VVariant x) = false /\ sig_lenient (VVariant x) = true.
Proof. eexists. vm_compute. repeat split. Qed.

Theorem sigs_refuted :
  (exists c e pos nf b x n, c_gv c = false /\ de_value_top c e pos b (seqN nf) = Ok (x, n) /\
                            wf (VVariant x) = false /\ sigs_strict (VVariant x) = false) /\
  (exists c e pos nf b x n, c_gv c = false /\ de_value_top c e pos b (seqN nf) = Ok (x, n) /\
                            sigs_nest_ok (VVariant x) = false).
Proof.
  split.
  - exists cfg0, LE, 0, 0, wit_key, (VDict SVariant SStr []), 16. split; [reflexivity|]. exact wit_key_accepted.
  - destruct wit_nest_accepted as (x & H1 & H2 & _). exists cfg0, LE, 0, 0, wit_nest, x, 40. split; [reflexivity|]. split; assumption.
Qed.

(* ---------- the decision procedure of DBus/Run.v ---------- *)
Definition valid_encb (e : endian) (pos : N) (top : dval -> dval) (b : bytes) (r : res cerr (dval * N)) : bool :=
  match r with
  | Ok (v, n) => wf (top v) && within_limits (top v) && lbeq (marshal_rx e pos (top v)) (takeN n b) && (n <=? len b)
  | _ => false
  end.

(* the same decision with one more decidable demand on the decoded value (e.g. [sigs_nest_ok]) *)
Definition valid_encb_x (extra : dval -> bool) (e : endian) (pos : N) (top : dval -> dval) (b : bytes)
                        (r : res cerr (dval * N)) : bool :=
  match r with Ok (v, n) => extra (top v) && valid_encb e pos top b (Ok (v, n)) | _ => false end.

Lemma spec_de_valid_encb e pos top b r :
  spec_de e pos top b r = if valid_encb e pos top b r then B "OK" else B "ERR".
Proof. destruct r as [[v n]| |]; reflexivity. Qed.
Lemma spec_de_ok e pos top b r : spec_de e pos top b r = B "OK" <-> valid_encb e pos top b r = true.
Proof. rewrite spec_de_valid_encb. destruct (valid_encb e pos top b r); split; intros H; try reflexivity; discriminate. Qed.

Lemma valid_encb_true e pos top b v n :
  valid_encb e pos top b (Ok (v, n)) = true <->
  wf (top v) = true /\ within_limits (top v) = true /\ n <= len b /\ takeN n b = marshal_rx e pos (top v).
Proof.
  cbn [valid_encb]. rewrite !andb_true_iff, N.leb_le, lbeq_eq. split.
  - intros (((H1 & H2) & H3) & H4). auto.
  - intros (H1 & H2 & H3 & H4). auto.
Qed.

Lemma take_drop (b : bytes) n : b = takeN n b ++ dropN n b.
Proof. unfold takeN, dropN. symmetry. apply firstn_skipn. Qed.
Lemma len_takeN (b : bytes) n : n <= len b -> len (takeN n b) = n.
Proof. intros H. unfold len, takeN in *. rewrite firstn_length. lia. Qed.

Section Decision.
  (* completeness of the decoder model (property C02, DBus/DeComplete.v), in the form of its top-level corollaries *)
  Hypothesis Hcomplete_v : forall c e pos (b : bytes) (fds : list N) x rest,
    wf (VVariant x) = true -> within_limits (VVariant x) = true ->
    len (marshal_rx e pos (VVariant x)) < 2 ^ 32 -> N.of_nat (length fds) <= 2 ^ 32 ->
    Forall (fun h => nthN fds h = Some h) (fds_of (VVariant x)) ->
    b = marshal_rx e pos (VVariant x) ++ rest ->
    de_value_top c e pos b fds = Ok (x, len (marshal_rx e pos (VVariant x))).
  Hypothesis Hcomplete_s : forall c e pos (b : bytes) (fds : list N) l rest,
    wf (VStruct l) = true -> within_limits (VStruct l) = true ->
    len (marshal_rx e pos (VStruct l)) < 2 ^ 32 -> N.of_nat (length fds) <= 2 ^ 32 ->
    Forall (fun h => nthN fds h = Some h) (fds_of (VStruct l)) ->
    b = marshal_rx e pos (VStruct l) ++ rest ->
    de_struct_top c e pos (vsig (VStruct l)) b fds = Ok (VStruct l, len (marshal_rx e pos (VStruct l))).

  Lemma complete_side e pos nf b v n : nf <= 2 ^ 32 -> len b < 2 ^ 32 -> valid_enc e pos nf b v n ->
    len (marshal_rx e pos v) = n /\ len (marshal_rx e pos v) < 2 ^ 32 /\ N.of_nat (length (seqN nf)) <= 2 ^ 32 /\
    Forall (fun h => nthN (seqN nf) h = Some h) (fds_of v) /\ b = marshal_rx e pos v ++ dropN n b.
  Proof.
    intros Hnf Hb (W & L & K & Hn & Hm).
    assert (Hl : len (marshal_rx e pos v) = n) by (rewrite <- Hm; now apply len_takeN).
    split; [exact Hl|]. split; [lia|]. split; [rewrite length_seqN; lia|]. split.
    - eapply Forall_impl; [|exact K]. intros h Hh. now apply nthN_seqN_some.
    - rewrite <- Hm. apply take_drop.
  Qed.

  (* decode-then-check decides "b starts with a valid encoding of a variant" *)
  Theorem valid_encb_value_correct c e pos nf b : nf <= 2 ^ 32 -> len b < 2 ^ 32 ->
    (valid_encb e pos VVariant b (de_value_top c e pos b (seqN nf)) = true <->
     exists x n, valid_enc e pos nf b (VVariant x) n).
  Proof.
    intros Hnf Hb. split.
    - destruct (de_value_top c e pos b (seqN nf)) as [[x n]| |] eqn:E; try discriminate.
      intros H. apply valid_encb_true in H as (H1 & H2 & H3 & H4). exists x, n.
      destruct (de_value_top_sound _ _ _ _ _ _ _ E) as (_ & _ & K & _). repeat split; assumption.
    - intros (x & n & Hv). destruct (complete_side _ _ _ _ _ _ Hnf Hb Hv) as (Hl & Hl2 & Hf & Hk & Hbb).
      destruct Hv as (W & L & K & Hn & Hm).
      rewrite (Hcomplete_v c e pos b (seqN nf) x (dropN n b) W L Hl2 Hf Hk Hbb). rewrite Hl.
      apply valid_encb_true. repeat split; assumption.
  Qed.

  (* the same for a message body of signature (fs) *)
  Theorem valid_encb_struct_correct c e pos nf fs b : nf <= 2 ^ 32 -> len b < 2 ^ 32 -> sig_ne (SStruct fs) = true ->
    (valid_encb e pos (fun v => v) b (de_struct_top c e pos (SStruct fs) b (seqN nf)) = true <->
     exists v n, vsig v = SStruct fs /\ valid_enc e pos nf b v n).
  Proof.
    intros Hnf Hb Hne. split.
    - destruct (de_struct_top c e pos (SStruct fs) b (seqN nf)) as [[v n]| |] eqn:E; try discriminate.
      intros H. apply valid_encb_true in H as (H1 & H2 & H3 & H4). exists v, n.
      destruct (de_struct_top_sound _ _ _ _ _ _ _ _ Hne E) as (Hs & _ & _ & K & _). cbn [wrap_sig] in Hs.
      split; [exact Hs|]. repeat split; assumption.
    - intros (v & n & Hs & Hv). destruct v; try discriminate Hs.
      destruct (complete_side _ _ _ _ _ _ Hnf Hb Hv) as (Hl & Hl2 & Hf & Hk & Hbb).
      destruct Hv as (W & L & K & Hn & Hm). rewrite <- Hs.
      rewrite (Hcomplete_s c e pos b (seqN nf) l (dropN n b) W L Hl2 Hf Hk Hbb). rewrite Hl.
      apply valid_encb_true. repeat split; assumption.
  Qed.

  (* consequence: bytes accepted with an ill-formed value are not a valid encoding of anything *)
  Corollary accepted_invalid c e pos nf b x n : nf <= 2 ^ 32 -> len b < 2 ^ 32 ->
    de_value_top c e pos b (seqN nf) = Ok (x, n) -> wf (VVariant x) = false ->
    ~ exists x' n', valid_enc e pos nf b (VVariant x') n'.
  Proof.
    intros Hnf Hb E Hw Hex. apply (valid_encb_value_correct c e pos nf b Hnf Hb) in Hex.
    rewrite E in Hex. apply valid_encb_true in Hex as (H1 & _). congruence.
  Qed.
  Theorem valid_encb_x_value_correct extra c e pos nf b : nf <= 2 ^ 32 -> len b < 2 ^ 32 ->
    (valid_encb_x extra e pos VVariant b (de_value_top c e pos b (seqN nf)) = true <->
     exists x n, valid_enc e pos nf b (VVariant x) n /\ extra (VVariant x) = true).
  Proof.
    intros Hnf Hb. split.
    - destruct (de_value_top c e pos b (seqN nf)) as [[x n]| |] eqn:E; try discriminate.
      cbn [valid_encb_x]. intros H. apply andb_true_iff in H as [Hx H].
      apply valid_encb_true in H as (H1 & H2 & H3 & H4). exists x, n.
      destruct (de_value_top_sound _ _ _ _ _ _ _ E) as (_ & _ & K & _). repeat split; assumption.
    - intros (x & n & Hv & Hx). destruct (complete_side _ _ _ _ _ _ Hnf Hb Hv) as (Hl & Hl2 & Hf & Hk & Hbb).
      destruct Hv as (W & L & K & Hn & Hm).
      rewrite (Hcomplete_v c e pos b (seqN nf) x (dropN n b) W L Hl2 Hf Hk Hbb). rewrite Hl.
      cbn [valid_encb_x]. rewrite Hx. cbn [andb]. apply valid_encb_true. repeat split; assumption.
  Qed.
  Theorem valid_encb_x_struct_correct extra c e pos nf fs b : nf <= 2 ^ 32 -> len b < 2 ^ 32 -> sig_ne (SStruct fs) = true ->
    (valid_encb_x extra e pos (fun v => v) b (de_struct_top c e pos (SStruct fs) b (seqN nf)) = true <->
     exists v n, vsig v = SStruct fs /\ valid_enc e pos nf b v n /\ extra v = true).
  Proof.
    intros Hnf Hb Hne. split.
    - destruct (de_struct_top c e pos (SStruct fs) b (seqN nf)) as [[v n]| |] eqn:E; try discriminate.
      cbn [valid_encb_x]. intros H. apply andb_true_iff in H as [Hx H].
      apply valid_encb_true in H as (H1 & H2 & H3 & H4). exists v, n.
      destruct (de_struct_top_sound _ _ _ _ _ _ _ _ Hne E) as (Hs & _ & _ & K & _). cbn [wrap_sig] in Hs.
      split; [exact Hs|]. repeat split; assumption.
    - intros (v & n & Hs & Hv & Hx). destruct v; try discriminate Hs.
      destruct (complete_side _ _ _ _ _ _ Hnf Hb Hv) as (Hl & Hl2 & Hf & Hk & Hbb).
      destruct Hv as (W & L & K & Hn & Hm). rewrite <- Hs.
      rewrite (Hcomplete_s c e pos b (seqN nf) l (dropN n b) W L Hl2 Hf Hk Hbb). rewrite Hl.
      cbn [valid_encb_x]. rewrite Hx. cbn [andb]. apply valid_encb_true. repeat split; assumption.
  Qed.

  (* the verdict column printed by DBus/Run.v *)
  Corollary spec_de_value_correct c e pos nf b : nf <= 2 ^ 32 -> len b < 2 ^ 32 ->
    (spec_de e pos VVariant b (de_value_top c e pos b (seqN nf)) = B "OK" <->
     exists x n, valid_enc e pos nf b (VVariant x) n).
  Proof. intros Hnf Hb. rewrite spec_de_ok. now apply valid_encb_value_correct. Qed.
  Corollary spec_de_struct_correct c e pos nf fs b : nf <= 2 ^ 32 -> len b < 2 ^ 32 -> sig_ne (SStruct fs) = true ->
    (spec_de e pos (fun v => v) b (de_struct_top c e pos (SStruct fs) b (seqN nf)) = B "OK" <->
     exists v n, vsig v = SStruct fs /\ valid_enc e pos nf b v n).
  Proof. intros Hnf Hb Hne. rewrite spec_de_ok. now apply valid_encb_struct_correct. Qed.
End Decision.

(* the full statement (every accepted input is a valid encoding whose signatures obey the grammar and the
   nesting limit) is refuted by either witness *)
Theorem full_refuted :
  ~ (forall c e pos nf b x n, c_gv c = false -> de_value_top c e pos b (seqN nf) = Ok (x, n) ->
       (wf (VVariant x) = true /\ within_limits (VVariant x) = true /\
        Forall (fun h => h < nf) (fds_of (VVariant x)) /\ n <= len b /\ takeN n b = marshal_rx e pos (VVariant x)) /\
       sigs_nest_ok (VVariant x) = true).
Proof.
  intros H. destruct wit_key_accepted as (E & W & _).
  destruct (H cfg0 LE 0 0 wit_key _ _ eq_refl E) as ((W' & _) & _). congruence.
Qed.

(* ---------- non-vacuity: the hypotheses of the theorems are met by ordinary input ---------- *)
Example ex_decode :
  de_struct_top cfg0 BE 5 (vsig ex_value) (marshal_rx BE 5 ex_value ++ [x01; x02]) (seqN 4)
  = Ok (ex_value, len (marshal_rx BE 5 ex_value))
  /\ sig_ne (vsig ex_value) = true /\ sig_lenient ex_value = false.
Proof. vm_compute. repeat split. Qed.
Example ex_variant :
  de_value_top cfg0 LE 3 (marshal_rx LE 3 (VVariant ex_value)) (seqN 4) = Ok (ex_value, len (marshal_rx LE 3 (VVariant ex_value))).
Proof. vm_compute. reflexivity. Qed.
