(* DBus/DeSoundBase.v — bookkeeping for the soundness proof of the D-Bus decoder model (C03):
   segments of the input buffer, fixed-width integers read back (enc (dec b) = b), two's complement,
   "marshal starts with its own alignment padding", and exact characterisations of the primitive readers
   of DBus/De.v (parse_padding, next_slice, rd_fixed, de_str).  No dependency on DBus/Run.v. *)
From ZV Require Import Base.Bytes Base.Res Base.Sig Base.SigParse Base.Utf8 Base.WinnowFacts
                       DBus.Val DBus.Spec DBus.Ser DBus.De DBus.SerFacts DBus.SerProofs.
From Coq Require Import Lia.
Local Open Scope N_scope.

(* ---------- bytes ---------- *)
Lemma bn_lt c : bn c < 256.
Proof. unfold bn. pose proof (Byte.to_N_bounded c). lia. Qed.
Lemma nb_bn c : nb (bn c) = c.
Proof. unfold nb, bn. rewrite N.mod_small by apply bn_lt. now rewrite Byte.of_to_N. Qed.
Lemma bn_nb n : n < 256 -> bn (nb n) = n.
Proof.
  intros H. unfold nb, bn. rewrite N.mod_small by exact H.
  destruct (Byte.of_N n) eqn:E; [now apply Byte.to_of_N|]. apply Byte.of_N_None_iff in E. lia.
Qed.
Lemma bn_zero c : (bn c =? 0) = true -> c = x00.
Proof. intros H. apply N.eqb_eq in H. rewrite <- (nb_bn c), H. reflexivity. Qed.

Lemma all_zero l : forallb (fun c => bn c =? 0) l = true -> l = repeat x00 (length l).
Proof.
  induction l as [|c r IH]; [reflexivity|]. cbn [forallb length repeat]. intros H.
  apply andb_true_iff in H as [H1 H2]. rewrite (bn_zero _ H1). f_equal. now apply IH.
Qed.

(* ---------- list algebra on N-indexed take/drop ---------- *)
Lemma firstn_add {A} n m (l : list A) : firstn (n + m) l = firstn n l ++ firstn m (skipn n l).
Proof. revert l. induction n as [|n IH]; intros l; [reflexivity|]. destruct l; cbn; [now rewrite firstn_nil|]. now rewrite IH. Qed.

Lemma skipn_add {A} n m (l : list A) : skipn m (skipn n l) = skipn (n + m) l.
Proof. revert l. induction n as [|n IH]; intros l; [reflexivity|]. destruct l; cbn; [now rewrite skipn_nil|]. apply IH. Qed.

Definition seg (b : bytes) (p q : N) : bytes := takeN (q - p) (dropN p b).

Lemma seg_nil b p : seg b p p = [].
Proof. unfold seg, takeN. rewrite N.sub_diag. reflexivity. Qed.
Lemma seg_cat b p q r : p <= q -> q <= r -> seg b p r = seg b p q ++ seg b q r.
Proof.
  intros H1 H2. unfold seg, takeN, dropN.
  replace (N.to_nat (r - p)) with (N.to_nat (q - p) + N.to_nat (r - q))%nat by lia.
  rewrite firstn_add. f_equal. rewrite skipn_add. do 2 f_equal. lia.
Qed.
Lemma length_seg b p q : q <= len b -> length (seg b p q) = N.to_nat (q - p).
Proof. intros H. unfold seg, takeN, dropN, len in *. rewrite firstn_length, skipn_length. lia. Qed.
Lemma len_seg b p q : q <= len b -> len (seg b p q) = q - p.
Proof. intros H. unfold len at 1. rewrite length_seg by exact H. lia. Qed.
Lemma seg_add b p n : seg b p (p + n) = takeN n (dropN p b).
Proof. unfold seg. f_equal. lia. Qed.

Lemma nthN_dropN {A} (l : list A) i x : nthN l i = Some x -> exists r, dropN i l = x :: r.
Proof.
  unfold nthN, dropN. destruct (i <? N.of_nat (length l)); [|discriminate].
  generalize (N.to_nat i). clear i. intros n. revert l. induction n as [|n IH]; intros [|y l] H; cbn in H; try discriminate.
  - inversion H. cbn. eauto.
  - cbn. eauto.
Qed.
Lemma nthN_seg_head l i x q y r : nthN l i = Some x -> seg l i q = y :: r -> x = y.
Proof.
  intros H1 H2. destruct (nthN_dropN _ _ _ H1) as [t Ht]. unfold seg, takeN in H2. rewrite Ht in H2.
  destruct (N.to_nat (q - i)); [discriminate|]. cbn in H2. congruence.
Qed.

(* ---------- fixed-width integers ---------- *)
Lemma le_bytes_le_val l : le_bytes (length l) (le_val l) = l.
Proof.
  induction l as [|c r IH]; [reflexivity|]. cbn [length le_val le_bytes]. pose proof (bn_lt c) as Hc.
  replace ((bn c + 256 * le_val r) mod 256) with (bn c)
    by (rewrite (N.mul_comm 256), N.mod_add by lia; now rewrite N.mod_small).
  replace ((bn c + 256 * le_val r) / 256) with (le_val r)
    by (rewrite (N.mul_comm 256), N.div_add by lia; rewrite N.div_small by exact Hc; reflexivity).
  now rewrite IH, nb_bn.
Qed.
Lemma enc_dec e l : enc e (length l) (dec e l) = l.
Proof.
  destruct e; cbn [enc dec]; [apply le_bytes_le_val|].
  rewrite <- (rev_length l). rewrite le_bytes_le_val. apply rev_involutive.
Qed.
Lemma le_val_lt l : le_val l < 256 ^ N.of_nat (length l).
Proof.
  induction l as [|c r IH]; [cbn; lia|]. cbn [length le_val]. rewrite Nat2N.inj_succ, N.pow_succ_r'.
  pose proof (bn_lt c). lia.
Qed.
Lemma dec_lt e l : dec e l < 256 ^ N.of_nat (length l).
Proof. destruct e; cbn [dec]; [apply le_val_lt|]. rewrite <- (rev_length l). apply le_val_lt. Qed.

Lemma le_val_single c : le_val [c] = bn c.
Proof. cbn [le_val]. lia. Qed.

(* two's complement read back *)
Lemma twos_untwos16 x : x < 65536 ->
  twos 16 (untwos 16 x) = x /\ ((-32768 <=? untwos 16 x)%Z && (untwos 16 x <? 32768)%Z) = true.
Proof.
  intros H. unfold twos, untwos. change (2 ^ (16 - 1)) with 32768. change (2 ^ Z.of_N 16)%Z with 65536%Z.
  destruct (N.ltb_spec x 32768) as [Hl|Hl].
  - split; [rewrite Z.mod_small by lia; apply N2Z.id|]. apply andb_true_iff. split; [apply Z.leb_le|apply Z.ltb_lt]; lia.
  - split.
    + replace (Z.of_N x - 65536)%Z with (Z.of_N x + (-1) * 65536)%Z by lia.
      rewrite Z.mod_add by lia. rewrite Z.mod_small by lia. apply N2Z.id.
    + apply andb_true_iff. split; [apply Z.leb_le|apply Z.ltb_lt]; lia.
Qed.
Lemma twos_untwos32 x : x < 4294967296 ->
  twos 32 (untwos 32 x) = x /\ ((-2147483648 <=? untwos 32 x)%Z && (untwos 32 x <? 2147483648)%Z) = true.
Proof.
  intros H. unfold twos, untwos. change (2 ^ (32 - 1)) with 2147483648. change (2 ^ Z.of_N 32)%Z with 4294967296%Z.
  destruct (N.ltb_spec x 2147483648) as [Hl|Hl].
  - split; [rewrite Z.mod_small by lia; apply N2Z.id|]. apply andb_true_iff. split; [apply Z.leb_le|apply Z.ltb_lt]; lia.
  - split.
    + replace (Z.of_N x - 4294967296)%Z with (Z.of_N x + (-1) * 4294967296)%Z by lia.
      rewrite Z.mod_add by lia. rewrite Z.mod_small by lia. apply N2Z.id.
    + apply andb_true_iff. split; [apply Z.leb_le|apply Z.ltb_lt]; lia.
Qed.
Lemma twos_untwos64 x : x < 18446744073709551616 ->
  twos 64 (untwos 64 x) = x /\
  ((-9223372036854775808 <=? untwos 64 x)%Z && (untwos 64 x <? 9223372036854775808)%Z) = true.
Proof.
  intros H. unfold twos, untwos. change (2 ^ (64 - 1)) with 9223372036854775808.
  change (2 ^ Z.of_N 64)%Z with 18446744073709551616%Z.
  destruct (N.ltb_spec x 9223372036854775808) as [Hl|Hl].
  - split; [rewrite Z.mod_small by lia; apply N2Z.id|]. apply andb_true_iff. split; [apply Z.leb_le|apply Z.ltb_lt]; lia.
  - split.
    + replace (Z.of_N x - 18446744073709551616)%Z with (Z.of_N x + (-1) * 18446744073709551616)%Z by lia.
      rewrite Z.mod_add by lia. rewrite Z.mod_small by lia. apply N2Z.id.
    + apply andb_true_iff. split; [apply Z.leb_le|apply Z.ltb_lt]; lia.
Qed.

(* ---------- padding ---------- *)
Lemma len_pad pos al : len (pad pos al) = padn pos al.
Proof. unfold pad. apply len_zeros. Qed.
Lemma padn_aligned pos al : al <> 0 -> padn (pos + padn pos al) al = 0.
Proof.
  intros H. destruct (padn_spec pos al H) as [_ H2]. unfold padn at 1. rewrite H2, N.sub_0_r. now apply N.mod_same.
Qed.
Lemma pad_aligned pos al : al <> 0 -> pad (pos + padn pos al) al = [].
Proof. intros H. unfold pad. now rewrite padn_aligned. Qed.

Lemma align_dbus_nz g : align_dbus g <> 0.
Proof. destruct g; cbn; lia. Qed.

(* a marshalled value begins with the padding to its own alignment, and nothing else depends on the
   unaligned position *)
Lemma marshal_align e fm v pos k :
  marshal e fm v pos k =
  pad pos (align_dbus (vsig v)) ++ marshal e fm v (pos + padn pos (align_dbus (vsig v))) k.
Proof.
  assert (A4 : pad (pos + padn pos 4) 4 = []) by (apply pad_aligned; lia).
  assert (A2 : pad (pos + padn pos 2) 2 = []) by (apply pad_aligned; lia).
  assert (A8 : pad (pos + padn pos 8) 8 = []) by (apply pad_aligned; lia).
  destruct v; cbn [vsig align_dbus];
    try (rewrite pad_1, padn_1, N.add_0_r; reflexivity);
    try (cbn [marshal]; rewrite ?A2, ?A4, ?A8; reflexivity).
  - rewrite !marshal_array. cbv zeta. rewrite A4. cbn [app]. change (len []) with 0. rewrite N.add_0_r, len_pad. reflexivity.
  - rewrite !marshal_dict. cbv zeta. rewrite A4. cbn [app]. change (len []) with 0. rewrite N.add_0_r, len_pad. reflexivity.
  - rewrite !marshal_struct. cbv zeta. rewrite A8. cbn [app]. change (len []) with 0. rewrite N.add_0_r, len_pad. reflexivity.
Qed.

(* ---------- the primitive readers ---------- *)
Lemma tset_pos_same st : tset_pos st (t_pos st) = st.
Proof. destruct st; reflexivity. Qed.

Lemma parse_padding_ok st al st' : parse_padding st al = Ok st' ->
  st' = tset_pos st (t_pos st + padn (tabs st) al) /\
  seg (t_bytes st) (t_pos st) (t_pos st') = pad (tabs st) al.
Proof.
  unfold parse_padding. destruct (N.eqb_spec (padn (tabs st) al) 0) as [E|E].
  - intros H. inversion H; subst st'. rewrite E, N.add_0_r, tset_pos_same. split; [reflexivity|].
    rewrite seg_nil. unfold pad. rewrite E. reflexivity.
  - destruct (N.ltb_spec (blen st) (t_pos st + padn (tabs st) al)) as [Hb|Hb]; [discriminate|].
    destruct (forallb _ _) eqn:Hz; [|discriminate]. intros H. inversion H; subst st'. split; [reflexivity|].
    cbn [tset_pos t_pos]. rewrite seg_add. apply all_zero in Hz. rewrite Hz. unfold pad, zeros. f_equal.
    rewrite <- seg_add. rewrite length_seg by exact Hb. f_equal. lia.
Qed.

Lemma next_slice_ok st n b st' : next_slice st n = Ok (b, st') ->
  st' = tset_pos st (t_pos st + n) /\ t_pos st + n <= blen st /\
  b = seg (t_bytes st) (t_pos st) (t_pos st + n) /\ length b = N.to_nat n.
Proof.
  unfold next_slice. destruct (N.ltb_spec (blen st) (t_pos st + n)) as [Hb|Hb]; [discriminate|].
  intros H. inversion H; subst. rewrite <- seg_add. repeat split; try assumption.
  rewrite length_seg by exact Hb. lia.
Qed.

Lemma rd_fixed_ok st n x st' (k : nat) : N.of_nat k = n -> rd_fixed st n = Ok (x, st') ->
  st' = tset_pos st (t_pos st + padn (tabs st) n + n) /\ t_pos st' <= blen st /\
  seg (t_bytes st) (t_pos st) (t_pos st') = pad (tabs st) n ++ enc (t_e st) k x /\ x < 256 ^ n.
Proof.
  intros Hk. unfold rd_fixed. destruct (parse_padding st n) as [s1| |] eqn:E1; cbn [bind]; try discriminate.
  destruct (next_slice s1 n) as [[b s2]| |] eqn:E2; cbn [bind]; try discriminate.
  intros H. inversion H; subst x st'. clear H.
  destruct (parse_padding_ok _ _ _ E1) as [-> Hp]. cbn [tset_pos t_pos] in Hp.
  destruct (next_slice_ok _ _ _ _ E2) as (-> & Hb & Hs & Hl). cbn [tset_pos t_pos t_bytes t_e blen] in *.
  assert (Hk' : length b = k) by lia.
  split; [reflexivity|]. split; [exact Hb|]. split.
  - rewrite (seg_cat _ _ (t_pos st + padn (tabs st) n)) by lia. rewrite Hp, <- Hs. f_equal.
    rewrite <- Hk'. symmetry. apply enc_dec.
  - rewrite <- Hk, <- Hk'. apply dec_lt.
Qed.

(* strings with a 4-byte length (STRING, OBJECT_PATH) *)
Lemma de_str_4 st s st' : (t_sig st = SStr \/ t_sig st = SObjPath) -> de_str st = Ok (s, st') ->
  exists p', st' = tset_pos st p' /\ t_pos st <= p' /\ p' <= blen st /\
             seg (t_bytes st) (t_pos st) p' = pad (tabs st) 4 ++ enc (t_e st) 4 (len s) ++ s ++ [x00] /\
             str_ok s = true.
Proof.
  intros Hsig. unfold de_str.
  assert (Hhd : match t_sig st with
                | SSig | SVariant => let* (b, st0) := next_slice st 1 in Ok (dec LE b, st0)
                | SStr | SObjPath => let* st0 := parse_padding st 4 in let* (b, st1) := next_slice st0 4 in Ok (dec (t_e st1) b, st1)
                | _ => Err ESigMismatch
                end = rd_fixed st 4) by (destruct Hsig as [-> | ->]; reflexivity).
  rewrite Hhd. clear Hhd.
  destruct (rd_fixed st 4) as [[n s1]| |] eqn:E1; cbn [bind]; try discriminate.
  destruct (next_slice s1 n) as [[s0 s2]| |] eqn:E2; cbn [bind]; try discriminate.
  destruct (nul_free s0) eqn:Hnf; cbn [negb]; [|discriminate].
  destruct (next_slice s2 1) as [[t s3]| |] eqn:E3; cbn [bind]; try discriminate.
  destruct (forallb (fun c => bn c =? 0) t) eqn:Hz; cbn [negb]; [|discriminate].
  destruct (utf8_valid s0) eqn:Hu; [|discriminate].
  intros H. inversion H; subst s0 st'. clear H.
  destruct (rd_fixed_ok st 4 n s1 4%nat eq_refl E1) as (-> & Hb1 & Hs1 & Hn).
  destruct (next_slice_ok _ _ _ _ E2) as (-> & Hb2 & Hs2 & Hl2).
  destruct (next_slice_ok _ _ _ _ E3) as (-> & Hb3 & Hs3 & Hl3).
  cbn [tset_pos t_pos t_bytes t_e blen] in *.
  assert (Hlen : len s = n) by (unfold len; lia).
  apply all_zero in Hz. rewrite Hl3 in Hz. change (N.to_nat 1) with 1%nat in Hz. cbn [repeat] in Hz.
  set (p1 := t_pos st + padn (tabs st) 4 + 4) in *.
  exists (p1 + n + 1). split; [reflexivity|]. split; [lia|]. split; [exact Hb3|]. split.
  - rewrite (seg_cat _ _ p1) by lia. rewrite Hs1. rewrite (seg_cat _ p1 (p1 + n)) by lia.
    rewrite <- Hs2, <- Hs3, Hz, Hlen. now rewrite <- !app_assoc.
  - unfold str_ok. rewrite Hnf, Hu, Hlen. cbn [andb]. apply N.ltb_lt.
    change (256 ^ 4) with 4294967296 in Hn. change (2 ^ 32) with 4294967296. exact Hn.
Qed.

(* strings with a 1-byte length (SIGNATURE, and the signature of a VARIANT) *)
Lemma de_str_1 st s st' : (t_sig st = SSig \/ t_sig st = SVariant) -> de_str st = Ok (s, st') ->
  st' = tset_pos st (t_pos st + 1 + len s + 1) /\ t_pos st + 1 + len s + 1 <= blen st /\
  seg (t_bytes st) (t_pos st) (t_pos st + 1 + len s + 1) = nb (len s) :: s ++ [x00] /\
  seg (t_bytes st) (t_pos st + 1) (t_pos st + 1 + len s) = s /\ len s <= 255.
Proof.
  intros Hsig. unfold de_str.
  assert (Hhd : match t_sig st with
                | SSig | SVariant => let* (b, st0) := next_slice st 1 in Ok (dec LE b, st0)
                | SStr | SObjPath => let* st0 := parse_padding st 4 in let* (b, st1) := next_slice st0 4 in Ok (dec (t_e st1) b, st1)
                | _ => Err ESigMismatch
                end = let* (b, st0) := next_slice st 1 in Ok (dec LE b, st0)) by (destruct Hsig as [-> | ->]; reflexivity).
  rewrite Hhd. clear Hhd.
  destruct (next_slice st 1) as [[b s1]| |] eqn:E1; cbn [bind]; try discriminate.
  destruct (next_slice s1 (dec LE b)) as [[s0 s2]| |] eqn:E2; cbn [bind]; try discriminate.
  destruct (nul_free s0) eqn:Hnf; cbn [negb]; [|discriminate].
  destruct (next_slice s2 1) as [[t s3]| |] eqn:E3; cbn [bind]; try discriminate.
  destruct (forallb (fun c => bn c =? 0) t) eqn:Hz; cbn [negb]; [|discriminate].
  destruct (utf8_valid s0) eqn:Hu; [|discriminate].
  intros H. inversion H; subst s0 st'. clear H.
  destruct (next_slice_ok _ _ _ _ E1) as (-> & Hb1 & Hs1 & Hl1).
  destruct (next_slice_ok _ _ _ _ E2) as (-> & Hb2 & Hs2 & Hl2).
  destruct (next_slice_ok _ _ _ _ E3) as (-> & Hb3 & Hs3 & Hl3).
  cbn [tset_pos t_pos t_bytes t_e blen] in *.
  change (N.to_nat 1) with 1%nat in Hl1. destruct b as [|c [|? ?]]; try discriminate Hl1.
  cbn [dec] in *. rewrite le_val_single in *.
  assert (Hlen : len s = bn c) by (unfold len; lia).
  apply all_zero in Hz. rewrite Hl3 in Hz. change (N.to_nat 1) with 1%nat in Hz. cbn [repeat] in Hz.
  rewrite Hlen. split; [reflexivity|]. split; [exact Hb3|]. split; [|split].
  - rewrite (seg_cat _ _ (t_pos st + 1)) by lia. rewrite <- Hs1.
    rewrite (seg_cat _ (t_pos st + 1) (t_pos st + 1 + bn c)) by lia. rewrite <- Hs2, <- Hs3, Hz, nb_bn. reflexivity.
  - now rewrite <- Hs2.
  - pose proof (bn_lt c). lia.
Qed.
