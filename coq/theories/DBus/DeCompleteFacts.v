(* DBus/DeCompleteFacts.v — building blocks for the completeness proof of the decoder model (C02):
   number codecs invert, ASCII strings pass the string checks, the signature parser reads back a
   concatenation of complete types, cursor arithmetic on decoder states, the primitive readers on a
   buffer that holds the expected bytes at the cursor. *)
From ZV Require Import Base.Bytes Base.Res Base.Sig Base.SigParse Base.SigParseFacts Base.Utf8 Base.WinnowFacts
  DBus.Val DBus.Spec DBus.Ser DBus.SerFacts DBus.SerProofs DBus.De.
From Coq Require Import Lia.
Local Open Scope N_scope.

(* ---------- bytes and fixed-width numbers ---------- *)
Lemma bn_nb x : x < 256 -> bn (nb x) = x.
Proof.
  intros H. unfold bn, nb. rewrite N.mod_small by assumption.
  destruct (Byte.of_N x) eqn:E.
  - now apply Byte.to_of_N.
  - apply Byte.of_N_None_iff in E. lia.
Qed.

Lemma le_val_le_bytes n : forall x, x < 2 ^ (8 * N.of_nat n) -> le_val (le_bytes n x) = x.
Proof.
  induction n as [|n IH]; intros x Hx.
  - cbn in *. lia.
  - cbn [le_bytes le_val].
    replace (8 * N.of_nat (S n)) with (8 + 8 * N.of_nat n) in Hx by lia.
    rewrite N.pow_add_r in Hx. change (2 ^ 8) with 256 in Hx.
    rewrite bn_nb by (apply N.mod_lt; lia).
    rewrite IH.
    + rewrite (N.div_mod x 256) at 3 by lia. lia.
    + apply N.div_lt_upper_bound; [lia|]. exact Hx.
Qed.

Lemma dec_enc e n x : x < 2 ^ (8 * N.of_nat n) -> dec e (enc e n x) = x.
Proof.
  intros H. destruct e; unfold dec, enc.
  - now apply le_val_le_bytes.
  - rewrite rev_involutive. now apply le_val_le_bytes.
Qed.
Lemma dec_enc4 e x : x < 2 ^ 32 -> dec e (enc e 4 x) = x.
Proof. intros H. apply dec_enc. exact H. Qed.

Lemma dec_LE_1 x : x < 256 -> dec LE [nb x] = x.
Proof. intros H. cbn [dec le_val]. rewrite bn_nb by assumption. lia. Qed.

Lemma untwos_twos bits z : 0 < bits ->
  (- 2 ^ Z.of_N (bits - 1) <= z < 2 ^ Z.of_N (bits - 1))%Z -> untwos bits (twos bits z) = z.
Proof.
  intros Hb Hz. unfold untwos, twos.
  assert (Hp : (2 ^ Z.of_N bits = 2 * 2 ^ Z.of_N (bits - 1))%Z).
  { replace (Z.of_N bits) with (Z.succ (Z.of_N (bits - 1))) by lia. rewrite Z.pow_succ_r by lia. reflexivity. }
  set (H := (2 ^ Z.of_N (bits - 1))%Z) in *.
  assert (HH : (0 < H)%Z) by (subst H; apply Z.pow_pos_nonneg; lia).
  assert (Hn : (2 ^ (bits - 1) = Z.to_N H)%N).
  { subst H. apply N2Z.inj. rewrite N2Z.inj_pow, Z2N.id by (apply Z.pow_nonneg; lia). reflexivity. }
  rewrite Hn, Hp.
  destruct (Z.ltb_spec z 0) as [Hneg|Hpos].
  - assert (Hm : (z mod (2 * H) = z + 2 * H)%Z).
    { symmetry. apply (Z.mod_unique_pos _ _ (-1)); lia. }
    rewrite Hm. destruct (N.ltb_spec (Z.to_N (z + 2 * H)) (Z.to_N H)); lia.
  - rewrite Z.mod_small by lia.
    destruct (N.ltb_spec (Z.to_N z) (Z.to_N H)); lia.
Qed.

(* ---------- printable ASCII passes the string checks ---------- *)
Definition ascii1 (c : byte) : bool := (0 <? bn c) && (bn c <? 128).
Definition ascii_nz (s : bytes) : bool := forallb ascii1 s.

Lemma ascii_nul_free s : ascii_nz s = true -> nul_free s = true.
Proof.
  unfold ascii_nz, nul_free. induction s as [|c s IH]; [reflexivity|]. cbn [forallb].
  intros H. apply andb_true_iff in H as [Hc Hs]. rewrite (IH Hs), andb_true_r.
  unfold ascii1 in Hc. apply andb_true_iff in Hc as [H0 _]. apply N.ltb_lt in H0.
  destruct (N.eqb_spec (bn c) 0); [lia|reflexivity].
Qed.
Lemma ascii_utf8 s : ascii_nz s = true -> utf8_valid s = true.
Proof.
  unfold ascii_nz. induction s as [|c s IH]; [reflexivity|]. cbn [forallb utf8_valid].
  intros H. apply andb_true_iff in H as [Hc Hs].
  unfold ascii1 in Hc. apply andb_true_iff in Hc as [_ H1]. rewrite H1. now apply IH.
Qed.
Lemma ascii_app a b : ascii_nz (a ++ b) = ascii_nz a && ascii_nz b.
Proof. unfold ascii_nz. apply forallb_app. Qed.

Lemma ascii_show : forall g, ascii_nz (show g) = true.
Proof.
  induction g using sig_ind'; try reflexivity.
  - cbn [show]. rewrite ascii_app, IHg. reflexivity.
  - cbn [show]. rewrite !ascii_app, IHg1, IHg2. reflexivity.
  - cbn [show]. rewrite !ascii_app. cbn [andb].
    assert (Hc : ascii_nz (concat (map show fs)) = true).
    { induction H as [|x l Hx Hl IH]; [reflexivity|]. cbn [map concat]. now rewrite ascii_app, Hx, IH. }
    rewrite Hc. reflexivity.
  - cbn [show]. rewrite ascii_app, IHg. reflexivity.
Qed.
Lemma ascii_show_noparens g : ascii_nz (show_noparens g) = true.
Proof.
  destruct g; try apply ascii_show. unfold show_noparens.
  pose proof (ascii_show (SStruct fs)) as H. cbn [show] in H. rewrite !ascii_app in H.
  apply andb_true_iff in H as [_ H]. apply andb_true_iff in H as [H _]. exact H.
Qed.

(* object paths: '/', alphanumerics and '_' only *)
Lemma alnum_ascii c : is_alphanum c || beq c "_"%byte = true -> ascii1 c = true.
Proof.
  unfold is_alphanum, is_alpha, is_upper, is_lower, is_digit, in_range, ascii1. intros H.
  apply orb_true_iff in H as [H|H].
  - repeat (apply orb_true_iff in H as [H|H]); apply andb_true_iff in H as [H1 H2];
      apply N.leb_le in H1, H2; apply andb_true_iff; split; apply N.ltb_lt; lia.
  - apply beq_eq in H. subst c. reflexivity.
Qed.
Lemma ascii_join_slash (es : list bytes) : Forall (fun el => ascii_nz el = true) es ->
  ascii_nz (join ["/"%byte] es) = true.
Proof.
  induction 1 as [|x l Hx Hl IH]; [reflexivity|]. cbn [join]. destruct l as [|y l']; [exact Hx|].
  rewrite !ascii_app, Hx, IH. reflexivity.
Qed.
Lemma path_ascii s : path_ok s = true -> ascii_nz s = true.
Proof.
  destruct s as [|c r]; [discriminate|]. cbn [path_ok]. intros H. apply andb_true_iff in H as [Hc Hr].
  apply beq_eq in Hc. subst c. unfold ascii_nz. cbn [forallb]. change (ascii1 "/") with true. cbn [andb].
  destruct r as [|c' r']; [reflexivity|].
  fold (ascii_nz (c' :: r')). rewrite <- (join_split "/"%byte (c' :: r')). apply ascii_join_slash.
  apply Forall_forall. intros el Hin. rewrite forallb_forall in Hr. specialize (Hr el Hin).
  unfold path_elem_ok in Hr. destruct el as [|e0 el]; [discriminate|].
  unfold ascii_nz. apply forallb_forall. intros x Hx. rewrite forallb_forall in Hr. apply alnum_ascii. now apply Hr.
Qed.

Lemma forallb_zero_zeros n : forallb (fun c => bn c =? 0) (zeros n) = true.
Proof. unfold zeros. induction (N.to_nat n); [reflexivity|]. cbn [repeat forallb]. rewrite IHn0. reflexivity. Qed.

Lemma lbeq_refl a : lbeq a a = true.
Proof. now apply lbeq_eq. Qed.

(* ---------- the signature parser on a concatenation of complete types ---------- *)
Lemma parse_many_concat gv : forall l, forallb printable l = true -> forall f r, stops r -> (pfs l <= f)%nat ->
  parse_many f gv (concat (map show l) ++ r) = (l, r).
Proof.
  induction l as [|x l IHl]; intros Hpl f0 r Hr Hf0.
  - cbn. destruct f0; [reflexivity|]. cbn [parse_many]. now rewrite parse_one_stop.
  - cbn [forallb] in Hpl. apply andb_true_iff in Hpl as [Hpx Hpl].
    cbn [pfs] in Hf0. destruct f0 as [|f0]; [lia|]. cbn [map concat]. rewrite <- app_assoc.
    cbn [parse_many]. rewrite (parse_show_mutual gv x Hpx) by lia. rewrite IHl by (assumption || lia). reflexivity.
Qed.
Lemma pfs_bound : forall l, forallb printable l = true -> (pfs l <= 2 * length (concat (map show l)) + 1)%nat.
Proof.
  induction l as [|x r IH]; intros Hall; [cbn; lia|].
  cbn [forallb] in Hall. apply andb_true_iff in Hall as [Hpx Hpr].
  specialize (IH Hpr). pose proof (pf_bound x Hpx) as Hx. cbn [pfs map concat]. rewrite app_length.
  destruct (show_head x Hpx) as (ch & t & Hs & _). rewrite Hs in *. cbn [length] in *. lia.
Qed.
Lemma parse_show_many gv x y l : forallb printable (x :: y :: l) = true ->
  parse_sig gv (concat (map show (x :: y :: l))) = Some (SStruct (x :: y :: l)).
Proof.
  intros Hp. pose proof (pfs_bound _ Hp) as Hb.
  assert (Hpx : printable x = true) by (cbn [forallb] in Hp; now apply andb_true_iff in Hp as [? _]).
  destruct (show_head x Hpx) as (ch & t & Hs & _).
  unfold parse_sig. set (s := concat (map show (x :: y :: l))) in *.
  assert (Hs' : exists c0 t0, s = c0 :: t0).
  { subst s. cbn [map concat]. rewrite Hs. cbn [app]. eauto. }
  destruct Hs' as (c0 & t0 & Es). rewrite Es. rewrite <- Es. unfold sig_fuel.
  pose proof (parse_many_concat gv (x :: y :: l) Hp (2 * length s + 2) [] (or_introl eq_refl) ltac:(lia)) as Hm.
  fold s in Hm. rewrite app_nil_r in Hm. rewrite Hm. reflexivity.
Qed.

Lemma single_all_printable fs : forallb single_ok fs = true -> forallb printable fs = true.
Proof.
  intros H. apply forallb_forall. intros x Hx. rewrite forallb_forall in H. apply single_printable. now apply H.
Qed.

(* what the decoder computes for a signature value written in either wire form *)
Lemma sigval_parse gv g np :
  sigval_ok g np = true -> (negb np || match g with SStruct (_ :: _ :: _) => true | _ => false end) = true ->
  let t := if np then show_noparens g else show g in
  parse_sig gv t = Some g /\ negb (lbeq (show g) t) = np.
Proof.
  intros Hok Hnp. unfold sigval_ok in Hok. apply andb_true_iff in Hok as [Hok _].
  destruct np; cbn [negb orb] in Hnp; cbv zeta.
  - destruct g as [ | | | | | | | | | | | | | | | | |fs| ]; try discriminate. destruct fs as [|x [|y l]]; try discriminate.
    apply andb_true_iff in Hok as [Hall _]. unfold show_noparens. split.
    + apply parse_show_many. now apply single_all_printable.
    + destruct (lbeq _ _) eqn:E; [|reflexivity]. exfalso. apply lbeq_eq in E. apply (f_equal (@length byte)) in E.
      cbn [show] in E. rewrite !app_length in E. change (length (B "(")) with 1%nat in E. change (length (B ")")) with 1%nat in E. lia.
  - rewrite lbeq_refl. split; [|reflexivity].
    destruct g; try (apply parse_show; apply single_printable; exact Hok); try reflexivity.
    apply andb_true_iff in Hok as [Hall Hne]. apply parse_show. cbn [printable].
    rewrite (single_all_printable _ Hall), andb_true_r. destruct fs; [discriminate Hne|reflexivity].
Qed.

(* ---------- decoder states: advancing the cursor ---------- *)
Definition adv (st : dstate) (n : N) : dstate := tset_pos st (t_pos st + n).

Lemma dstate_ext a b :
  t_cfg a = t_cfg b -> t_e a = t_e b -> t_pos0 a = t_pos0 b -> t_bytes a = t_bytes b -> t_pos a = t_pos b ->
  t_sig a = t_sig b -> t_dep a = t_dep b -> t_fds a = t_fds b -> a = b.
Proof. destruct a, b; cbn; intros; subst; reflexivity. Qed.

Lemma adv_0 st : adv st 0 = st.
Proof. apply dstate_ext; try reflexivity. cbn. apply N.add_0_r. Qed.
Lemma adv_adv st a b : adv (adv st a) b = adv st (a + b).
Proof. apply dstate_ext; try reflexivity. cbn. lia. Qed.
Lemma pos_adv st n : t_pos (adv st n) = t_pos st + n. Proof. reflexivity. Qed.
Lemma tabs_adv st n : tabs (adv st n) = tabs st + n.
Proof. unfold tabs. cbn. lia. Qed.
Lemma tset_sig_id st : tset_sig st (t_sig st) = st. Proof. destruct st; reflexivity. Qed.
Lemma tset_dep_id st : tset_dep st (t_dep st) = st. Proof. destruct st; reflexivity. Qed.
Lemma tset_sig_adv st g n : tset_sig (adv st n) g = adv (tset_sig st g) n. Proof. reflexivity. Qed.
Lemma tset_dep_adv st d n : tset_dep (adv st n) d = adv (tset_dep st d) n. Proof. reflexivity. Qed.
Lemma tset_sig_sig st g h : tset_sig (tset_sig st g) h = tset_sig st h. Proof. reflexivity. Qed.
Lemma tset_dep_dep st g h : tset_dep (tset_dep st g) h = tset_dep st h. Proof. reflexivity. Qed.
Lemma tset_sig_dep st g d : tset_sig (tset_dep st d) g = tset_dep (tset_sig st g) d. Proof. reflexivity. Qed.

(* ---------- "the buffer holds M at offset p" ---------- *)
Definition at_ (B : bytes) (p : N) (M : bytes) : Prop := exists pre rest, B = pre ++ M ++ rest /\ len pre = p.

Lemma at_app_l B p M1 M2 : at_ B p (M1 ++ M2) -> at_ B p M1.
Proof. intros (pre & rest & E & L). exists pre, (M2 ++ rest). rewrite <- app_assoc in E. auto. Qed.
Lemma at_app_r B p M1 M2 : at_ B p (M1 ++ M2) -> at_ B (p + len M1) M2.
Proof.
  intros (pre & rest & E & L). exists (pre ++ M1), rest. rewrite <- !app_assoc in *. split; [exact E|].
  rewrite len_app. lia.
Qed.
Lemma at_cons_l B p c M : at_ B p (c :: M) -> at_ B p [c].
Proof. intros H. apply (at_app_l B p [c] M). exact H. Qed.
Lemma at_cons_r B p c M : at_ B p (c :: M) -> at_ B (p + 1) M.
Proof. intros H. apply (at_app_r B p [c] M) in H. exact H. Qed.
Lemma at_bound B p M : at_ B p M -> p + len M <= len B.
Proof. intros (pre & rest & E & L). subst B. rewrite !len_app. lia. Qed.
Lemma at_length B p M : at_ B p M -> (length M <= length B)%nat.
Proof. intros (pre & rest & E & L). subst B. rewrite !app_length. lia. Qed.
Lemma at_slice B p M : at_ B p M -> takeN (len M) (dropN p B) = M.
Proof. intros (pre & rest & E & L). subst B p. rewrite dropN_app. apply takeN_app. Qed.
Lemma at_nth B p c : at_ B p [c] -> nthN B p = Some c.
Proof.
  intros (pre & rest & E & L). subst B p. unfold nthN, len. rewrite Nat2N.id.
  destruct (N.ltb_spec (N.of_nat (length pre)) (N.of_nat (length (pre ++ [c] ++ rest)))) as [_|H].
  - rewrite nth_error_app2 by lia. rewrite Nat.sub_diag. reflexivity.
  - rewrite !app_length in H. cbn [length] in H. lia.
Qed.
Lemma at_nil B p : p <= len B -> at_ B p [].
Proof.
  intros H. exists (takeN p B), (dropN p B). cbn [app]. unfold takeN, dropN. rewrite firstn_skipn. split; [reflexivity|].
  unfold len in *. rewrite firstn_length. lia.
Qed.

(* ---------- the primitive readers ---------- *)
Lemma next_slice_at st M : at_ (t_bytes st) (t_pos st) M ->
  next_slice st (len M) = Ok (M, adv st (len M)).
Proof.
  intros H. unfold next_slice, blen. pose proof (at_bound _ _ _ H) as Hb.
  destruct (N.ltb_spec (len (t_bytes st)) (t_pos st + len M)); [lia|]. rewrite (at_slice _ _ _ H). reflexivity.
Qed.
Lemma next_slice_at' st M n : at_ (t_bytes st) (t_pos st) M -> n = len M ->
  next_slice st n = Ok (M, adv st n).
Proof. intros H ->. now apply next_slice_at. Qed.

Lemma len_pad p al : len (pad p al) = padn p al.
Proof. unfold pad. apply len_zeros. Qed.

Lemma parse_padding_at st al : at_ (t_bytes st) (t_pos st) (pad (tabs st) al) ->
  parse_padding st al = Ok (adv st (padn (tabs st) al)).
Proof.
  intros H. unfold parse_padding. destruct (N.eqb_spec (padn (tabs st) al) 0) as [E|E].
  - rewrite E, adv_0. reflexivity.
  - pose proof (at_bound _ _ _ H) as Hb. rewrite len_pad in Hb. unfold blen.
    destruct (N.ltb_spec (len (t_bytes st)) (t_pos st + padn (tabs st) al)); [lia|].
    pose proof (at_slice _ _ _ H) as Hs. rewrite len_pad in Hs. rewrite Hs. unfold pad.
    rewrite forallb_zero_zeros. reflexivity.
Qed.

Lemma rd_fixed_at st (m : nat) x :
  at_ (t_bytes st) (t_pos st) (pad (tabs st) (N.of_nat m) ++ enc (t_e st) m x) -> x < 2 ^ (8 * N.of_nat m) ->
  rd_fixed st (N.of_nat m) = Ok (x, adv st (padn (tabs st) (N.of_nat m) + N.of_nat m)).
Proof.
  intros H Hx. unfold rd_fixed. rewrite (parse_padding_at st _ (at_app_l _ _ _ _ H)). cbn [bind].
  apply at_app_r in H. rewrite len_pad in H.
  rewrite (next_slice_at' (adv st _) _ (N.of_nat m) H) by (now rewrite len_enc). cbn [bind].
  rewrite adv_adv. change (t_e (adv (adv st (padn (tabs st) (N.of_nat m))) (N.of_nat m))) with (t_e st).
  rewrite dec_enc by assumption. reflexivity.
Qed.

(* strings with a u32 length prefix *)
Lemma de_str_4 st s : (t_sig st = SStr \/ t_sig st = SObjPath) -> len s < 2 ^ 32 -> ascii_nz s = true \/ (nul_free s = true /\ utf8_valid s = true) ->
  at_ (t_bytes st) (t_pos st) (pad (tabs st) 4 ++ enc (t_e st) 4 (len s) ++ s ++ [x00]) ->
  de_str st = Ok (s, adv st (len (pad (tabs st) 4 ++ enc (t_e st) 4 (len s) ++ s ++ [x00]))).
Proof.
  intros Hs Hl Hok H. unfold de_str.
  assert (Hn : nul_free s = true /\ utf8_valid s = true).
  { destruct Hok as [Ha|Hb]; [split; [now apply ascii_nul_free|now apply ascii_utf8]|exact Hb]. }
  destruct Hn as [Hnf Hu].
  pose proof (at_app_l _ _ _ _ H) as H0. apply at_app_r in H. rewrite len_pad in H.
  pose proof (at_app_l _ _ _ _ H) as H1. apply at_app_r in H. rewrite len_enc in H.
  pose proof (at_app_l _ _ _ _ H) as H2. apply at_app_r in H.
  set (p := padn (tabs st) 4) in *.
  assert (E : (match t_sig st with
               | SSig | SVariant => let* (b, st0) := next_slice st 1 in Ok (dec LE b, st0)
               | SStr | SObjPath => let* st0 := parse_padding st 4 in let* (b, st1) := next_slice st0 4 in Ok (dec (t_e st1) b, st1)
               | _ => Err ESigMismatch
               end) = Ok (len s, adv st (p + 4))).
  { assert (E' : (let* st0 := parse_padding st 4 in let* (b, st1) := next_slice st0 4 in Ok (dec (t_e st1) b, st1)) = Ok (len s, adv st (p + 4))).
    { rewrite (parse_padding_at st 4 H0). cbn [bind]. fold p.
      rewrite (next_slice_at' (adv st p) _ 4 H1) by (now rewrite len_enc). cbn [bind].
      rewrite adv_adv. change (t_e (adv st (p + 4))) with (t_e st). rewrite dec_enc4 by assumption. reflexivity. }
    destruct Hs as [-> | ->]; exact E'. }
  rewrite E. cbn [bind].
  replace (t_pos st + p + N.of_nat 4) with (t_pos (adv st (p + 4))) in H2 by (cbn; lia).
  rewrite (next_slice_at (adv st (p + 4)) s H2). cbn [bind]. rewrite Hnf. cbn [negb].
  replace (t_pos st + p + N.of_nat 4 + len s) with (t_pos (adv (adv st (p + 4)) (len s))) in H by (cbn; lia).
  rewrite (next_slice_at' (adv (adv st (p + 4)) (len s)) [x00] 1 H) by reflexivity. cbn [bind forallb]. change (bn x00 =? 0) with true. cbn [andb negb].
  rewrite Hu. rewrite !adv_adv. do 2 f_equal. f_equal.
  rewrite !len_app, len_pad, len_enc. fold p. change (len [x00]) with 1. lia.
Qed.

(* signature strings: u8 length prefix *)
Lemma de_str_1 st s : (t_sig st = SSig \/ t_sig st = SVariant) -> len s <= 255 -> ascii_nz s = true ->
  at_ (t_bytes st) (t_pos st) (nb (len s) :: s ++ [x00]) ->
  de_str st = Ok (s, adv st (len (nb (len s) :: s ++ [x00]))).
Proof.
  intros Hs Hl Ha H. unfold de_str.
  pose proof (at_cons_l _ _ _ _ H) as H0. apply at_cons_r in H.
  pose proof (at_app_l _ _ _ _ H) as H1. apply at_app_r in H.
  assert (E : (match t_sig st with
               | SSig | SVariant => let* (b, st0) := next_slice st 1 in Ok (dec LE b, st0)
               | SStr | SObjPath => let* st0 := parse_padding st 4 in let* (b, st1) := next_slice st0 4 in Ok (dec (t_e st1) b, st1)
               | _ => Err ESigMismatch
               end) = Ok (len s, adv st 1)).
  { assert (E' : (let* (b, st0) := next_slice st 1 in Ok (dec LE b, st0)) = Ok (len s, adv st 1)).
    { rewrite (next_slice_at' st _ 1 H0) by reflexivity. cbn [bind]. rewrite dec_LE_1 by lia. reflexivity. }
    destruct Hs as [-> | ->]; exact E'. }
  rewrite E. cbn [bind].
  change (t_pos st + 1) with (t_pos (adv st 1)) in H1.
  rewrite (next_slice_at (adv st 1) s H1). cbn [bind]. rewrite (ascii_nul_free s Ha). cbn [negb].
  replace (t_pos st + 1 + len s) with (t_pos (adv (adv st 1) (len s))) in H by (cbn; lia).
  rewrite (next_slice_at' (adv (adv st 1) (len s)) [x00] 1 H) by reflexivity. cbn [bind forallb]. change (bn x00 =? 0) with true. cbn [andb negb].
  rewrite (ascii_utf8 s Ha). rewrite !adv_adv. do 2 f_equal. f_equal.
  rewrite len_cons, len_app. change (len [x00]) with 1. lia.
Qed.

(* ---------- nesting depth of a value = recursion depth of the decoder (fuel) ---------- *)
Fixpoint vdepth (v : dval) : nat :=
  match v with
  | VVariant x => S (vdepth x)
  | VArray _ l => S ((fix go (l : list dval) : nat := match l with [] => O | x :: r => Nat.max (vdepth x) (go r) end) l)
  | VStruct l => S ((fix go (l : list dval) : nat := match l with [] => O | x :: r => Nat.max (vdepth x) (go r) end) l)
  | VDict _ _ l => S ((fix go (l : list (dval * dval)) : nat :=
                         match l with [] => O | p :: r => Nat.max (Nat.max (vdepth (fst p)) (vdepth (snd p))) (go r) end) l)
  | _ => 1%nat
  end.
Fixpoint vdepths (l : list dval) : nat := match l with [] => O | x :: r => Nat.max (vdepth x) (vdepths r) end.
Fixpoint vdepthp (l : list (dval * dval)) : nat :=
  match l with [] => O | p :: r => Nat.max (Nat.max (vdepth (fst p)) (vdepth (snd p))) (vdepthp r) end.
Lemma vdepth_array el l : vdepth (VArray el l) = S (vdepths l). Proof. reflexivity. Qed.
Lemma vdepth_struct l : vdepth (VStruct l) = S (vdepths l). Proof. reflexivity. Qed.
Lemma vdepth_dict ks vs l : vdepth (VDict ks vs l) = S (vdepthp l). Proof. reflexivity. Qed.
Lemma vdepth_pos v : (1 <= vdepth v)%nat. Proof. destruct v; cbn; lia. Qed.

(* a value within the specification's nesting limits needs at most 65 levels *)
Lemma depth_ok_vdepth : forall v ds da dv, ds + da + dv <= 64 -> depth_ok ds da dv v = true ->
  (vdepth v + N.to_nat (ds + da + dv) <= 65)%nat.
Proof.
  induction v using dval_ind'; intros ds da dv H64 Hd.
  - destruct v; try contradiction; cbn [vdepth]; cbn [depth_ok] in Hd; lia.
  - cbn [depth_ok] in Hd. apply andb_true_iff in Hd as [Ht Hx]. apply N.leb_le in Ht.
    specialize (IHv ds da (dv + 1) ltac:(lia) Hx). cbn [vdepth]. lia.
  - cbn [depth_ok] in Hd. apply andb_true_iff in Hd as [Hd Hl]. apply andb_true_iff in Hd as [Ha Ht].
    apply N.leb_le in Ha, Ht. rewrite vdepth_array.
    assert (Hs : (vdepths l + N.to_nat (ds + (da + 1) + dv) <= 65)%nat).
    { induction H as [|x l Hx Hl' IH]; [cbn; lia|]. cbn [forallb] in Hl. apply andb_true_iff in Hl as [H1 H2].
      specialize (IH H2). specialize (Hx ds (da + 1) dv ltac:(lia) H1). cbn [vdepths]. lia. }
    lia.
  - cbn [depth_ok] in Hd. apply andb_true_iff in Hd as [Hd Hl]. apply andb_true_iff in Hd as [Ha Ht].
    apply N.leb_le in Ha, Ht. rewrite vdepth_dict.
    assert (Hs : (vdepthp l + N.to_nat (ds + (da + 1) + dv) <= 65)%nat).
    { induction H as [|x l [Hx1 Hx2] Hl' IH]; [cbn; lia|]. cbn [forallb] in Hl. apply andb_true_iff in Hl as [H1 H2].
      apply andb_true_iff in H1 as [H1 H1']. specialize (IH H2). specialize (Hx1 ds (da + 1) dv ltac:(lia) H1). specialize (Hx2 ds (da + 1) dv ltac:(lia) H1').
      cbn [vdepthp]. lia. }
    lia.
  - cbn [depth_ok] in Hd. apply andb_true_iff in Hd as [Hd Hl]. apply andb_true_iff in Hd as [Ha Ht].
    apply N.leb_le in Ha, Ht. rewrite vdepth_struct.
    assert (Hs : (vdepths l + N.to_nat ((ds + 1) + da + dv) <= 65)%nat).
    { induction H as [|x l Hx Hl' IH]; [cbn; lia|]. cbn [forallb] in Hl. apply andb_true_iff in Hl as [H1 H2].
      specialize (IH H2). specialize (Hx (ds + 1) da dv ltac:(lia) H1). cbn [vdepths]. lia. }
    lia.
Qed.
Lemma within_limits_fuel v : within_limits v = true -> (vdepth v <= de_fuel)%nat.
Proof. intros H. pose proof (depth_ok_vdepth v 0 0 0 ltac:(lia) H). unfold de_fuel. lia. Qed.

(* ---------- descriptor indices on the wire vs. the decoder's descriptor table ---------- *)
Definition fdsm (fm : fdmode) (fds : list N) (k : N) (hs : list N) : Prop :=
  match fm with
  | ByHandle => Forall (fun h => nthN fds h = Some h) hs
  | ByOccurrence => forall i h, nth_error hs i = Some h -> nthN fds (k + N.of_nat i) = Some h
  end.
Definition fds_match (fm : fdmode) (fds : list N) (k : N) (v : dval) : Prop := fdsm fm fds k (fds_of v).

Lemma fdsm_app fm fds k a b : fdsm fm fds k (a ++ b) -> fdsm fm fds k a /\ fdsm fm fds (k + N.of_nat (length a)) b.
Proof.
  destruct fm; cbn [fdsm]; intros H.
  - split.
    + intros i h Hi. apply H. rewrite nth_error_app1; [exact Hi|]. apply nth_error_Some. congruence.
    + intros i h Hi. replace (k + N.of_nat (length a) + N.of_nat i) with (k + N.of_nat (length a + i)) by lia.
      apply H. rewrite nth_error_app2 by lia. replace (length a + i - length a)%nat with i by lia. exact Hi.
  - apply Forall_app in H. exact H.
Qed.
Lemma nthN_lt {A} (l : list A) i x : nthN l i = Some x -> i < N.of_nat (length l).
Proof. unfold nthN. destruct (N.ltb_spec i (N.of_nat (length l))); [auto|discriminate]. Qed.

(* ---------- depth counters ---------- *)
Lemma inc_struct_ok' d : dep_ok d -> d_struct d + 1 <= 32 -> d_struct d + d_array d + d_variant d + 1 <= 64 ->
  exists d', inc_struct d = Ok d' /\ dec_struct d' = d /\ dep_ok d' /\
             d_struct d' = d_struct d + 1 /\ d_array d' = d_array d /\ d_variant d' = d_variant d.
Proof.
  intros (H1 & H2 & H3) Ha Ht. unfold inc_struct, dcheck. cbn.
  destruct (N.ltb_spec 32 (d_struct d + 1)); [lia|]. destruct (N.ltb_spec 32 (d_array d)); [lia|].
  destruct (N.ltb_spec 64 (d_struct d + 1 + d_array d + d_variant d + d_maybe d)); [lia|].
  eexists. split; [reflexivity|]. unfold dec_struct, dep_ok. cbn. destruct d; cbn in *.
  repeat split; try lia. f_equal. lia.
Qed.

(* ---------- facts about the specification's marshalling ---------- *)
Lemma padn_aligned p al : al <> 0 -> padn (p + padn p al) al = 0.
Proof.
  intros Hal. destruct (padn_spec p al Hal) as [_ H]. unfold padn at 1. rewrite H, N.sub_0_r. now apply N.mod_same.
Qed.
Lemma pad_aligned p al : al <> 0 -> pad (p + padn p al) al = [].
Proof. intros H. unfold pad. now rewrite padn_aligned. Qed.
Lemma align_dbus_nz g : align_dbus g <> 0.
Proof. destruct g; cbn; lia. Qed.

(* a value starts with the padding to its own alignment; the rest does not depend on where the padding began *)
Lemma marshal_realign e fm v pos k :
  marshal e fm v pos k
  = pad pos (align_dbus (vsig v)) ++ marshal e fm v (pos + padn pos (align_dbus (vsig v))) k.
Proof.
  assert (P4 : pad (pos + padn pos 4) 4 = []) by (apply pad_aligned; lia).
  assert (P2 : pad (pos + padn pos 2) 2 = []) by (apply pad_aligned; lia).
  assert (P8 : pad (pos + padn pos 8) 8 = []) by (apply pad_aligned; lia).
  destruct v; cbn [vsig align_dbus];
    try (cbn [marshal]; rewrite ?P2, ?P4, ?P8; reflexivity);
    try (rewrite pad_1, padn_1, N.add_0_r; reflexivity).
  - rewrite !marshal_array. cbv zeta. rewrite P4, !len_pad. change (len []) with 0. rewrite N.add_0_r.
    cbn [app]. reflexivity.
  - rewrite !marshal_dict. cbv zeta. rewrite P4, !len_pad. change (len []) with 0. rewrite N.add_0_r.
    cbn [app]. reflexivity.
  - rewrite !marshal_struct. cbv zeta. rewrite P8, !len_pad. change (len []) with 0. rewrite N.add_0_r.
    cbn [app]. reflexivity.
Qed.
Lemma marshal_realign_len e fm v pos k :
  len (marshal e fm v pos k)
  = padn pos (align_dbus (vsig v)) + len (marshal e fm v (pos + padn pos (align_dbus (vsig v))) k).
Proof. rewrite (marshal_realign e fm v pos k) at 1. now rewrite len_app, len_pad. Qed.

(* every well-formed value occupies at least one byte *)
Lemma len_enc_pos e n x : (0 < n)%nat -> 1 <= len (enc e n x).
Proof. intros H. rewrite len_enc. lia. Qed.
Lemma marshal_nonempty e fm : forall v pos k, wf v = true -> 1 <= len (marshal e fm v pos k).
Proof.
  induction v using dval_ind'; intros pos kk Hw.
  - destruct v; try contradiction; cbn [marshal]; rewrite ?len_app, ?len_cons, ?len_app, ?len_enc; lia.
  - cbn [marshal]. rewrite len_app, len_cons. lia.
  - rewrite marshal_array. cbv zeta. rewrite !len_app, len_enc. lia.
  - rewrite marshal_dict. cbv zeta. rewrite !len_app, len_enc. lia.
  - rewrite marshal_struct. cbv zeta. rewrite len_app. cbn [wf] in Hw. apply andb_true_iff in Hw as [Hne Hw].
    destruct l as [|x l]; [discriminate|]. cbn [forallb] in Hw. apply andb_true_iff in Hw as [Hx _].
    inversion H as [|? ? Px _]; subst. cbn [mseq]. rewrite len_app. specialize (Px (pos + len (pad pos 8)) kk Hx). lia.
Qed.
Lemma mseq_length e fm : forall l p k, forallb wf l = true -> N.of_nat (length l) <= len (mseq e fm l p k).
Proof.
  induction l as [|x l IH]; intros p k Hw; [cbn; lia|]. cbn [forallb] in Hw. apply andb_true_iff in Hw as [Hx Hl].
  cbn [mseq length]. rewrite len_app. specialize (IH (p + len (marshal e fm x p k)) (k + nfds x) Hl).
  pose proof (marshal_nonempty e fm x p k Hx). lia.
Qed.
Lemma mentries_length e fm : forall l p k, forallb (fun q => wf (fst q)) l = true ->
  N.of_nat (length l) <= len (mentries e fm l p k).
Proof.
  induction l as [|[a b] l IH]; intros p k Hw; [cbn; lia|]. cbn [forallb fst] in Hw. apply andb_true_iff in Hw as [Hx Hl].
  cbn [mentries length]. rewrite !len_app.
  match goal with |- context [mentries e fm l ?p' ?k'] => specialize (IH p' k' Hl) end.
  pose proof (marshal_nonempty e fm a (p + len (pad p 8)) k Hx). lia.
Qed.
