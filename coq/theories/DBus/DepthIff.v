(* DBus/DepthIff.v — C07, serializer half: beyond the nesting limits of the specification the serializer model
   fails with a depth error (the within-limits direction is DBus/SerProofs.v [ser_good]), and whenever it
   succeeds the depth counters are what they were. *)
From ZV Require Import Base.Bytes Base.Res Base.Sig Base.SigParse Base.SigParseFacts DBus.Val DBus.Spec DBus.Ser DBus.SerFacts DBus.SerProofs.
From Coq Require Import Lia.
Local Open Scope N_scope.

(* ---------- the counters refuse exactly beyond the limits ---------- *)
Lemma inc_array_bad d : dep_ok d ->
  (d_array d + 1 <=? 32) && (d_struct d + d_array d + d_variant d + 1 <=? 64) = false ->
  exists k, inc_array d = Err (EDepth k).
Proof.
  intros (H1 & H2 & H3) H. unfold inc_array, dcheck. cbn.
  destruct (N.ltb_spec 32 (d_struct d)); [lia|]. destruct (N.ltb_spec 32 (d_array d + 1)); [eauto|].
  destruct (N.ltb_spec 64 (d_struct d + (d_array d + 1) + d_variant d + d_maybe d)); [eauto|].
  exfalso. apply andb_false_iff in H. destruct H as [H|H]; apply N.leb_gt in H; lia.
Qed.
Lemma inc_struct_bad d : dep_ok d ->
  (d_struct d + 1 <=? 32) && (d_struct d + d_array d + d_variant d + 1 <=? 64) = false ->
  exists k, inc_struct d = Err (EDepth k).
Proof.
  intros (H1 & H2 & H3) H. unfold inc_struct, dcheck. cbn.
  destruct (N.ltb_spec 32 (d_struct d + 1)); [eauto|]. destruct (N.ltb_spec 32 (d_array d)); [lia|].
  destruct (N.ltb_spec 64 (d_struct d + 1 + d_array d + d_variant d + d_maybe d)); [eauto|].
  exfalso. apply andb_false_iff in H. destruct H as [H|H]; apply N.leb_gt in H; lia.
Qed.
Lemma inc_variant_bad d : dep_ok d ->
  (d_struct d + d_array d + d_variant d + 1 <=? 64) = false ->
  exists k, inc_variant d = Err (EDepth k).
Proof.
  intros (H1 & H2 & H3) H. unfold inc_variant, dcheck. cbn.
  destruct (N.ltb_spec 32 (d_struct d)); [lia|]. destruct (N.ltb_spec 32 (d_array d)); [lia|].
  destruct (N.ltb_spec 64 (d_struct d + d_array d + (d_variant d + 1) + d_maybe d)); [eauto|].
  exfalso. apply N.leb_gt in H. lia.
Qed.

(* ---------- serialize_seq up to the depth check ---------- *)
Lemma seq_begin_eq st child al :
  ((s_sig st = SArray child /\ align_of child = Ok al) \/ (exists v, s_sig st = SDict child v /\ al = 8)) ->
  seq_begin st =
  (let* d := inc_array (s_dep st) in
   Ok (set_dep (set_sig (grow st (pad (abs_pos st) 4 ++ enc (s_e st) 4 0
                                  ++ pad (abs_pos st + len (pad (abs_pos st) 4) + 4) al) []) child) d,
       written st + len (pad (abs_pos st) 4) + 4 + len (pad (abs_pos st + len (pad (abs_pos st) 4) + 4) al),
       len (pad (abs_pos st + len (pad (abs_pos st) 4) + 4) al), s_sig st)).
Proof.
  intros Hsig. set (p0 := pad (abs_pos st) 4). set (p1 := pad (abs_pos st + len p0 + 4) al).
  unfold seq_begin. rewrite padded_grow, wr_u32_grow, grow_grow, e_grow. rewrite sig_grow.
  assert (Hm : (match s_sig st with
                | SArray c => let* a := align_of c in Ok (a, c)
                | SDict k _ => Ok (8, k)
                | _ => Err ESigMismatch
                end) = Ok (al, child)).
  { destruct Hsig as [[-> ->]|(v & -> & ->)]; reflexivity. }
  rewrite Hm. cbn [bind]. unfold add_padding.
  set (stA := set_sig (grow st (pad (abs_pos st) 4 ++ enc (s_e st) 4 0) ([] ++ [])) child).
  assert (Hp : abs_pos stA = abs_pos st + len p0 + 4).
  { subst stA. destruct st. unfold abs_pos, written. proj. rewrite !len_app, len_enc. unfold p0, abs_pos, written. proj. lia. }
  rewrite Hp. rewrite wr_grow.
  change (s_dep (grow stA (zeros (padn (abs_pos st + len p0 + 4) al)) [])) with (s_dep st).
  destruct (inc_array (s_dep st)) as [d'| |]; cbn [bind]; [|reflexivity|reflexivity]. f_equal.
  assert (E1 : set_dep (grow stA (zeros (padn (abs_pos st + len p0 + 4) al)) []) d'
               = set_dep (set_sig (grow st (p0 ++ enc (s_e st) 4 0 ++ p1) []) child) d').
  { subst stA. destruct st. unfold p1, p0, pad. proj. cbn [app]. rewrite ?add_fds_nil, <- ?app_assoc. reflexivity. }
  assert (E2 : written (grow stA (zeros (padn (abs_pos st + len p0 + 4) al)) []) = written st + len p0 + 4 + len p1).
  { rewrite written_grow. subst stA. destruct st. unfold written. proj. rewrite !len_app, len_enc, len_zeros.
    unfold p1, p0, pad. rewrite !len_zeros. unfold abs_pos, written. proj. lia. }
  assert (E3 : padn (abs_pos st + len p0 + 4) al = len p1) by (unfold p1, pad; now rewrite len_zeros).
  rewrite E1, E2, E3. reflexivity.
Qed.

(* ---------- the statement proved by induction on the value ---------- *)
Definition bad (v : dval) : Prop :=
  forall st, wf v = true -> s_sig st = vsig v -> s_vsign st = None -> dep_ok (s_dep st) ->
             nfd st + nfds v < 2 ^ 32 ->
             len (marshal (s_e st) ByOccurrence v (abs_pos st) (nfd st)) < 2 ^ 32 ->
             depth_ok (d_struct (s_dep st)) (d_array (s_dep st)) (d_variant (s_dep st)) v = false ->
             exists k, ser (sval_of v) st = Err (EDepth k).

Definition gb (v : dval) : Prop := good v /\ bad v.

Lemma bad_leaf v : (match v with VVariant _ | VArray _ _ | VDict _ _ _ | VStruct _ => False | _ => True end) -> bad v.
Proof. intros H st _ _ _ _ _ _ Hd. destruct v; try contradiction; cbn in Hd; discriminate. Qed.

(* elements: the ones before the first that exceeds are written, then the error comes out *)
Lemma elems_bad l : Forall gb l -> forall st el,
  forallb (fun x => wf x && sig_eqb (vsig x) el) l = true ->
  s_sig st = el -> s_vsign st = None -> dep_ok (s_dep st) ->
  forallb (depth_ok (d_struct (s_dep st)) (d_array (s_dep st)) (d_variant (s_dep st))) l = false ->
  nfd st + N.of_nat (length (concat (map fds_of l))) < 2 ^ 32 ->
  len (mseq (s_e st) ByOccurrence l (abs_pos st) (nfd st)) < 2 ^ 32 ->
  exists k, ser_elems (map sval_of l) st = Err (EDepth k).
Proof.
  induction 1 as [|x l [Hx Hbx] Hl IH]; intros st el Hw Hs Hv Hd Hdep Hn Hlen.
  - cbn in Hdep. discriminate.
  - cbn [forallb] in Hw, Hdep. apply andb_true_iff in Hw as [Hwx Hw]. apply andb_true_iff in Hwx as [Hwx Hsx].
    apply sig_eqb_eq in Hsx.
    cbn [map concat mseq] in *. rewrite app_length, Nat2N.inj_add in Hn. rewrite len_app in Hlen.
    cbn [ser_elems].
    destruct (depth_ok (d_struct (s_dep st)) (d_array (s_dep st)) (d_variant (s_dep st)) x) eqn:Hdx.
    + cbn [andb] in Hdep.
      assert (G := Hx st Hwx ltac:(congruence) Hv (conj Hd Hdx) ltac:(unfold nfds; lia) ltac:(lia)). rewrite G.
      cbn [bind]. destruct (after_props st x) as (Hp & Hf & Hsg & Hvs & Hde & He & _).
      assert (G2 := IH (after st x) el Hw ltac:(congruence) ltac:(congruence)).
      rewrite Hde in G2. rewrite Hf in G2. rewrite Hp in G2. rewrite He in G2.
      exact (G2 Hd Hdep ltac:(unfold nfds; lia) ltac:(lia)).
    + destruct (Hbx st Hwx ltac:(congruence) Hv Hd ltac:(unfold nfds; lia) ltac:(lia) Hdx) as [k Hk].
      rewrite Hk. cbn [bind]. eauto.
Qed.

Lemma bad_array el l : Forall gb l -> bad (VArray el l).
Proof.
  intros HF st Hw Hs Hv Hd Hn Hlen Hdep. cbn [sval_of]. rewrite ser_seq.
  cbn [wf] in Hw. apply andb_true_iff in Hw as [Hel Hw]. cbn [vsig] in Hs.
  rewrite (seq_begin_eq st el (align_dbus el) (or_introl (conj Hs (single_align el Hel)))).
  cbn [depth_ok] in Hdep.
  destruct ((d_array (s_dep st) + 1 <=? 32) && (d_struct (s_dep st) + d_array (s_dep st) + d_variant (s_dep st) + 1 <=? 64)) eqn:Hlim.
  2:{ destruct (inc_array_bad _ Hd Hlim) as [k Hk]. rewrite Hk. cbn [bind]. eauto. }
  cbn [andb] in Hdep. apply andb_true_iff in Hlim as [Ha Ht]. apply N.leb_le in Ha, Ht.
  destruct (inc_array_ok (s_dep st) Hd Ha Ht) as (d' & Hinc & Hdec & Hd' & E1 & E2 & E3).
  rewrite Hinc. cbn [bind].
  rewrite marshal_array in Hlen. cbv zeta in Hlen. rewrite !len_app in Hlen.
  set (p0 := pad (abs_pos st) 4) in *. set (p1 := pad (abs_pos st + len p0 + 4) (align_dbus el)) in *.
  set (st' := set_dep (set_sig (grow st (p0 ++ enc (s_e st) 4 0 ++ p1) []) el) d').
  assert (Hpos : abs_pos st' = abs_pos st + len p0 + 4 + len p1).
  { subst st'. change (abs_pos (set_dep (set_sig (grow st (p0 ++ enc (s_e st) 4 0 ++ p1) []) el) d'))
      with (abs_pos (grow st (p0 ++ enc (s_e st) 4 0 ++ p1) [])). rewrite abs_pos_grow, !len_app, len_enc. lia. }
  assert (Hnf : nfd st' = nfd st).
  { subst st'. change (nfd (set_dep (set_sig (grow st (p0 ++ enc (s_e st) 4 0 ++ p1) []) el) d'))
      with (nfd (grow st (p0 ++ enc (s_e st) 4 0 ++ p1) [])). rewrite nfd_grow. cbn. lia. }
  pose proof (elems_bad l HF st' el Hw eq_refl Hv) as He.
  change (s_dep st') with d' in He. change (s_e st') with (s_e st) in He. rewrite E1, E2, E3, Hpos, Hnf in He.
  specialize (He Hd' Hdep). cbn [fds_of nfds] in Hn.
  destruct (He ltac:(unfold nfds in Hn; cbn [fds_of] in Hn; lia) ltac:(lia)) as [k Hk].
  rewrite Hk. cbn [bind]. eauto.
Qed.

(* ---------- structs ---------- *)
Lemma fields_bad l : Forall gb l -> forall st pre,
  s_sig st = SStruct (pre ++ map vsig l) -> s_vsign st = None -> forallb wf l = true -> dep_ok (s_dep st) ->
  forallb (depth_ok (d_struct (s_dep st)) (d_array (s_dep st)) (d_variant (s_dep st))) l = false ->
  nfd st + N.of_nat (length (concat (map fds_of l))) < 2 ^ 32 ->
  len (mseq (s_e st) ByOccurrence l (abs_pos st) (nfd st)) < 2 ^ 32 ->
  exists k, ser_fields (map sval_of l) (length pre) st = Err (EDepth k).
Proof.
  induction 1 as [|x l [Hx Hbx] Hl IH]; intros st pre Hs Hv Hw Hd Hdep Hn Hlen.
  - cbn in Hdep. discriminate.
  - cbn [forallb] in Hw, Hdep. apply andb_true_iff in Hw as [Hwx Hw].
    cbn [map concat mseq] in *. rewrite app_length, Nat2N.inj_add in Hn. rewrite len_app in Hlen.
    cbn [ser_fields]. unfold field_sig. rewrite Hs.
    rewrite nth_error_app2 by lia. rewrite Nat.sub_diag. cbn [nth_error bind].
    destruct (depth_ok (d_struct (s_dep st)) (d_array (s_dep st)) (d_variant (s_dep st)) x) eqn:Hdx.
    + cbn [andb] in Hdep.
      assert (G := Hx (sub_of st (vsig x)) Hwx eq_refl eq_refl (conj Hd Hdx)).
      change (nfd (sub_of st (vsig x))) with (nfd st) in G. change (s_e (sub_of st (vsig x))) with (s_e st) in G.
      change (abs_pos (sub_of st (vsig x))) with (abs_pos st) in G.
      specialize (G ltac:(unfold nfds; lia) ltac:(lia)). rewrite G. cbn [bind]. rewrite back_after by assumption.
      set (st1 := grow st (marshal (s_e st) ByOccurrence x (abs_pos st) (nfd st)) (fds_of x)).
      assert (G2 := IH st1 (pre ++ [vsig x])). rewrite app_length in G2. cbn [length] in G2.
      replace (length pre + 1)%nat with (S (length pre)) in G2 by lia.
      assert (Hs1 : s_sig st1 = SStruct ((pre ++ [vsig x]) ++ map vsig l)) by (subst st1; rewrite sig_grow, Hs, <- app_assoc; reflexivity).
      specialize (G2 Hs1 Hv Hw). subst st1. rewrite dep_grow, e_grow, abs_pos_grow, nfd_grow in G2.
      exact (G2 Hd Hdep ltac:(unfold nfds in *; lia) ltac:(unfold nfds in *; lia)).
    + assert (G := Hbx (sub_of st (vsig x)) Hwx eq_refl eq_refl Hd).
      change (nfd (sub_of st (vsig x))) with (nfd st) in G. change (s_e (sub_of st (vsig x))) with (s_e st) in G.
      change (abs_pos (sub_of st (vsig x))) with (abs_pos st) in G.
      destruct (G ltac:(unfold nfds; lia) ltac:(lia) Hdx) as [k Hk]. rewrite Hk. cbn [bind]. eauto.
Qed.

Lemma bad_struct l : Forall gb l -> bad (VStruct l).
Proof.
  intros HF st Hw Hs Hv Hd Hn Hlen Hdep. cbn [sval_of]. rewrite ser_tuple.
  cbn [wf] in Hw. apply andb_true_iff in Hw as [_ Hw]. cbn [vsig] in Hs.
  cbn [depth_ok] in Hdep.
  unfold struct_begin. rewrite Hs. cbn [align_of align_dbus bind]. rewrite padded_grow.
  rewrite sig_grow, Hs, dep_grow.
  destruct ((d_struct (s_dep st) + 1 <=? 32) && (d_struct (s_dep st) + d_array (s_dep st) + d_variant (s_dep st) + 1 <=? 64)) eqn:Hlim.
  2:{ destruct (inc_struct_bad _ Hd Hlim) as [k Hk]. rewrite Hk. cbn [bind]. eauto. }
  cbn [andb] in Hdep. apply andb_true_iff in Hlim as [Ha Ht]. apply N.leb_le in Ha, Ht.
  destruct (inc_struct_ok (s_dep st) Hd Ha Ht) as (d' & Hinc & Hd' & E1 & E2 & E3).
  rewrite Hinc. cbn [bind].
  rewrite marshal_struct in Hlen. cbv zeta in Hlen. rewrite len_app in Hlen.
  set (p0 := pad (abs_pos st) 8) in *.
  set (st' := set_dep (grow st p0 []) d').
  assert (G := fields_bad l HF st' [] ltac:(subst st'; cbn; exact Hs) Hv Hw).
  change (s_dep st') with d' in G. change (s_e st') with (s_e st) in G.
  assert (Hpos : abs_pos st' = abs_pos st + len p0) by (subst st'; change (abs_pos (set_dep (grow st p0 []) d')) with (abs_pos (grow st p0 [])); now rewrite abs_pos_grow).
  assert (Hnf : nfd st' = nfd st) by (subst st'; change (nfd (set_dep (grow st p0 []) d')) with (nfd (grow st p0 [])); rewrite nfd_grow; cbn; lia).
  rewrite E1, E2, E3, Hpos, Hnf in G. cbn [fds_of] in Hn. unfold nfds in Hn. cbn [fds_of] in Hn.
  destruct (G Hd' Hdep ltac:(lia) ltac:(lia)) as [k Hk]. cbn [length] in Hk. rewrite Hk. cbn [bind]. eauto.
Qed.

(* ---------- variants ---------- *)
Lemma bad_variant x : bad x -> bad (VVariant x).
Proof.
  intros Hx st Hw Hs Hv Hd Hn Hlen Hdep. cbn [sval_of]. rewrite ser_struct_named.
  cbn [wf] in Hw. apply andb_true_iff in Hw as [Hw Hl255]. apply andb_true_iff in Hw as [Hw Hso].
  apply N.leb_le in Hl255. cbn [vsig] in Hs.
  cbn [depth_ok] in Hdep.
  unfold struct_begin. rewrite Hs. cbn [align_of align_dbus bind]. rewrite padded_grow, pad_1, grow_nil.
  rewrite Hs.
  destruct (d_struct (s_dep st) + d_array (s_dep st) + d_variant (s_dep st) + 1 <=? 64) eqn:Ht.
  2:{ destruct (inc_variant_bad _ Hd Ht) as [k Hk]. rewrite Hk. cbn [bind]. eauto. }
  cbn [andb] in Hdep. apply N.leb_le in Ht.
  destruct (inc_variant_ok (s_dep st) Hd Ht) as (d' & Hinc & Hd' & E1 & E2 & E3).
  rewrite Hinc. cbn [bind].
  set (g := vsig x) in *. set (sg := show g) in *.
  set (hdr := nb (len sg) :: sg ++ [x00]).
  cbn [marshal] in Hlen. fold g sg hdr in Hlen. rewrite len_app in Hlen.
  set (st1 := set_dep st d').
  cbn [ser_nfields]. unfold field_sig at 1. change (s_sig st1) with (s_sig st). rewrite Hs.
  change (s_vsign st1) with (s_vsign st). rewrite Hv. cbn [bind].
  cbn [ser]. unfold ser_str. change (s_sig (sub_of st1 SVariant)) with SVariant. cbn [align_of align_dbus bind].
  rewrite padded_grow, pad_1, grow_nil. change (s_sig (sub_of st1 SVariant)) with SVariant.
  change (c_gv (s_cfg (sub_of st1 SVariant))) with (c_gv (s_cfg st)).
  pose proof (parse_show (c_gv (s_cfg st)) g (single_printable g Hso)) as Hps. fold sg in Hps. rewrite Hps. cbn [bind].
  destruct (N.leb_spec (len sg) 255) as [_|]; [|lia]. cbn [bind].
  rewrite !wr_grow, !grow_grow. cbn [app].
  unfold field_sig. cbn [s_sig s_vsign back_from set_vsign set_fds set_out grow set_sig sub_of set_dep bind].
  set (st2 := sub_of (back_from st1 (grow (set_vsign (sub_of st1 SVariant) (Some g)) (nb (len sg) :: sg ++ [x00]) [])) g).
  assert (G := Hx st2 Hw eq_refl eq_refl).
  assert (Hp2 : abs_pos st2 = abs_pos st + len hdr).
  { subst st2 st1. clear. destruct st. unfold abs_pos, written. cbn -[len]. rewrite len_app. fold hdr. lia. }
  assert (Hn2 : nfd st2 = nfd st).
  { subst st2 st1. clear. destruct st. unfold nfd. cbn -[add_fds]. rewrite add_fds_nil. reflexivity. }
  change (s_dep st2) with d' in G. change (s_e st2) with (s_e st) in G.
  rewrite Hp2, Hn2, E1, E2, E3 in G. cbn [fds_of] in Hn. unfold nfds in Hn. cbn [fds_of] in Hn.
  destruct (G Hd' ltac:(unfold nfds; lia) ltac:(lia) Hdep) as [k Hk].
  change (s_sig st1) with (s_sig st). rewrite Hs. cbn [bind]. fold st2. rewrite Hk. cbn [bind]. eauto.
Qed.

(* ---------- dicts ---------- *)
Lemma entries_bad l : Forall (fun p => gb (fst p) /\ gb (snd p)) l -> forall st ks vs,
  forallb (fun p => wf (fst p) && wf (snd p) && sig_eqb (vsig (fst p)) ks && sig_eqb (vsig (snd p)) vs) l = true ->
  s_sig st = ks -> s_vsign st = None -> dep_ok (s_dep st) ->
  forallb (fun p => depth_ok (d_struct (s_dep st)) (d_array (s_dep st)) (d_variant (s_dep st)) (fst p)
                    && depth_ok (d_struct (s_dep st)) (d_array (s_dep st)) (d_variant (s_dep st)) (snd p)) l = false ->
  nfd st + N.of_nat (length (concat (map (fun p => fds_of (fst p) ++ fds_of (snd p)) l))) < 2 ^ 32 ->
  len (mentries (s_e st) ByOccurrence l (abs_pos st) (nfd st)) < 2 ^ 32 ->
  exists k0, ser_entries (map (fun p => (sval_of (fst p), sval_of (snd p))) l) ks vs st = Err (EDepth k0).
Proof.
  induction 1 as [|[k x] l [[Hk Hbk] [Hx Hbx]] Hl IH]; intros st ks vs Hw Hs Hv Hd Hdep Hn Hlen.
  - cbn in Hdep. discriminate.
  - cbn [forallb fst snd] in Hw, Hdep. apply andb_true_iff in Hw as [Hw1 Hw].
    apply andb_true_iff in Hw1 as [Hw1 Hsx]. apply andb_true_iff in Hw1 as [Hw1 Hsk]. apply andb_true_iff in Hw1 as [Hwk Hwx].
    apply sig_eqb_eq in Hsk, Hsx.
    cbn [map concat mentries fst snd] in *. rewrite !app_length, !Nat2N.inj_add in Hn. rewrite !len_app in Hlen.
    cbn [ser_entries]. rewrite padded_grow.
    set (b0 := pad (abs_pos st) 8) in *.
    set (st1 := grow st b0 []).
    assert (P1 : abs_pos st1 = abs_pos st + len b0) by (subst st1; now rewrite abs_pos_grow).
    assert (N1 : nfd st1 = nfd st) by (subst st1; rewrite nfd_grow; cbn; lia).
    destruct (depth_ok (d_struct (s_dep st)) (d_array (s_dep st)) (d_variant (s_dep st)) k) eqn:Hdk.
    2:{ assert (G := Hbk st1 Hwk ltac:(subst st1; rewrite sig_grow; congruence) Hv Hd).
        change (s_e st1) with (s_e st) in G. rewrite P1, N1 in G.
        destruct (G ltac:(unfold nfds; lia) ltac:(lia) Hdk) as [k0 Hk0]. rewrite Hk0. cbn [bind]. eauto. }
    assert (G := Hk st1 Hwk ltac:(subst st1; rewrite sig_grow; congruence) Hv (conj Hd Hdk)).
    change (s_e st1) with (s_e st) in G. rewrite P1, N1 in G.
    specialize (G ltac:(unfold nfds; lia) ltac:(lia)). rewrite G. cbn [bind].
    set (b1 := marshal (s_e st) ByOccurrence k (abs_pos st + len b0) (nfd st)) in *.
    assert (A1 : after st1 k = grow st (b0 ++ b1) (fds_of k)).
    { unfold after. change (s_e st1) with (s_e st). rewrite P1, N1. fold b1. subst st1. now rewrite grow_grow. }
    rewrite A1.
    set (st2 := set_sig (grow st (b0 ++ b1) (fds_of k)) vs).
    assert (P2 : abs_pos st2 = abs_pos st + len b0 + len b1).
    { subst st2. change (abs_pos (set_sig (grow st (b0 ++ b1) (fds_of k)) vs)) with (abs_pos (grow st (b0 ++ b1) (fds_of k))).
      rewrite abs_pos_grow, len_app. lia. }
    assert (N2 : nfd st2 = nfd st + nfds k).
    { subst st2. change (nfd (set_sig (grow st (b0 ++ b1) (fds_of k)) vs)) with (nfd (grow st (b0 ++ b1) (fds_of k))).
      now rewrite nfd_grow. }
    destruct (depth_ok (d_struct (s_dep st)) (d_array (s_dep st)) (d_variant (s_dep st)) x) eqn:Hdx.
    2:{ assert (G2 := Hbx st2 Hwx ltac:(subst st2; cbn; congruence) Hv Hd).
        change (s_e st2) with (s_e st) in G2. rewrite P2, N2 in G2.
        destruct (G2 ltac:(unfold nfds in *; lia) ltac:(lia) Hdx) as [k0 Hk0]. rewrite Hk0. cbn [bind]. eauto. }
    cbn [andb] in Hdep.
    assert (G2 := Hx st2 Hwx ltac:(subst st2; cbn; congruence) Hv (conj Hd Hdx)).
    change (s_e st2) with (s_e st) in G2. rewrite P2, N2 in G2.
    specialize (G2 ltac:(unfold nfds in *; lia) ltac:(lia)). rewrite G2. cbn [bind].
    set (b2 := marshal (s_e st) ByOccurrence x (abs_pos st + len b0 + len b1) (nfd st + nfds k)) in *.
    assert (A2 : set_sig (after st2 x) ks = grow st (b0 ++ b1 ++ b2) (fds_of k ++ fds_of x)).
    { unfold after. change (s_e st2) with (s_e st). rewrite P2, N2. fold b2. subst st2.
      rewrite set_sig_grow. change (set_sig (set_sig (grow st (b0 ++ b1) (fds_of k)) vs) ks) with (set_sig (grow st (b0 ++ b1) (fds_of k)) ks).
      rewrite set_sig_grow. rewrite <- Hs, set_sig_id, grow_grow, <- app_assoc. reflexivity. }
    rewrite A2.
    set (st3 := grow st (b0 ++ b1 ++ b2) (fds_of k ++ fds_of x)).
    assert (G3 := IH st3 ks vs Hw ltac:(subst st3; rewrite sig_grow; assumption) Hv).
    subst st3. rewrite dep_grow, e_grow, abs_pos_grow, nfd_grow, !len_app, app_length, Nat2N.inj_add in G3.
    replace (abs_pos st + (len b0 + (len b1 + len b2))) with (abs_pos st + len b0 + len b1 + len b2) in G3 by lia.
    replace (nfd st + (N.of_nat (length (fds_of k)) + N.of_nat (length (fds_of x)))) with (nfd st + nfds k + nfds x) in G3 by (unfold nfds; lia).
    exact (G3 Hd Hdep ltac:(unfold nfds in *; lia) ltac:(lia)).
Qed.

Lemma bad_dict ks vs l : Forall (fun p => gb (fst p) /\ gb (snd p)) l -> bad (VDict ks vs l).
Proof.
  intros HF st Hw Hs Hv Hd Hn Hlen Hdep. cbn [sval_of]. cbn [vsig] in Hs. rewrite (ser_map _ st ks vs Hs).
  cbn [wf] in Hw. apply andb_true_iff in Hw as [Hw0 Hw].
  rewrite (seq_begin_eq st ks 8 (or_intror (ex_intro _ vs (conj Hs eq_refl)))).
  cbn [depth_ok] in Hdep.
  destruct ((d_array (s_dep st) + 1 <=? 32) && (d_struct (s_dep st) + d_array (s_dep st) + d_variant (s_dep st) + 1 <=? 64)) eqn:Hlim.
  2:{ destruct (inc_array_bad _ Hd Hlim) as [k Hk]. rewrite Hk. cbn [bind]. eauto. }
  cbn [andb] in Hdep. apply andb_true_iff in Hlim as [Ha Ht]. apply N.leb_le in Ha, Ht.
  destruct (inc_array_ok (s_dep st) Hd Ha Ht) as (d' & Hinc & Hdec & Hd' & E1 & E2 & E3).
  rewrite Hinc. cbn [bind].
  rewrite marshal_dict in Hlen. cbv zeta in Hlen. rewrite !len_app in Hlen.
  set (p0 := pad (abs_pos st) 4) in *. set (p1 := pad (abs_pos st + len p0 + 4) 8) in *.
  set (st' := set_dep (set_sig (grow st (p0 ++ enc (s_e st) 4 0 ++ p1) []) ks) d').
  assert (Hpos : abs_pos st' = abs_pos st + len p0 + 4 + len p1).
  { subst st'. change (abs_pos (set_dep (set_sig (grow st (p0 ++ enc (s_e st) 4 0 ++ p1) []) ks) d'))
      with (abs_pos (grow st (p0 ++ enc (s_e st) 4 0 ++ p1) [])). rewrite abs_pos_grow, !len_app, len_enc. lia. }
  assert (Hnf : nfd st' = nfd st).
  { subst st'. change (nfd (set_dep (set_sig (grow st (p0 ++ enc (s_e st) 4 0 ++ p1) []) ks) d'))
      with (nfd (grow st (p0 ++ enc (s_e st) 4 0 ++ p1) [])). rewrite nfd_grow. cbn. lia. }
  pose proof (entries_bad l HF st' ks vs Hw eq_refl Hv) as He.
  change (s_dep st') with d' in He. change (s_e st') with (s_e st) in He. rewrite E1, E2, E3, Hpos, Hnf in He.
  specialize (He Hd' Hdep). cbn [fds_of nfds] in Hn. unfold nfds in Hn. cbn [fds_of] in Hn.
  destruct (He ltac:(lia) ltac:(lia)) as [k Hk]. rewrite Hk. cbn [bind]. eauto.
Qed.

(* ---------- all values ---------- *)
Theorem ser_bad : forall v, enc_form v = true -> bad v.
Proof.
  induction v using dval_ind'; intros He.
  - now apply bad_leaf.
  - apply bad_variant. auto.
  - apply bad_array. cbn [enc_form] in He. rewrite forallb_forall in He. rewrite Forall_forall in *.
    intros x Hin. split; [apply ser_good|]; auto.
  - apply bad_dict. cbn [enc_form] in He. rewrite forallb_forall in He. rewrite Forall_forall in *.
    intros p Hin. specialize (He p Hin). apply andb_true_iff in He as [H1 H2]. destruct (H p Hin).
    repeat split; try apply ser_good; auto.
  - apply bad_struct. cbn [enc_form] in He. rewrite forallb_forall in He. rewrite Forall_forall in *.
    intros x Hin. split; [apply ser_good|]; auto.
Qed.

(* ---------- the dichotomy at any point of a message ---------- *)
Theorem ser_dichotomy v st :
  enc_form v = true -> wf v = true -> s_sig st = vsig v -> s_vsign st = None -> dep_ok (s_dep st) ->
  nfd st + nfds v < 2 ^ 32 ->
  len (marshal (s_e st) ByOccurrence v (abs_pos st) (nfd st)) < 2 ^ 32 ->
  if depth_ok (d_struct (s_dep st)) (d_array (s_dep st)) (d_variant (s_dep st)) v
  then ser (sval_of v) st = Ok (after st v)
  else exists k, ser (sval_of v) st = Err (EDepth k).
Proof.
  intros He Hw Hs Hv Hd Hn Hl.
  destruct (depth_ok (d_struct (s_dep st)) (d_array (s_dep st)) (d_variant (s_dep st)) v) eqn:Hdep.
  - apply (ser_good v He st Hw Hs Hv (conj Hd Hdep) Hn Hl).
  - apply (ser_bad v He st Hw Hs Hv Hd Hn Hl Hdep).
Qed.

(* success happens only within the limits, appends exactly the marshalling and leaves the counters alone *)
Theorem ser_ok_inv v st st' :
  enc_form v = true -> wf v = true -> s_sig st = vsig v -> s_vsign st = None -> dep_ok (s_dep st) ->
  nfd st + nfds v < 2 ^ 32 ->
  len (marshal (s_e st) ByOccurrence v (abs_pos st) (nfd st)) < 2 ^ 32 ->
  ser (sval_of v) st = Ok st' ->
  depth_ok (d_struct (s_dep st)) (d_array (s_dep st)) (d_variant (s_dep st)) v = true /\ st' = after st v.
Proof.
  intros He Hw Hs Hv Hd Hn Hl Hok. pose proof (ser_dichotomy v st He Hw Hs Hv Hd Hn Hl) as H.
  destruct (depth_ok _ _ _ v).
  - rewrite H in Hok. injection Hok as <-. split; reflexivity.
  - destruct H as [k Hk]. rewrite Hk in Hok. discriminate.
Qed.

Theorem ser_counters_restored v st st' :
  enc_form v = true -> wf v = true -> s_sig st = vsig v -> s_vsign st = None -> dep_ok (s_dep st) ->
  nfd st + nfds v < 2 ^ 32 ->
  len (marshal (s_e st) ByOccurrence v (abs_pos st) (nfd st)) < 2 ^ 32 ->
  ser (sval_of v) st = Ok st' -> s_dep st' = s_dep st.
Proof.
  intros He Hw Hs Hv Hd Hn Hl Hok. destruct (ser_ok_inv v st st' He Hw Hs Hv Hd Hn Hl Hok) as [_ ->]. reflexivity.
Qed.

(* ---------- top level ---------- *)
(* [encodable] of SerProofs.v without the nesting limits *)
Definition encodable_any_depth (e : endian) (pos : N) (v : dval) : Prop :=
  wf v = true /\ enc_form v = true /\ len (marshal_top e pos v) < 2 ^ 32 /\ nfds v < 2 ^ 32.

Lemma dep_ok0 : dep_ok depths0.
Proof. unfold dep_ok. cbn. lia. Qed.

Theorem ser_top_within c e pos v : encodable_any_depth e pos v -> within_limits v = true ->
  ser_top c e pos (vsig v) (sval_of v) = Ok (marshal_top e pos v, fds_of v).
Proof. intros (Hw & He & Hs & Hn) Hl. apply ser_top_exact. repeat split; assumption. Qed.

Theorem ser_top_exceeds c e pos v : encodable_any_depth e pos v -> within_limits v = false ->
  exists k, ser_top c e pos (vsig v) (sval_of v) = Err (EDepth k).
Proof.
  intros (Hw & He & Hs & Hn) Hl. unfold ser_top.
  destruct (ser_bad v He (init_state c e pos (vsig v) (FdsMode [])) Hw eq_refl eq_refl dep_ok0) as [k Hk].
  - rewrite nfd_init_fds. lia.
  - rewrite abs_pos_init, nfd_init_fds. exact Hs.
  - exact Hl.
  - exists k. rewrite Hk. reflexivity.
Qed.

Theorem ser_top_ok_iff c e pos v : encodable_any_depth e pos v ->
  ((exists b f, ser_top c e pos (vsig v) (sval_of v) = Ok (b, f)) <-> within_limits v = true).
Proof.
  intros H. split.
  - intros (b & f & Hok). destruct (within_limits v) eqn:Hl; [reflexivity|].
    destruct (ser_top_exceeds c e pos v H Hl) as [k Hk]. rewrite Hk in Hok. discriminate.
  - intros Hl. eexists _, _. apply ser_top_within; assumption.
Qed.

Theorem ser_top_err_iff c e pos v : encodable_any_depth e pos v ->
  ((exists k, ser_top c e pos (vsig v) (sval_of v) = Err (EDepth k)) <-> within_limits v = false).
Proof.
  intros H. split.
  - intros (k & Hk). destruct (within_limits v) eqn:Hl; [|reflexivity].
    rewrite (ser_top_within c e pos v H Hl) in Hk. discriminate.
  - apply ser_top_exceeds. exact H.
Qed.

(* the size pass refuses the same values *)
Theorem size_top_exceeds c e pos v : encodable_any_depth e pos v -> within_limits v = false ->
  exists k, size_top c e pos (vsig v) (sval_of v) = Err (EDepth k).
Proof.
  intros (Hw & He & Hs & Hn) Hl. unfold size_top.
  destruct (ser_bad v He (init_state c e pos (vsig v) (NumMode 0)) Hw eq_refl eq_refl dep_ok0) as [k Hk].
  - rewrite nfd_init_num. lia.
  - rewrite abs_pos_init, nfd_init_num. exact Hs.
  - exact Hl.
  - exists k. rewrite Hk. reflexivity.
Qed.

(* ---------- non-vacuity: towers of arrays ---------- *)
Fixpoint atower_sig (n : nat) : sig := match n with O => SU8 | S k => SArray (atower_sig k) end.
(* n arrays around one byte *)
Fixpoint atower (n : nat) : dval := match n with O => VU8 7 | S k => VArray (atower_sig k) [atower k] end.

Example tower32_within : within_limits (atower 32) = true /\ encodable_any_depth LE 3 (atower 32).
Proof. split; [vm_compute; reflexivity|]. unfold encodable_any_depth. repeat split; vm_compute; reflexivity. Qed.
Example tower33_exceeds : within_limits (atower 33) = false /\ encodable_any_depth LE 3 (atower 33).
Proof. split; [vm_compute; reflexivity|]. unfold encodable_any_depth. repeat split; vm_compute; reflexivity. Qed.
Example tower33_err : ser_top {| c_gv := false; c_oaa := false |} LE 3 (vsig (atower 33)) (sval_of (atower 33)) = Err (EDepth DArray).
Proof. vm_compute. reflexivity. Qed.
Example tower32_ok : exists b, ser_top {| c_gv := false; c_oaa := false |} LE 3 (vsig (atower 32)) (sval_of (atower 32)) = Ok (b, []).
Proof. eexists. vm_compute. reflexivity. Qed.
