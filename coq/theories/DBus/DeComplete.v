(* DBus/DeComplete.v — completeness of the decoder model on valid encodings (C02):
   for every well-formed value v, decoding a buffer that holds the specification's marshalling of v at the
   cursor returns v and advances the cursor by exactly the marshalled length, whatever surrounds it. *)
From ZV Require Import Base.Bytes Base.Res Base.Sig Base.SigParse Base.SigParseFacts Base.Utf8 Base.WinnowFacts
  DBus.Val DBus.Spec DBus.Ser DBus.SerFacts DBus.SerProofs DBus.De DBus.DeNoPanic DBus.DeFacts DBus.DeCompleteFacts.
From Coq Require Import Lia.
Local Open Scope N_scope.

(* the statement proved by induction on the value *)
Definition dgood (v : dval) : Prop := forall fuel st fm k,
  wf v = true -> t_sig st = vsig v -> fits (t_dep st) v ->
  len (marshal (t_e st) fm v (tabs st) k) < 2 ^ 32 ->
  N.of_nat (length (t_fds st)) <= 2 ^ 32 ->
  at_ (t_bytes st) (t_pos st) (marshal (t_e st) fm v (tabs st) k) ->
  fds_match fm (t_fds st) k v -> (vdepth v <= fuel)%nat ->
  de_any fuel st = Ok (v, adv st (len (marshal (t_e st) fm v (tabs st) k))).

(* ---------- one-step unfoldings of de_any ---------- *)
Lemma de_any_u8 f st : t_sig st = SU8 -> de_any (S f) st = let* (x, st) := rd_fixed st 1 in Ok (VU8 x, st).
Proof. intros H. cbn [de_any]. rewrite H. reflexivity. Qed.
Lemma de_any_bool f st : t_sig st = SBool -> de_any (S f) st =
  let* (x, st) := rd_fixed st 4 in
  if (x =? 1)%N then Ok (VBool true, st) else if (x =? 0)%N then Ok (VBool false, st) else Err EValue.
Proof. intros H. cbn [de_any]. rewrite H. reflexivity. Qed.
Lemma de_any_i16 f st : t_sig st = SI16 -> de_any (S f) st = let* (x, st) := rd_fixed st 2 in Ok (VI16 (untwos 16 x), st).
Proof. intros H. cbn [de_any]. rewrite H. reflexivity. Qed.
Lemma de_any_u16 f st : t_sig st = SU16 -> de_any (S f) st = let* (x, st) := rd_fixed st 2 in Ok (VU16 x, st).
Proof. intros H. cbn [de_any]. rewrite H. reflexivity. Qed.
Lemma de_any_i32 f st : t_sig st = SI32 -> de_any (S f) st = let* (x, st) := rd_fixed st 4 in Ok (VI32 (untwos 32 x), st).
Proof. intros H. cbn [de_any]. rewrite H. reflexivity. Qed.
Lemma de_any_u32 f st : t_sig st = SU32 -> de_any (S f) st = let* (x, st) := rd_fixed st 4 in Ok (VU32 x, st).
Proof. intros H. cbn [de_any]. rewrite H. reflexivity. Qed.
Lemma de_any_i64 f st : t_sig st = SI64 -> de_any (S f) st = let* (x, st) := rd_fixed st 8 in Ok (VI64 (untwos 64 x), st).
Proof. intros H. cbn [de_any]. rewrite H. reflexivity. Qed.
Lemma de_any_u64 f st : t_sig st = SU64 -> de_any (S f) st = let* (x, st) := rd_fixed st 8 in Ok (VU64 x, st).
Proof. intros H. cbn [de_any]. rewrite H. reflexivity. Qed.
Lemma de_any_f64 f st : t_sig st = SF64 -> de_any (S f) st = let* (x, st) := rd_fixed st 8 in Ok (VF64 x, st).
Proof. intros H. cbn [de_any]. rewrite H. reflexivity. Qed.
Lemma de_any_fd f st : t_sig st = SFd -> de_any (S f) st =
  let* (i, st) := rd_fixed st 4 in
  match nthN (t_fds st) i with Some h => Ok (VFd h, st) | None => Err EUnknownFd end.
Proof. intros H. cbn [de_any]. rewrite H. reflexivity. Qed.
Lemma de_any_str f st : t_sig st = SStr -> de_any (S f) st = let* (s, st) := de_str st in Ok (VStr s, st).
Proof. intros H. cbn [de_any]. rewrite H. reflexivity. Qed.
Lemma de_any_path f st : t_sig st = SObjPath -> de_any (S f) st =
  let* (s, st) := de_str st in if path_ok s then Ok (VPath s, st) else Err EValue.
Proof. intros H. cbn [de_any]. rewrite H. reflexivity. Qed.
Lemma de_any_sig f st : t_sig st = SSig -> de_any (S f) st =
  let* (s, st) := de_str st in
  match parse_sig (c_gv (t_cfg st)) s with Some g => Ok (VSigv g (negb (lbeq (show g) s)), st) | None => Err ESigParse end.
Proof. intros H. cbn [de_any]. rewrite H. reflexivity. Qed.
Lemma de_any_variant f st : t_sig st = SVariant -> de_any (S f) st =
  (let sig_start := t_pos st in
   let* (s, st1) := de_str (tset_sig st SSig) in
   let* _ := match parse_sig (c_gv (t_cfg st)) s with Some g => Ok g | None => Err ESigParse end in
   let st1 := tset_sig st1 SVariant in
   match nthN (t_bytes st) sig_start with
   | None => Panic PIndex
   | Some lb =>
       let sig_len := bn lb in
       let value_start := (sig_start + 1 + sig_len + 1)%N in
       if (blen st <? sig_start + 1 + sig_len)%N then Err EBounds else
       let slice := takeN sig_len (dropN (sig_start + 1) (t_bytes st)) in
       match parse_sig (c_gv (t_cfg st)) slice with
       | None => Err ESigParse
       | Some g =>
           if (match g with SUnit => true | _ => false end) || negb (len (show g) =? sig_len)%N then Err ESigMismatch else
           if (blen st <? value_start)%N then Err EBounds else
           let* d := inc_variant (t_dep st1) in
           let inner := {| t_cfg := t_cfg st; t_e := t_e st; t_pos0 := t_pos0 st; t_bytes := t_bytes st;
                           t_pos := value_start; t_sig := g; t_dep := d; t_fds := t_fds st |} in
           let* (v, inner') := de_any f inner in
           Ok (VVariant v, tset_pos st1 (t_pos st1 + (t_pos inner' - value_start)))
       end
   end).
Proof. intros H. cbn [de_any]. rewrite H. reflexivity. Qed.

(* ---------- fixed-width leaves ---------- *)
Lemma rd_fixed_n st (m : nat) n x : n = N.of_nat m ->
  at_ (t_bytes st) (t_pos st) (pad (tabs st) n ++ enc (t_e st) m x) -> x < 2 ^ (8 * n) ->
  rd_fixed st n = Ok (x, adv st (len (pad (tabs st) n ++ enc (t_e st) m x))).
Proof. intros -> H Hx. rewrite len_app, len_pad, len_enc. now apply rd_fixed_at. Qed.

Lemma twos_lt bits z : twos bits z < 2 ^ bits.
Proof.
  unfold twos. assert (H : (0 < 2 ^ Z.of_N bits)%Z) by (apply Z.pow_pos_nonneg; lia).
  pose proof (Z.mod_pos_bound z _ H) as Hb. apply N2Z.inj_lt. rewrite Z2N.id by lia.
  rewrite N2Z.inj_pow. exact (proj2 Hb).
Qed.

Ltac fuel_S fuel Hf v := destruct fuel as [|fuel]; [pose proof (vdepth_pos v); lia|].

Lemma dgood_u8 n : dgood (VU8 n).
Proof.
  intros fuel st fm k Hw Hs _ _ _ Hat _ Hf. fuel_S fuel Hf (VU8 n). rewrite de_any_u8 by exact Hs.
  cbn [wf] in Hw. apply N.ltb_lt in Hw. cbn [marshal] in *.
  assert (E : [nb n] = pad (tabs st) 1 ++ enc (t_e st) 1 n).
  { rewrite pad_1. destruct (t_e st); cbn; unfold nb; now rewrite N.mod_mod by lia. }
  rewrite E in *. rewrite (rd_fixed_n st 1 1 n eq_refl Hat Hw). reflexivity.
Qed.
Lemma dgood_bool b : dgood (VBool b).
Proof.
  intros fuel st fm k Hw Hs _ _ _ Hat _ Hf. fuel_S fuel Hf (VBool b). rewrite de_any_bool by exact Hs.
  cbn [marshal] in *. rewrite (rd_fixed_n st 4 4 _ eq_refl Hat) by (destruct b; reflexivity). cbn [bind].
  destruct b; reflexivity.
Qed.
Lemma dgood_u16 n : dgood (VU16 n).
Proof.
  intros fuel st fm k Hw Hs _ _ _ Hat _ Hf. fuel_S fuel Hf (VU16 n). rewrite de_any_u16 by exact Hs.
  cbn [wf] in Hw. apply N.ltb_lt in Hw. cbn [marshal] in *.
  rewrite (rd_fixed_n st 2 2 n eq_refl Hat Hw). reflexivity.
Qed.
Lemma dgood_u32 n : dgood (VU32 n).
Proof.
  intros fuel st fm k Hw Hs _ _ _ Hat _ Hf. fuel_S fuel Hf (VU32 n). rewrite de_any_u32 by exact Hs.
  cbn [wf] in Hw. apply N.ltb_lt in Hw. cbn [marshal] in *.
  rewrite (rd_fixed_n st 4 4 n eq_refl Hat Hw). reflexivity.
Qed.
Lemma dgood_u64 n : dgood (VU64 n).
Proof.
  intros fuel st fm k Hw Hs _ _ _ Hat _ Hf. fuel_S fuel Hf (VU64 n). rewrite de_any_u64 by exact Hs.
  cbn [wf] in Hw. apply N.ltb_lt in Hw. cbn [marshal] in *.
  rewrite (rd_fixed_n st 8 8 n eq_refl Hat Hw). reflexivity.
Qed.
Lemma dgood_f64 n : dgood (VF64 n).
Proof.
  intros fuel st fm k Hw Hs _ _ _ Hat _ Hf. fuel_S fuel Hf (VF64 n). rewrite de_any_f64 by exact Hs.
  cbn [wf] in Hw. apply N.ltb_lt in Hw. cbn [marshal] in *.
  rewrite (rd_fixed_n st 8 8 n eq_refl Hat Hw). reflexivity.
Qed.
Lemma dgood_i16 z : dgood (VI16 z).
Proof.
  intros fuel st fm k Hw Hs _ _ _ Hat _ Hf. fuel_S fuel Hf (VI16 z). rewrite de_any_i16 by exact Hs.
  cbn [wf] in Hw. apply andb_true_iff in Hw as [H1 H2]. apply Z.leb_le in H1. apply Z.ltb_lt in H2. cbn [marshal] in *.
  rewrite (rd_fixed_n st 2 2 _ eq_refl Hat (twos_lt 16 z)). cbn [bind].
  rewrite untwos_twos; [reflexivity|lia|]. change (2 ^ Z.of_N (16 - 1))%Z with 32768%Z. lia.
Qed.
Lemma dgood_i32 z : dgood (VI32 z).
Proof.
  intros fuel st fm k Hw Hs _ _ _ Hat _ Hf. fuel_S fuel Hf (VI32 z). rewrite de_any_i32 by exact Hs.
  cbn [wf] in Hw. apply andb_true_iff in Hw as [H1 H2]. apply Z.leb_le in H1. apply Z.ltb_lt in H2. cbn [marshal] in *.
  rewrite (rd_fixed_n st 4 4 _ eq_refl Hat (twos_lt 32 z)). cbn [bind].
  rewrite untwos_twos; [reflexivity|lia|]. change (2 ^ Z.of_N (32 - 1))%Z with 2147483648%Z. lia.
Qed.
Lemma dgood_i64 z : dgood (VI64 z).
Proof.
  intros fuel st fm k Hw Hs _ _ _ Hat _ Hf. fuel_S fuel Hf (VI64 z). rewrite de_any_i64 by exact Hs.
  cbn [wf] in Hw. apply andb_true_iff in Hw as [H1 H2]. apply Z.leb_le in H1. apply Z.ltb_lt in H2. cbn [marshal] in *.
  rewrite (rd_fixed_n st 8 8 _ eq_refl Hat (twos_lt 64 z)). cbn [bind].
  rewrite untwos_twos; [reflexivity|lia|]. change (2 ^ Z.of_N (64 - 1))%Z with 9223372036854775808%Z. lia.
Qed.

Lemma dgood_fd h : dgood (VFd h).
Proof.
  intros fuel st fm k Hw Hs _ _ Hfl Hat Hfd Hf. fuel_S fuel Hf (VFd h). rewrite de_any_fd by exact Hs.
  cbn [marshal] in *. unfold fds_match in Hfd. cbn [fds_of] in Hfd.
  set (i := match fm with ByOccurrence => k | ByHandle => h end) in *.
  assert (Hi : nthN (t_fds st) i = Some h).
  { subst i. destruct fm; cbn [fdsm] in Hfd.
    - specialize (Hfd 0%nat h eq_refl). now rewrite N.add_0_r in Hfd.
    - now inversion Hfd. }
  pose proof (nthN_lt _ _ _ Hi) as Hlt.
  rewrite (rd_fixed_n st 4 4 i eq_refl Hat) by (change (2 ^ (8 * 4)) with (2 ^ 32); lia). cbn [bind].
  change (t_fds (adv st (len (pad (tabs st) 4 ++ enc (t_e st) 4 i)))) with (t_fds st). rewrite Hi. reflexivity.
Qed.

(* ---------- strings, object paths, signatures ---------- *)
Lemma dgood_str s : dgood (VStr s).
Proof.
  intros fuel st fm k Hw Hs _ _ _ Hat _ Hf. fuel_S fuel Hf (VStr s). rewrite de_any_str by exact Hs.
  cbn [wf] in Hw. unfold str_ok in Hw. apply andb_true_iff in Hw as [Hw Hl]. apply andb_true_iff in Hw as [Hn Hu].
  apply N.ltb_lt in Hl. cbn [marshal] in *.
  rewrite (de_str_4 st s (or_introl Hs) Hl (or_intror (conj Hn Hu)) Hat). reflexivity.
Qed.
Lemma dgood_path s : dgood (VPath s).
Proof.
  intros fuel st fm k Hw Hs _ _ _ Hat _ Hf. fuel_S fuel Hf (VPath s). rewrite de_any_path by exact Hs.
  cbn [wf] in Hw. apply andb_true_iff in Hw as [Hp Hl]. apply N.ltb_lt in Hl. cbn [marshal] in *.
  rewrite (de_str_4 st s (or_intror Hs) Hl (or_introl (path_ascii s Hp)) Hat). cbn [bind]. rewrite Hp. reflexivity.
Qed.

Lemma len_concat_le_show fs : len (concat (map show fs)) <= len (show (SStruct fs)).
Proof. cbn [show]. rewrite !len_app. lia. Qed.

Lemma dgood_sigv g np : dgood (VSigv g np).
Proof.
  intros fuel st fm k Hw Hs _ _ _ Hat _ Hf. fuel_S fuel Hf (VSigv g np). rewrite de_any_sig by exact Hs.
  cbn [wf] in Hw. apply andb_true_iff in Hw as [Hok Hnp].
  destruct (sigval_parse (c_gv (t_cfg st)) g np Hok Hnp) as [Hps Hlb]. cbv zeta in Hps, Hlb.
  cbn [marshal] in *. cbv zeta in *.
  set (t := if np then show_noparens g else show g) in *.
  assert (Hl : len t <= 255).
  { unfold sigval_ok in Hok. apply andb_true_iff in Hok as [_ Hl]. apply N.leb_le in Hl. subst t. exact Hl. }
  assert (Ha : ascii_nz t = true) by (subst t; destruct np; [apply ascii_show_noparens|apply ascii_show]).
  rewrite (de_str_1 st t (or_introl Hs) Hl Ha Hat). cbn [bind].
  change (t_cfg (adv st (len (nb (len t) :: t ++ [x00])))) with (t_cfg st). rewrite Hps, Hlb. reflexivity.
Qed.

(* ---------- variants ---------- *)
Lemma single_not_unit g : single_ok g = true -> (match g with SUnit => true | _ => false end) = false.
Proof. destruct g; cbn; congruence. Qed.

Lemma dgood_variant x : dgood x -> dgood (VVariant x).
Proof.
  intros Hx fuel st fm k Hw Hs [Hd Hdep] Hlen Hfl Hat Hfd Hf. cbn [vdepth] in Hf.
  destruct fuel as [|f]; [lia|]. rewrite de_any_variant by exact Hs. cbv zeta.
  cbn [wf] in Hw. apply andb_true_iff in Hw as [Hw Hl255]. apply andb_true_iff in Hw as [Hw Hso].
  apply N.leb_le in Hl255.
  cbn [depth_ok] in Hdep. apply andb_true_iff in Hdep as [Ht Hdx]. apply N.leb_le in Ht.
  destruct (inc_variant_ok (t_dep st) Hd Ht) as (d' & Hinc & Hd' & E1 & E2 & E3).
  cbn [marshal] in *. cbv zeta in *.
  set (g := vsig x) in *. set (sg := show g) in *.
  assert (Hhdr : len (nb (len sg) :: sg ++ [x00]) = 1 + len sg + 1).
  { rewrite len_cons, len_app. change (len [x00]) with 1. lia. }
  rewrite len_app in Hlen.
  pose proof (at_app_l _ _ _ _ Hat) as Hh. pose proof (at_app_r _ _ _ _ Hat) as Hv.
  (* stage Signature *)
  rewrite (de_str_1 (tset_sig st SSig) sg (or_introl eq_refl) Hl255 (ascii_show g) Hh). cbn [bind].
  pose proof (parse_show (c_gv (t_cfg st)) g (single_printable g Hso)) as Hps. fold sg in Hps. rewrite Hps. cbn [bind].
  (* stage Value: length byte and signature slice are read again *)
  rewrite (at_nth _ _ _ (at_cons_l _ _ _ _ Hh)). rewrite bn_nb by lia.
  pose proof (at_bound _ _ _ Hh) as Hb. rewrite Hhdr in Hb. unfold blen.
  destruct (N.ltb_spec (len (t_bytes st)) (t_pos st + 1 + len sg)) as [|_]; [lia|].
  pose proof (at_app_l _ _ _ _ (at_cons_r _ _ _ _ Hh)) as Hsl. rewrite (at_slice _ _ _ Hsl). rewrite Hps.
  rewrite (single_not_unit g Hso). fold sg. rewrite N.eqb_refl. cbn [negb orb].
  destruct (N.ltb_spec (len (t_bytes st)) (t_pos st + 1 + len sg + 1)) as [|_]; [lia|].
  change (t_dep (tset_sig (adv (tset_sig st SSig) (len (nb (len sg) :: sg ++ [x00]))) SVariant)) with (t_dep st).
  rewrite Hinc. cbn [bind].
  set (inner := {| t_cfg := t_cfg st; t_e := t_e st; t_pos0 := t_pos0 st; t_bytes := t_bytes st;
                   t_pos := t_pos st + 1 + len sg + 1; t_sig := g; t_dep := d'; t_fds := t_fds st |}).
  assert (Hti : tabs inner = tabs st + len (nb (len sg) :: sg ++ [x00])).
  { rewrite Hhdr. unfold tabs, inner. cbn [t_pos0 t_pos]. lia. }
  assert (Hpi : t_pos inner = t_pos st + len (nb (len sg) :: sg ++ [x00])).
  { rewrite Hhdr. unfold inner. cbn [t_pos]. lia. }
  assert (Hfit : fits d' x) by (split; [exact Hd'|rewrite E1, E2, E3; exact Hdx]).
  assert (G := Hx f inner fm k Hw eq_refl Hfit).
  change (t_e inner) with (t_e st) in G. change (t_bytes inner) with (t_bytes st) in G. change (t_fds inner) with (t_fds st) in G.
  rewrite Hti, Hpi in G.
  specialize (G ltac:(lia) Hfl Hv Hfd ltac:(lia)). rewrite G. cbn [bind]. do 2 f_equal.
  apply dstate_ext; try reflexivity.
  - cbn [t_pos adv tset_pos tset_sig]. rewrite len_app. unfold inner at 1. cbn [t_pos]. lia.
  - cbn [t_sig adv tset_pos tset_sig]. now rewrite Hs.
Qed.

(* ---------- structs ---------- *)
Lemma struct_loop_ok f fm : forall l, Forall dgood l -> forall st acc k,
  forallb wf l = true -> dep_ok (t_dep st) ->
  forallb (depth_ok (d_struct (t_dep st)) (d_array (t_dep st)) (d_variant (t_dep st))) l = true ->
  len (mseq (t_e st) fm l (tabs st) k) < 2 ^ 32 ->
  N.of_nat (length (t_fds st)) <= 2 ^ 32 ->
  at_ (t_bytes st) (t_pos st) (mseq (t_e st) fm l (tabs st) k) ->
  fdsm fm (t_fds st) k (concat (map fds_of l)) -> (vdepths l <= f)%nat ->
  struct_loop (de_any f) (map vsig l) st acc = Ok (rev acc ++ l, adv st (len (mseq (t_e st) fm l (tabs st) k))).
Proof.
  induction 1 as [|x l Hx Hl IH]; intros st acc k Hw Hd Hdep Hlen Hfl Hat Hfd Hf.
  - cbn [map struct_loop mseq]. change (len []) with 0. now rewrite adv_0, app_nil_r.
  - cbn [forallb] in Hw, Hdep. apply andb_true_iff in Hw as [Hwx Hw]. apply andb_true_iff in Hdep as [Hdx Hdep].
    cbn [map concat mseq vdepths] in *. cbv zeta in *. rewrite len_app in Hlen.
    apply fdsm_app in Hfd as [Hfx Hfr].
    cbn [struct_loop].
    assert (G := Hx f (tset_sig st (vsig x)) fm k Hwx eq_refl (conj Hd Hdx)).
    change (t_e (tset_sig st (vsig x))) with (t_e st) in G. change (tabs (tset_sig st (vsig x))) with (tabs st) in G.
    specialize (G ltac:(lia) Hfl (at_app_l _ _ _ _ Hat) Hfx ltac:(lia)). rewrite G. cbn [bind].
    set (b := marshal (t_e st) fm x (tabs st) k) in *.
    change (tset_pos st (t_pos (adv (tset_sig st (vsig x)) (len b)))) with (adv st (len b)).
    assert (G2 := IH (adv st (len b)) (x :: acc) (k + nfds x) Hw Hd Hdep).
    change (t_e (adv st (len b))) with (t_e st) in G2. rewrite tabs_adv in G2.
    specialize (G2 ltac:(lia) Hfl (at_app_r _ _ _ _ Hat) Hfr ltac:(lia)). rewrite G2.
    rewrite adv_adv, len_app. cbn [rev]. rewrite <- app_assoc. reflexivity.
Qed.

Lemma dgood_struct l : Forall dgood l -> dgood (VStruct l).
Proof.
  intros HF fuel st fm k Hw Hs [Hd Hdep] Hlen Hfl Hat Hfd Hf. rewrite vdepth_struct in Hf.
  destruct fuel as [|f]; [lia|]. cbn [vsig] in Hs. rewrite (de_any_struct f st _ Hs).
  cbn [wf] in Hw. apply andb_true_iff in Hw as [Hne Hw].
  cbn [depth_ok] in Hdep. apply andb_true_iff in Hdep as [Hdep Hdl]. apply andb_true_iff in Hdep as [Ha Ht].
  apply N.leb_le in Ha, Ht.
  destruct (inc_struct_ok' (t_dep st) Hd Ha Ht) as (d' & Hinc & Hdec & Hd' & E1 & E2 & E3).
  rewrite marshal_struct in *. cbv zeta in *. rewrite len_app, len_pad in Hlen. rewrite len_pad in Hat.
  rewrite (parse_padding_at st 8 (at_app_l _ _ _ _ Hat)). cbn [bind].
  set (p := padn (tabs st) 8) in *.
  change (t_dep (adv st p)) with (t_dep st). rewrite Hinc. cbn [bind].
  set (st' := tset_dep (adv st p) d').
  pose proof (struct_loop_ok f fm l HF st' [] k Hw Hd') as G.
  change (t_dep st') with d' in G. change (t_e st') with (t_e st) in G. change (t_fds st') with (t_fds st) in G.
  change (tabs st') with (tabs (adv st p)) in G. rewrite tabs_adv in G. rewrite E1, E2, E3 in G.
  unfold fds_match in Hfd. cbn [fds_of] in Hfd.
  pose proof (at_app_r _ _ _ _ Hat) as Hr. rewrite len_pad in Hr. fold p in Hr.
  specialize (G Hdl ltac:(lia) Hfl Hr Hfd ltac:(lia)).
  rewrite G. cbn [bind rev app]. do 2 f_equal.
  destruct l as [|x0 l0]; [discriminate Hne|]. cbn [map].
  apply dstate_ext; try reflexivity.
  - cbn [t_pos adv tset_pos tset_dep]. subst st'. cbn [t_pos adv tset_pos tset_dep]. rewrite len_app, len_pad. fold p. lia.
  - cbn [t_dep adv tset_pos tset_dep]. subst st'. cbn [t_dep adv tset_pos tset_dep]. exact Hdec.
Qed.

(* ---------- arrays ---------- *)
Lemma arr_loop_ok f fm c : forall l, Forall dgood l -> forall st acc kf k start n,
  forallb (fun x => wf x && sig_eqb (vsig x) c) l = true ->
  t_sig st = c -> dep_ok (t_dep st) ->
  forallb (depth_ok (d_struct (t_dep st)) (d_array (t_dep st)) (d_variant (t_dep st))) l = true ->
  len (mseq (t_e st) fm l (tabs st) k) < 2 ^ 32 ->
  N.of_nat (length (t_fds st)) <= 2 ^ 32 ->
  at_ (t_bytes st) (t_pos st) (mseq (t_e st) fm l (tabs st) k) ->
  fdsm fm (t_fds st) k (concat (map fds_of l)) -> (vdepths l <= f)%nat -> (length l < kf)%nat ->
  start + n = t_pos st + len (mseq (t_e st) fm l (tabs st) k) ->
  arr_loop (de_any f) (align_dbus c) start n c kf st acc
  = Ok (rev acc ++ l, adv st (len (mseq (t_e st) fm l (tabs st) k))).
Proof.
  induction 1 as [|x l Hx Hl IH]; intros st acc kf k start n Hw Hs Hd Hdep Hlen Hfl Hat Hfd Hf Hkf Hend.
  - destruct kf as [|kf]; [cbn in Hkf; lia|]. cbn [mseq] in *. change (len []) with 0 in *. cbn [arr_loop].
    destruct (N.eqb_spec (t_pos st) (start + n)) as [_|Hne]; [|lia]. now rewrite adv_0, app_nil_r.
  - destruct kf as [|kf]; [cbn in Hkf; lia|]. cbn [length] in Hkf.
    cbn [forallb] in Hw, Hdep. apply andb_true_iff in Hw as [Hwx Hw]. apply andb_true_iff in Hwx as [Hwx Hsx].
    apply andb_true_iff in Hdep as [Hdx Hdep].
    cbn [map concat mseq vdepths] in *. cbv zeta in *. rewrite len_app in Hlen, Hend.
    apply fdsm_app in Hfd as [Hfx Hfr].
    pose proof (marshal_nonempty (t_e st) fm x (tabs st) k Hwx) as Hne.
    pose proof (sig_eqb_eq _ _ Hsx) as Hsx'.
    cbn [arr_loop]. destruct (N.eqb_spec (t_pos st) (start + n)) as [Heq|_]; [lia|].
    (* the loop pads to the element alignment, then the element decoder pads again: a no-op *)
    pose proof (at_app_l _ _ _ _ Hat) as Hax. pose proof (at_app_r _ _ _ _ Hat) as Har.
    pose proof (marshal_realign_len (t_e st) fm x (tabs st) k) as Hrl.
    rewrite (marshal_realign (t_e st) fm x (tabs st) k) in Hax. rewrite Hsx' in Hax, Hrl.
    set (pn := padn (tabs st) (align_dbus c)) in *.
    rewrite (parse_padding_at st (align_dbus c) (at_app_l _ _ _ _ Hax)). cbn [bind]. fold pn.
    apply at_app_r in Hax. rewrite len_pad in Hax. fold pn in Hax.
    assert (G := Hx f (adv st pn) fm k Hwx ltac:(cbn; congruence) (conj Hd Hdx)).
    change (t_e (adv st pn)) with (t_e st) in G. rewrite tabs_adv in G.
    specialize (G ltac:(lia) Hfl Hax Hfx ltac:(lia)). rewrite G. cbn [bind].
    rewrite adv_adv, <- Hrl.
    set (b := marshal (t_e st) fm x (tabs st) k) in *.
    destruct (N.ltb_spec (start + n) (t_pos (adv st (len b)))) as [Hlt|_]; [cbn [t_pos adv tset_pos] in Hlt; lia|].
    rewrite Hsx. cbn [negb].
    assert (G2 := IH (adv st (len b)) (x :: acc) kf (k + nfds x) start n Hw Hs Hd Hdep).
    change (t_e (adv st (len b))) with (t_e st) in G2. rewrite tabs_adv in G2.
    specialize (G2 ltac:(lia) Hfl Har Hfr ltac:(lia) ltac:(lia) ltac:(cbn [t_pos adv tset_pos]; lia)). rewrite G2.
    rewrite adv_adv, len_app. cbn [rev]. rewrite <- app_assoc. reflexivity.
Qed.

Lemma dgood_array el l : Forall dgood l -> dgood (VArray el l).
Proof.
  intros HF fuel st fm k Hw Hs [Hd Hdep] Hlen Hfl Hat Hfd Hf. rewrite vdepth_array in Hf.
  destruct fuel as [|f]; [lia|]. cbn [vsig] in Hs. rewrite (de_any_array f st _ Hs).
  cbn [wf] in Hw. apply andb_true_iff in Hw as [Hel Hw].
  cbn [depth_ok] in Hdep. apply andb_true_iff in Hdep as [Hdep Hdl]. apply andb_true_iff in Hdep as [Ha Ht].
  apply N.leb_le in Ha, Ht.
  destruct (inc_array_ok (t_dep st) Hd Ha Ht) as (d' & Hinc & Hdec & Hd' & E1 & E2 & E3).
  rewrite marshal_array in *. cbv zeta in *. rewrite !len_pad in *. rewrite !len_app, !len_pad, len_enc in Hlen.
  set (p0 := padn (tabs st) 4) in *. set (p1 := padn (tabs st + p0 + 4) (align_dbus el)) in *.
  set (body := mseq (t_e st) fm l (tabs st + p0 + 4 + p1) k) in *.
  pose proof (at_app_l _ _ _ _ Hat) as H0. apply at_app_r in Hat. rewrite len_pad in Hat. fold p0 in Hat.
  pose proof (at_app_l _ _ _ _ Hat) as H1. apply at_app_r in Hat. rewrite len_enc in Hat.
  pose proof (at_app_l _ _ _ _ Hat) as H2. apply at_app_r in Hat. rewrite len_pad in Hat. fold p1 in Hat.
  (* header: padding, depth, length, padding to the element alignment *)
  rewrite (parse_padding_at st 4 H0). cbn [bind]. fold p0.
  change (t_dep (adv st p0)) with (t_dep st). rewrite Hinc. cbn [bind].
  rewrite (next_slice_at' (tset_dep (adv st p0) d') _ 4 H1) by (now rewrite len_enc). cbn [bind].
  change (t_e (adv (tset_dep (adv st p0) d') 4)) with (t_e st). rewrite dec_enc4 by lia.
  rewrite (single_align el Hel). cbn [bind].
  set (s3 := adv (tset_dep (adv st p0) d') 4).
  assert (Ht3 : tabs s3 = tabs st + p0 + 4) by (subst s3; unfold tabs; cbn [t_pos0 t_pos adv tset_pos tset_dep]; lia).
  assert (H2' : at_ (t_bytes s3) (t_pos s3) (pad (tabs s3) (align_dbus el))).
  { rewrite Ht3. subst s3. cbn [t_bytes t_pos adv tset_pos tset_dep]. exact H2. }
  rewrite (parse_padding_at s3 (align_dbus el) H2'). cbn [bind]. rewrite Ht3. fold p1.
  set (s4 := tset_sig (adv s3 p1) el).
  assert (Ht4 : tabs s4 = tabs st + p0 + 4 + p1).
  { subst s4. change (tabs (tset_sig (adv s3 p1) el)) with (tabs (adv s3 p1)). rewrite tabs_adv, Ht3. reflexivity. }
  assert (Hp4 : t_pos s4 = t_pos st + p0 + 4 + p1) by (subst s4 s3; cbn [t_pos adv tset_pos tset_dep tset_sig]; lia).
  change (t_pos (tset_sig (adv s3 p1) el)) with (t_pos s4). change (t_bytes (tset_sig (adv s3 p1) el)) with (t_bytes st).
  pose proof (arr_loop_ok f fm el l HF s4 [] (S (length (t_bytes st))) k (t_pos s4) (len body) Hw eq_refl) as G.
  change (t_dep s4) with d' in G. change (t_e s4) with (t_e st) in G. change (t_fds s4) with (t_fds st) in G.
  change (t_bytes s4) with (t_bytes st) in G. rewrite Ht4, Hp4 in G. rewrite E1, E2, E3 in G. fold body in G.
  unfold fds_match in Hfd. cbn [fds_of] in Hfd.
  assert (Hkf : (length l < S (length (t_bytes st)))%nat).
  { pose proof (mseq_length (t_e st) fm l (tabs st + p0 + 4 + p1) k) as Hm. fold body in Hm.
    assert (Hwl : forallb wf l = true).
    { apply forallb_forall. intros y Hy. rewrite forallb_forall in Hw. specialize (Hw y Hy). now apply andb_true_iff in Hw as [? _]. }
    specialize (Hm Hwl). pose proof (at_length _ _ _ Hat) as Hal. unfold len in Hm. lia. }
  replace (t_pos st + p0 + N.of_nat 4 + p1) with (t_pos st + p0 + 4 + p1) in Hat by lia.
  specialize (G Hd' Hdl ltac:(lia) Hfl Hat Hfd ltac:(lia) Hkf eq_refl). rewrite Hp4.
  change (t_bytes s4) with (t_bytes st). rewrite G.
  cbn [bind rev app]. do 2 f_equal.
  apply dstate_ext; try reflexivity.
  - subst s4 s3. cbn [t_pos adv tset_pos tset_dep tset_sig]. rewrite !len_app, !len_pad, len_enc. fold p0 p1 body. lia.
  - subst s4 s3. cbn [t_dep adv tset_pos tset_dep tset_sig]. exact Hdec.
Qed.

(* ---------- dicts ---------- *)
Lemma dict_loop_ok f fm ks vs : forall l, Forall (fun p => dgood (fst p) /\ dgood (snd p)) l -> forall st acc kf k start n,
  forallb (fun p => wf (fst p) && wf (snd p) && sig_eqb (vsig (fst p)) ks && sig_eqb (vsig (snd p)) vs) l = true ->
  t_sig st = ks -> dep_ok (t_dep st) ->
  forallb (fun p => depth_ok (d_struct (t_dep st)) (d_array (t_dep st)) (d_variant (t_dep st)) (fst p)
                    && depth_ok (d_struct (t_dep st)) (d_array (t_dep st)) (d_variant (t_dep st)) (snd p)) l = true ->
  len (mentries (t_e st) fm l (tabs st) k) < 2 ^ 32 ->
  N.of_nat (length (t_fds st)) <= 2 ^ 32 ->
  at_ (t_bytes st) (t_pos st) (mentries (t_e st) fm l (tabs st) k) ->
  fdsm fm (t_fds st) k (concat (map (fun p => fds_of (fst p) ++ fds_of (snd p)) l)) ->
  (vdepthp l <= f)%nat -> (length l < kf)%nat ->
  start + n = t_pos st + len (mentries (t_e st) fm l (tabs st) k) ->
  dict_loop (de_any f) start n ks vs kf st acc
  = Ok (rev acc ++ l, adv st (len (mentries (t_e st) fm l (tabs st) k))).
Proof.
  induction 1 as [|[key x] l [Hk Hx] Hl IH]; intros st acc kf k start n Hw Hs Hd Hdep Hlen Hfl Hat Hfd Hf Hkf Hend.
  - destruct kf as [|kf]; [cbn in Hkf; lia|]. cbn [mentries] in *. change (len []) with 0 in *. cbn [dict_loop].
    destruct (N.eqb_spec (t_pos st) (start + n)) as [_|Hne]; [|lia]. now rewrite adv_0, app_nil_r.
  - destruct kf as [|kf]; [cbn in Hkf; lia|]. cbn [length] in Hkf.
    cbn [forallb fst snd] in Hw, Hdep. apply andb_true_iff in Hw as [Hw1 Hw].
    apply andb_true_iff in Hw1 as [Hw1 Hsx]. apply andb_true_iff in Hw1 as [Hw1 Hsk]. apply andb_true_iff in Hw1 as [Hwk Hwx].
    apply andb_true_iff in Hdep as [Hd1 Hdep]. apply andb_true_iff in Hd1 as [Hdk Hdx].
    cbn [map concat mentries vdepthp fst snd] in *. cbv zeta in *. rewrite !len_pad in *. rewrite !len_app, len_pad in Hlen, Hend.
    apply fdsm_app in Hfd as [Hfe Hfr]. apply fdsm_app in Hfe as [Hfk Hfx].
    rewrite app_length, Nat2N.inj_add in Hfr.
    replace (k + (N.of_nat (length (fds_of key)) + N.of_nat (length (fds_of x)))) with (k + nfds key + nfds x) in Hfr
      by (unfold nfds; lia).
    set (p0 := padn (tabs st) 8) in *.
    set (b1 := marshal (t_e st) fm key (tabs st + p0) k) in *.
    set (b2 := marshal (t_e st) fm x (tabs st + p0 + len b1) (k + nfds key)) in *.
    pose proof (marshal_nonempty (t_e st) fm key (tabs st + p0) k Hwk) as Hne. fold b1 in Hne.
    cbn [dict_loop]. destruct (N.eqb_spec (t_pos st) (start + n)) as [Heq|_]; [lia|].
    pose proof (at_app_l _ _ _ _ Hat) as H0. apply at_app_r in Hat. rewrite len_pad in Hat. fold p0 in Hat.
    pose proof (at_app_l _ _ _ _ Hat) as H1. apply at_app_r in Hat.
    pose proof (at_app_l _ _ _ _ Hat) as H2. apply at_app_r in Hat.
    rewrite (parse_padding_at st 8 H0). cbn [bind]. fold p0.
    (* key *)
    assert (G := Hk f (adv st p0) fm k Hwk ltac:(cbn [t_sig adv tset_pos]; rewrite Hs; symmetry; now apply sig_eqb_eq) (conj Hd Hdk)).
    change (t_e (adv st p0)) with (t_e st) in G. rewrite tabs_adv in G. fold b1 in G.
    specialize (G ltac:(lia) Hfl H1 Hfk ltac:(lia)). rewrite G. cbn [bind]. rewrite adv_adv.
    destruct (N.ltb_spec (start + n) (t_pos (adv st (p0 + len b1)))) as [Hlt|_]; [cbn [t_pos adv tset_pos] in Hlt; lia|].
    (* value *)
    set (s2 := tset_sig (adv st (p0 + len b1)) vs).
    assert (Ht2 : tabs s2 = tabs st + p0 + len b1).
    { subst s2. change (tabs (tset_sig (adv st (p0 + len b1)) vs)) with (tabs (adv st (p0 + len b1))). rewrite tabs_adv. lia. }
    assert (Hp2 : t_pos s2 = t_pos st + p0 + len b1) by (subst s2; cbn [t_pos adv tset_pos tset_sig]; lia).
    assert (G2 := Hx f s2 fm (k + nfds key) Hwx ltac:(subst s2; cbn [t_sig tset_sig]; symmetry; now apply sig_eqb_eq) (conj Hd Hdx)).
    change (t_e s2) with (t_e st) in G2. change (t_bytes s2) with (t_bytes st) in G2. change (t_fds s2) with (t_fds st) in G2.
    rewrite Ht2, Hp2 in G2. fold b2 in G2.
    specialize (G2 ltac:(lia) Hfl H2 Hfx ltac:(lia)). rewrite G2. cbn [bind].
    destruct (N.ltb_spec (start + n) (t_pos (adv s2 (len b2)))) as [Hlt|_]; [rewrite pos_adv, Hp2 in Hlt; lia|].
    rewrite Hsk, Hsx. cbn [negb orb].
    assert (E3 : tset_sig (adv s2 (len b2)) ks = adv st (p0 + len b1 + len b2)).
    { subst s2. apply dstate_ext; try reflexivity.
      - cbn [t_pos adv tset_pos tset_sig]. lia.
      - cbn [t_sig adv tset_pos tset_sig]. now rewrite Hs. }
    rewrite E3.
    assert (G3 := IH (adv st (p0 + len b1 + len b2)) ((key, x) :: acc) kf (k + nfds key + nfds x) start n Hw Hs Hd Hdep).
    change (t_e (adv st (p0 + len b1 + len b2))) with (t_e st) in G3. rewrite tabs_adv in G3.
    replace (tabs st + (p0 + len b1 + len b2)) with (tabs st + p0 + len b1 + len b2) in G3 by lia.
    replace (t_pos st + p0 + len b1 + len b2) with (t_pos (adv st (p0 + len b1 + len b2))) in Hat by (cbn [t_pos adv tset_pos]; lia).
    specialize (G3 ltac:(lia) Hfl Hat Hfr ltac:(lia) ltac:(lia) ltac:(cbn [t_pos adv tset_pos]; lia)). rewrite G3.
    rewrite adv_adv, !len_app, len_pad. fold p0. cbn [rev]. rewrite <- app_assoc. cbn [app]. do 2 f_equal. f_equal. lia.
Qed.

Lemma dgood_dict ks vs l : Forall (fun p => dgood (fst p) /\ dgood (snd p)) l -> dgood (VDict ks vs l).
Proof.
  intros HF fuel st fm k Hw Hs [Hd Hdep] Hlen Hfl Hat Hfd Hf. rewrite vdepth_dict in Hf.
  destruct fuel as [|f]; [lia|]. cbn [vsig] in Hs. rewrite (de_any_dict f st _ _ Hs).
  cbn [wf] in Hw. apply andb_true_iff in Hw as [Hw0 Hw].
  cbn [depth_ok] in Hdep. apply andb_true_iff in Hdep as [Hdep Hdl]. apply andb_true_iff in Hdep as [Ha Ht].
  apply N.leb_le in Ha, Ht.
  destruct (inc_array_ok (t_dep st) Hd Ha Ht) as (d' & Hinc & Hdec & Hd' & E1 & E2 & E3).
  rewrite marshal_dict in *. cbv zeta in *. rewrite !len_pad in *. rewrite !len_app, !len_pad, len_enc in Hlen.
  set (p0 := padn (tabs st) 4) in *. set (p1 := padn (tabs st + p0 + 4) 8) in *.
  set (body := mentries (t_e st) fm l (tabs st + p0 + 4 + p1) k) in *.
  pose proof (at_app_l _ _ _ _ Hat) as H0. apply at_app_r in Hat. rewrite len_pad in Hat. fold p0 in Hat.
  pose proof (at_app_l _ _ _ _ Hat) as H1. apply at_app_r in Hat. rewrite len_enc in Hat.
  pose proof (at_app_l _ _ _ _ Hat) as H2. apply at_app_r in Hat. rewrite len_pad in Hat. fold p1 in Hat.
  rewrite (parse_padding_at st 4 H0). cbn [bind]. fold p0.
  change (t_dep (adv st p0)) with (t_dep st). rewrite Hinc. cbn [bind].
  rewrite (next_slice_at' (tset_dep (adv st p0) d') _ 4 H1) by (now rewrite len_enc). cbn [bind].
  change (t_e (adv (tset_dep (adv st p0) d') 4)) with (t_e st). rewrite dec_enc4 by lia.
  set (s3 := adv (tset_dep (adv st p0) d') 4).
  assert (Ht3 : tabs s3 = tabs st + p0 + 4) by (subst s3; unfold tabs; cbn [t_pos0 t_pos adv tset_pos tset_dep]; lia).
  assert (H2' : at_ (t_bytes s3) (t_pos s3) (pad (tabs s3) 8)).
  { rewrite Ht3. subst s3. cbn [t_bytes t_pos adv tset_pos tset_dep]. exact H2. }
  rewrite (parse_padding_at s3 8 H2'). cbn [bind]. rewrite Ht3. fold p1.
  set (s4 := tset_sig (adv s3 p1) ks).
  assert (Ht4 : tabs s4 = tabs st + p0 + 4 + p1).
  { subst s4. change (tabs (tset_sig (adv s3 p1) ks)) with (tabs (adv s3 p1)). rewrite tabs_adv, Ht3. reflexivity. }
  assert (Hp4 : t_pos s4 = t_pos st + p0 + 4 + p1) by (subst s4 s3; cbn [t_pos adv tset_pos tset_dep tset_sig]; lia).
  pose proof (dict_loop_ok f fm ks vs l HF s4 [] (S (length (t_bytes st))) k (t_pos s4) (len body) Hw eq_refl) as G.
  change (t_dep s4) with d' in G. change (t_e s4) with (t_e st) in G. change (t_fds s4) with (t_fds st) in G.
  change (t_bytes s4) with (t_bytes st) in G. rewrite Ht4, Hp4 in G. rewrite E1, E2, E3 in G. fold body in G.
  unfold fds_match in Hfd. cbn [fds_of] in Hfd.
  assert (Hkf : (length l < S (length (t_bytes st)))%nat).
  { pose proof (mentries_length (t_e st) fm l (tabs st + p0 + 4 + p1) k) as Hm. fold body in Hm.
    assert (Hwl : forallb (fun q => wf (fst q)) l = true).
    { apply forallb_forall. intros y Hy. rewrite forallb_forall in Hw. specialize (Hw y Hy).
      repeat (apply andb_true_iff in Hw as [Hw _]). exact Hw. }
    specialize (Hm Hwl). pose proof (at_length _ _ _ Hat) as Hal. unfold len in Hm. lia. }
  replace (t_pos st + p0 + N.of_nat 4 + p1) with (t_pos st + p0 + 4 + p1) in Hat by lia.
  specialize (G Hd' Hdl ltac:(lia) Hfl Hat Hfd ltac:(lia) Hkf eq_refl).
  change (t_pos (tset_sig (adv s3 p1) ks)) with (t_pos s4). change (t_bytes (tset_sig (adv s3 p1) ks)) with (t_bytes st).
  fold s4. rewrite Hp4. change (t_bytes s4) with (t_bytes st). rewrite G.
  cbn [bind rev app]. do 2 f_equal.
  apply dstate_ext; try reflexivity.
  - subst s4 s3. cbn [t_pos adv tset_pos tset_dep tset_sig]. rewrite !len_app, !len_pad, len_enc. fold p0 p1 body. lia.
  - subst s4 s3. cbn [t_dep adv tset_pos tset_dep tset_sig]. exact Hdec.
Qed.

(* ---------- the main theorem ---------- *)
Theorem de_complete_all : forall v, dgood v.
Proof.
  induction v using dval_ind'.
  - destruct v; try contradiction;
      first [apply dgood_u8|apply dgood_bool|apply dgood_i16|apply dgood_u16|apply dgood_i32|apply dgood_u32
            |apply dgood_i64|apply dgood_u64|apply dgood_f64|apply dgood_str|apply dgood_sigv|apply dgood_path|apply dgood_fd].
  - now apply dgood_variant.
  - now apply dgood_array.
  - now apply dgood_dict.
  - now apply dgood_struct.
Qed.

Theorem de_complete : forall v fuel st fm k,
  wf v = true -> t_sig st = vsig v -> fits (t_dep st) v ->
  len (marshal (t_e st) fm v (tabs st) k) < 2 ^ 32 ->
  N.of_nat (length (t_fds st)) <= 2 ^ 32 ->
  at_ (t_bytes st) (t_pos st) (marshal (t_e st) fm v (tabs st) k) ->
  fds_match fm (t_fds st) k v -> (vdepth v <= fuel)%nat ->
  de_any fuel st = Ok (v, tset_pos st (t_pos st + len (marshal (t_e st) fm v (tabs st) k))).
Proof. intros v. exact (de_complete_all v). Qed.

(* ---------- top-level entry points ---------- *)
Lemma fits0 v : within_limits v = true -> fits depths0 v.
Proof. intros H. split; [unfold dep_ok; cbn; lia|exact H]. Qed.

Lemma de_top_complete c e fm pos v rest fds :
  wf v = true -> within_limits v = true -> len (marshal e fm v pos 0) < 2 ^ 32 ->
  N.of_nat (length fds) <= 2 ^ 32 -> fds_match fm fds 0 v ->
  exists st', de_any de_fuel (init_dstate c e pos (vsig v) (marshal e fm v pos 0 ++ rest) fds) = Ok (v, st')
              /\ t_pos st' = len (marshal e fm v pos 0).
Proof.
  intros Hw Hl Hlen Hfl Hfd.
  set (st := init_dstate c e pos (vsig v) (marshal e fm v pos 0 ++ rest) fds).
  assert (Ht : tabs st = pos) by (unfold tabs, st, init_dstate; cbn [t_pos0 t_pos]; apply N.add_0_r).
  pose proof (de_complete v de_fuel st fm 0 Hw eq_refl (fits0 v Hl)) as G.
  change (t_e st) with e in G. change (t_fds st) with fds in G. rewrite Ht in G.
  change (t_bytes st) with (marshal e fm v pos 0 ++ rest) in G. change (t_pos st) with 0 in G.
  assert (Hat : at_ (marshal e fm v pos 0 ++ rest) 0 (marshal e fm v pos 0)) by (exists [], rest; split; reflexivity).
  specialize (G Hlen Hfl Hat Hfd (within_limits_fuel v Hl)).
  eexists. split; [exact G|]. cbn [t_pos tset_pos]. lia.
Qed.

(* Data::deserialize::<Value>() on the marshalling of VARIANT(v) followed by anything *)
Theorem de_value_top_complete c e fm pos v rest fds :
  wf (VVariant v) = true -> within_limits (VVariant v) = true -> len (marshal e fm (VVariant v) pos 0) < 2 ^ 32 ->
  N.of_nat (length fds) <= 2 ^ 32 -> fds_match fm fds 0 (VVariant v) ->
  de_value_top c e pos (marshal e fm (VVariant v) pos 0 ++ rest) fds = Ok (v, len (marshal e fm (VVariant v) pos 0)).
Proof.
  intros Hw Hl Hlen Hfl Hfd. unfold de_value_top.
  destruct (de_top_complete c e fm pos (VVariant v) rest fds Hw Hl Hlen Hfl Hfd) as (st' & G & Hp).
  cbn [vsig] in G. rewrite G. cbn [bind]. now rewrite Hp.
Qed.

(* Data::deserialize_for_dynamic_signature::<Structure>() on the marshalling of a struct (a message body) *)
Theorem de_struct_top_complete c e fm pos l rest fds :
  wf (VStruct l) = true -> within_limits (VStruct l) = true -> len (marshal e fm (VStruct l) pos 0) < 2 ^ 32 ->
  N.of_nat (length fds) <= 2 ^ 32 -> fds_match fm fds 0 (VStruct l) ->
  de_struct_top c e pos (vsig (VStruct l)) (marshal e fm (VStruct l) pos 0 ++ rest) fds
  = Ok (VStruct l, len (marshal e fm (VStruct l) pos 0)).
Proof.
  intros Hw Hl Hlen Hfl Hfd. unfold de_struct_top.
  destruct (de_top_complete c e fm pos (VStruct l) rest fds Hw Hl Hlen Hfl Hfd) as (st' & G & Hp).
  cbn [vsig] in *. rewrite G. cbn [bind]. now rewrite Hp.
Qed.
(* ... and with a signature that is a single non-struct type: the decoder wraps it in a one-field struct *)
Theorem de_struct_top_complete1 c e fm pos v rest fds :
  (match vsig v with SStruct _ => False | _ => True end) ->
  wf (VStruct [v]) = true -> within_limits (VStruct [v]) = true -> len (marshal e fm (VStruct [v]) pos 0) < 2 ^ 32 ->
  N.of_nat (length fds) <= 2 ^ 32 -> fds_match fm fds 0 (VStruct [v]) ->
  de_struct_top c e pos (vsig v) (marshal e fm (VStruct [v]) pos 0 ++ rest) fds
  = Ok (VStruct [v], len (marshal e fm (VStruct [v]) pos 0)).
Proof.
  intros Hns Hw Hl Hlen Hfl Hfd. unfold de_struct_top.
  destruct (de_top_complete c e fm pos (VStruct [v]) rest fds Hw Hl Hlen Hfl Hfd) as (st' & G & Hp).
  cbn [vsig map] in G.
  assert (E : (match vsig v with SStruct _ => vsig v | _ => SStruct [vsig v] end) = SStruct [vsig v]).
  { destruct (vsig v); try reflexivity. contradiction. }
  rewrite E, G. cbn [bind]. now rewrite Hp.
Qed.

(* ---------- round trip through the encoder model (with C01) ---------- *)
Lemma nthN_of_nat {A} (l : list A) i x : nth_error l i = Some x -> nthN l (N.of_nat i) = Some x.
Proof.
  intros H. unfold nthN. assert (Hi : (i < length l)%nat) by (apply nth_error_Some; congruence).
  destruct (N.ltb_spec (N.of_nat i) (N.of_nat (length l))); [|lia]. now rewrite Nat2N.id.
Qed.
Lemma fds_match_own v : fds_match ByOccurrence (fds_of v) 0 v.
Proof. unfold fds_match, fdsm. intros i h H. rewrite N.add_0_l. now apply nthN_of_nat. Qed.

Theorem roundtrip_value c c' e pos v rest :
  encodable e pos (VVariant v) ->
  exists b fds, ser_top c e pos SVariant (sval_of (VVariant v)) = Ok (b, fds) /\
                de_value_top c' e pos (b ++ rest) fds = Ok (v, len b).
Proof.
  intros Henc. pose proof (ser_top_exact c e pos (VVariant v) Henc) as Hser. cbn [vsig] in Hser.
  destruct Henc as (Hw & _ & Hl & Hlen & Hn).
  exists (marshal_top e pos (VVariant v)), (fds_of (VVariant v)). split; [exact Hser|].
  unfold marshal_top in *. apply de_value_top_complete; try assumption.
  - unfold nfds in Hn. lia.
  - apply fds_match_own.
Qed.

Theorem roundtrip_body c c' e pos l rest :
  encodable e pos (VStruct l) ->
  exists b fds, ser_top c e pos (vsig (VStruct l)) (sval_of (VStruct l)) = Ok (b, fds) /\
                de_struct_top c' e pos (vsig (VStruct l)) (b ++ rest) fds = Ok (VStruct l, len b).
Proof.
  intros Henc. pose proof (ser_top_exact c e pos (VStruct l) Henc) as Hser.
  destruct Henc as (Hw & _ & Hl & Hlen & Hn).
  exists (marshal_top e pos (VStruct l)), (fds_of (VStruct l)). split; [exact Hser|].
  unfold marshal_top in *. apply de_struct_top_complete; try assumption.
  - unfold nfds in Hn. lia.
  - apply fds_match_own.
Qed.

(* non-vacuity: the nested example of SerProofs (dict of variants inside a struct, offset 5, big endian),
   as a message body and wrapped in a variant *)
Example ex_variant_encodable : encodable BE 5 (VVariant ex_value).
Proof. unfold encodable. repeat split; vm_compute; reflexivity. Qed.
Example ex_body_decodes :
  de_struct_top {| c_gv := false; c_oaa := false |} BE 5 (vsig ex_value)
    (marshal_top BE 5 ex_value ++ [x01; x02; x03]) (fds_of ex_value)
  = Ok (ex_value, len (marshal_top BE 5 ex_value)).
Proof. vm_compute. reflexivity. Qed.
Example ex_variant_decodes :
  de_value_top {| c_gv := false; c_oaa := false |} BE 5
    (marshal_top BE 5 (VVariant ex_value) ++ [x01; x02; x03]) (fds_of ex_value)
  = Ok (ex_value, len (marshal_top BE 5 (VVariant ex_value))).
Proof. vm_compute. reflexivity. Qed.
