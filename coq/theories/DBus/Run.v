(* DBus/Run.v — line driver for the codec properties (C01, C02, C03, C04, C07).
   ser <cfg> <L|B> <pos> dyn|body|typed:<name> <value tokens...>
   de  <cfg> <L|B> <pos> <nfds> v <hex>            |  de <cfg> <L|B> <pos> <nfds> s <sig> <hex>
   <cfg> is two characters: g|- (gvariant compiled in) and o|- (option-as-array). *)
From ZV Require Import Base.Bytes Base.Res Base.Sig Base.SigParse Base.Utf8 DBus.Val DBus.Spec DBus.Ser DBus.De DBus.DeSoundDefs.

Definition cfg_of (t : bytes) : cfg :=
  match t with
  | a :: b :: _ => {| c_gv := beq a "g"%byte; c_oaa := beq b "o"%byte |}
  | _ => {| c_gv := false; c_oaa := false |}
  end.
Definition endian_of (t : bytes) : endian := if lbeq t (B "B") then BE else LE.

Definition err_tok (e : cerr) : bytes := match e with EDepth _ => B "ERR:D" | _ => B "ERR" end.
Definition colon : bytes := B ":".

Definition ser_obs (r : res cerr (bytes * list N)) (z : res cerr (N * N)) : bytes :=
  match r, z with
  | Ok (b, fds), Ok (n, k) => B "OK:" ++ hext b ++ colon ++ dec_of_N n ++ colon ++ dec_of_N (N.of_nat (length fds)) ++ colon ++ dec_of_N k
  | Panic _, _ | _, Panic _ => B "PANIC"
  | Err e, _ => err_tok e
  | _, Err e => err_tok e
  end.


Definition run_ser (c : cfg) (e : endian) (pos : N) (mode : bytes) (ts : list bytes) : outp :=
  match val_of_tokens ts with
  | None => bad_case
  | Some v =>
      let '(g, x, top) :=
        if lbeq mode (B "dyn") then (SVariant, sval_of (VVariant v), VVariant v)
        else (vsig v, sval_of v, v) in
      let m := ser_obs (ser_top c e pos g x) (size_top c e pos g x) in
      let s := if wf top && negb (within_limits top) then B "ERR:D"
               else if wf top then
                 let b := marshal_top e pos top in
                 B "OK:" ++ hext b ++ colon ++ dec_of_N (len b) ++ colon ++ dec_of_N (nfds top) ++ colon ++ dec_of_N (nfds top)
               else dash in
      {| o_model := m; o_spec := s; o_class := dash |}
  end.

(* re-encoding a decoded value: same bytes as consumed? *)
Definition reenc (c : cfg) (e : endian) (pos : N) (g : sig) (v : dval) (consumed : bytes) : bytes :=
  match ser_top c e pos g (sval_of v) with
  | Ok (b, _) => B "Rok"
  | Err _ => B "Rerr"
  | Panic _ => B "Rpanic"
  end.

Definition seqN (n : N) : list N := map N.of_nat (seq 0 (N.to_nat n)).

Definition de_obs (c : cfg) (e : endian) (pos : N) (g : sig) (b : bytes) (r : res cerr (dval * N)) : bytes :=
  match r with
  | Ok (v, n) => let cv := canon v in
                 B "OK:" ++ dec_of_N n ++ colon ++ val_text cv ++ colon ++ reenc c e pos g cv (takeN n b)
  | Err e => err_tok e
  | Panic _ => B "PANIC"
  end.

(* specification verdict: the bytes start with a valid encoding iff the (lenient) model decoder returns a
   wire value that is well-formed and whose marshalling is exactly the consumed prefix (DBus/Proofs: valid_encb_spec) *)
Definition spec_de (e : endian) (pos : N) (top : dval -> dval) (b : bytes) (r : res cerr (dval * N)) : bytes :=
  match r with
  | Ok (v, n) => if wf (top v) && within_limits (top v) && lbeq (marshal_rx e pos (top v)) (takeN n b) && (n <=? len b)%N
                 then B "OK" else B "ERR"
  | _ => B "ERR"
  end.

(* the only Panic of the decoder model: a GVariant maybe type reaching Signature::alignment(Format::DBus)
   (unreachable!), possible only when the gvariant feature is compiled in *)
Definition panic_class {A} (r : res cerr A) : bytes :=
  match r with Panic _ => B "maybe_dbus_align" | _ => dash end.

(* known-deviation class of a decode case: a decoded value carrying a signature the D-Bus grammar forbids
   (non-basic dict key, nesting above 32 in a signature) — zvariant's signature parser accepts those *)
Definition de_class (top : dval -> dval) (r : res cerr (dval * N)) : bytes :=
  match r with
  | Ok (v, _) => if sig_lenient (top v) then B "sig_grammar_lenient" else dash
  | Panic _ => B "maybe_dbus_align"
  | Err _ => dash
  end.

Definition run_de (c : cfg) (e : endian) (pos : N) (nf : N) (rest : list bytes) : outp :=
  match rest with
  | [m; h] =>
      if lbeq m (B "v") then
        match hexs h with
        | Some b => let r := de_value_top c e pos b (seqN nf) in
                    {| o_model := de_obs c e pos SVariant b (match r with Ok (v, n) => Ok (VVariant v, n) | Err x => Err x | Panic p => Panic p end);
                       o_spec := spec_de e pos VVariant b r; o_class := de_class VVariant r |}
        | None => bad_case
        end
      else bad_case
  | [m; g; h] =>
      if lbeq m (B "s") then
        match sig_of_tok (c_gv c) g, hexs h with
        | Some gs, Some b => let r := de_struct_top c e pos gs b (seqN nf) in
                             let g' := match gs with SStruct _ => gs | _ => SStruct [gs] end in
                             {| o_model := de_obs c e pos g' b r; o_spec := spec_de e pos (fun v => v) b r; o_class := de_class (fun v => v) r |}
        | _, _ => {| o_model := B "ERR"; o_spec := B "ERR"; o_class := dash |}   (* signature does not parse *)
        end
      else bad_case
  | _ => bad_case
  end.

(* rt: encode, decode what was produced, compare with the original (Value equality on canonical forms) *)
Definition run_rt (c : cfg) (e : endian) (pos : N) (mode : bytes) (ts : list bytes) : outp :=
  match val_of_tokens ts with
  | None => bad_case
  | Some v =>
      let dyn := lbeq mode (B "dyn") in
      let '(g, x, top) := if dyn then (SVariant, sval_of (VVariant v), VVariant v) else (vsig v, sval_of v, v) in
      let m :=
        match ser_top c e pos g x with
        | Ok (b, fds) =>
            let r := if dyn then match de_value_top c e pos b fds with Ok (y, n) => Ok (VVariant y, n) | Err z => Err z | Panic p => Panic p end
                     else de_struct_top c e pos g b fds in
            match r with
            | Ok (y, n) => B "OK:" ++ dec_of_N (len b) ++ colon ++ dec_of_N n ++ colon ++ bool_tok (lbeq (val_text (canon y)) (val_text (canon top)))
            | Err z => B "DE" ++ err_tok z
            | Panic _ => B "PANIC"
            end
        | Err z => err_tok z
        | Panic _ => B "PANIC"
        end in
      let s := if wf top && negb (within_limits top) then B "ERR:D"
               else if wf top then let n := len (marshal_top e pos top) in B "OK:" ++ dec_of_N n ++ colon ++ dec_of_N n ++ colon ++ B "T"
               else dash in
      {| o_model := m; o_spec := s; o_class := dash |}
  end.

Definition run_case (line : bytes) : outp :=
  match words line with
  | cmd :: ct :: et :: pt :: rest =>
      match N_of_dec pt with
      | None => bad_case
      | Some pos =>
          if lbeq cmd (B "ser") then
            match rest with mode :: ts => run_ser (cfg_of ct) (endian_of et) pos mode ts | [] => bad_case end
          else if lbeq cmd (B "rt") then
            match rest with mode :: ts => run_rt (cfg_of ct) (endian_of et) pos mode ts | [] => bad_case end
          else if lbeq cmd (B "de") then
            match rest with
            | nf :: r => match N_of_dec nf with Some k => run_de (cfg_of ct) (endian_of et) pos k r | None => bad_case end
            | [] => bad_case
            end
          else bad_case
      end
  | _ => bad_case
  end.

Definition run (line : bytes) : bytes := render (run_case line).
