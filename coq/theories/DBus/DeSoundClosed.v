(* DBus/DeSoundClosed.v — C03's decision theorems with the completeness premise discharged by C02
   (DBus/DeComplete.v: de_value_top_complete, de_struct_top_complete at fm := ByHandle).
   Kept apart from DBus/DeSoundTop.v and Properties/C03.v so that those do not depend on the C02 development. *)
From ZV Require Import Base.Bytes Base.Res Base.Sig Base.SigParse DBus.Val DBus.Spec DBus.Ser DBus.De DBus.Run
                       DBus.DeSoundDefs DBus.DeSound DBus.DeComplete DBus.DeSoundTop.
Local Open Scope N_scope.

(* the oracle column of DBus/Run.v says "OK" exactly when the buffer starts with a valid encoding of a variant *)
Theorem decision_value_closed : forall c e pos nf (b : bytes), nf <= 2 ^ 32 -> len b < 2 ^ 32 ->
  (spec_de e pos VVariant b (de_value_top c e pos b (seqN nf)) = B "OK" <->
   exists x n, wf (VVariant x) = true /\ within_limits (VVariant x) = true /\
               Forall (fun h => h < nf) (fds_of (VVariant x)) /\ n <= len b /\
               takeN n b = marshal_rx e pos (VVariant x)).
Proof.
  apply spec_de_value_correct.
  intros c e pos b fds x rest H1 H2 H3 H4 H5 Hb. subst b.
  exact (de_value_top_complete c e ByHandle pos x rest fds H1 H2 H3 H4 H5).
Qed.
Print Assumptions decision_value_closed.

(* ... of a message body of signature (fs) *)
Theorem decision_struct_closed : forall c e pos nf fs (b : bytes), nf <= 2 ^ 32 -> len b < 2 ^ 32 -> sig_ne (SStruct fs) = true ->
  (spec_de e pos (fun v => v) b (de_struct_top c e pos (SStruct fs) b (seqN nf)) = B "OK" <->
   exists v n, vsig v = SStruct fs /\
               (wf v = true /\ within_limits v = true /\ Forall (fun h => h < nf) (fds_of v) /\ n <= len b /\
                takeN n b = marshal_rx e pos v)).
Proof.
  apply spec_de_struct_correct.
  intros c e pos b fds l rest H1 H2 H3 H4 H5 Hb. subst b.
  exact (de_struct_top_complete c e ByHandle pos l rest fds H1 H2 H3 H4 H5).
Qed.
Print Assumptions decision_struct_closed.

(* the decoder model accepts a buffer iff it starts with a valid encoding, for values whose signatures are inside
   the grammar: acceptance with sig_lenient = false <-> valid encoding with sig_lenient = false *)
Theorem accept_iff_valid_strict : forall c e pos nf (b : bytes), nf <= 2 ^ 32 -> len b < 2 ^ 32 ->
  ((exists x n, de_value_top c e pos b (seqN nf) = Ok (x, n) /\ sig_lenient (VVariant x) = false) <->
   (exists x n, valid_enc e pos nf b (VVariant x) n /\ sig_lenient (VVariant x) = false)).
Proof.
  intros c e pos nf b Hnf Hb. split.
  - intros (x & n & E & Hl). exists x, n. split; [|exact Hl]. now destruct (value_sound_strict c e pos b nf x n E Hl).
  - intros (x & n & Hv & Hl). exists x, n. split; [|exact Hl].
    destruct Hv as (W & L & K & Hn & Hm).
    assert (Hlen : len (marshal_rx e pos (VVariant x)) = n) by (rewrite <- Hm; now apply len_takeN).
    assert (H3 : len (marshal e ByHandle (VVariant x) pos 0) < 2 ^ 32) by (fold (marshal_rx e pos (VVariant x)); lia).
    assert (H4 : N.of_nat (length (seqN nf)) <= 2 ^ 32) by (rewrite length_seqN; lia).
    assert (H5 : Forall (fun h => nthN (seqN nf) h = Some h) (fds_of (VVariant x)))
      by (eapply Forall_impl; [|exact K]; intros h Hh; now apply nthN_seqN_some).
    pose proof (de_value_top_complete c e ByHandle pos x (dropN n b) (seqN nf) W L H3 H4 H5) as Hc.
    fold (marshal_rx e pos (VVariant x)) in Hc. rewrite Hlen in Hc. rewrite <- Hm in Hc at 1.
    rewrite <- (take_drop b n) in Hc. exact Hc.
Qed.
Print Assumptions accept_iff_valid_strict.
