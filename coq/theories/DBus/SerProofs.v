(* DBus/SerProofs.v — the serializer model produces exactly the specification's marshalling (C01),
   and reports its length and descriptor count in the size pass. *)
From ZV Require Import Base.Bytes Base.Res Base.Sig Base.SigParse Base.SigParseFacts DBus.Val DBus.Spec DBus.Ser DBus.SerFacts.
From Coq Require Import Lia.
Local Open Scope N_scope.

Definition nfd (st : sstate) : N := match s_fds st with FdsMode l => N.of_nat (length l) | NumMode n => n end.
Definition add_fds (f : fdlist) (hs : list N) : fdlist :=
  match f with FdsMode l => FdsMode (l ++ hs) | NumMode n => NumMode (n + N.of_nat (length hs)) end.
(* the state after appending bytes [b] and attaching descriptors [hs]; nothing else changes *)
Definition grow (st : sstate) (b : bytes) (hs : list N) : sstate :=
  set_fds (set_out st (s_out st ++ b)) (add_fds (s_fds st) hs).
Definition after (st : sstate) (v : dval) : sstate :=
  grow st (marshal (s_e st) ByOccurrence v (abs_pos st) (nfd st)) (fds_of v).

Lemma add_fds_nil f : add_fds f [] = f.
Proof. destruct f; cbn; [now rewrite app_nil_r|f_equal; lia]. Qed.
Lemma add_fds_app f a b : add_fds (add_fds f a) b = add_fds f (a ++ b).
Proof. destruct f; cbn; [now rewrite app_assoc|rewrite app_length; f_equal; lia]. Qed.

Lemma grow_nil st : grow st [] [] = st.
Proof. destruct st. unfold grow. cbn. rewrite app_nil_r, add_fds_nil. reflexivity. Qed.
Lemma grow_grow st b1 h1 b2 h2 : grow (grow st b1 h1) b2 h2 = grow st (b1 ++ b2) (h1 ++ h2).
Proof. destruct st. unfold grow. cbn. rewrite app_assoc, add_fds_app. reflexivity. Qed.
Lemma wr_grow st b : wr st b = grow st b [].
Proof. destruct st. unfold wr, grow. cbn. now rewrite add_fds_nil. Qed.
Lemma padded_grow st al : padded st al = grow st (pad (abs_pos st) al) [].
Proof. unfold padded, add_padding. cbn [fst]. apply wr_grow. Qed.

Lemma abs_pos_grow st b h : abs_pos (grow st b h) = abs_pos st + len b.
Proof. destruct st. unfold abs_pos, written, grow. cbn. rewrite len_app. lia. Qed.
Lemma written_grow st b h : written (grow st b h) = written st + len b.
Proof. destruct st. unfold written, grow. cbn. now rewrite len_app. Qed.
Lemma nfd_grow st b h : nfd (grow st b h) = nfd st + N.of_nat (length h).
Proof. destruct st as [? ? ? ? ? ? ? f]. unfold nfd, grow. cbn. destruct f; cbn; [rewrite app_length; lia|reflexivity]. Qed.
Lemma sig_grow st b h : s_sig (grow st b h) = s_sig st. Proof. reflexivity. Qed.
Lemma vsign_grow st b h : s_vsign (grow st b h) = s_vsign st. Proof. reflexivity. Qed.
Lemma dep_grow st b h : s_dep (grow st b h) = s_dep st. Proof. reflexivity. Qed.
Lemma e_grow st b h : s_e (grow st b h) = s_e st. Proof. reflexivity. Qed.
Lemma cfg_grow st b h : s_cfg (grow st b h) = s_cfg st. Proof. reflexivity. Qed.
Lemma out_grow st b h : s_out (grow st b h) = s_out st ++ b. Proof. reflexivity. Qed.
Lemma fds_grow st b h : s_fds (grow st b h) = add_fds (s_fds st) h. Proof. reflexivity. Qed.

(* setters commute with grow *)
Lemma set_sig_grow st b h g : set_sig (grow st b h) g = grow (set_sig st g) b h. Proof. reflexivity. Qed.
Lemma set_dep_grow st b h d : set_dep (grow st b h) d = grow (set_dep st d) b h. Proof. reflexivity. Qed.
Lemma set_vsign_grow st b h g : set_vsign (grow st b h) g = grow (set_vsign st g) b h. Proof. reflexivity. Qed.
Lemma set_sig_id st : set_sig st (s_sig st) = st. Proof. destruct st; reflexivity. Qed.
Lemma set_dep_id st : set_dep st (s_dep st) = st. Proof. destruct st; reflexivity. Qed.
Lemma set_vsign_id st : set_vsign st (s_vsign st) = st. Proof. destruct st; reflexivity. Qed.

Lemma nfds_len v : nfds v = N.of_nat (length (fds_of v)). Proof. reflexivity. Qed.

(* ---------- depth bookkeeping ---------- *)
Definition dep_ok (d : depths) : Prop := d_struct d <= 32 /\ d_array d <= 32 /\ d_maybe d = 0.
Definition fits (d : depths) (v : dval) : Prop :=
  dep_ok d /\ depth_ok (d_struct d) (d_array d) (d_variant d) v = true.

Lemma inc_array_ok d : dep_ok d -> d_array d + 1 <= 32 -> d_struct d + d_array d + d_variant d + 1 <= 64 ->
  exists d', inc_array d = Ok d' /\ dec_array d' = d /\ dep_ok d' /\
             d_struct d' = d_struct d /\ d_array d' = d_array d + 1 /\ d_variant d' = d_variant d.
Proof.
  intros (H1 & H2 & H3) Ha Ht. unfold inc_array, dcheck. cbn.
  destruct (N.ltb_spec 32 (d_struct d)); [lia|]. destruct (N.ltb_spec 32 (d_array d + 1)); [lia|].
  destruct (N.ltb_spec 64 (d_struct d + (d_array d + 1) + d_variant d + d_maybe d)); [lia|].
  eexists. split; [reflexivity|]. unfold dec_array, dep_ok. cbn. destruct d; cbn in *.
  repeat split; try lia. f_equal. lia.
Qed.
Lemma inc_struct_ok d : dep_ok d -> d_struct d + 1 <= 32 -> d_struct d + d_array d + d_variant d + 1 <= 64 ->
  exists d', inc_struct d = Ok d' /\ dep_ok d' /\
             d_struct d' = d_struct d + 1 /\ d_array d' = d_array d /\ d_variant d' = d_variant d.
Proof.
  intros (H1 & H2 & H3) Ha Ht. unfold inc_struct, dcheck. cbn.
  destruct (N.ltb_spec 32 (d_struct d + 1)); [lia|]. destruct (N.ltb_spec 32 (d_array d)); [lia|].
  destruct (N.ltb_spec 64 (d_struct d + 1 + d_array d + d_variant d + d_maybe d)); [lia|].
  eexists. split; [reflexivity|]. unfold dep_ok. cbn. repeat split; lia.
Qed.
Lemma inc_variant_ok d : dep_ok d -> d_struct d + d_array d + d_variant d + 1 <= 64 ->
  exists d', inc_variant d = Ok d' /\ dep_ok d' /\
             d_struct d' = d_struct d /\ d_array d' = d_array d /\ d_variant d' = d_variant d + 1.
Proof.
  intros (H1 & H2 & H3) Ht. unfold inc_variant, dcheck. cbn.
  destruct (N.ltb_spec 32 (d_struct d)); [lia|]. destruct (N.ltb_spec 32 (d_array d)); [lia|].
  destruct (N.ltb_spec 64 (d_struct d + d_array d + (d_variant d + 1) + d_maybe d)); [lia|].
  eexists. split; [reflexivity|]. unfold dep_ok. cbn. repeat split; lia.
Qed.

(* ---------- the statement proved by induction on the value ---------- *)
Definition good (v : dval) : Prop :=
  forall st, wf v = true -> s_sig st = vsig v -> s_vsign st = None -> fits (s_dep st) v ->
             nfd st + nfds v < 2 ^ 32 ->
             len (marshal (s_e st) ByOccurrence v (abs_pos st) (nfd st)) < 2 ^ 32 ->
             ser (sval_of v) st = Ok (after st v).

Lemma basic_after st al n x : basic st al n x = Ok (grow st (pad (abs_pos st) al ++ enc (s_e st) n x) []).
Proof. unfold basic. rewrite padded_grow, wr_grow, grow_grow. reflexivity. Qed.

Lemma good_u8 n : good (VU8 n).
Proof.
  intros st _ _ _ _ _ _. cbn [sval_of ser]. rewrite basic_after. unfold after. cbn [marshal fds_of].
  rewrite pad_1. cbn [app]. do 3 f_equal. destruct (s_e st); cbn; unfold nb; now rewrite N.mod_mod by lia.
Qed.
Lemma good_bool b : good (VBool b).
Proof. intros st _ _ _ _ _ _. cbn [sval_of ser]. rewrite basic_after. reflexivity. Qed.
Lemma good_i16 z : good (VI16 z).
Proof. intros st _ _ _ _ _ _. cbn [sval_of ser]. rewrite basic_after. reflexivity. Qed.
Lemma good_u16 z : good (VU16 z).
Proof. intros st _ _ _ _ _ _. cbn [sval_of ser]. rewrite basic_after. reflexivity. Qed.
Lemma good_i32 z : good (VI32 z).
Proof. intros st _ Hs _ _ _ _. cbn [sval_of ser]. rewrite Hs. cbn [vsig]. rewrite basic_after. reflexivity. Qed.
Lemma good_u32 z : good (VU32 z).
Proof. intros st _ _ _ _ _ _. cbn [sval_of ser]. rewrite basic_after. reflexivity. Qed.
Lemma good_i64 z : good (VI64 z).
Proof. intros st _ _ _ _ _ _. cbn [sval_of ser]. rewrite basic_after. reflexivity. Qed.
Lemma good_u64 z : good (VU64 z).
Proof. intros st _ _ _ _ _ _. cbn [sval_of ser]. rewrite basic_after. reflexivity. Qed.
Lemma good_f64 z : good (VF64 z).
Proof. intros st _ _ _ _ _ _. cbn [sval_of ser]. rewrite basic_after. reflexivity. Qed.

(* ---------- descriptors and strings ---------- *)
Lemma add_fd_grow st h : add_fd st h = (grow st [] [h], nfd st).
Proof.
  destruct st as [? ? ? ? ? ? ? f]. unfold add_fd, grow, nfd. cbn. destruct f; cbn; rewrite app_nil_r; reflexivity.
Qed.
Lemma wr_u32_grow st x : wr_u32 st x = grow st (enc (s_e st) 4 x) [].
Proof. unfold wr_u32. rewrite enc_mod32. apply wr_grow. Qed.

Lemma good_fd h : good (VFd h).
Proof.
  intros st _ Hs _ _ _ _. cbn [sval_of ser]. rewrite Hs. cbn [vsig]. rewrite padded_grow, add_fd_grow.
  rewrite wr_u32_grow, !grow_grow. unfold after. cbn [marshal fds_of].
  rewrite nfd_grow, e_grow. cbn [length app]. rewrite N.add_0_r, N2Z.id. reflexivity.
Qed.

Lemma ser_str_4 st s : (s_sig st = SStr \/ s_sig st = SObjPath) -> len s < 2 ^ 32 ->
  ser_str st s = Ok (grow st (pad (abs_pos st) 4 ++ enc (s_e st) 4 (len s) ++ s ++ [x00]) []).
Proof.
  intros Hs Hl. unfold ser_str.
  assert (Ha : align_of (s_sig st) = Ok 4) by (destruct Hs as [-> | ->]; reflexivity).
  rewrite Ha. cbn [bind]. rewrite padded_grow. rewrite !sig_grow.
  destruct (N.ltb_spec (len s) (2 ^ 32)) as [_|]; [|lia].
  destruct Hs as [Hs | Hs]; rewrite Hs; cbn [bind]; rewrite wr_u32_grow, !wr_grow, !grow_grow, e_grow; cbn [app];
    rewrite <- ?app_assoc; reflexivity.
Qed.
Lemma good_str s : good (VStr s).
Proof.
  intros st Hw Hs _ _ _ _. cbn [sval_of ser]. cbn [wf] in Hw. unfold str_ok in Hw.
  apply andb_true_iff in Hw as [_ Hl]. apply N.ltb_lt in Hl. rewrite ser_str_4 by (auto). reflexivity.
Qed.
Lemma good_path s : good (VPath s).
Proof.
  intros st Hw Hs _ _ _ _. cbn [sval_of ser]. cbn [wf] in Hw.
  apply andb_true_iff in Hw as [_ Hl]. apply N.ltb_lt in Hl. rewrite ser_str_4 by (auto). reflexivity.
Qed.

Lemma ser_str_sig st s : s_sig st = SSig -> len s <= 255 ->
  ser_str st s = Ok (grow st (nb (len s) :: s ++ [x00]) []).
Proof.
  intros Hs Hl. unfold ser_str. rewrite Hs. cbn [align_of align_dbus bind]. rewrite padded_grow, pad_1, grow_nil.
  rewrite Hs. cbn [bind]. destruct (N.leb_spec (len s) 255) as [_|]; [|lia]. cbn [bind].
  rewrite !wr_grow, !grow_grow. cbn [app]. reflexivity.
Qed.
(* the encoder always writes a signature value with its outer parentheses *)
Fixpoint enc_form (v : dval) : bool :=
  match v with
  | VSigv _ np => negb np
  | VVariant x => enc_form x
  | VArray _ l | VStruct l => forallb enc_form l
  | VDict _ _ l => forallb (fun p => enc_form (fst p) && enc_form (snd p)) l
  | _ => true
  end.
Lemma good_sigv g : good (VSigv g false).
Proof.
  intros st Hw Hs _ _ _ _. cbn [sval_of ser]. cbn [wf] in Hw. apply andb_true_iff in Hw as [Hw _].
  unfold sigval_ok in Hw. apply andb_true_iff in Hw as [_ Hl]. apply N.leb_le in Hl.
  rewrite ser_str_sig by auto. reflexivity.
Qed.

(* ---------- arrays: begin, elements, back-patched end ---------- *)
Ltac proj := unfold grow, wr, set_out, set_sig, set_vsign, set_dep, set_fds in *; cbn [s_cfg s_e s_pos0 s_out s_sig s_vsign s_dep s_fds] in *.

Lemma seq_wrap st child al d' (f : sstate -> res cerr sstate) body hs :
  ((s_sig st = SArray child /\ align_of child = Ok al) \/ (exists v, s_sig st = SDict child v /\ al = 8)) ->
  inc_array (s_dep st) = Ok d' -> dec_array d' = s_dep st ->
  let p0 := pad (abs_pos st) 4 in
  let p1 := pad (abs_pos st + len p0 + 4) al in
  let st' := set_dep (set_sig (grow st (p0 ++ enc (s_e st) 4 0 ++ p1) []) child) d' in
  f st' = Ok (grow st' body hs) -> len body < 2 ^ 32 ->
  (let* (st1, start, fp, asig) := seq_begin st in let* st2 := f st1 in seq_end st2 start fp asig)
  = Ok (grow st (p0 ++ enc (s_e st) 4 (len body) ++ p1 ++ body) hs).
Proof.
  intros Hsig Hinc Hdec p0 p1 st' Hf Hlen.
  assert (Hb : seq_begin st = Ok (st', written st + len p0 + 4 + len p1, len p1, s_sig st)).
  { unfold seq_begin. rewrite padded_grow, wr_u32_grow, grow_grow, e_grow. rewrite sig_grow.
    assert (Hm : (match s_sig st with
                  | SArray c => let* a := align_of c in Ok (a, c)
                  | SDict k _ => Ok (8, k)
                  | _ => Err ESigMismatch
                  end) = Ok (al, child)).
    { destruct Hsig as [[-> ->]|(v & -> & ->)]; reflexivity. }
    rewrite Hm. cbn [bind]. unfold add_padding.
    set (stA := set_sig (grow st (pad (abs_pos st) 4 ++ enc (s_e st) 4 0) ([] ++ [])) child).
    assert (Hp : abs_pos stA = abs_pos st + len p0 + 4).
    { subst stA. destruct st. unfold abs_pos, written. proj. rewrite !len_app, len_enc. unfold p0, abs_pos, written. proj. lia. }
    rewrite Hp. rewrite wr_grow.
    change (s_dep (grow stA (zeros (padn (abs_pos st + len p0 + 4) al)) [])) with (s_dep st).
    rewrite Hinc. cbn [bind]. f_equal.
    assert (E1 : set_dep (grow stA (zeros (padn (abs_pos st + len p0 + 4) al)) []) d' = st').
    { subst st' stA. destruct st. unfold p1, p0, pad. proj. cbn [app]. rewrite ?add_fds_nil, <- ?app_assoc. reflexivity. }
    assert (E2 : written (grow stA (zeros (padn (abs_pos st + len p0 + 4) al)) []) = written st + len p0 + 4 + len p1).
    { rewrite written_grow. subst stA. destruct st. unfold written. proj. rewrite !len_app, len_enc, len_zeros.
      unfold p1, p0, pad. rewrite !len_zeros. unfold abs_pos, written. proj. lia. }
    assert (E3 : padn (abs_pos st + len p0 + 4) al = len p1) by (unfold p1, pad; now rewrite len_zeros).
    rewrite E1, E2, E3. reflexivity. }
  rewrite Hb. cbn [bind]. rewrite Hf. cbn [bind]. unfold seq_end.
  assert (Hw : written (grow st' body hs) = written st + len p0 + 4 + len p1 + len body).
  { subst st'. destruct st. unfold written. proj. rewrite !len_app, len_enc. lia. }
  rewrite Hw. replace (written st + len p0 + 4 + len p1 + len body - (written st + len p0 + 4 + len p1)) with (len body) by lia.
  destruct (N.ltb_spec (len body) (2 ^ 32)) as [_|]; [|lia]. cbn [negb].
  replace (written st + len p0 + 4 + len p1 + len body - (len body + len p1 + 4)) with (written st + len p0) by lia.
  f_equal. subst st'. destruct st as [cf e pos0 out sg vs dep fds]. unfold written. proj. rewrite Hdec. proj.
  unfold p0, p1 in *. unfold abs_pos, written in *. proj.
  set (q0 := pad (pos0 + len out) 4) in *. set (q1 := pad (pos0 + len out + len q0 + 4) al) in *.
  replace ((out ++ q0 ++ enc e 4 0 ++ q1) ++ body) with ((out ++ q0) ++ enc e 4 0 ++ (q1 ++ body))
    by (rewrite <- !app_assoc; reflexivity).
  replace (len out + len q0) with (len (out ++ q0)) by (now rewrite len_app).
  rewrite patch_mid by (now rewrite !length_enc).
  rewrite <- !app_assoc. rewrite ?add_fds_nil. reflexivity.
Qed.
