(* DBus/SerProofs.v — the serializer model produces exactly the specification's marshalling (C01),
   and reports its length and descriptor count in the size pass. *)
From ZV Require Import Base.Bytes Base.Res Base.Sig Base.SigParse Base.SigParseFacts DBus.Val DBus.Spec DBus.Ser DBus.SerFacts.
From Coq Require Import Lia.
Local Open Scope N_scope.

Definition nfd (st : sstate) : N := match s_fds st with FdsMode l => N.of_nat (length l) | NumMode n => n end.
Definition add_fds (f : fdlist) (hs : list N) : fdlist :=
  match f with FdsMode l => FdsMode (l ++ hs) | NumMode n => NumMode (n + N.of_nat (length hs)) end.
(* the state after appending bytes [b] and attaching descriptors [hs]; nothing else changes *)
Definition grow (st : sstate) (b : bytes) (hs : list N) : sstate :=
  set_fds (set_out st (s_out st ++ b)) (add_fds (s_fds st) hs).
Definition after (st : sstate) (v : dval) : sstate :=
  grow st (marshal (s_e st) ByOccurrence v (abs_pos st) (nfd st)) (fds_of v).

Lemma add_fds_nil f : add_fds f [] = f.
Proof. destruct f; cbn; [now rewrite app_nil_r|f_equal; lia]. Qed.
Lemma add_fds_app f a b : add_fds (add_fds f a) b = add_fds f (a ++ b).
Proof. destruct f; cbn; [now rewrite app_assoc|rewrite app_length; f_equal; lia]. Qed.

Lemma grow_nil st : grow st [] [] = st.
Proof. destruct st. unfold grow. cbn. rewrite app_nil_r, add_fds_nil. reflexivity. Qed.
Lemma grow_grow st b1 h1 b2 h2 : grow (grow st b1 h1) b2 h2 = grow st (b1 ++ b2) (h1 ++ h2).
Proof. destruct st. unfold grow. cbn. rewrite app_assoc, add_fds_app. reflexivity. Qed.
Lemma wr_grow st b : wr st b = grow st b [].
Proof. destruct st. unfold wr, grow. cbn. now rewrite add_fds_nil. Qed.
Lemma padded_grow st al : padded st al = grow st (pad (abs_pos st) al) [].
Proof. unfold padded, add_padding. cbn [fst]. apply wr_grow. Qed.

Lemma abs_pos_grow st b h : abs_pos (grow st b h) = abs_pos st + len b.
Proof. destruct st. unfold abs_pos, written, grow. cbn. rewrite len_app. lia. Qed.
Lemma written_grow st b h : written (grow st b h) = written st + len b.
Proof. destruct st. unfold written, grow. cbn. now rewrite len_app. Qed.
Lemma nfd_grow st b h : nfd (grow st b h) = nfd st + N.of_nat (length h).
Proof. destruct st as [? ? ? ? ? ? ? f]. unfold nfd, grow. cbn. destruct f; cbn; [rewrite app_length; lia|reflexivity]. Qed.
Lemma sig_grow st b h : s_sig (grow st b h) = s_sig st. Proof. reflexivity. Qed.
Lemma vsign_grow st b h : s_vsign (grow st b h) = s_vsign st. Proof. reflexivity. Qed.
Lemma dep_grow st b h : s_dep (grow st b h) = s_dep st. Proof. reflexivity. Qed.
Lemma e_grow st b h : s_e (grow st b h) = s_e st. Proof. reflexivity. Qed.
Lemma cfg_grow st b h : s_cfg (grow st b h) = s_cfg st. Proof. reflexivity. Qed.
Lemma out_grow st b h : s_out (grow st b h) = s_out st ++ b. Proof. reflexivity. Qed.
Lemma fds_grow st b h : s_fds (grow st b h) = add_fds (s_fds st) h. Proof. reflexivity. Qed.

(* setters commute with grow *)
Lemma set_sig_grow st b h g : set_sig (grow st b h) g = grow (set_sig st g) b h. Proof. reflexivity. Qed.
Lemma set_dep_grow st b h d : set_dep (grow st b h) d = grow (set_dep st d) b h. Proof. reflexivity. Qed.
Lemma set_vsign_grow st b h g : set_vsign (grow st b h) g = grow (set_vsign st g) b h. Proof. reflexivity. Qed.
Lemma set_sig_id st : set_sig st (s_sig st) = st. Proof. destruct st; reflexivity. Qed.
Lemma set_dep_id st : set_dep st (s_dep st) = st. Proof. destruct st; reflexivity. Qed.
Lemma set_vsign_id st : set_vsign st (s_vsign st) = st. Proof. destruct st; reflexivity. Qed.

Lemma nfds_len v : nfds v = N.of_nat (length (fds_of v)). Proof. reflexivity. Qed.

(* ---------- depth bookkeeping ---------- *)
Definition dep_ok (d : depths) : Prop := d_struct d <= 32 /\ d_array d <= 32 /\ d_maybe d = 0.
Definition fits (d : depths) (v : dval) : Prop :=
  dep_ok d /\ depth_ok (d_struct d) (d_array d) (d_variant d) v = true.

Lemma inc_array_ok d : dep_ok d -> d_array d + 1 <= 32 -> d_struct d + d_array d + d_variant d + 1 <= 64 ->
  exists d', inc_array d = Ok d' /\ dec_array d' = d /\ dep_ok d' /\
             d_struct d' = d_struct d /\ d_array d' = d_array d + 1 /\ d_variant d' = d_variant d.
Proof.
  intros (H1 & H2 & H3) Ha Ht. unfold inc_array, dcheck. cbn.
  destruct (N.ltb_spec 32 (d_struct d)); [lia|]. destruct (N.ltb_spec 32 (d_array d + 1)); [lia|].
  destruct (N.ltb_spec 64 (d_struct d + (d_array d + 1) + d_variant d + d_maybe d)); [lia|].
  eexists. split; [reflexivity|]. unfold dec_array, dep_ok. cbn. destruct d; cbn in *.
  repeat split; try lia. f_equal. lia.
Qed.
Lemma inc_struct_ok d : dep_ok d -> d_struct d + 1 <= 32 -> d_struct d + d_array d + d_variant d + 1 <= 64 ->
  exists d', inc_struct d = Ok d' /\ dep_ok d' /\
             d_struct d' = d_struct d + 1 /\ d_array d' = d_array d /\ d_variant d' = d_variant d.
Proof.
  intros (H1 & H2 & H3) Ha Ht. unfold inc_struct, dcheck. cbn.
  destruct (N.ltb_spec 32 (d_struct d + 1)); [lia|]. destruct (N.ltb_spec 32 (d_array d)); [lia|].
  destruct (N.ltb_spec 64 (d_struct d + 1 + d_array d + d_variant d + d_maybe d)); [lia|].
  eexists. split; [reflexivity|]. unfold dep_ok. cbn. repeat split; lia.
Qed.
Lemma inc_variant_ok d : dep_ok d -> d_struct d + d_array d + d_variant d + 1 <= 64 ->
  exists d', inc_variant d = Ok d' /\ dep_ok d' /\
             d_struct d' = d_struct d /\ d_array d' = d_array d /\ d_variant d' = d_variant d + 1.
Proof.
  intros (H1 & H2 & H3) Ht. unfold inc_variant, dcheck. cbn.
  destruct (N.ltb_spec 32 (d_struct d)); [lia|]. destruct (N.ltb_spec 32 (d_array d)); [lia|].
  destruct (N.ltb_spec 64 (d_struct d + d_array d + (d_variant d + 1) + d_maybe d)); [lia|].
  eexists. split; [reflexivity|]. unfold dep_ok. cbn. repeat split; lia.
Qed.

(* ---------- the statement proved by induction on the value ---------- *)
Definition good (v : dval) : Prop :=
  forall st, wf v = true -> s_sig st = vsig v -> s_vsign st = None -> fits (s_dep st) v ->
             nfd st + nfds v < 2 ^ 32 ->
             len (marshal (s_e st) ByOccurrence v (abs_pos st) (nfd st)) < 2 ^ 32 ->
             ser (sval_of v) st = Ok (after st v).

Lemma basic_after st al n x : basic st al n x = Ok (grow st (pad (abs_pos st) al ++ enc (s_e st) n x) []).
Proof. unfold basic. rewrite padded_grow, wr_grow, grow_grow. reflexivity. Qed.

Lemma good_u8 n : good (VU8 n).
Proof.
  intros st _ _ _ _ _ _. cbn [sval_of ser]. rewrite basic_after. unfold after. cbn [marshal fds_of].
  rewrite pad_1. cbn [app]. do 3 f_equal. destruct (s_e st); cbn; unfold nb; now rewrite N.mod_mod by lia.
Qed.
Lemma good_bool b : good (VBool b).
Proof. intros st _ _ _ _ _ _. cbn [sval_of ser]. rewrite basic_after. reflexivity. Qed.
Lemma good_i16 z : good (VI16 z).
Proof. intros st _ _ _ _ _ _. cbn [sval_of ser]. rewrite basic_after. reflexivity. Qed.
Lemma good_u16 z : good (VU16 z).
Proof. intros st _ _ _ _ _ _. cbn [sval_of ser]. rewrite basic_after. reflexivity. Qed.
Lemma good_i32 z : good (VI32 z).
Proof. intros st _ Hs _ _ _ _. cbn [sval_of ser]. rewrite Hs. cbn [vsig]. rewrite basic_after. reflexivity. Qed.
Lemma good_u32 z : good (VU32 z).
Proof. intros st _ _ _ _ _ _. cbn [sval_of ser]. rewrite basic_after. reflexivity. Qed.
Lemma good_i64 z : good (VI64 z).
Proof. intros st _ _ _ _ _ _. cbn [sval_of ser]. rewrite basic_after. reflexivity. Qed.
Lemma good_u64 z : good (VU64 z).
Proof. intros st _ _ _ _ _ _. cbn [sval_of ser]. rewrite basic_after. reflexivity. Qed.
Lemma good_f64 z : good (VF64 z).
Proof. intros st _ _ _ _ _ _. cbn [sval_of ser]. rewrite basic_after. reflexivity. Qed.

(* ---------- descriptors and strings ---------- *)
Lemma add_fd_grow st h : add_fd st h = (grow st [] [h], nfd st).
Proof.
  destruct st as [? ? ? ? ? ? ? f]. unfold add_fd, grow, nfd. cbn. destruct f; cbn; rewrite app_nil_r; reflexivity.
Qed.
Lemma wr_u32_grow st x : wr_u32 st x = grow st (enc (s_e st) 4 x) [].
Proof. unfold wr_u32. rewrite enc_mod32. apply wr_grow. Qed.

Lemma good_fd h : good (VFd h).
Proof.
  intros st _ Hs _ _ _ _. cbn [sval_of ser]. rewrite Hs. cbn [vsig]. rewrite padded_grow, add_fd_grow.
  rewrite wr_u32_grow, !grow_grow. unfold after. cbn [marshal fds_of].
  rewrite nfd_grow, e_grow. cbn [length app]. rewrite N.add_0_r, N2Z.id. reflexivity.
Qed.

Lemma ser_str_4 st s : (s_sig st = SStr \/ s_sig st = SObjPath) -> len s < 2 ^ 32 ->
  ser_str st s = Ok (grow st (pad (abs_pos st) 4 ++ enc (s_e st) 4 (len s) ++ s ++ [x00]) []).
Proof.
  intros Hs Hl. unfold ser_str.
  assert (Ha : align_of (s_sig st) = Ok 4) by (destruct Hs as [-> | ->]; reflexivity).
  rewrite Ha. cbn [bind]. rewrite padded_grow. rewrite !sig_grow.
  destruct (N.ltb_spec (len s) (2 ^ 32)) as [_|]; [|lia].
  destruct Hs as [Hs | Hs]; rewrite Hs; cbn [bind]; rewrite wr_u32_grow, !wr_grow, !grow_grow, e_grow; cbn [app];
    rewrite <- ?app_assoc; reflexivity.
Qed.
Lemma good_str s : good (VStr s).
Proof.
  intros st Hw Hs _ _ _ _. cbn [sval_of ser]. cbn [wf] in Hw. unfold str_ok in Hw.
  apply andb_true_iff in Hw as [_ Hl]. apply N.ltb_lt in Hl. rewrite ser_str_4 by (auto). reflexivity.
Qed.
Lemma good_path s : good (VPath s).
Proof.
  intros st Hw Hs _ _ _ _. cbn [sval_of ser]. cbn [wf] in Hw.
  apply andb_true_iff in Hw as [_ Hl]. apply N.ltb_lt in Hl. rewrite ser_str_4 by (auto). reflexivity.
Qed.

Lemma ser_str_sig st s : s_sig st = SSig -> len s <= 255 ->
  ser_str st s = Ok (grow st (nb (len s) :: s ++ [x00]) []).
Proof.
  intros Hs Hl. unfold ser_str. rewrite Hs. cbn [align_of align_dbus bind]. rewrite padded_grow, pad_1, grow_nil.
  rewrite Hs. cbn [bind]. destruct (N.leb_spec (len s) 255) as [_|]; [|lia]. cbn [bind].
  rewrite !wr_grow, !grow_grow. cbn [app]. reflexivity.
Qed.
(* the encoder always writes a signature value with its outer parentheses *)
Fixpoint enc_form (v : dval) : bool :=
  match v with
  | VSigv _ np => negb np
  | VVariant x => enc_form x
  | VArray _ l | VStruct l => forallb enc_form l
  | VDict _ _ l => forallb (fun p => enc_form (fst p) && enc_form (snd p)) l
  | _ => true
  end.
Lemma good_sigv g : good (VSigv g false).
Proof.
  intros st Hw Hs _ _ _ _. cbn [sval_of ser]. cbn [wf] in Hw. apply andb_true_iff in Hw as [Hw _].
  unfold sigval_ok in Hw. apply andb_true_iff in Hw as [_ Hl]. apply N.leb_le in Hl. cbv iota in Hl.
  rewrite ser_str_sig by auto. reflexivity.
Qed.

Lemma sstate_ext a b :
  s_cfg a = s_cfg b -> s_e a = s_e b -> s_pos0 a = s_pos0 b -> s_out a = s_out b -> s_sig a = s_sig b ->
  s_vsign a = s_vsign b -> s_dep a = s_dep b -> s_fds a = s_fds b -> a = b.
Proof. destruct a, b; cbn; intros; subst; reflexivity. Qed.

(* ---------- arrays: begin, elements, back-patched end ---------- *)
Ltac proj := unfold grow, wr, set_out, set_sig, set_vsign, set_dep, set_fds in *; cbn [s_cfg s_e s_pos0 s_out s_sig s_vsign s_dep s_fds] in *.

Lemma seq_wrap st child al d' (f : sstate -> res cerr sstate) body hs :
  ((s_sig st = SArray child /\ align_of child = Ok al) \/ (exists v, s_sig st = SDict child v /\ al = 8)) ->
  inc_array (s_dep st) = Ok d' -> dec_array d' = s_dep st ->
  let p0 := pad (abs_pos st) 4 in
  let p1 := pad (abs_pos st + len p0 + 4) al in
  let st' := set_dep (set_sig (grow st (p0 ++ enc (s_e st) 4 0 ++ p1) []) child) d' in
  f st' = Ok (grow st' body hs) -> len body < 2 ^ 32 ->
  (let* (st1, start, fp, asig) := seq_begin st in let* st2 := f st1 in seq_end st2 start fp asig)
  = Ok (grow st (p0 ++ enc (s_e st) 4 (len body) ++ p1 ++ body) hs).
Proof.
  intros Hsig Hinc Hdec p0 p1 st' Hf Hlen.
  assert (Hb : seq_begin st = Ok (st', written st + len p0 + 4 + len p1, len p1, s_sig st)).
  { unfold seq_begin. rewrite padded_grow, wr_u32_grow, grow_grow, e_grow. rewrite sig_grow.
    assert (Hm : (match s_sig st with
                  | SArray c => let* a := align_of c in Ok (a, c)
                  | SDict k _ => Ok (8, k)
                  | _ => Err ESigMismatch
                  end) = Ok (al, child)).
    { destruct Hsig as [[-> ->]|(v & -> & ->)]; reflexivity. }
    rewrite Hm. cbn [bind]. unfold add_padding.
    set (stA := set_sig (grow st (pad (abs_pos st) 4 ++ enc (s_e st) 4 0) ([] ++ [])) child).
    assert (Hp : abs_pos stA = abs_pos st + len p0 + 4).
    { subst stA. destruct st. unfold abs_pos, written. proj. rewrite !len_app, len_enc. unfold p0, abs_pos, written. proj. lia. }
    rewrite Hp. rewrite wr_grow.
    change (s_dep (grow stA (zeros (padn (abs_pos st + len p0 + 4) al)) [])) with (s_dep st).
    rewrite Hinc. cbn [bind]. f_equal.
    assert (E1 : set_dep (grow stA (zeros (padn (abs_pos st + len p0 + 4) al)) []) d' = st').
    { subst st' stA. destruct st. unfold p1, p0, pad. proj. cbn [app]. rewrite ?add_fds_nil, <- ?app_assoc. reflexivity. }
    assert (E2 : written (grow stA (zeros (padn (abs_pos st + len p0 + 4) al)) []) = written st + len p0 + 4 + len p1).
    { rewrite written_grow. subst stA. destruct st. unfold written. proj. rewrite !len_app, len_enc, len_zeros.
      unfold p1, p0, pad. rewrite !len_zeros. unfold abs_pos, written. proj. lia. }
    assert (E3 : padn (abs_pos st + len p0 + 4) al = len p1) by (unfold p1, pad; now rewrite len_zeros).
    rewrite E1, E2, E3. reflexivity. }
  rewrite Hb. cbn [bind]. rewrite Hf. cbn [bind]. unfold seq_end.
  assert (Hw : written (grow st' body hs) = written st + len p0 + 4 + len p1 + len body).
  { subst st'. destruct st. unfold written. proj. rewrite !len_app, len_enc. lia. }
  rewrite Hw. replace (written st + len p0 + 4 + len p1 + len body - (written st + len p0 + 4 + len p1)) with (len body) by lia.
  destruct (N.ltb_spec (len body) (2 ^ 32)) as [_|]; [|lia]. cbn [negb].
  replace (written st + len p0 + 4 + len p1 + len body - (len body + len p1 + 4)) with (written st + len p0) by lia.
  f_equal. clear Hf Hb Hinc.
  assert (Ho : s_out st' ++ body = (s_out st ++ p0) ++ enc (s_e st) 4 0 ++ (p1 ++ body)).
  { subst st'. cbn [s_out grow set_dep set_sig set_out set_fds]. rewrite <- !app_assoc. reflexivity. }
  apply sstate_ext; cbn [s_cfg s_e s_pos0 s_out s_sig s_vsign s_dep s_fds set_sig set_dep set_out set_fds grow]; try reflexivity.
  - rewrite Ho. change (s_e st') with (s_e st).
    replace (written st + len p0) with (len (s_out st ++ p0)) by (rewrite len_app; reflexivity).
    rewrite patch_mid by (now rewrite !length_enc). rewrite <- !app_assoc. reflexivity.
  - subst st'. cbn [s_dep set_dep set_sig grow set_fds set_out]. exact Hdec.
  - subst st'. cbn [s_fds set_dep set_sig grow set_fds set_out]. now rewrite add_fds_nil.
Qed.

Lemma after_props st v :
  abs_pos (after st v) = abs_pos st + len (marshal (s_e st) ByOccurrence v (abs_pos st) (nfd st)) /\
  nfd (after st v) = nfd st + nfds v /\ s_sig (after st v) = s_sig st /\ s_vsign (after st v) = s_vsign st /\
  s_dep (after st v) = s_dep st /\ s_e (after st v) = s_e st /\ s_cfg (after st v) = s_cfg st.
Proof. unfold after. rewrite abs_pos_grow, nfd_grow. repeat split; reflexivity. Qed.

Lemma elems_ok l : Forall good l -> forall st el,
  forallb (fun x => wf x && sig_eqb (vsig x) el) l = true ->
  s_sig st = el -> s_vsign st = None -> dep_ok (s_dep st) ->
  forallb (depth_ok (d_struct (s_dep st)) (d_array (s_dep st)) (d_variant (s_dep st))) l = true ->
  nfd st + N.of_nat (length (concat (map fds_of l))) < 2 ^ 32 ->
  len (mseq (s_e st) ByOccurrence l (abs_pos st) (nfd st)) < 2 ^ 32 ->
  ser_elems (map sval_of l) st
  = Ok (grow st (mseq (s_e st) ByOccurrence l (abs_pos st) (nfd st)) (concat (map fds_of l))).
Proof.
  induction 1 as [|x l Hx Hl IH]; intros st el Hw Hs Hv Hd Hdep Hn Hlen.
  - cbn. now rewrite grow_nil.
  - cbn [forallb] in Hw, Hdep. apply andb_true_iff in Hw as [Hwx Hw]. apply andb_true_iff in Hwx as [Hwx Hsx].
    apply andb_true_iff in Hdep as [Hdx Hdep]. apply sig_eqb_eq in Hsx.
    cbn [map concat mseq] in *. rewrite app_length, Nat2N.inj_add in Hn. rewrite len_app in Hlen.
    cbn [ser_elems].
    assert (G := Hx st Hwx ltac:(congruence) Hv (conj Hd Hdx) ltac:(unfold nfds; lia) ltac:(lia)). rewrite G.
    cbn [bind]. destruct (after_props st x) as (Hp & Hf & Hsg & Hvs & Hde & He & _).
    assert (G2 := IH (after st x) el Hw ltac:(congruence) ltac:(congruence)).
    rewrite Hde in G2. rewrite Hf in G2. rewrite Hp in G2. rewrite He in G2. specialize (G2 Hd Hdep ltac:(unfold nfds; lia) ltac:(lia)). rewrite G2.
    unfold after at 1. rewrite grow_grow. rewrite ?Hp, ?Hf, ?He. reflexivity.
Qed.

(* ---------- arrays ---------- *)
Lemma single_align c : single_ok c = true -> align_of c = Ok (align_dbus c).
Proof. destruct c; cbn; congruence. Qed.

Lemma good_array el l : Forall good l -> good (VArray el l).
Proof.
  intros HF st Hw Hs Hv [Hd Hdep] Hn Hlen. cbn [sval_of]. rewrite ser_seq.
  cbn [wf] in Hw. apply andb_true_iff in Hw as [Hel Hw]. cbn [vsig] in Hs.
  cbn [depth_ok] in Hdep. apply andb_true_iff in Hdep as [Hdep Hdl]. apply andb_true_iff in Hdep as [Ha Ht].
  apply N.leb_le in Ha, Ht.
  destruct (inc_array_ok (s_dep st) Hd Ha Ht) as (d' & Hinc & Hdec & Hd' & E1 & E2 & E3).
  rewrite marshal_array in Hlen. cbv zeta in Hlen. rewrite !len_app in Hlen.
  set (p0 := pad (abs_pos st) 4) in *. set (p1 := pad (abs_pos st + len p0 + 4) (align_dbus el)) in *.
  set (st' := set_dep (set_sig (grow st (p0 ++ enc (s_e st) 4 0 ++ p1) []) el) d').
  assert (Hpos : abs_pos st' = abs_pos st + len p0 + 4 + len p1).
  { subst st'. change (abs_pos (set_dep (set_sig (grow st (p0 ++ enc (s_e st) 4 0 ++ p1) []) el) d'))
      with (abs_pos (grow st (p0 ++ enc (s_e st) 4 0 ++ p1) [])). rewrite abs_pos_grow, !len_app, len_enc. lia. }
  assert (Hnf : nfd st' = nfd st).
  { subst st'. change (nfd (set_dep (set_sig (grow st (p0 ++ enc (s_e st) 4 0 ++ p1) []) el) d'))
      with (nfd (grow st (p0 ++ enc (s_e st) 4 0 ++ p1) [])). rewrite nfd_grow. cbn. lia. }
  pose proof (elems_ok l HF st' el Hw eq_refl Hv) as He.
  change (s_dep st') with d' in He. change (s_e st') with (s_e st) in He. rewrite E1, E2, E3, Hpos, Hnf in He.
  specialize (He Hd' Hdl). cbn [fds_of nfds] in Hn.
  specialize (He ltac:(unfold nfds in Hn; cbn [fds_of] in Hn; lia) ltac:(lia)).
  rewrite (seq_wrap st el (align_dbus el) d' (ser_elems (map sval_of l)) _ _
             (or_introl (conj Hs (single_align el Hel))) Hinc Hdec He) by lia.
  unfold after. rewrite marshal_array. cbv zeta. fold p0 p1. reflexivity.
Qed.

(* ---------- structs ---------- *)
Lemma back_after st g x : s_vsign st = None ->
  back_from st (after (sub_of st g) x) = grow st (marshal (s_e st) ByOccurrence x (abs_pos st) (nfd st)) (fds_of x).
Proof.
  intros Hv. apply sstate_ext; try reflexivity. cbn. now rewrite Hv.
Qed.

Lemma fields_ok l : Forall good l -> forall st pre,
  s_sig st = SStruct (pre ++ map vsig l) -> s_vsign st = None -> forallb wf l = true -> dep_ok (s_dep st) ->
  forallb (depth_ok (d_struct (s_dep st)) (d_array (s_dep st)) (d_variant (s_dep st))) l = true ->
  nfd st + N.of_nat (length (concat (map fds_of l))) < 2 ^ 32 ->
  len (mseq (s_e st) ByOccurrence l (abs_pos st) (nfd st)) < 2 ^ 32 ->
  ser_fields (map sval_of l) (length pre) st
  = Ok (grow st (mseq (s_e st) ByOccurrence l (abs_pos st) (nfd st)) (concat (map fds_of l))).
Proof.
  induction 1 as [|x l Hx Hl IH]; intros st pre Hs Hv Hw Hd Hdep Hn Hlen.
  - cbn. now rewrite grow_nil.
  - cbn [forallb] in Hw, Hdep. apply andb_true_iff in Hw as [Hwx Hw]. apply andb_true_iff in Hdep as [Hdx Hdep].
    cbn [map concat mseq] in *. rewrite app_length, Nat2N.inj_add in Hn. rewrite len_app in Hlen.
    cbn [ser_fields]. unfold field_sig. rewrite Hs.
    rewrite nth_error_app2 by lia. rewrite Nat.sub_diag. cbn [nth_error bind].
    assert (G := Hx (sub_of st (vsig x)) Hwx eq_refl eq_refl (conj Hd Hdx)).
    change (nfd (sub_of st (vsig x))) with (nfd st) in G. change (s_e (sub_of st (vsig x))) with (s_e st) in G.
    change (abs_pos (sub_of st (vsig x))) with (abs_pos st) in G.
    specialize (G ltac:(unfold nfds; lia) ltac:(lia)). rewrite G. cbn [bind]. rewrite back_after by assumption.
    set (st1 := grow st (marshal (s_e st) ByOccurrence x (abs_pos st) (nfd st)) (fds_of x)).
    assert (G2 := IH st1 (pre ++ [vsig x])). rewrite app_length in G2. cbn [length] in G2.
    replace (length pre + 1)%nat with (S (length pre)) in G2 by lia.
    assert (Hs1 : s_sig st1 = SStruct ((pre ++ [vsig x]) ++ map vsig l)) by (subst st1; rewrite sig_grow, Hs, <- app_assoc; reflexivity).
    specialize (G2 Hs1 Hv Hw). subst st1. rewrite dep_grow, e_grow, abs_pos_grow, nfd_grow in G2.
    specialize (G2 Hd Hdep ltac:(unfold nfds in *; lia) ltac:(unfold nfds in *; lia)). rewrite G2.
    rewrite grow_grow. reflexivity.
Qed.

Lemma good_struct l : Forall good l -> good (VStruct l).
Proof.
  intros HF st Hw Hs Hv [Hd Hdep] Hn Hlen. cbn [sval_of]. rewrite ser_tuple.
  cbn [wf] in Hw. apply andb_true_iff in Hw as [_ Hw]. cbn [vsig] in Hs.
  cbn [depth_ok] in Hdep. apply andb_true_iff in Hdep as [Hdep Hdl]. apply andb_true_iff in Hdep as [Ha Ht].
  apply N.leb_le in Ha, Ht.
  destruct (inc_struct_ok (s_dep st) Hd Ha Ht) as (d' & Hinc & Hd' & E1 & E2 & E3).
  unfold struct_begin. rewrite Hs. cbn [align_of align_dbus bind]. rewrite padded_grow.
  rewrite sig_grow, Hs, dep_grow, Hinc. cbn [bind].
  rewrite marshal_struct in Hlen. cbv zeta in Hlen. rewrite len_app in Hlen.
  set (p0 := pad (abs_pos st) 8) in *.
  set (st' := set_dep (grow st p0 []) d').
  assert (G := fields_ok l HF st' [] ltac:(subst st'; cbn; exact Hs) Hv Hw).
  change (s_dep st') with d' in G. change (s_e st') with (s_e st) in G.
  assert (Hpos : abs_pos st' = abs_pos st + len p0) by (subst st'; change (abs_pos (set_dep (grow st p0 []) d')) with (abs_pos (grow st p0 [])); now rewrite abs_pos_grow).
  assert (Hnf : nfd st' = nfd st) by (subst st'; change (nfd (set_dep (grow st p0 []) d')) with (nfd (grow st p0 [])); rewrite nfd_grow; cbn; lia).
  rewrite E1, E2, E3, Hpos, Hnf in G. cbn [fds_of] in Hn. unfold nfds in Hn. cbn [fds_of] in Hn.
  specialize (G Hd' Hdl ltac:(lia) ltac:(lia)). cbn [length] in G. rewrite G. cbn [bind]. f_equal.
  unfold after. rewrite marshal_struct. cbv zeta. fold p0. subst st'.
  apply sstate_ext; try reflexivity.
  - cbn. now rewrite <- app_assoc.
  - cbn. now rewrite add_fds_nil.
Qed.

(* ---------- variants ---------- *)
Lemma good_variant x : good x -> good (VVariant x).
Proof.
  intros Hx st Hw Hs Hv [Hd Hdep] Hn Hlen. cbn [sval_of]. rewrite ser_struct_named.
  cbn [wf] in Hw. apply andb_true_iff in Hw as [Hw Hl255]. apply andb_true_iff in Hw as [Hw Hso].
  apply N.leb_le in Hl255. cbn [vsig] in Hs.
  cbn [depth_ok] in Hdep. apply andb_true_iff in Hdep as [Ht Hdx]. apply N.leb_le in Ht.
  destruct (inc_variant_ok (s_dep st) Hd Ht) as (d' & Hinc & Hd' & E1 & E2 & E3).
  unfold struct_begin. rewrite Hs. cbn [align_of align_dbus bind]. rewrite padded_grow, pad_1, grow_nil.
  rewrite Hs, Hinc. cbn [bind].
  set (g := vsig x) in *. set (sg := show g) in *.
  set (hdr := nb (len sg) :: sg ++ [x00]).
  cbn [marshal] in Hlen. fold g sg hdr in Hlen. rewrite len_app in Hlen.
  set (st1 := set_dep st d').
  cbn [ser_nfields]. unfold field_sig at 1. change (s_sig st1) with (s_sig st). rewrite Hs.
  change (s_vsign st1) with (s_vsign st). rewrite Hv. cbn [bind].
  (* first field: the signature string, under signature Variant *)
  cbn [ser]. unfold ser_str. change (s_sig (sub_of st1 SVariant)) with SVariant. cbn [align_of align_dbus bind].
  rewrite padded_grow, pad_1, grow_nil. change (s_sig (sub_of st1 SVariant)) with SVariant.
  change (c_gv (s_cfg (sub_of st1 SVariant))) with (c_gv (s_cfg st)).
  pose proof (parse_show (c_gv (s_cfg st)) g (single_printable g Hso)) as Hps. fold sg in Hps. rewrite Hps. cbn [bind].
  destruct (N.leb_spec (len sg) 255) as [_|]; [|lia]. cbn [bind].
  rewrite !wr_grow, !grow_grow. cbn [app].
  (* second field: the value, under the signature put aside *)
  unfold field_sig. cbn [s_sig s_vsign back_from set_vsign set_fds set_out grow set_sig sub_of set_dep bind].
  set (st2 := sub_of (back_from st1 (grow (set_vsign (sub_of st1 SVariant) (Some g)) (nb (len sg) :: sg ++ [x00]) [])) g).
  assert (G := Hx st2 Hw eq_refl eq_refl).
  assert (Hp2 : abs_pos st2 = abs_pos st + len hdr).
  { subst st2 st1. clear. destruct st. unfold abs_pos, written. cbn -[len]. rewrite len_app. fold hdr. lia. }
  assert (Hn2 : nfd st2 = nfd st).
  { subst st2 st1. clear. destruct st. unfold nfd. cbn -[add_fds]. rewrite add_fds_nil. reflexivity. }
  change (s_dep st2) with d' in G. change (s_e st2) with (s_e st) in G.
  assert (Hfit : fits d' x) by (split; [exact Hd'|rewrite E1, E2, E3; exact Hdx]).
  rewrite Hp2, Hn2 in G. cbn [fds_of] in Hn. unfold nfds in Hn. cbn [fds_of] in Hn.
  specialize (G Hfit ltac:(unfold nfds; lia) ltac:(lia)).
  change (s_sig st1) with (s_sig st). rewrite Hs. cbn [bind]. fold st2. rewrite G. cbn [bind]. f_equal.
  unfold after. rewrite Hp2, Hn2. change (s_e st2) with (s_e st). cbn [marshal]. fold g sg hdr.
  subst st2 st1. apply sstate_ext; try reflexivity.
  - cbn -[len marshal app N.add]. unfold hdr. rewrite <- ?app_assoc. cbn [app]. rewrite <- ?app_assoc. reflexivity.
  - cbn. now rewrite Hv.
  - cbn -[add_fds]. rewrite ?add_fds_nil. reflexivity.
Qed.

(* ---------- dicts ---------- *)
Lemma entries_ok l : Forall (fun p => good (fst p) /\ good (snd p)) l -> forall st ks vs,
  forallb (fun p => wf (fst p) && wf (snd p) && sig_eqb (vsig (fst p)) ks && sig_eqb (vsig (snd p)) vs) l = true ->
  s_sig st = ks -> s_vsign st = None -> dep_ok (s_dep st) ->
  forallb (fun p => depth_ok (d_struct (s_dep st)) (d_array (s_dep st)) (d_variant (s_dep st)) (fst p)
                    && depth_ok (d_struct (s_dep st)) (d_array (s_dep st)) (d_variant (s_dep st)) (snd p)) l = true ->
  nfd st + N.of_nat (length (concat (map (fun p => fds_of (fst p) ++ fds_of (snd p)) l))) < 2 ^ 32 ->
  len (mentries (s_e st) ByOccurrence l (abs_pos st) (nfd st)) < 2 ^ 32 ->
  ser_entries (map (fun p => (sval_of (fst p), sval_of (snd p))) l) ks vs st
  = Ok (grow st (mentries (s_e st) ByOccurrence l (abs_pos st) (nfd st))
               (concat (map (fun p => fds_of (fst p) ++ fds_of (snd p)) l))).
Proof.
  induction 1 as [|[k x] l [Hk Hx] Hl IH]; intros st ks vs Hw Hs Hv Hd Hdep Hn Hlen.
  - cbn. now rewrite grow_nil.
  - cbn [forallb fst snd] in Hw, Hdep. apply andb_true_iff in Hw as [Hw1 Hw].
    apply andb_true_iff in Hw1 as [Hw1 Hsx]. apply andb_true_iff in Hw1 as [Hw1 Hsk]. apply andb_true_iff in Hw1 as [Hwk Hwx].
    apply sig_eqb_eq in Hsk, Hsx. apply andb_true_iff in Hdep as [Hd1 Hdep]. apply andb_true_iff in Hd1 as [Hdk Hdx].
    cbn [map concat mentries fst snd] in *. rewrite !app_length, !Nat2N.inj_add in Hn. rewrite !len_app in Hlen.
    cbn [ser_entries]. rewrite padded_grow.
    set (b0 := pad (abs_pos st) 8) in *.
    set (st1 := grow st b0 []).
    assert (P1 : abs_pos st1 = abs_pos st + len b0) by (subst st1; now rewrite abs_pos_grow).
    assert (N1 : nfd st1 = nfd st) by (subst st1; rewrite nfd_grow; cbn; lia).
    assert (G := Hk st1 Hwk ltac:(subst st1; rewrite sig_grow; congruence) Hv (conj Hd Hdk)).
    change (s_e st1) with (s_e st) in G. rewrite P1, N1 in G.
    specialize (G ltac:(unfold nfds; lia) ltac:(lia)). rewrite G. cbn [bind].
    set (b1 := marshal (s_e st) ByOccurrence k (abs_pos st + len b0) (nfd st)) in *.
    assert (A1 : after st1 k = grow st (b0 ++ b1) (fds_of k)).
    { unfold after. change (s_e st1) with (s_e st). rewrite P1, N1. fold b1. subst st1. now rewrite grow_grow. }
    rewrite A1.
    set (st2 := set_sig (grow st (b0 ++ b1) (fds_of k)) vs).
    assert (P2 : abs_pos st2 = abs_pos st + len b0 + len b1).
    { subst st2. change (abs_pos (set_sig (grow st (b0 ++ b1) (fds_of k)) vs)) with (abs_pos (grow st (b0 ++ b1) (fds_of k))).
      rewrite abs_pos_grow, len_app. lia. }
    assert (N2 : nfd st2 = nfd st + nfds k).
    { subst st2. change (nfd (set_sig (grow st (b0 ++ b1) (fds_of k)) vs)) with (nfd (grow st (b0 ++ b1) (fds_of k))).
      now rewrite nfd_grow. }
    assert (G2 := Hx st2 Hwx ltac:(subst st2; cbn; congruence) Hv (conj Hd Hdx)).
    change (s_e st2) with (s_e st) in G2. rewrite P2, N2 in G2.
    specialize (G2 ltac:(unfold nfds in *; lia) ltac:(lia)). rewrite G2. cbn [bind].
    set (b2 := marshal (s_e st) ByOccurrence x (abs_pos st + len b0 + len b1) (nfd st + nfds k)) in *.
    assert (A2 : set_sig (after st2 x) ks = grow st (b0 ++ b1 ++ b2) (fds_of k ++ fds_of x)).
    { unfold after. change (s_e st2) with (s_e st). rewrite P2, N2. fold b2. subst st2.
      rewrite set_sig_grow. change (set_sig (set_sig (grow st (b0 ++ b1) (fds_of k)) vs) ks) with (set_sig (grow st (b0 ++ b1) (fds_of k)) ks).
      rewrite set_sig_grow. rewrite <- Hs, set_sig_id, grow_grow, <- app_assoc. reflexivity. }
    rewrite A2.
    set (st3 := grow st (b0 ++ b1 ++ b2) (fds_of k ++ fds_of x)).
    assert (G3 := IH st3 ks vs Hw ltac:(subst st3; rewrite sig_grow; assumption) Hv).
    subst st3. rewrite dep_grow, e_grow, abs_pos_grow, nfd_grow, !len_app, app_length, Nat2N.inj_add in G3.
    replace (abs_pos st + (len b0 + (len b1 + len b2))) with (abs_pos st + len b0 + len b1 + len b2) in G3 by lia.
    replace (nfd st + (N.of_nat (length (fds_of k)) + N.of_nat (length (fds_of x)))) with (nfd st + nfds k + nfds x) in G3 by (unfold nfds; lia).
    specialize (G3 Hd Hdep ltac:(unfold nfds in *; lia) ltac:(lia)). rewrite G3.
    rewrite grow_grow, <- !app_assoc. reflexivity.
Qed.

Lemma good_dict ks vs l : Forall (fun p => good (fst p) /\ good (snd p)) l -> good (VDict ks vs l).
Proof.
  intros HF st Hw Hs Hv [Hd Hdep] Hn Hlen. cbn [sval_of]. cbn [vsig] in Hs. rewrite (ser_map _ st ks vs Hs).
  cbn [wf] in Hw. apply andb_true_iff in Hw as [Hw0 Hw].
  cbn [depth_ok] in Hdep. apply andb_true_iff in Hdep as [Hdep Hdl]. apply andb_true_iff in Hdep as [Ha Ht].
  apply N.leb_le in Ha, Ht.
  destruct (inc_array_ok (s_dep st) Hd Ha Ht) as (d' & Hinc & Hdec & Hd' & E1 & E2 & E3).
  rewrite marshal_dict in Hlen. cbv zeta in Hlen. rewrite !len_app in Hlen.
  set (p0 := pad (abs_pos st) 4) in *. set (p1 := pad (abs_pos st + len p0 + 4) 8) in *.
  set (st' := set_dep (set_sig (grow st (p0 ++ enc (s_e st) 4 0 ++ p1) []) ks) d').
  assert (Hpos : abs_pos st' = abs_pos st + len p0 + 4 + len p1).
  { subst st'. change (abs_pos (set_dep (set_sig (grow st (p0 ++ enc (s_e st) 4 0 ++ p1) []) ks) d'))
      with (abs_pos (grow st (p0 ++ enc (s_e st) 4 0 ++ p1) [])). rewrite abs_pos_grow, !len_app, len_enc. lia. }
  assert (Hnf : nfd st' = nfd st).
  { subst st'. change (nfd (set_dep (set_sig (grow st (p0 ++ enc (s_e st) 4 0 ++ p1) []) ks) d'))
      with (nfd (grow st (p0 ++ enc (s_e st) 4 0 ++ p1) [])). rewrite nfd_grow. cbn. lia. }
  pose proof (entries_ok l HF st' ks vs Hw eq_refl Hv) as He.
  change (s_dep st') with d' in He. change (s_e st') with (s_e st) in He. rewrite E1, E2, E3, Hpos, Hnf in He.
  specialize (He Hd' Hdl). cbn [fds_of nfds] in Hn. unfold nfds in Hn. cbn [fds_of] in Hn.
  specialize (He ltac:(lia) ltac:(lia)).
  rewrite (seq_wrap st ks 8 d' (ser_entries _ ks vs) _ _
             (or_intror (ex_intro _ vs (conj Hs eq_refl))) Hinc Hdec He) by lia.
  unfold after. rewrite marshal_dict. cbv zeta. fold p0 p1. reflexivity.
Qed.

(* ---------- induction over values ---------- *)
Section DvalInd.
  Variable P : dval -> Prop.
  Hypothesis Hleaf : forall v, (match v with VVariant _ | VArray _ _ | VDict _ _ _ | VStruct _ => False | _ => True end) -> P v.
  Hypothesis Hvar : forall x, P x -> P (VVariant x).
  Hypothesis Harr : forall e l, Forall P l -> P (VArray e l).
  Hypothesis Hdict : forall k v l, Forall (fun p => P (fst p) /\ P (snd p)) l -> P (VDict k v l).
  Hypothesis Hstruct : forall l, Forall P l -> P (VStruct l).
  Fixpoint dval_ind' (v : dval) : P v :=
    match v with
    | VVariant x => Hvar x (dval_ind' x)
    | VArray e l => Harr e l ((fix go (l : list dval) : Forall P l :=
                                 match l with [] => Forall_nil P | x :: r => Forall_cons x (dval_ind' x) (go r) end) l)
    | VDict k vs l => Hdict k vs l ((fix go (l : list (dval * dval)) : Forall (fun p => P (fst p) /\ P (snd p)) l :=
                                 match l with
                                 | [] => Forall_nil _
                                 | (a, b) :: r => Forall_cons (a, b) (conj (dval_ind' a) (dval_ind' b)) (go r)
                                 end) l)
    | VStruct l => Hstruct l ((fix go (l : list dval) : Forall P l :=
                                 match l with [] => Forall_nil P | x :: r => Forall_cons x (dval_ind' x) (go r) end) l)
    | v' => Hleaf v' I
    end.
End DvalInd.

Theorem ser_good : forall v, enc_form v = true -> good v.
Proof.
  induction v using dval_ind'; intros He.
  - destruct v; try contradiction;
      first [apply good_u8|apply good_bool|apply good_i16|apply good_u16|apply good_i32|apply good_u32
            |apply good_i64|apply good_u64|apply good_f64|apply good_str|apply good_path|apply good_fd|idtac].
    cbn in He. destruct np; [discriminate|]. apply good_sigv.
  - apply good_variant. auto.
  - apply good_array. cbn [enc_form] in He. rewrite forallb_forall in He. rewrite Forall_forall in *. auto.
  - apply good_dict. cbn [enc_form] in He. rewrite forallb_forall in He. rewrite Forall_forall in *.
    intros p Hin. specialize (He p Hin). apply andb_true_iff in He as [H1 H2]. destruct (H p Hin). auto.
  - apply good_struct. cbn [enc_form] in He. rewrite forallb_forall in He. rewrite Forall_forall in *. auto.
Qed.

(* ---------- top level: to_bytes_for_signature and serialized_size ---------- *)
Definition encodable (e : endian) (pos : N) (v : dval) : Prop :=
  wf v = true /\ enc_form v = true /\ within_limits v = true /\
  len (marshal_top e pos v) < 2 ^ 32 /\ nfds v < 2 ^ 32.

Lemma abs_pos_init c e pos g f : abs_pos (init_state c e pos g f) = pos.
Proof. unfold abs_pos, written, init_state. cbn [s_pos0 s_out]. rewrite len_nil. apply N.add_0_r. Qed.
Lemma nfd_init_fds c e pos g : nfd (init_state c e pos g (FdsMode [])) = 0.
Proof. reflexivity. Qed.
Lemma nfd_init_num c e pos g : nfd (init_state c e pos g (NumMode 0)) = 0.
Proof. reflexivity. Qed.

Theorem ser_top_exact c e pos v : encodable e pos v ->
  ser_top c e pos (vsig v) (sval_of v) = Ok (marshal_top e pos v, fds_of v).
Proof.
  intros (Hw & He & Hl & Hs & Hn). unfold ser_top.
  rewrite (ser_good v He (init_state c e pos (vsig v) (FdsMode [])) Hw eq_refl eq_refl).
  - cbn [bind]. unfold after, marshal_top. rewrite abs_pos_init, nfd_init_fds. reflexivity.
  - split; [unfold dep_ok; cbn; lia|exact Hl].
  - rewrite nfd_init_fds. lia.
  - rewrite abs_pos_init, nfd_init_fds. exact Hs.
Qed.

Theorem size_top_exact c e pos v : encodable e pos v ->
  size_top c e pos (vsig v) (sval_of v) = Ok (len (marshal_top e pos v), nfds v).
Proof.
  intros (Hw & He & Hl & Hs & Hn). unfold size_top.
  rewrite (ser_good v He (init_state c e pos (vsig v) (NumMode 0)) Hw eq_refl eq_refl).
  - cbn [bind]. unfold after, marshal_top. rewrite abs_pos_init, nfd_init_num, written_grow. reflexivity.
  - split; [unfold dep_ok; cbn; lia|exact Hl].
  - rewrite nfd_init_num. lia.
  - rewrite abs_pos_init, nfd_init_num. exact Hs.
Qed.

(* ---------- facts about the specification's padding ---------- *)
Lemma padn_spec pos al : al <> 0 -> padn pos al < al /\ (pos + padn pos al) mod al = 0.
Proof.
  intros Hal. unfold padn. split; [apply N.mod_lt; assumption|].
  pose proof (N.mod_lt pos al Hal) as Hr. pose proof (N.div_mod pos al Hal) as Hdm.
  remember (pos mod al) as r eqn:Er. remember (pos / al) as q eqn:Eq.
  destruct (N.eq_dec r 0) as [E|E].
  - rewrite E, N.sub_0_r, N.mod_same, N.add_0_r by assumption. congruence.
  - rewrite (N.mod_small (al - r) al) by lia.
    replace (pos + (al - r)) with ((q + 1) * al)
      by (rewrite N.mul_add_distr_r, N.mul_1_l, (N.mul_comm q al); lia).
    apply N.mod_mul. assumption.
Qed.

(* non-vacuity: a nested value (dict of variants inside a struct, at an odd offset) is encodable *)
Example ex_value : dval :=
  VStruct [VU8 7; VDict SStr SVariant [(VStr (B "k"), VVariant (VArray SI16 [VI16 (-2); VI16 5])); (VStr (B "l"), VVariant (VFd 3))];
           VSigv (SArray SStr) false; VPath (B "/a/b")].
Example ex_encodable : encodable BE 5 ex_value.
Proof. unfold encodable. repeat split; vm_compute; reflexivity. Qed.
