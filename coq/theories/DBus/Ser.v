(* DBus/Ser.v — executable mirror of zvariant::dbus::Serializer (zvariant/src/dbus/ser.rs) and of
   SerializerCommon (zvariant/src/ser.rs), as a function of the serde data-model tree it is fed.
   One function per Serializer method; same case splits, same order of effects.  No proofs here. *)
From ZV Require Import Base.Bytes Base.Res Base.Sig Base.SigParse DBus.Val DBus.Spec.

(* the serde data model, as far as zvariant's serializer distinguishes it *)
Inductive sval :=
| XBool (b : bool) | XI8 (z : Z) | XI16 (z : Z) | XI32 (z : Z) | XI64 (z : Z)
| XU8 (n : N) | XU16 (n : N) | XU32 (n : N) | XU64 (n : N) | XF64 (bits : N)
| XStr (s : bytes) | XBytes (s : bytes)
| XNone | XSome (x : sval) | XUnit
| XSeq (l : list sval)
| XTuple (l : list sval)                         (* serialize_tuple / tuple_struct: anonymous fields *)
| XStruct (l : list (bytes * sval))              (* serialize_struct: named fields *)
| XMap (l : list (sval * sval))
| XUnitVariant (idx : N) (name : bytes)
| XNewtypeVariant (idx : N) (x : sval)
| XTupleVariant (idx : N) (l : list sval)
| XStructVariant (idx : N) (l : list (bytes * sval)).

Inductive depth_kind := DStruct | DArray | DTotal.
Inductive cerr := EDepth (k : depth_kind) | ESigMismatch | ESigParse | EBounds | EPadding | EValue | EUtf8
                | EUnknownFd | EType | EFuel | EOther.

Record depths := { d_struct : N; d_array : N; d_variant : N; d_maybe : N }.
Definition depths0 := {| d_struct := 0; d_array := 0; d_variant := 0; d_maybe := 0 |}.
(* container_depths.rs: MAX_STRUCT_DEPTH = MAX_ARRAY_DEPTH = 32, MAX_TOTAL_DEPTH = 64; `maybe` only counts with gvariant *)
Definition dcheck (d : depths) : res cerr depths :=
  if (32 <? d_struct d)%N then Err (EDepth DStruct)
  else if (32 <? d_array d)%N then Err (EDepth DArray)
  else if (64 <? d_struct d + d_array d + d_variant d + d_maybe d)%N then Err (EDepth DTotal)
  else Ok d.
Definition inc_struct d := dcheck {| d_struct := d_struct d + 1; d_array := d_array d; d_variant := d_variant d; d_maybe := d_maybe d |}.
Definition inc_array d := dcheck {| d_struct := d_struct d; d_array := d_array d + 1; d_variant := d_variant d; d_maybe := d_maybe d |}.
Definition inc_variant d := dcheck {| d_struct := d_struct d; d_array := d_array d; d_variant := d_variant d + 1; d_maybe := d_maybe d |}.
Definition dec_array d := {| d_struct := d_struct d; d_array := d_array d - 1; d_variant := d_variant d; d_maybe := d_maybe d |}.
Definition dec_struct d := {| d_struct := d_struct d - 1; d_array := d_array d; d_variant := d_variant d; d_maybe := d_maybe d |}.

Inductive fdlist := FdsMode (l : list N) | NumMode (n : N).

Record cfg := { c_gv : bool; c_oaa : bool }.

Record sstate := {
  s_cfg : cfg; s_e : endian; s_pos0 : N;
  s_out : bytes;                 (* everything written so far; bytes_written = length *)
  s_sig : sig; s_vsign : option sig; s_dep : depths; s_fds : fdlist }.

Definition set_out st o := {| s_cfg := s_cfg st; s_e := s_e st; s_pos0 := s_pos0 st; s_out := o; s_sig := s_sig st; s_vsign := s_vsign st; s_dep := s_dep st; s_fds := s_fds st |}.
Definition set_sig st g := {| s_cfg := s_cfg st; s_e := s_e st; s_pos0 := s_pos0 st; s_out := s_out st; s_sig := g; s_vsign := s_vsign st; s_dep := s_dep st; s_fds := s_fds st |}.
Definition set_vsign st g := {| s_cfg := s_cfg st; s_e := s_e st; s_pos0 := s_pos0 st; s_out := s_out st; s_sig := s_sig st; s_vsign := g; s_dep := s_dep st; s_fds := s_fds st |}.
Definition set_dep st d := {| s_cfg := s_cfg st; s_e := s_e st; s_pos0 := s_pos0 st; s_out := s_out st; s_sig := s_sig st; s_vsign := s_vsign st; s_dep := d; s_fds := s_fds st |}.
Definition set_fds st f := {| s_cfg := s_cfg st; s_e := s_e st; s_pos0 := s_pos0 st; s_out := s_out st; s_sig := s_sig st; s_vsign := s_vsign st; s_dep := s_dep st; s_fds := f |}.

Definition written (st : sstate) : N := len (s_out st).
Definition abs_pos (st : sstate) : N := (s_pos0 st + written st)%N.
Definition wr (st : sstate) (b : bytes) : sstate := set_out st (s_out st ++ b).

(* Signature::alignment(Format::DBus); Maybe is unreachable!() *)
Definition align_of (s : sig) : res cerr N :=
  match s with SMaybe _ => Panic PUnreachable | _ => Ok (align_dbus s) end.

(* add_padding: returns the new state and the number of padding bytes *)
Definition add_padding (st : sstate) (al : N) : sstate * N :=
  let p := padn (abs_pos st) al in (wr st (zeros p), p).
Definition padded (st : sstate) (al : N) : sstate := fst (add_padding st al).

Definition wr_u32 st (x : N) := wr st (enc (s_e st) 4 (x mod 2 ^ 32)).
Definition basic st (al : N) (nbytes : nat) (x : N) : res cerr sstate :=
  Ok (wr (padded st al) (enc (s_e st) nbytes x)).

(* add_fd.  FdList::Fds looks the caller's raw descriptor up among the descriptors it has already *dup'ed*;
   under the OS contract "dup returns a descriptor different from every open one" that lookup never succeeds,
   so every occurrence is dup'ed and appended (index = number attached so far) — the same count the size pass keeps. *)
Definition add_fd st (h : N) : sstate * N :=
  match s_fds st with
  | FdsMode l => (set_fds st (FdsMode (l ++ [h])), N.of_nat (length l))
  | NumMode n => (set_fds st (NumMode (n + 1)), n)
  end.

(* overwrite 4 bytes at offset [at] *)
Definition patch (out : bytes) (at_ : N) (b : bytes) : bytes :=
  takeN at_ out ++ b ++ dropN (at_ + len b) out.

Definition ser_str st (v : bytes) : res cerr sstate :=
  let* al := align_of (s_sig st) in
  let st := padded st al in
  let g := s_sig st in
  let* st := match g with
             | SVariant => match parse_sig (c_gv (s_cfg st)) v with
                           | Some p => Ok (set_vsign st (Some p))
                           | None => Err ESigParse
                           end
             | _ => Ok st
             end in
  let* st := match g with
             | SObjPath | SStr => if (len v <? 2 ^ 32)%N then Ok (wr_u32 st (len v)) else Panic PAssert
             | SSig | SVariant => if (len v <=? 255)%N then Ok (wr st [nb (len v)]) else Panic PAssert
             | _ => Err ESigMismatch
             end in
  Ok (wr (wr st v) [x00]).

(* serialize_seq: everything up to and including inc_array; returns (state, start, first_padding, array_signature) *)
Definition seq_begin st : res cerr (sstate * N * N * sig) :=
  let st := padded st 4 in
  let st := wr_u32 st 0 in
  let* (al, child) := match s_sig st with
                       | SArray c => let* a := align_of c in Ok (a, c)
                       | SDict k _ => Ok (8%N, k)
                       | _ => Err ESigMismatch
                       end in
  let array_sig := s_sig st in
  let st := set_sig st child in
  let '(st, fp) := add_padding st al in
  let start := written st in
  let* d := inc_array (s_dep st) in
  Ok (set_dep st d, start, fp, array_sig).

Definition seq_end st (start fp : N) (array_sig : sig) : res cerr sstate :=
  let array_len := (written st - start)%N in
  if negb (array_len <? 2 ^ 32)%N then Panic PAssert else
  let total := (array_len + fp + 4)%N in
  let st := set_out st (patch (s_out st) (written st - total) (enc (s_e st) 4 array_len)) in
  Ok (set_sig (set_dep st (dec_array (s_dep st))) array_sig).

(* what kind of StructSeqSerializer serialize_struct returns *)
Inductive sskind := KStruct (saved : depths) | KSeq (start fp : N) (asig : sig) | KMap (start fp : N) (asig ksig vsig : sig).

Definition struct_begin st : res cerr (sstate * sskind) :=
  let* al := align_of (s_sig st) in
  let st := padded st al in
  match s_sig st with
  | SVariant => let* d := inc_variant (s_dep st) in Ok (set_dep st d, KStruct (s_dep st))
  | SArray _ => let* (st, start, fp, asig) := seq_begin st in Ok (st, KSeq start fp asig)
  | SU8 => let* st := basic st 1 1 0 in Ok (st, KStruct (s_dep st))
  | SStruct _ => let* d := inc_struct (s_dep st) in Ok (set_dep st d, KStruct (s_dep st))
  | SDict k v => let* (st, start, fp, asig) := seq_begin st in Ok (st, KMap start fp asig k v)
  | _ => Err ESigMismatch
  end.

(* serialize_struct_element: choose the field signature *)
Definition field_sig st (idx : nat) : res cerr (sig * nat) :=
  match s_sig st with
  | SVariant => Ok (match s_vsign st with Some g => g | None => SVariant end, idx)
  | SStruct fs => match nth_error fs idx with Some g => Ok (g, S idx) | None => Err ESigMismatch end
  | _ => Panic PUnreachable
  end.

Definition sub_of st (g : sig) : sstate := set_vsign (set_sig st g) None.
Definition back_from st (sub : sstate) : sstate :=
  set_vsign (set_fds (set_out st (s_out sub)) (s_fds sub)) (s_vsign sub).

Fixpoint ser (x : sval) (st : sstate) {struct x} : res cerr sstate :=
  let elems := fix go (l : list sval) (st : sstate) {struct l} : res cerr sstate :=
      match l with [] => Ok st | y :: r => let* st1 := ser y st in go r st1 end in
  let fields := fix go (l : list sval) (idx : nat) (st : sstate) {struct l} : res cerr sstate :=
      match l with
      | [] => Ok st
      | y :: r => let* (g, idx') := field_sig st idx in
                  let* sub := ser y (sub_of st g) in
                  go r idx' (back_from st sub)
      end in
  let nfields := fix go (l : list (bytes * sval)) (idx : nat) (st : sstate) {struct l} : res cerr sstate :=
      match l with
      | [] => Ok st
      | (_, y) :: r => let* (g, idx') := field_sig st idx in
                       let* sub := ser y (sub_of st g) in
                       go r idx' (back_from st sub)
      end in
  let nelems := fix go (l : list (bytes * sval)) (st : sstate) {struct l} : res cerr sstate :=
      match l with [] => Ok st | (_, y) :: r => let* st1 := ser y st in go r st1 end in
  (* MapSerializer::serialize_key / serialize_value with a &'static str key *)
  let nentries := fix go (l : list (bytes * sval)) (ks vs : sig) (st : sstate) {struct l} : res cerr sstate :=
      match l with
      | [] => Ok st
      | (k, y) :: r => let st := padded st 8 in
                       let* st := ser_str st k in
                       let* st := ser y (set_sig st vs) in
                       go r ks vs (set_sig st ks)
      end in
  let entries := fix go (l : list (sval * sval)) (ks vs : sig) (st : sstate) {struct l} : res cerr sstate :=
      match l with
      | [] => Ok st
      | (k, y) :: r => let st := padded st 8 in
                       let* st := ser k st in
                       let* st := ser y (set_sig st vs) in
                       go r ks vs (set_sig st ks)
      end in
  (* StructSerializer::enum_variant *)
  let enum_begin := fun (st : sstate) (idx : N) =>
      match s_sig st with
      | SStruct fs =>
          let inner := match nth_error fs 1 with Some (SStruct g) => Some (SStruct g) | _ => None end in
          let st := padded st 8 in
          let saved := s_dep st in
          let* d := inc_struct (s_dep st) in
          let st := set_dep st d in
          let* (g, i1) := field_sig st 0 in
          let* sub := basic (sub_of st g) 4 4 (idx mod 2 ^ 32) in
          let st := back_from st sub in
          match inner with
          | Some g' => Ok (set_sig (padded st 8) g', 0%nat, saved)
          | None => Ok (st, i1, saved)
          end
      | _ => Err ESigMismatch
      end in
  match x with
  | XBool b => basic st 4 4 (if b then 1 else 0)
  | XI8 z | XI16 z => basic st 2 2 (twos 16 z)
  | XI64 z => basic st 8 8 (twos 64 z)
  | XI32 z =>
      match s_sig st with
      | SFd => let st := padded st 4 in
               let '(st, i) := add_fd st (Z.to_N z) in Ok (wr_u32 st i)
      | _ => basic st 4 4 (twos 32 z)
      end
  | XU8 n => basic st 1 1 n
  | XU16 n => basic st 2 2 n
  | XU32 n => basic st 4 4 n
  | XU64 n => basic st 8 8 n
  | XF64 b => basic st 8 8 b
  | XStr s => ser_str st s
  | XBytes s => let st := padded st 4 in Ok (wr (wr_u32 st (len s)) s)
  | XNone =>
      if c_oaa (s_cfg st) then
        let* (st, start, fp, asig) := seq_begin st in seq_end st start fp asig
      else Panic PUnreachable
  | XSome y =>
      if c_oaa (s_cfg st) then
        let* (st, start, fp, asig) := seq_begin st in
        let* st := ser y st in seq_end st start fp asig
      else Panic PUnreachable
  | XUnit => Ok st
  | XSeq l =>
      let* (st, start, fp, asig) := seq_begin st in
      let* st := elems l st in seq_end st start fp asig
  | XTuple l =>
      let* (st, k) := struct_begin st in
      match k with
      | KStruct saved => let* st := fields l 0%nat st in Ok (set_dep st saved)
      | KSeq start fp asig => let* st := elems l st in seq_end st start fp asig
      | KMap _ _ _ _ _ => match l with [] => Panic PUnreachable | _ => Panic PUnreachable end
      end
  | XStruct l =>
      let* (st, k) := struct_begin st in
      match k with
      | KStruct saved => let* st := nfields l 0%nat st in Ok (set_dep st saved)
      | KSeq start fp asig => let* st := nelems l st in seq_end st start fp asig
      | KMap start fp asig ks vs => let* st := nentries l ks vs st in seq_end st start fp asig
      end
  | XMap l =>
      match s_sig st with
      | SDict ks vs =>
          let* (st, start, fp, asig) := seq_begin st in
          let* st := entries l ks vs st in seq_end st start fp asig
      | _ => Err ESigMismatch
      end
  | XUnitVariant idx name =>
      match s_sig st with SStr => ser_str st name | _ => basic st 4 4 (idx mod 2 ^ 32) end
  | XNewtypeVariant idx y =>
      let* (st, i, saved) := enum_begin st idx in
      (* .and_then(|mut ser| ser.serialize_element(value)) : the StructSerializer is dropped without end() *)
      fields [y] i st
  | XTupleVariant idx l =>
      let* (st, i, saved) := enum_begin st idx in
      let* st := fields l i st in Ok (set_dep st saved)
  | XStructVariant idx l =>
      let* (st, i, saved) := enum_begin st idx in
      let* st := nfields l i st in Ok (set_dep st saved)
  end.

(* impl Serialize for Value / Array / Dict / Structure / Str / Signature / ObjectPath / Fd *)
Fixpoint sval_of (v : dval) : sval :=
  match v with
  | VU8 n => XU8 n | VBool b => XBool b | VI16 z => XI16 z | VU16 n => XU16 n | VI32 z => XI32 z
  | VU32 n => XU32 n | VI64 z => XI64 z | VU64 n => XU64 n | VF64 b => XF64 b
  | VStr s | VPath s => XStr s
  | VSigv s _ => XStr (show s)      (* Signature::serialize = to_string(): always with outer parentheses *)
  | VFd h => XI32 (Z.of_N h)
  | VVariant x => XStruct [(B "signature", XStr (show (vsig x))); (B "value", sval_of x)]
  | VArray _ l => XSeq (map sval_of l)
  | VDict _ _ l => XMap (map (fun p => (sval_of (fst p), sval_of (snd p))) l)
  | VStruct l => XTuple (map sval_of l)
  end.

Definition init_state (c : cfg) (e : endian) (pos : N) (g : sig) (f : fdlist) : sstate :=
  {| s_cfg := c; s_e := e; s_pos0 := pos; s_out := []; s_sig := g; s_vsign := None; s_dep := depths0; s_fds := f |}.

(* to_bytes_for_signature / serialized_size *)
Definition ser_top (c : cfg) (e : endian) (pos : N) (g : sig) (x : sval) : res cerr (bytes * list N) :=
  let* st := ser x (init_state c e pos g (FdsMode [])) in
  Ok (s_out st, match s_fds st with FdsMode l => l | NumMode _ => [] end).
Definition size_top (c : cfg) (e : endian) (pos : N) (g : sig) (x : sval) : res cerr (N * N) :=
  let* st := ser x (init_state c e pos g (NumMode 0)) in
  Ok (written st, match s_fds st with NumMode n => n | FdsMode _ => 0%N end).
