(* DBus/DeSoundDefs.v — C03 (soundness of the D-Bus decoder model): the definitions the statements need.
     wfL         : well-formedness of a value as far as the decoder enforces it = Spec.wf minus the grammar
                   clauses on the signatures that occur in the value;
     sigs_strict : exactly those grammar clauses (decidable);     wf_split : wf v = wfL v && sigs_strict v;
     sigs_nest_ok: the specification's limit on the nesting of a *signature* (32 array codes, 32 parentheses),
                   which neither Spec.wf nor the decoder looks at;
     sig_lenient : the known-deviation class of C03 (decidable; for the third output column of DBus/Run.v);
     parse_inv   : what zvariant's signature parser accepts is printed back by [show] (parse -> show direction).
   No dependency on DBus/Run.v (Run.v may import this file). *)
From ZV Require Import Base.Bytes Base.Res Base.Sig Base.SigParse Base.Utf8 Base.WinnowFacts
                       DBus.Val DBus.Spec DBus.Ser DBus.SerFacts DBus.SerProofs.
From Coq Require Import Lia.
Local Open Scope N_scope.

(* ---------- signatures all of whose structs have a field ---------- *)
Fixpoint sig_ne (s : sig) : bool :=
  match s with
  | SArray c | SMaybe c => sig_ne c
  | SDict k v => sig_ne k && sig_ne v
  | SStruct fs => (match fs with [] => false | _ => true end) && forallb sig_ne fs
  | _ => true
  end.

Lemma simple_show c s : simple_of c = Some s -> show s = [c] /\ sig_ne s = true.
Proof. destruct c; cbn; intros H; inversion H; split; reflexivity. Qed.

(* the parser consumes exactly the text that [show] prints for its result, and never builds an empty struct *)
Lemma parse_inv gv : forall fuel,
  (forall inp s r, parse_one fuel gv inp = Some (s, r) -> inp = show s ++ r /\ sig_ne s = true) /\
  (forall inp l r, parse_many fuel gv inp = (l, r) -> inp = concat (map show l) ++ r /\ forallb sig_ne l = true).
Proof.
  induction fuel as [|f [IH1 IHm]]; split.
  - intros inp s r H. discriminate H.
  - intros inp l r H. inversion H. split; reflexivity.
  - intros inp s r H. cbn [parse_one] in H. destruct inp as [|c t]; [discriminate|].
    destruct (simple_of c) eqn:Es.
    { inversion H; subst. destruct (simple_show _ _ Es) as [Hs Hn]. rewrite Hs. split; [reflexivity|exact Hn]. }
    destruct (beq c "a") eqn:Ea.
    + apply beq_eq in Ea. subst c. destruct t as [|c' r1]; [discriminate|]. destruct (beq c' "{") eqn:Eb.
      * apply beq_eq in Eb. subst c'.
        destruct (parse_one f gv r1) as [[k r2]|] eqn:Ek; [|discriminate].
        destruct (parse_one f gv r2) as [[v [|c4 r4]]|] eqn:Ev; try discriminate.
        destruct (beq c4 "}") eqn:Ec; [|discriminate]. apply beq_eq in Ec. subst c4. inversion H; subst.
        destruct (IH1 _ _ _ Ek) as [Hk1 Hk2]. destruct (IH1 _ _ _ Ev) as [Hv1 Hv2]. subst r1 r2.
        cbn [sig_ne]. rewrite Hk2, Hv2. split; [|reflexivity].
        cbn [show]. change (B "a{") with ["a"%byte; "{"%byte]. change (B "}") with ["}"%byte].
        cbn [app]. rewrite <- !app_assoc. reflexivity.
      * destruct (parse_one f gv (c' :: r1)) as [[c0 r']|] eqn:E0; [|discriminate].
        inversion H; subst. destruct (IH1 _ _ _ E0) as [H01 H02]. cbn [sig_ne show]. rewrite H01.
        split; [reflexivity|exact H02].
    + destruct (beq c "(") eqn:Ep.
      * apply beq_eq in Ep. subst c.
        destruct (parse_many f gv t) as [[|x l] [|c4 r']] eqn:Em; try discriminate.
        destruct (beq c4 ")") eqn:Ec; [|discriminate]. apply beq_eq in Ec. subst c4. inversion H; subst.
        destruct (IHm _ _ _ Em) as [Hm1 Hm2]. subst t. cbn [sig_ne]. rewrite Hm2. split; [|reflexivity].
        cbn [show]. change (B "(") with ["("%byte]. change (B ")") with [")"%byte]. cbn [app].
        rewrite <- !app_assoc. reflexivity.
      * destruct (beq c "m") eqn:Emy.
        { apply beq_eq in Emy. subst c. destruct gv; [|discriminate].
          destruct (parse_one f true t) as [[c0 r']|] eqn:E0; [|discriminate].
          inversion H; subst. destruct (IH1 _ _ _ E0) as [H01 H02]. cbn [sig_ne show]. rewrite H01.
          split; [reflexivity|exact H02]. }
        destruct (beq c "h") eqn:Eh; [|discriminate]. apply beq_eq in Eh. subst c. inversion H; subst. split; reflexivity.
  - intros inp l r H. cbn [parse_many] in H. destruct (parse_one f gv inp) as [[s r1]|] eqn:E1.
    + destruct (parse_many f gv r1) as [l' r'] eqn:Em. inversion H; subst.
      destruct (IH1 _ _ _ E1) as [H11 H12]. destruct (IHm _ _ _ Em) as [Hm1 Hm2]. subst inp r1.
      cbn [map concat forallb]. rewrite H12, Hm2. split; [|reflexivity]. now rewrite <- app_assoc.
    + inversion H. split; reflexivity.
Qed.

Lemma parse_sig_inv gv s g : parse_sig gv s = Some g ->
  sig_ne g = true /\
  (s = show g \/ exists x y l, g = SStruct (x :: y :: l) /\ s = concat (map show (x :: y :: l))).
Proof.
  unfold parse_sig. destruct s as [|c t]; [intros H; inversion H; split; [reflexivity|left; reflexivity]|].
  destruct (parse_many (sig_fuel (c :: t)) gv (c :: t)) as [l r] eqn:Em.
  destruct (proj2 (parse_inv gv _) _ _ _ Em) as [Hl1 Hl2].
  destruct l as [|x [|y l]]; [discriminate| |]; destruct r; try discriminate; intros H; inversion H; subst g;
    rewrite app_nil_r in Hl1.
  - cbn [forallb] in Hl2. rewrite andb_true_r in Hl2. split; [exact Hl2|]. left. rewrite Hl1. cbn. apply app_nil_r.
  - split; [exact Hl2|]. right. exists x, y, l. split; [reflexivity|exact Hl1].
Qed.

(* ---------- well-formedness as far as the decoder enforces it ---------- *)
Definition sig_text (s : sig) (np : bool) : bytes := if np then show_noparens s else show s.

Fixpoint wfL (v : dval) : bool :=
  match v with
  | VU8 n => (n <? 256)%N
  | VBool _ => true
  | VI16 z => (-32768 <=? z)%Z && (z <? 32768)%Z
  | VU16 n => (n <? 65536)%N
  | VI32 z => (-2147483648 <=? z)%Z && (z <? 2147483648)%Z
  | VU32 n => (n <? 4294967296)%N
  | VI64 z => (-9223372036854775808 <=? z)%Z && (z <? 9223372036854775808)%Z
  | VU64 n => (n <? 18446744073709551616)%N
  | VF64 b => (b <? 18446744073709551616)%N
  | VStr s => str_ok s
  | VPath s => path_ok s && (len s <? 2 ^ 32)%N
  | VSigv s np => (len (sig_text s np) <=? 255)%N
                  && (negb np || match s with SStruct (_ :: _ :: _) => true | _ => false end)
  | VFd _ => true
  | VVariant x => wfL x && (len (show (vsig x)) <=? 255)%N
  | VArray el l => forallb (fun x => wfL x && sig_eqb (vsig x) el) l
  | VDict k vs l => forallb (fun p => wfL (fst p) && wfL (snd p) && sig_eqb (vsig (fst p)) k
                                      && sig_eqb (vsig (snd p)) vs) l
  | VStruct l => (match l with [] => false | _ => true end) && forallb wfL l
  end.

(* every signature occurring in the value (element, key and value types, the type of a variant's payload,
   SIGNATURE-typed values) satisfies the grammar clauses of Spec.wf *)
Fixpoint sigs_strict (v : dval) : bool :=
  match v with
  | VSigv s np => sigval_ok s np
  | VVariant x => sigs_strict x && single_ok (vsig x)
  | VArray el l => single_ok el && forallb sigs_strict l
  | VDict k vs l => is_basic k && single_ok vs && forallb (fun p => sigs_strict (fst p) && sigs_strict (snd p)) l
  | VStruct l => forallb sigs_strict l
  | _ => true
  end.

Lemma len_sig_text s np : len (sig_text s np) <= len (show s).
Proof.
  destruct np; cbn [sig_text]; [|lia]. destruct s; cbn [show_noparens]; try lia.
  cbn [show]. rewrite !len_app. lia.
Qed.

Lemma forallb_split {A} (f g h : A -> bool) (c : A -> bool) l :
  Forall (fun x => f x = g x && h x) l ->
  forallb (fun x => f x && c x) l = forallb (fun x => g x && c x) l && forallb h l.
Proof.
  induction 1 as [|x l Hx Hl IH]; [reflexivity|]. cbn [forallb]. rewrite IH, Hx.
  destruct (g x), (h x), (c x), (forallb (fun x => g x && c x) l), (forallb h l); reflexivity.
Qed.

Theorem wf_split : forall v, wf v = wfL v && sigs_strict v.
Proof.
  induction v using dval_ind'.
  - destruct v; try contradiction; cbn [wf wfL sigs_strict]; rewrite ?andb_true_r; try reflexivity.
    destruct (sigval_ok s np) eqn:Hs.
    + assert (Hl : (len (sig_text s np) <=? 255) = true).
      { unfold sigval_ok in Hs. apply andb_true_iff in Hs as [_ Hs]. exact Hs. }
      rewrite Hl. cbn [andb]. now rewrite andb_true_r.
    + now rewrite andb_false_r.
  - cbn [wf wfL sigs_strict]. rewrite IHv.
    destruct (wfL v), (sigs_strict v), (single_ok (vsig v)), (len (show (vsig v)) <=? 255); reflexivity.
  - cbn [wf wfL sigs_strict].
    rewrite (forallb_split wf wfL sigs_strict (fun x => sig_eqb (vsig x) e) l H).
    destruct (single_ok e), (forallb _ l), (forallb sigs_strict l); reflexivity.
  - cbn [wf wfL sigs_strict].
    assert (E : forallb (fun p => wf (fst p) && wf (snd p) && sig_eqb (vsig (fst p)) k && sig_eqb (vsig (snd p)) v) l =
                forallb (fun p => wfL (fst p) && wfL (snd p) && sig_eqb (vsig (fst p)) k && sig_eqb (vsig (snd p)) v) l
                && forallb (fun p => sigs_strict (fst p) && sigs_strict (snd p)) l).
    { induction H as [|p l [Hp1 Hp2] Hl IH]; [reflexivity|]. cbn [forallb]. rewrite IH, Hp1, Hp2.
      destruct (wfL (fst p)), (wfL (snd p)), (sigs_strict (fst p)), (sigs_strict (snd p)),
        (sig_eqb (vsig (fst p)) k), (sig_eqb (vsig (snd p)) v),
        (forallb (fun p => wfL (fst p) && wfL (snd p) && sig_eqb (vsig (fst p)) k && sig_eqb (vsig (snd p)) v) l),
        (forallb (fun p => sigs_strict (fst p) && sigs_strict (snd p)) l); reflexivity. }
    rewrite E. destruct (is_basic k), (single_ok v), (forallb _ l), (forallb _ l); reflexivity.
  - cbn [wf wfL sigs_strict].
    assert (E : forallb wf l = forallb wfL l && forallb sigs_strict l).
    { induction H as [|x l Hx Hl IH]; [reflexivity|]. cbn [forallb]. rewrite IH, Hx.
      destruct (wfL x), (sigs_strict x), (forallb wfL l), (forallb sigs_strict l); reflexivity. }
    rewrite E. destruct l; [reflexivity|]. cbn [andb]. reflexivity.
Qed.

Corollary wfL_strict_wf v : wfL v = true -> sigs_strict v = true -> wf v = true.
Proof. intros H1 H2. now rewrite wf_split, H1, H2. Qed.
Corollary wf_wfL v : wf v = true -> wfL v = true /\ sigs_strict v = true.
Proof. rewrite wf_split. intros H. now apply andb_true_iff in H. Qed.

(* ---------- the specification's limit on the nesting of a signature ----------
   "The maximum depth of container type nesting is 32 array type codes and 32 open parentheses."
   (dict entries are written a{..}: they cost one array code)  [da], [ds]: remaining budget. *)
Fixpoint nest_ok (da ds : nat) (s : sig) {struct s} : bool :=
  match s with
  | SArray c | SMaybe c => match da with O => false | S da' => nest_ok da' ds c end
  | SDict k v => match da with O => false | S da' => nest_ok da' ds k && nest_ok da' ds v end
  | SStruct fs => match ds with O => false | S ds' => forallb (nest_ok da ds') fs end
  | _ => true
  end.
Definition sig_nest_ok (s : sig) : bool := nest_ok 32 32 s.
Definition sigv_nest_ok (s : sig) (np : bool) : bool :=
  match np, s with
  | true, SStruct fs => forallb sig_nest_ok fs      (* several complete types, written without parentheses *)
  | _, _ => sig_nest_ok s
  end.
Fixpoint inner_nest_ok (v : dval) : bool :=
  match v with
  | VSigv s np => sigv_nest_ok s np
  | VVariant x => sig_nest_ok (vsig x) && inner_nest_ok x
  | VArray _ l | VStruct l => forallb inner_nest_ok l
  | VDict _ _ l => forallb (fun p => inner_nest_ok (fst p) && inner_nest_ok (snd p)) l
  | _ => true
  end.
Definition sigs_nest_ok (v : dval) : bool := sig_nest_ok (vsig v) && inner_nest_ok v.

(* the known-deviation class of C03: some signature inside the decoded value is outside the D-Bus grammar
   (non-basic dict key, unit/maybe/empty struct as a complete type, over-long or over-deep signature) *)
Definition sig_lenient (v : dval) : bool := negb (sigs_strict v) || negb (sigs_nest_ok v).
