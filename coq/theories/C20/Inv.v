(* C20/Inv.v — the invariant of the stream system (every reachable state, every history) and its preservation. *)
From ZV Require Import Base.Bytes Base.Res C19.Broadcast C19.BroadcastFacts C20.Model C20.Lemmas C20.Steps.
From Coq Require Import Lia Permutation.

Section Inv.
Variable matches : nat -> msg -> bool.
Notation step := (Model.step matches).
Notation tstep := (Steps.tstep matches).
Notation targets := (Model.targets matches).
Notation key_matches := (Model.key_matches matches).
Notation reach := (Model.reach matches).

(* an add_match call between its two steps on the Vacant path: it holds `subscriptions` *)
Definition a2 (s : sys) (sid r c : nat) : Prop := exists a, lookup (adds s) sid = Some a /\ a_rule a = r /\ a_pc a = A2 c.
(* a remove_match call between its two steps on the last-reference path: it holds `subscriptions` *)
Definition r1 (s : sys) (r c : nat) : Prop :=
  (exists sid st, lookup (drops s) sid = Some (R1 c) /\ lookup (streams s) sid = Some st /\ s_rule st = Some r) \/
  In (r, R1 c) (tasks s).

Definition skey (st : stream) : key := match s_rule st with Some r => KRule r | None => KAll end.
Definition msgs (l : list item) : list msg := flat_map (fun it => match it with IMsg m => [m] | IFail _ => [] end) l.
Definition accepts (k : key) (m : msg) : bool := key_matches k (IMsg m).
(* the incoming messages that have been decided for the stream's channel since it subscribed *)
Definition window (s : sys) (st : stream) : list msg := skipn (s_from st) (firstn (seen s (s_ch st)) (incoming s)).

Record Inv (s : sys) : Prop := {
  inv_len : 2 <= length (chans s);
  inv_keys : NoDup (map fst (senders s));
  inv_shape : forall k c, In (k, c) (senders s) ->
      c < length (chans s) /\ match k with KAll => c = 0 | KRet | KErr => c = 1 | KRule _ => 2 <= c end;
  inv_inj : forall r r' c, In (KRule r, c) (senders s) -> In (KRule r', c) (senders s) -> r = r';
  inv_reg : forall r c, In (KRule r, c) (senders s) -> (exists e, lookup (subs s) r = Some e /\ e_ch e = c) \/ r1 s r c;
  inv_entry : forall r e, lookup (subs s) r = Some e -> 2 <= e_ch e < length (chans s);
  inv_entry_inj : forall r r' e e', lookup (subs s) r = Some e -> lookup (subs s) r' = Some e' -> e_ch e = e_ch e' -> r = r';
  inv_excl : forall sid r c r' c', a2 s sid r c -> r1 s r' c' -> False;
  inv_a2_uniq : forall sid r c sid' r' c', a2 s sid r c -> a2 s sid' r' c' -> sid = sid';
  inv_a2 : forall sid r c, a2 s sid r c ->
      (exists e, lookup (subs s) r = Some e /\ e_ch e = c) /\ (forall k, ~ In (k, c) (senders s)) /\
      log (chan_at s c) = [] /\ closed (chan_at s c) = false /\ cursor (chan_at s c) sid = Some 0 /\
      2 <= c < length (chans s) /\ (forall sid' st, lookup (streams s) sid' = Some st -> s_ch st <> c);
  inv_cur : forall c id p, c < length (chans s) -> cursor (chan_at s c) id = Some p ->
      p <= tail (chan_at s c) /\ ((exists st, lookup (streams s) id = Some st /\ s_ch st = c) \/ (exists r, a2 s id r c));
  inv_stream : forall sid st, lookup (streams s) sid = Some st ->
      s_ch st < length (chans s) /\ (exists p, cursor (chan_at s (s_ch st)) sid = Some p) /\ (s_rule st = None -> s_ch st = 0);
  inv_ids : forall sid a, lookup (adds s) sid = Some a -> lookup (streams s) sid = None;
  inv_todo : forall it todo, reader s = RPush it todo ->
      (forall c, In c todo -> exists k, In (k, c) (senders s) /\ key_matches k it = true) /\ (forall m, it = IMsg m -> NoDup todo);
  inv_last : forall m, reader s = RHave (IMsg m) \/ (exists todo, reader s = RPush (IMsg m) todo) -> exists pre, incoming s = pre ++ [m];
  inv_closed : forall k c, In (k, c) (senders s) -> closed (chan_at s c) = true ->
      2 <= c /\ rcv (chan_at s c) = [] /\ (forall r e, lookup (subs s) r = Some e -> e_ch e <> c);
  inv_drops : forall sid pc, lookup (drops s) sid = Some pc -> exists st r, lookup (streams s) sid = Some st /\ s_rule st = Some r;
  inv_from : forall sid st, lookup (streams s) sid = Some st -> s_from st <= seen s (s_ch st);
  inv_deliv : forall sid st, lookup (streams s) sid = Some st -> In (skey st, s_ch st) (senders s) ->
      msgs (s_got st) ++ msgs (unread (chan_at s (s_ch st)) sid) = filter (accepts (skey st)) (window s st)
}.

(* ---- what `subscriptions` being free means ---- *)
Lemma not_busy_a2 s sid r c : subs_busy s = false -> ~ a2 s sid r c.
Proof.
  unfold subs_busy. intros Hb (a & Ha & _ & Hpc). apply orb_false_iff in Hb. destruct Hb as [Hb _].
  apply orb_false_iff in Hb. destruct Hb as [Hb _].
  assert (existsb (fun p => match a_pc (snd p) with A2 _ => true | _ => false end) (adds s) = true).
  { apply existsb_exists. exists (sid, a). split; [now apply lookup_in | cbn; now rewrite Hpc]. }
  congruence.
Qed.
Lemma not_busy_r1 s r c : subs_busy s = false -> ~ r1 s r c.
Proof.
  unfold subs_busy. intros Hb H. apply orb_false_iff in Hb. destruct Hb as [Hb Hb3]. apply orb_false_iff in Hb. destruct Hb as [_ Hb2].
  destruct H as [(sid & st & Hd & _)|Hin].
  - assert (existsb (fun p => match snd p with R1 _ => true | _ => false end) (drops s) = true).
    { apply existsb_exists. exists (sid, R1 c). split; [now apply lookup_in | reflexivity]. }
    congruence.
  - assert (existsb (fun p => match snd p with R1 _ => true | _ => false end) (tasks s) = true).
    { apply existsb_exists. exists (r, R1 c). split; [assumption | reflexivity]. }
    congruence.
Qed.

(* ---- seen ---- *)
Lemma seen_le s c : seen s c <= length (incoming s).
Proof. unfold seen. lia. Qed.

(* ---- remove_match once it has `subscriptions`: the three ways it can go ---- *)
Inductive rm_spec (s : sys) (r : nat) : sys -> option nat -> Prop :=
  | rm_absent : lookup (subs s) r = None -> rm_spec s r s None
  | rm_dec e n : lookup (subs s) r = Some e -> e_ref e = S (S n) ->
      rm_spec s r (with_subs s (put (subs s) r {| e_ref := S n; e_ch := e_ch e |})) None
  | rm_last_open e : lookup (subs s) r = Some e -> e_ref e <= 1 -> rcv (chan_at s (e_ch e)) <> [] ->
      rm_spec s r (with_subs s (del (subs s) r)) (Some (e_ch e))
  | rm_last_close e : lookup (subs s) r = Some e -> e_ref e <= 1 -> rcv (chan_at s (e_ch e)) = [] ->
      rm_spec s r (set_chan (with_subs s (del (subs s) r)) (e_ch e) (close (chan_at s (e_ch e)))) (Some (e_ch e)).

Lemma rm_apply_spec s r s1 o : rm_apply s r = (s1, o) -> rm_spec s r s1 o.
Proof.
  unfold rm_apply. destruct (lookup (subs s) r) as [e|] eqn:El; [|intros H; inversion H; subst; now constructor].
  destruct (e_ref e) as [|[|n]] eqn:Er.
  - change (chan_at (with_subs s (del (subs s) r)) (e_ch e)) with (chan_at s (e_ch e)).
    destruct (rcv (chan_at s (e_ch e))) eqn:Erc; intros H; inversion H; subst.
    + eapply rm_last_close; eauto. lia.
    + eapply rm_last_open; eauto; [lia | congruence].
  - change (chan_at (with_subs s (del (subs s) r)) (e_ch e)) with (chan_at s (e_ch e)).
    destruct (rcv (chan_at s (e_ch e))) eqn:Erc; intros H; inversion H; subst.
    + eapply rm_last_close; eauto. lia.
    + eapply rm_last_open; eauto; [lia | congruence].
  - intros H; inversion H; subst. eapply rm_dec; eauto.
Qed.

(* ---- group 1: the tables ---- *)
Record G1 (s : sys) : Prop := {
  g_len : 2 <= length (chans s);
  g_keys : NoDup (map fst (senders s));
  g_shape : forall k c, In (k, c) (senders s) ->
      c < length (chans s) /\ match k with KAll => c = 0 | KRet | KErr => c = 1 | KRule _ => 2 <= c end;
  g_inj : forall r r' c, In (KRule r, c) (senders s) -> In (KRule r', c) (senders s) -> r = r';
  g_reg : forall r c, In (KRule r, c) (senders s) -> (exists e, lookup (subs s) r = Some e /\ e_ch e = c) \/ r1 s r c;
  g_entry : forall r e, lookup (subs s) r = Some e -> 2 <= e_ch e < length (chans s);
  g_entry_inj : forall r r' e e', lookup (subs s) r = Some e -> lookup (subs s) r' = Some e' -> e_ch e = e_ch e' -> r = r';
  g_excl : forall sid r c r' c', a2 s sid r c -> r1 s r' c' -> False;
  g_a2_uniq : forall sid r c sid' r' c', a2 s sid r c -> a2 s sid' r' c' -> sid = sid';
  g_drops : forall sid pc, lookup (drops s) sid = Some pc -> exists st r, lookup (streams s) sid = Some st /\ s_rule st = Some r;
  g_ids : forall sid a, lookup (adds s) sid = Some a -> lookup (streams s) sid = None
}.

Lemma Inv_G1 s : Inv s -> G1 s.
Proof. intros I. constructor; apply I. Qed.

End Inv.
