(* C20/Main.v — the theorems of C20 in the form in which Properties/C20.v states them. *)
From ZV Require Import Base.Bytes Base.Res C19.Broadcast C19.BroadcastFacts C20.Model C20.Lemmas C20.Steps C20.Inv C20.Proofs C20.Count
  C20.Arcs C20.Progress C20.Share C20.Examples.
From Coq Require Import Lia.

Section Main.
Variable matches : nat -> msg -> bool.
Notation reach := (Model.reach matches).
Notation step := (Model.step matches).

Theorem delivery_full tr s sid st : reach tr s -> lookup (streams s) sid = Some st -> reader s <> RStopped ->
  msgs (s_got st) ++ msgs (unread (chan_at s (s_ch st)) sid) =
  filter (accepts matches (skey st)) (skipn (s_from st) (firstn (seen s (s_ch st)) (incoming s))).
Proof. exact (delivery_all matches tr s sid st). Qed.

Theorem delivery_full_quiescent tr s sid st : reach tr s -> lookup (streams s) sid = Some st ->
  reader s = RIdle -> unread (chan_at s (s_ch st)) sid = [] ->
  msgs (s_got st) = filter (accepts matches (skey st)) (skipn (s_from st) (incoming s)).
Proof.
  intros Hr Hl Hrd Hu. assert (Hns : reader s <> RStopped) by congruence.
  pose proof (delivery_full _ _ _ _ Hr Hl Hns) as H. rewrite Hu in H. cbn in H. rewrite app_nil_r in H.
  unfold seen, pending_on in H. rewrite Hrd, Nat.sub_0_r, firstn_all in H. exact H.
Qed.

Theorem registered tr s sid st : reach tr s -> lookup (streams s) sid = Some st ->
  In (skey st, s_ch st) (senders s) \/ reader s = RStopped.
Proof. exact (registered_live matches tr s sid st). Qed.

Theorem share_full tr s : reach tr s ->
  (forall r, match lookup (subs s) r with Some e => e_ref e = holders s r | None => holders s r = 0 end) /\
  (forall sid st r e, lookup (streams s) sid = Some st -> s_rule st = Some r -> lookup (subs s) r = Some e -> s_ch st = e_ch e) /\
  (forall sid st r, lookup (streams s) sid = Some st -> s_rule st = Some r ->
     exists i ms, idx_of (arcs s) sid = Some i /\ nth_error (arcs s) i = Some (r, ms)) /\
  (forall r ms sid, In (r, ms) (arcs s) -> In sid ms -> exists st, lookup (streams s) sid = Some st /\ s_rule st = Some r).
Proof. intros Hr. destruct (share_reach_full matches tr s Hr) as (C & G & _ & [G1 G2]). repeat split; assumption. Qed.

(* back-pressure, at full strength: a reader waiting for room waits behind a stream that the application can poll *)
Theorem progress_full tr s it c todo : reach tr s -> reader s = RPush it (c :: todo) -> try_push it (chan_at s c) = PFull ->
  exists sid st s', lookup (streams s) sid = Some st /\ s_ch st = c /\ step (LPoll sid) s = Some s'.
Proof. intros Hr. apply (progress matches tr); [assumption|]. exact (drops_nil matches tr s Hr). Qed.

Theorem no_async_drop tr s sid : reach tr s -> drops s = [] /\ step (LDropSubs sid) s = None /\ step (LDropSender sid) s = None.
Proof. intros Hr. split; [exact (drops_nil matches tr s Hr) | exact (async_drop_labels_dead matches tr s sid Hr)]. Qed.

End Main.

(* ---- non-vacuity: a history with two rules and three messages, rule r matches the messages whose member is r ---- *)
Definition by_member : nat -> msg -> bool := fun r m => Nat.eqb (m_member m) r.
Definition sg (k mem : nat) : msg := {| m_id := k; m_type := TSignal; m_iface := 0; m_member := mem |}.
Definition ex_trace : list label :=
  [LAddStart 0 1 None; LAddCheck 0; LAddSubs 0; LAddSender 0;
   LArrive (IMsg (sg 1 1)); LArrive (IMsg (sg 2 0)); LArrive (IMsg (sg 3 1));
   LRead; LFan [0; 2]; LPush; LPush; LNext;
   LRead; LFan [0]; LPush; LNext;
   LAddStart 1 1 None; LAddCheck 1; LAddSubs 1;
   LRead; LFan [2; 0]; LPush; LPush; LNext;
   LPoll 0; LPoll 0; LPoll 1].
Definition ex_state : sys := match Model.exec by_member ex_trace init with Some s => s | None => init end.
Lemma ex_exec : Model.exec by_member ex_trace init = Some ex_state.
Proof. vm_compute. reflexivity. Qed.
Lemma ex_facts :
  Model.reach by_member ex_trace ex_state /\ reader ex_state = RIdle /\
  incoming ex_state = [sg 1 1; sg 2 0; sg 3 1] /\
  (exists st, lookup (streams ex_state) 0 = Some st /\ s_from st = 0 /\ s_got st = [IMsg (sg 1 1); IMsg (sg 3 1)]) /\
  (exists st, lookup (streams ex_state) 1 = Some st /\ s_from st = 2 /\ s_got st = [IMsg (sg 3 1)]) /\
  lookup (subs ex_state) 1 = Some {| e_ref := 2; e_ch := 2 |} /\ holders ex_state 1 = 2.
Proof.
  split; [apply exec_reach, ex_exec|]. vm_compute. repeat split; try reflexivity; eexists; repeat split; reflexivity.
Qed.

(* ---- the history that used to end in the async_drop deadlock (queue of 1 full, the reader waiting for room in it, then
   async_drop of that stream) now runs on: the drop releases the receiver, the reader's push goes ahead, remove_match completes ---- *)
Definition former_deadlock_trace : list label :=
  [LAddStart 0 0 (Some 1); LAddCheck 0; LAddSubs 0; LAddSender 0;
   LArrive (IMsg (sig 1)); LRead; LFan [0; 2]; LPush; LPush; LNext;
   LArrive (IMsg (sig 2)); LRead; LFan [0; 2]; LPush;
   LDropStart 0; LPush; LNext; LTaskSubs 0; LTaskSender 0].
Lemma former_deadlock_runs :
  exists s, Model.exec all_match former_deadlock_trace init = Some s /\ reader s = RIdle /\ tasks s = [] /\ subs s = [] /\
            subs_busy s = false /\ senders s = [(KAll, 0); (KRet, 1); (KErr, 1)].
Proof. eexists. split; [vm_compute; reflexivity|]. vm_compute. repeat split; reflexivity. Qed.
