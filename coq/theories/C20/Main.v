(* C20/Main.v — the theorems of C20 in the form in which Properties/C20.v states them. *)
From ZV Require Import Base.Bytes Base.Res C19.Broadcast C19.BroadcastFacts C20.Model C20.Lemmas C20.Steps C20.Inv C20.Proofs C20.Count
  C20.Progress C20.Share C20.Refute.
From Coq Require Import Lia.

Definition has_clone (tr : list label) : bool := existsb (fun l => match l with LClone _ _ => true | _ => false end) tr.

Lemma no_clone_iff tr : has_clone tr = false <-> no_clone tr.
Proof.
  unfold has_clone, no_clone. split.
  - intros H a b Hin. assert (existsb (fun l => match l with LClone _ _ => true | _ => false end) tr = true); [|congruence].
    apply existsb_exists. exists (LClone a b). split; [assumption | reflexivity].
  - intros H. destruct (existsb _ tr) eqn:E; [|reflexivity]. apply existsb_exists in E. destruct E as (l & Hin & Hl). destruct l; try discriminate.
    destruct (H _ _ Hin).
Qed.

Lemma in_r1_false s sid : (forall c, lookup (drops s) sid <> Some (R1 c)) -> in_r1 s sid = false.
Proof. unfold in_r1. intros H. destruct (lookup (drops s) sid) as [[|c]|]; try reflexivity. destruct (H c eq_refl). Qed.

Section Main.
Variable matches : nat -> msg -> bool.
Notation reach := (Model.reach matches).
Notation step := (Model.step matches).

Theorem delivery_partial tr s sid st : reach tr s -> has_clone tr = false ->
  lookup (streams s) sid = Some st -> (forall c, lookup (drops s) sid <> Some (R1 c)) -> reader s <> RStopped ->
  msgs (s_got st) ++ msgs (unread (chan_at s (s_ch st)) sid) =
  filter (accepts matches (skey st)) (skipn (s_from st) (firstn (seen s (s_ch st)) (incoming s))).
Proof. intros Hr Hc Hl Hd Hrd. apply (delivery_no_clone matches tr s sid st); try assumption; [now apply no_clone_iff | now apply in_r1_false]. Qed.

Theorem delivery_partial_quiescent tr s sid st : reach tr s -> has_clone tr = false ->
  lookup (streams s) sid = Some st -> (forall c, lookup (drops s) sid <> Some (R1 c)) ->
  reader s = RIdle -> unread (chan_at s (s_ch st)) sid = [] ->
  msgs (s_got st) = filter (accepts matches (skey st)) (skipn (s_from st) (incoming s)).
Proof.
  intros Hr Hc Hl Hd Hrd Hu. assert (Hns : reader s <> RStopped) by congruence.
  pose proof (delivery_partial _ _ _ _ Hr Hc Hl Hd Hns) as H. rewrite Hu in H. cbn in H. rewrite app_nil_r in H.
  unfold seen, pending_on in H. rewrite Hrd, Nat.sub_0_r, firstn_all in H. exact H.
Qed.

Theorem registered tr s sid st : reach tr s -> has_clone tr = false ->
  lookup (streams s) sid = Some st -> (forall c, lookup (drops s) sid <> Some (R1 c)) ->
  In (skey st, s_ch st) (senders s) \/ reader s = RStopped.
Proof. intros Hr Hc Hl Hd. apply (registered_live matches tr s sid st); try assumption; [now apply no_clone_iff | now apply in_r1_false]. Qed.

Theorem share_partial tr s : reach tr s -> has_clone tr = false ->
  (forall r, match lookup (subs s) r with Some e => e_ref e = holders s r | None => holders s r = 0 end) /\
  (forall sid st r e, lookup (streams s) sid = Some st -> s_rule st = Some r -> in_r1 s sid = false -> lookup (subs s) r = Some e ->
     s_ch st = e_ch e).
Proof. intros Hr Hc. apply (share_reach matches tr); [assumption | now apply no_clone_iff]. Qed.

Theorem progress_partial tr s it c todo : reach tr s -> match drops s with [] => false | _ => true end = false ->
  reader s = RPush it (c :: todo) -> try_push it (chan_at s c) = PFull ->
  exists sid st s', lookup (streams s) sid = Some st /\ s_ch st = c /\ step (LPoll sid) s = Some s'.
Proof. intros Hr Hk. apply (progress matches tr); [assumption|]. now destruct (drops s). Qed.

End Main.

(* ---- the full statements fail on the code as it is ---- *)
Theorem delivery_full_refuted :
  ~ (forall matches tr s sid st, Model.reach matches tr s ->
       lookup (streams s) sid = Some st -> (forall c, lookup (drops s) sid <> Some (R1 c)) -> reader s <> RStopped ->
       msgs (s_got st) ++ msgs (unread (chan_at s (s_ch st)) sid) =
       filter (accepts matches (skey st)) (skipn (s_from st) (firstn (seen s (s_ch st)) (incoming s)))).
Proof.
  intros H. destruct clone_misses as (Hr & st & Hl & Hd & Hrd & _ & Hu & Hf & Hi & Ha & Hg).
  assert (Hnd : forall c, lookup (drops clone_state) 0 <> Some (R1 c)) by (intros c; rewrite Hd; discriminate).
  assert (Hns : reader clone_state <> RStopped) by (rewrite Hrd; discriminate).
  specialize (H all_match clone_trace clone_state 0 st Hr Hl Hnd Hns). rewrite Hu, Hg, Hf, Hi in H. unfold seen, pending_on in H. rewrite Hrd, Hi in H.
  cbn [length Nat.sub firstn skipn filter msgs flat_map app] in H. rewrite Ha in H. discriminate.
Qed.

Theorem share_full_refuted :
  exists tr s r e, Model.reach all_match tr s /\ lookup (subs s) r = Some e /\ e_ref e <> holders s r.
Proof.
  pose (tr := [LAddStart 0 0 (Some 2); LAddCheck 0; LAddSubs 0; LAddSender 0; LClone 0 1]).
  destruct (Model.exec all_match tr init) as [s|] eqn:E; [|vm_compute in E; discriminate].
  exists tr, s, 0. vm_compute in E. inversion E; subst s. eexists. split; [apply exec_reach; vm_compute; reflexivity|]. split; [vm_compute; reflexivity|].
  vm_compute. discriminate.
Qed.

Theorem progress_full_refuted :
  ~ (forall matches tr s it c todo, Model.reach matches tr s -> reader s = RPush it (c :: todo) -> try_push it (chan_at s c) = PFull ->
       exists sid st s', lookup (streams s) sid = Some st /\ s_ch st = c /\ Model.step matches (LPoll sid) s = Some s').
Proof.
  intros H. destruct (H all_match wedge_trace wedge_state (IMsg (sig 2)) 2 [] (exec_reach _ _ _ wedge_exec) eq_refl eq_refl) as (sid & st & s' & Hl & _ & Hp).
  destruct sid as [|sid]; [vm_compute in Hp; discriminate | vm_compute in Hl; discriminate].
Qed.

Theorem wedge_reached : Model.reach all_match wedge_trace wedge_state /\ wedged wedge_state 0 2.
Proof. split; [apply exec_reach, wedge_exec | exact wedge_wedged]. Qed.

(* ---- non-vacuity: a history with two rules and three messages, rule r matches the messages whose member is r ---- *)
Definition by_member : nat -> msg -> bool := fun r m => Nat.eqb (m_member m) r.
Definition sg (k mem : nat) : msg := {| m_id := k; m_type := TSignal; m_iface := 0; m_member := mem |}.
Definition ex_trace : list label :=
  [LAddStart 0 1 None; LAddCheck 0; LAddSubs 0; LAddSender 0;
   LArrive (IMsg (sg 1 1)); LArrive (IMsg (sg 2 0)); LArrive (IMsg (sg 3 1));
   LRead; LFan [0; 2]; LPush; LPush; LNext;
   LRead; LFan [0]; LPush; LNext;
   LAddStart 1 1 None; LAddCheck 1; LAddSubs 1;
   LRead; LFan [2; 0]; LPush; LPush; LNext;
   LPoll 0; LPoll 0; LPoll 1].
Definition ex_state : sys := match Model.exec by_member ex_trace init with Some s => s | None => init end.
Lemma ex_exec : Model.exec by_member ex_trace init = Some ex_state.
Proof. vm_compute. reflexivity. Qed.
Lemma ex_facts :
  Model.reach by_member ex_trace ex_state /\ has_clone ex_trace = false /\ reader ex_state = RIdle /\
  incoming ex_state = [sg 1 1; sg 2 0; sg 3 1] /\
  (exists st, lookup (streams ex_state) 0 = Some st /\ s_from st = 0 /\ s_got st = [IMsg (sg 1 1); IMsg (sg 3 1)]) /\
  (exists st, lookup (streams ex_state) 1 = Some st /\ s_from st = 2 /\ s_got st = [IMsg (sg 3 1)]) /\
  lookup (subs ex_state) 1 = Some {| e_ref := 2; e_ch := 2 |}.
Proof.
  split; [apply exec_reach, ex_exec|]. vm_compute. repeat split; try reflexivity; eexists; repeat split; reflexivity.
Qed.
