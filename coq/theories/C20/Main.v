(* C20/Main.v — the theorems of C20 in the form in which Properties/C20.v states them. *)
From ZV Require Import Base.Bytes Base.Res C19.Broadcast C19.BroadcastFacts C20.Model C20.Lemmas C20.Steps C20.Inv C20.Proofs C20.Count
  C20.Progress C20.Share C20.Refute.
From Coq Require Import Lia.

Definition has_clone (tr : list label) : bool := existsb (fun l => match l with LClone _ _ => true | _ => false end) tr.

Lemma no_clone_iff tr : has_clone tr = false <-> no_clone tr.
Proof.
  unfold has_clone, no_clone. split.
  - intros H a b Hin. assert (existsb (fun l => match l with LClone _ _ => true | _ => false end) tr = true); [|congruence].
    apply existsb_exists. exists (LClone a b). split; [assumption | reflexivity].
  - intros H. destruct (existsb _ tr) eqn:E; [|reflexivity]. apply existsb_exists in E. destruct E as (l & Hin & Hl). destruct l; try discriminate.
    destruct (H _ _ Hin).
Qed.

Lemma in_r1_false s sid : (forall c, lookup (drops s) sid <> Some (R1 c)) -> in_r1 s sid = false.
Proof. unfold in_r1. intros H. destruct (lookup (drops s) sid) as [[|c]|]; try reflexivity. destruct (H c eq_refl). Qed.

Lemma in_r1_nil s sid : drops s = [] -> in_r1 s sid = false.
Proof. unfold in_r1. now intros ->. Qed.

Section Main.
Variable matches : nat -> msg -> bool.
Notation reach := (Model.reach matches).
Notation step := (Model.step matches).

Theorem delivery_partial tr s sid st : reach tr s -> has_clone tr = false ->
  lookup (streams s) sid = Some st -> reader s <> RStopped ->
  msgs (s_got st) ++ msgs (unread (chan_at s (s_ch st)) sid) =
  filter (accepts matches (skey st)) (skipn (s_from st) (firstn (seen s (s_ch st)) (incoming s))).
Proof.
  intros Hr Hc Hl Hrd. apply (delivery_no_clone matches tr s sid st); try assumption; [now apply no_clone_iff|].
  apply in_r1_nil. exact (drops_nil matches tr s Hr).
Qed.

Theorem delivery_partial_quiescent tr s sid st : reach tr s -> has_clone tr = false ->
  lookup (streams s) sid = Some st -> reader s = RIdle -> unread (chan_at s (s_ch st)) sid = [] ->
  msgs (s_got st) = filter (accepts matches (skey st)) (skipn (s_from st) (incoming s)).
Proof.
  intros Hr Hc Hl Hrd Hu. assert (Hns : reader s <> RStopped) by congruence.
  pose proof (delivery_partial _ _ _ _ Hr Hc Hl Hns) as H. rewrite Hu in H. cbn in H. rewrite app_nil_r in H.
  unfold seen, pending_on in H. rewrite Hrd, Nat.sub_0_r, firstn_all in H. exact H.
Qed.

Theorem registered tr s sid st : reach tr s -> has_clone tr = false -> lookup (streams s) sid = Some st ->
  In (skey st, s_ch st) (senders s) \/ reader s = RStopped.
Proof.
  intros Hr Hc Hl. apply (registered_live matches tr s sid st); try assumption; [now apply no_clone_iff|].
  apply in_r1_nil. exact (drops_nil matches tr s Hr).
Qed.

(* the holders of a rule: its streams, the remove_match calls (queued by Drop or started by async_drop) that have not yet taken
   `subscriptions`, and the add_match call that is creating the entry *)
Definition holders_of (s : sys) (r : nat) : nat :=
  cnt (fun p => rule_is r (snd p)) (streams s) + cnt (holds_task r) (tasks s) + cnt (holds_add r) (adds s).

Lemma holders_of_eq s r : drops s = [] -> holders s r = holders_of s r.
Proof.
  intros Hd. unfold holders, holders_of. f_equal. f_equal. apply cnt_ext. intros [sid st] _. unfold holds_stream. cbn [fst snd].
  rewrite (in_r1_nil s sid Hd). cbn [negb]. apply andb_true_r.
Qed.

Theorem share_partial tr s : reach tr s -> has_clone tr = false ->
  (forall r, match lookup (subs s) r with Some e => e_ref e = holders_of s r | None => holders_of s r = 0 end) /\
  (forall sid st r e, lookup (streams s) sid = Some st -> s_rule st = Some r -> lookup (subs s) r = Some e -> s_ch st = e_ch e).
Proof.
  intros Hr Hc. pose proof (drops_nil matches tr s Hr) as Hd. destruct (share_reach matches tr s Hr (proj1 (no_clone_iff tr) Hc)) as [C G]. split.
  - intros r. rewrite <- (holders_of_eq s r Hd). apply C.
  - intros sid st r e Hl Hru He. eapply G; try eassumption. now apply in_r1_nil.
Qed.

(* back-pressure, at full strength: a reader waiting for room waits behind a stream that the application can poll *)
Theorem progress_full tr s it c todo : reach tr s -> reader s = RPush it (c :: todo) -> try_push it (chan_at s c) = PFull ->
  exists sid st s', lookup (streams s) sid = Some st /\ s_ch st = c /\ step (LPoll sid) s = Some s'.
Proof. intros Hr. apply (progress matches tr); [assumption|]. exact (drops_nil matches tr s Hr). Qed.

Theorem no_async_drop tr s sid : reach tr s -> drops s = [] /\ step (LDropSubs sid) s = None /\ step (LDropSender sid) s = None.
Proof. intros Hr. split; [exact (drops_nil matches tr s Hr) | exact (async_drop_labels_dead matches tr s sid Hr)]. Qed.

End Main.

(* ---- the full statements fail on the code as it is ---- *)
Theorem delivery_full_refuted :
  ~ (forall matches tr s sid st, Model.reach matches tr s ->
       lookup (streams s) sid = Some st -> reader s <> RStopped ->
       msgs (s_got st) ++ msgs (unread (chan_at s (s_ch st)) sid) =
       filter (accepts matches (skey st)) (skipn (s_from st) (firstn (seen s (s_ch st)) (incoming s)))).
Proof.
  intros H. destruct clone_misses as (Hr & st & Hl & Hd & Hrd & _ & Hu & Hf & Hi & Ha & Hg).
  assert (Hns : reader clone_state <> RStopped) by (rewrite Hrd; discriminate).
  specialize (H all_match clone_trace clone_state 0 st Hr Hl Hns). rewrite Hu, Hg, Hf, Hi in H. unfold seen, pending_on in H. rewrite Hrd, Hi in H.
  cbn [length Nat.sub firstn skipn filter msgs flat_map app] in H. rewrite Ha in H. discriminate.
Qed.

Theorem share_full_refuted :
  exists tr s r e, Model.reach all_match tr s /\ lookup (subs s) r = Some e /\ e_ref e <> holders_of s r.
Proof.
  pose (tr := [LAddStart 0 0 (Some 2); LAddCheck 0; LAddSubs 0; LAddSender 0; LClone 0 1]).
  destruct (Model.exec all_match tr init) as [s|] eqn:E; [|vm_compute in E; discriminate].
  exists tr, s, 0. vm_compute in E. inversion E; subst s. eexists. split; [apply exec_reach; vm_compute; reflexivity|]. split; [vm_compute; reflexivity|].
  vm_compute. discriminate.
Qed.

(* ---- non-vacuity: a history with two rules and three messages, rule r matches the messages whose member is r ---- *)
Definition by_member : nat -> msg -> bool := fun r m => Nat.eqb (m_member m) r.
Definition sg (k mem : nat) : msg := {| m_id := k; m_type := TSignal; m_iface := 0; m_member := mem |}.
Definition ex_trace : list label :=
  [LAddStart 0 1 None; LAddCheck 0; LAddSubs 0; LAddSender 0;
   LArrive (IMsg (sg 1 1)); LArrive (IMsg (sg 2 0)); LArrive (IMsg (sg 3 1));
   LRead; LFan [0; 2]; LPush; LPush; LNext;
   LRead; LFan [0]; LPush; LNext;
   LAddStart 1 1 None; LAddCheck 1; LAddSubs 1;
   LRead; LFan [2; 0]; LPush; LPush; LNext;
   LPoll 0; LPoll 0; LPoll 1].
Definition ex_state : sys := match Model.exec by_member ex_trace init with Some s => s | None => init end.
Lemma ex_exec : Model.exec by_member ex_trace init = Some ex_state.
Proof. vm_compute. reflexivity. Qed.
Lemma ex_facts :
  Model.reach by_member ex_trace ex_state /\ has_clone ex_trace = false /\ reader ex_state = RIdle /\
  incoming ex_state = [sg 1 1; sg 2 0; sg 3 1] /\
  (exists st, lookup (streams ex_state) 0 = Some st /\ s_from st = 0 /\ s_got st = [IMsg (sg 1 1); IMsg (sg 3 1)]) /\
  (exists st, lookup (streams ex_state) 1 = Some st /\ s_from st = 2 /\ s_got st = [IMsg (sg 3 1)]) /\
  lookup (subs ex_state) 1 = Some {| e_ref := 2; e_ch := 2 |}.
Proof.
  split; [apply exec_reach, ex_exec|]. vm_compute. repeat split; try reflexivity; eexists; repeat split; reflexivity.
Qed.

(* ---- the history that used to end in the async_drop deadlock (queue of 1 full, the reader waiting for room in it, then
   async_drop of that stream) now runs on: the drop releases the receiver, the reader's push goes ahead, remove_match completes ---- *)
Definition former_deadlock_trace : list label :=
  [LAddStart 0 0 (Some 1); LAddCheck 0; LAddSubs 0; LAddSender 0;
   LArrive (IMsg (sig 1)); LRead; LFan [0; 2]; LPush; LPush; LNext;
   LArrive (IMsg (sig 2)); LRead; LFan [0; 2]; LPush;
   LDropStart 0; LPush; LNext; LTaskSubs 0; LTaskSender 0].
Lemma former_deadlock_runs :
  exists s, Model.exec all_match former_deadlock_trace init = Some s /\ reader s = RIdle /\ tasks s = [] /\ subs s = [] /\
            subs_busy s = false /\ senders s = [(KAll, 0); (KRet, 1); (KErr, 1)].
Proof. eexists. split; [vm_compute; reflexivity|]. vm_compute. repeat split; reflexivity. Qed.
