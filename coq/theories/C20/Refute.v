(* C20/Refute.v — the way in which the code as it is falls short of the full statement, as a concrete history of the model
   (confirmed on the real code, known_findings/C20.jsonl):
   * clone_uncounted     — MessageStream::clone copies the match rule without counting it in `subscriptions`; dropping the clone
                           unregisters the rule of the stream that is still alive, which from then on misses matching messages.
   (The second finding of the first round, async_drop_deadlock, was repaired by commit 90a1ccff; the model follows the repaired
   code and C20_progress holds without exception.) *)
From ZV Require Import Base.Bytes Base.Res C19.Broadcast C19.BroadcastFacts C20.Model C20.Lemmas C20.Steps C20.Inv C20.Proofs.
From Coq Require Import Lia.

Definition all_match : nat -> msg -> bool := fun _ _ => true.
Definition sig (k : nat) : msg := {| m_id := k; m_type := TSignal; m_iface := 0; m_member := 0 |}.

(* ------------------------------------------------------------------ clone *)
Definition clone_trace : list label :=
  [LAddStart 0 0 (Some 2); LAddCheck 0; LAddSubs 0; LAddSender 0;      (* stream 0 for rule 0 *)
   LClone 0 1; LDrop 1; LTaskSubs 0; LTaskSender 0;                    (* its clone, dropped; the queued remove_match runs *)
   LArrive (IMsg (sig 1)); LRead; LFan [0]; LPush; LNext].             (* a matching message arrives and is fanned out *)

Definition clone_state : sys := match exec all_match clone_trace init with Some s => s | None => init end.

Lemma clone_exec : exec all_match clone_trace init = Some clone_state.
Proof. vm_compute. reflexivity. Qed.

(* stream 0 is alive, nothing is under way, nothing is left in its queue, the message matched its rule — and it has not got it *)
Lemma clone_misses :
  reach all_match clone_trace clone_state /\
  exists st, lookup (streams clone_state) 0 = Some st /\ lookup (drops clone_state) 0 = None /\
    reader clone_state = RIdle /\ socket clone_state = [] /\ unread (chan_at clone_state (s_ch st)) 0 = [] /\
    s_from st = 0 /\ incoming clone_state = [sig 1] /\ accepts all_match (skey st) (sig 1) = true /\ s_got st = [].
Proof.
  split; [apply exec_reach, clone_exec|]. vm_compute. eexists. repeat split; reflexivity.
Qed.
