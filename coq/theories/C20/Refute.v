(* C20/Refute.v — the two ways in which the code as it is falls short of the full statement, as concrete histories of the model
   (both confirmed on the real code, known_findings/C20.jsonl):
   * clone_uncounted     — MessageStream::clone copies the match rule without counting it in `subscriptions`; dropping the clone
                           unregisters the rule of the stream that is still alive, which from then on misses matching messages;
   * async_drop_deadlock — MessageStream::async_drop awaits remove_match while it still owns its receiver; if its queue is full and
                           the socket reader is blocked on it (holding msg_senders), remove_match (holding subscriptions) and the
                           reader wait for each other for ever. *)
From ZV Require Import Base.Bytes Base.Res C19.Broadcast C19.BroadcastFacts C20.Model C20.Lemmas C20.Steps C20.Inv C20.Proofs.
From Coq Require Import Lia.

Definition all_match : nat -> msg -> bool := fun _ _ => true.
Definition sig (k : nat) : msg := {| m_id := k; m_type := TSignal; m_iface := 0; m_member := 0 |}.

(* ------------------------------------------------------------------ clone *)
Definition clone_trace : list label :=
  [LAddStart 0 0 (Some 2); LAddCheck 0; LAddSubs 0; LAddSender 0;      (* stream 0 for rule 0 *)
   LClone 0 1; LDrop 1; LTaskSubs 0; LTaskSender 0;                    (* its clone, dropped; the queued remove_match runs *)
   LArrive (IMsg (sig 1)); LRead; LFan [0]; LPush; LNext].             (* a matching message arrives and is fanned out *)

Definition clone_state : sys := match exec all_match clone_trace init with Some s => s | None => init end.

Lemma clone_exec : exec all_match clone_trace init = Some clone_state.
Proof. vm_compute. reflexivity. Qed.

(* stream 0 is alive, nothing is under way, nothing is left in its queue, the message matched its rule — and it has not got it *)
Lemma clone_misses :
  reach all_match clone_trace clone_state /\
  exists st, lookup (streams clone_state) 0 = Some st /\ lookup (drops clone_state) 0 = None /\
    reader clone_state = RIdle /\ socket clone_state = [] /\ unread (chan_at clone_state (s_ch st)) 0 = [] /\
    s_from st = 0 /\ incoming clone_state = [sig 1] /\ accepts all_match (skey st) (sig 1) = true /\ s_got st = [].
Proof.
  split; [apply exec_reach, clone_exec|]. vm_compute. eexists. repeat split; reflexivity.
Qed.

(* ------------------------------------------------------------------ async_drop *)
Definition wedge_trace : list label :=
  [LAddStart 0 0 (Some 1); LAddCheck 0; LAddSubs 0; LAddSender 0;      (* stream 0 for rule 0, queue of 1 *)
   LArrive (IMsg (sig 1)); LRead; LFan [0; 2]; LPush; LPush; LNext;    (* one message fills its queue *)
   LArrive (IMsg (sig 2)); LRead; LFan [0; 2]; LPush;                  (* the reader now waits for room in channel 2 *)
   LDropStart 0; LDropSubs 0].                                         (* async_drop: remove_match takes the entry away *)

Definition wedge_state : sys := match exec all_match wedge_trace init with Some s => s | None => init end.

Lemma wedge_exec : exec all_match wedge_trace init = Some wedge_state.
Proof. vm_compute. reflexivity. Qed.

(* the reader waits for room in channel c; the only stream on c is in the second half of its asynchronous drop *)
Definition wedged (s : sys) (sid c : nat) : Prop :=
  2 <= c /\ (exists it todo, reader s = RPush it (c :: todo) /\ try_push it (chan_at s c) = PFull) /\
  lookup (drops s) sid = Some (R1 c) /\ (exists st r, lookup (streams s) sid = Some st /\ s_rule st = Some r) /\
  (forall sid' st, lookup (streams s) sid' = Some st -> s_ch st = c -> sid' = sid) /\ c < length (chans s).

Lemma wedge_wedged : wedged wedge_state 0 2.
Proof.
  unfold wedged. split; [lia|]. split; [|split; [|split; [|split]]].
  - vm_compute. do 2 eexists. split; reflexivity.
  - reflexivity.
  - vm_compute. do 2 eexists. split; reflexivity.
  - intros sid' st. vm_compute. destruct sid' as [|sid']; [reflexivity|]. discriminate.
  - vm_compute. lia.
Qed.

Section Wedged.
Variable matches : nat -> msg -> bool.
Notation tstep := (Steps.tstep matches).
Notation step := (Model.step matches).
Notation exec := (Model.exec matches).

Lemma wedged_busy s sid c : wedged s sid c -> subs_busy s = true /\ senders_held s = true /\ lookup (drops s) sid <> None.
Proof.
  intros (_ & (it & todo & Hrd & _) & Hd & (st & r & Hs & Hr) & _). split; [|split].
  - destruct (subs_busy s) eqn:E; [reflexivity|]. exfalso. apply (not_busy_r1 s r c E). left. exists sid, st. tauto.
  - unfold senders_held. now rewrite Hrd.
  - congruence.
Qed.

Lemma wedged_frame s s' sid c : wedged s sid c -> reader s' = reader s -> lookup (drops s') sid = lookup (drops s) sid ->
  chan_at s' c = chan_at s c -> length (chans s') = length (chans s) -> lookup (streams s') sid = lookup (streams s) sid ->
  (forall sid' st, lookup (streams s') sid' = Some st -> s_ch st = c -> sid' = sid) -> wedged s' sid c.
Proof.
  intros (Hc & (it0 & todo0 & Hrd & Hfull) & Hd & Hst & Huniq & Hlen) Er Ed Ec El Es Hu.
  split; [exact Hc|]. split; [exists it0, todo0; rewrite Er, Ec; tauto|]. split; [now rewrite Ed|]. split; [now rewrite Es|]. split; [exact Hu | now rewrite El].
Qed.

(* no step of anybody ends the wait *)
Lemma wedged_step s l s' sid c : tstep s l s' -> wedged s sid c -> wedged s' sid c.
Proof.
  intros Hs W. destruct (wedged_busy _ _ _ W) as (Hb & Hh & Hnd). pose proof W as W0.
  destruct W as (Hc & (it0 & todo0 & Hrd & Hfull) & Hd & (st0 & r0 & Hst & Hr0) & Huniq & Hlen).
  assert (Hnl : forall sid' st, live s sid' st -> s_ch st <> c /\ sid' <> sid).
  { intros sid' st [Hl Hdn]. split; [intros Hch; rewrite (Huniq _ _ Hl Hch) in Hdn; congruence | intros ->; congruence]. }
  assert (Hfr : forall sid', fresh s sid' = true -> sid' <> sid).
  { intros sid' Hf ->. unfold fresh in Hf. rewrite Hst in Hf. discriminate. }
  destruct Hs; try congruence; try (unfold senders_held in *; rewrite Hrd in *; discriminate);
    try (apply (wedged_frame s _ sid c W0); try reflexivity; assumption).
  - (* a push that is skipped: not ours, ours is Full *) rewrite Hrd in H. inversion H; subst. destruct H0; congruence.
  - (* a new unfiltered stream *) pose proof (Hfr _ H) as Hne. apply (wedged_frame s _ sid c W0); try reflexivity.
    + apply chan_at_set_other. lia.
    + cbn [chans with_streams set_chan with_chans]. apply length_upd.
    + cbn [streams with_streams]. apply lookup_put_other. congruence.
    + intros sid' st. cbn [streams with_streams]. destruct (Nat.eq_dec sid' sid0) as [->|Hn].
      * rewrite lookup_put_same. intros E; inversion E; subst st. cbn. lia.
      * rewrite lookup_put_other by assumption. apply Huniq.
  - (* another stream is polled *) destruct (Hnl _ _ H) as [Hch Hne]. destruct H as [Hl Hdn]. apply (wedged_frame s _ sid c W0); try reflexivity.
    + cbn [with_streams]. apply chan_at_set_other. congruence.
    + cbn [chans with_streams set_chan with_chans]. apply length_upd.
    + cbn [streams with_streams]. apply lookup_put_other. congruence.
    + intros sid' st1. cbn [streams with_streams]. destruct (Nat.eq_dec sid' sid0) as [->|Hn].
      * rewrite lookup_put_same. intros E; inversion E; subst st1. cbn [got_more s_ch]. intros; contradiction.
      * rewrite lookup_put_other by assumption. apply Huniq.
  - (* another stream is dropped *) destruct (Hnl _ _ H) as [Hch Hne]. destruct H as [Hl Hdn]. apply (wedged_frame s _ sid c W0); try reflexivity.
    + unfold bury. cbn [with_tasks with_dead with_streams]. apply chan_at_set_other. congruence.
    + unfold bury. cbn [chans with_tasks with_dead with_streams set_chan with_chans]. apply length_upd.
    + unfold bury. cbn [streams with_tasks with_dead with_streams]. apply lookup_del_other. congruence.
    + intros sid' st1. unfold bury. cbn [streams with_tasks with_dead with_streams]. destruct (Nat.eq_dec sid' sid0) as [->|Hn].
      * rewrite lookup_del_same. discriminate.
      * rewrite lookup_del_other by assumption. apply Huniq.
  - destruct (Hnl _ _ H) as [Hch Hne]. destruct H as [Hl Hdn]. apply (wedged_frame s _ sid c W0); try reflexivity.
    + unfold bury. cbn [with_tasks with_dead with_streams]. apply chan_at_set_other. congruence.
    + unfold bury. cbn [chans with_tasks with_dead with_streams set_chan with_chans]. apply length_upd.
    + unfold bury. cbn [streams with_tasks with_dead with_streams]. apply lookup_del_other. congruence.
    + intros sid' st1. unfold bury. cbn [streams with_tasks with_dead with_streams]. destruct (Nat.eq_dec sid' sid0) as [->|Hn].
      * rewrite lookup_del_same. discriminate.
      * rewrite lookup_del_other by assumption. apply Huniq.
  - (* another stream is cloned *) destruct (Hnl _ _ H) as [Hch Hne]. destruct H as [Hl Hdn]. pose proof (Hfr _ H0) as Hne2. apply (wedged_frame s _ sid c W0); try reflexivity.
    + cbn [with_cloned with_streams]. apply chan_at_set_other. congruence.
    + cbn [chans with_cloned with_streams set_chan with_chans]. apply length_upd.
    + cbn [streams with_cloned with_streams]. apply lookup_put_other. congruence.
    + intros sid' st1. cbn [streams with_cloned with_streams]. destruct (Nat.eq_dec sid' sid2) as [->|Hn].
      * rewrite lookup_put_same. intros E; inversion E; subst st1. intros; contradiction.
      * rewrite lookup_put_other by assumption. apply Huniq.
  - (* set_max_queued on another stream *) destruct (Hnl _ _ H) as [Hch Hne]. apply (wedged_frame s _ sid c W0); try reflexivity; try assumption.
    + apply chan_at_set_other. congruence.
    + cbn [chans set_chan with_chans]. apply length_upd.
  - (* another async_drop starts *) destruct (Hnl _ _ H) as [Hch Hne]. apply (wedged_frame s _ sid c W0); try reflexivity; try assumption.
    cbn [drops with_drops]. apply lookup_put_other. congruence.
  - destruct (Hnl _ _ H) as [Hch Hne]. destruct H as [Hl Hdn]. apply (wedged_frame s _ sid c W0); try reflexivity.
    + unfold bury. cbn [with_tasks with_dead with_streams]. apply chan_at_set_other. congruence.
    + unfold bury. cbn [chans with_tasks with_dead with_streams set_chan with_chans]. apply length_upd.
    + unfold bury. cbn [streams with_tasks with_dead with_streams]. apply lookup_del_other. congruence.
    + intros sid' st1. unfold bury. cbn [streams with_tasks with_dead with_streams]. destruct (Nat.eq_dec sid' sid0) as [->|Hn].
      * rewrite lookup_del_same. discriminate.
      * rewrite lookup_del_other by assumption. apply Huniq.
Qed.

(* ... so it lasts for ever: whatever anybody does afterwards, the socket reader never reads another message, `subscriptions`
   stays locked (every add_match and remove_match that needs it waits), and the async_drop never returns *)
Theorem wedged_forever tr s s' sid c : wedged s sid c -> exec tr s = Some s' ->
  wedged s' sid c /\ subs_busy s' = true /\ senders_held s' = true /\ lookup (drops s') sid <> None /\
  step LRead s' = None /\ step LPush s' = None /\ step (LDropSender sid) s' = None /\
  (forall sid', step (LAddSubs sid') s' = None) /\ (forall n, step (LTaskSubs n) s' = None) /\ (forall sid', step (LDropSubs sid') s' = None).
Proof.
  revert s. induction tr as [|l tr IH]; intros s W He; cbn [Model.exec] in He.
  - inversion He; subst s'. destruct (wedged_busy _ _ _ W) as (Hb & Hh & Hnd). split; [exact W|]. split; [exact Hb|]. split; [exact Hh|]. split; [exact Hnd|].
    destruct W as (Hc & (it0 & todo0 & Hrd & Hfull) & Hd & (st0 & r0 & Hst & Hr0) & Huniq & Hlen).
    unfold Model.step. rewrite Hrd, Hfull, Hd, Hh, Hb, Hst. cbn. repeat split; try reflexivity.
    + intros sid'. destruct (lookup (adds s) sid') as [a|]; [|reflexivity]. destruct (a_pc a); reflexivity.
    + intros n. destruct (nth_error (tasks s) n) as [[r pc]|]; [|reflexivity]. destruct pc; reflexivity.
    + intros sid'. destruct (lookup (streams s) sid') as [st|]; [|reflexivity]. destruct (lookup (drops s) sid') as [[|c']|]; try reflexivity.
  - destruct (step l s) as [s1|] eqn:E; [|discriminate]. apply step_tstep in E. exact (IH _ (wedged_step _ _ _ _ _ E W) He).
Qed.

End Wedged.
