(* C20/InvG3.v — preservation of the delivery equation: for every stream whose channel is registered in msg_senders,
   what it has yielded ++ what is queued for it = the matching messages among those decided for its channel since it
   subscribed. *)
From ZV Require Import Base.Bytes Base.Res C19.Broadcast C19.BroadcastFacts C20.Model C20.Lemmas C20.Steps C20.Inv C20.InvG1 C20.InvG2.
From Coq Require Import Lia Permutation.

Lemma msgs_app a b : msgs (a ++ b) = msgs a ++ msgs b.
Proof. unfold msgs. apply flat_map_app. Qed.

Lemma skipn_firstn_same {A} (l : list A) n : skipn n (firstn n l) = [].
Proof. revert l; induction n as [|n IH]; intros [|x l]; cbn; auto. Qed.

Lemma unread_soc (a b : chan item) id : same_or_closed a b -> unread b id = unread a id.
Proof. intros H. unfold unread. rewrite (soc_cursor _ _ id H), (soc_log _ _ H). reflexivity. Qed.

Lemma unread_at_tail (c : chan item) id : cursor c id = Some (tail c) -> unread c id = [].
Proof. intros H. unfold unread. rewrite H. unfold tail. apply skipn_all. Qed.

Lemma unread_step (c : chan item) id p x : cursor c id = Some p -> nth_error (log c) p = Some x ->
  unread c id = x :: skipn (S p) (log c).
Proof.
  intros Hc Hn. unfold unread. rewrite Hc. clear Hc. revert p Hn. generalize (log c). induction l as [|y l IH]; intros [|p] Hn; cbn in *; try discriminate.
  - now inversion Hn.
  - now apply IH.
Qed.

(* seen: how many incoming messages have been decided for a channel *)
Lemma seen_eq s s' c : reader s' = reader s -> incoming s' = incoming s -> seen s' c = seen s c.
Proof. unfold seen, pending_on. intros -> ->. reflexivity. Qed.

Definition window_of (s : sys) (c from : nat) : list msg := skipn from (firstn (seen s c) (incoming s)).

Lemma window_eq s s' c from : reader s' = reader s -> incoming s' = incoming s -> window_of s' c from = window_of s c from.
Proof. intros Hr Hi. unfold window_of. now rewrite (seen_eq s s' c Hr Hi), Hi. Qed.

(* one more message decided for the channel *)
Lemma window_grow s s' c from pre m : incoming s = pre ++ [m] -> incoming s' = incoming s -> seen s c = length pre -> seen s' c = S (length pre) ->
  from <= length pre -> window_of s' c from = window_of s c from ++ [m].
Proof.
  intros Hi Hi' Hs Hs' Hf. unfold window_of. rewrite Hs, Hs', Hi', Hi.
  assert (E1 : firstn (length pre) (pre ++ [m]) = pre).
  { rewrite firstn_app, firstn_all, Nat.sub_diag. cbn [firstn]. now rewrite app_nil_r. }
  assert (E2 : firstn (S (length pre)) (pre ++ [m]) = pre ++ [m]).
  { replace (S (length pre)) with (length (pre ++ [m])) by (rewrite app_length; cbn; lia). apply firstn_all. }
  rewrite E1, E2, skipn_app. replace (from - length pre) with 0 by lia. reflexivity.
Qed.

Section G3.
Variable matches : nat -> msg -> bool.
Notation tstep := (Steps.tstep matches).
Notation Inv := (Inv.Inv matches).
Notation targets := (Model.targets matches).
Notation key_matches := (Model.key_matches matches).
Notation accepts := (Inv.accepts matches).

Definition deliv_ok (s : sys) (sid : nat) (st : stream) : Prop :=
  In (skey st, s_ch st) (senders s) ->
  msgs (s_got st) ++ msgs (unread (chan_at s (s_ch st)) sid) = filter (accepts (skey st)) (window_of s (s_ch st) (s_from st)).

Lemma Inv_deliv s sid st : Inv s -> lookup (streams s) sid = Some st -> deliv_ok s sid st.
Proof. intros I Hl. exact (inv_deliv _ _ I _ _ Hl). Qed.

(* the key under which a channel is registered is unique (for the keys streams use) *)
Lemma key_of_chan s st k c : Inv s -> In (skey st, c) (senders s) -> In (k, c) (senders s) -> (k = KRet \/ k = KErr -> False) -> k = skey st.
Proof.
  intros I H1 H2 Hk. destruct (inv_shape _ _ I _ _ H1) as [_ S1]. destruct (inv_shape _ _ I _ _ H2) as [_ S2].
  unfold skey in *. destruct (s_rule st) as [r|], k as [| | |r']; try reflexivity; try lia; try (exfalso; apply Hk; tauto).
  f_equal. eapply (inv_inj _ _ I); eassumption.
Qed.

End G3.
