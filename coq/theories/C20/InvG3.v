(* C20/InvG3.v — preservation of the delivery equation: for every stream whose channel is registered in msg_senders,
   what it has yielded ++ what is queued for it = the matching messages among those decided for its channel since it
   subscribed. *)
From ZV Require Import Base.Bytes Base.Res C19.Broadcast C19.BroadcastFacts C20.Model C20.Lemmas C20.Steps C20.Inv C20.InvG1 C20.InvG2.
From Coq Require Import Lia Permutation.

Lemma msgs_app a b : msgs (a ++ b) = msgs a ++ msgs b.
Proof. unfold msgs. apply flat_map_app. Qed.

Lemma skipn_firstn_same {A} (l : list A) n : skipn n (firstn n l) = [].
Proof. revert l; induction n as [|n IH]; intros [|x l]; cbn; auto. Qed.

Lemma unread_soc (a b : chan item) id : same_or_closed a b -> unread b id = unread a id.
Proof. intros H. unfold unread. rewrite (soc_cursor _ _ id H), (soc_log _ _ H). reflexivity. Qed.

Lemma unread_at_tail (c : chan item) id : cursor c id = Some (tail c) -> unread c id = [].
Proof. intros H. unfold unread. rewrite H. unfold tail. apply skipn_all. Qed.

Lemma unread_step (c : chan item) id p x : cursor c id = Some p -> nth_error (log c) p = Some x ->
  unread c id = x :: skipn (S p) (log c).
Proof.
  intros Hc Hn. unfold unread. rewrite Hc. clear Hc. revert p Hn. generalize (log c). induction l as [|y l IH]; intros [|p] Hn; cbn in *; try discriminate.
  - now inversion Hn.
  - now apply IH.
Qed.

(* seen: how many incoming messages have been decided for a channel *)
Lemma seen_eq s s' c : reader s' = reader s -> incoming s' = incoming s -> seen s' c = seen s c.
Proof. unfold seen, pending_on. intros -> ->. reflexivity. Qed.

Definition window_of (s : sys) (c from : nat) : list msg := skipn from (firstn (seen s c) (incoming s)).

Lemma window_eq s s' c from : reader s' = reader s -> incoming s' = incoming s -> window_of s' c from = window_of s c from.
Proof. intros Hr Hi. unfold window_of. now rewrite (seen_eq s s' c Hr Hi), Hi. Qed.

(* one more message decided for the channel *)
Lemma window_grow s s' c from pre m : incoming s = pre ++ [m] -> incoming s' = incoming s -> seen s c = length pre -> seen s' c = S (length pre) ->
  from <= length pre -> window_of s' c from = window_of s c from ++ [m].
Proof.
  intros Hi Hi' Hs Hs' Hf. unfold window_of. rewrite Hs, Hs', Hi', Hi.
  assert (E1 : firstn (length pre) (pre ++ [m]) = pre).
  { rewrite firstn_app, firstn_all, Nat.sub_diag. cbn [firstn]. now rewrite app_nil_r. }
  assert (E2 : firstn (S (length pre)) (pre ++ [m]) = pre ++ [m]).
  { replace (S (length pre)) with (length (pre ++ [m])) by (rewrite app_length; cbn; lia). apply firstn_all. }
  rewrite E1, E2, skipn_app. replace (from - length pre) with 0 by lia. reflexivity.
Qed.

Lemma window_new s s' c : reader s' = reader s -> incoming s' = incoming s -> window_of s' c (seen s c) = [].
Proof. intros Hr Hi. unfold window_of. rewrite (seen_eq s s' c Hr Hi), Hi. apply skipn_firstn_same. Qed.

Lemma window_pending s s' c from : incoming s' = incoming s -> pending_on s' c = pending_on s c -> window_of s' c from = window_of s c from.
Proof. intros Hi Hp. unfold window_of, seen. now rewrite Hi, Hp. Qed.

Lemma window_read s s' m c from : reader s = RIdle -> reader s' = RHave (IMsg m) -> incoming s' = incoming s ++ [m] ->
  window_of s' c from = window_of s c from.
Proof.
  intros Hr Hr' Hi. unfold window_of, seen, pending_on. rewrite Hr, Hr', Hi, app_length. cbn [length].
  replace (length (incoming s) + 1 - 1) with (length (incoming s)) by lia. rewrite Nat.sub_0_r.
  rewrite firstn_app, firstn_all, Nat.sub_diag. cbn [firstn]. now rewrite app_nil_r.
Qed.

Lemma mem_nat_perm a b x : Permutation a b -> mem_nat x a = mem_nat x b.
Proof.
  intros Hp. destruct (mem_nat x b) eqn:E.
  - apply mem_nat_in. apply mem_nat_in in E. eapply Permutation_in; [symmetry; eassumption | assumption].
  - destruct (mem_nat x a) eqn:E2; [|reflexivity]. apply mem_nat_in in E2. assert (In x b) by (eapply Permutation_in; eassumption).
    apply mem_nat_in in H. congruence.
Qed.

Section G3.
Variable matches : nat -> msg -> bool.
Notation tstep := (Steps.tstep matches).
Notation Inv := (Inv.Inv matches).
Notation targets := (Model.targets matches).
Notation key_matches := (Model.key_matches matches).
Notation accepts := (Inv.accepts matches).

Definition deliv_ok (s : sys) (sid : nat) (st : stream) : Prop :=
  In (skey st, s_ch st) (senders s) ->
  msgs (s_got st) ++ msgs (unread (chan_at s (s_ch st)) sid) = filter (accepts (skey st)) (window_of s (s_ch st) (s_from st)).

Lemma Inv_deliv s sid st : Inv s -> lookup (streams s) sid = Some st -> deliv_ok s sid st.
Proof. intros I Hl. exact (inv_deliv _ _ I _ _ Hl). Qed.

(* the key under which a channel is registered is unique (for the keys streams use) *)
Lemma key_of_chan s st k c : Inv s -> In (skey st, c) (senders s) -> In (k, c) (senders s) -> (k = KRet \/ k = KErr -> False) -> k = skey st.
Proof.
  intros I H1 H2 Hk. destruct (inv_shape _ _ I _ _ H1) as [_ S1]. destruct (inv_shape _ _ I _ _ H2) as [_ S2].
  unfold skey in *. destruct (s_rule st) as [r|], k as [| | |r']; try reflexivity; try lia; try (exfalso; apply Hk; tauto).
  f_equal. eapply (inv_inj _ _ I); eassumption.
Qed.

Lemma deliv_keep s s' sid st : deliv_ok s sid st ->
  (In (skey st, s_ch st) (senders s') -> In (skey st, s_ch st) (senders s)) ->
  unread (chan_at s' (s_ch st)) sid = unread (chan_at s (s_ch st)) sid ->
  window_of s' (s_ch st) (s_from st) = window_of s (s_ch st) (s_from st) -> deliv_ok s' sid st.
Proof. intros H Hs Hu Hw Hin. rewrite Hu, Hw. apply H. now apply Hs. Qed.

(* an operation on one channel that keeps the log and the cursors of the other receivers *)
Lemma unread_upd s s' c x sid st : chans s' = upd (chans s) c x -> c < length (chans s) ->
  (s_ch st = c -> cursor x sid = cursor (chan_at s c) sid /\ log x = log (chan_at s c)) ->
  unread (chan_at s' (s_ch st)) sid = unread (chan_at s (s_ch st)) sid.
Proof.
  intros Ech Hlt Hx. unfold chan_at at 1. rewrite Ech. destruct (Nat.eq_dec (s_ch st) c) as [E|Hne].
  - rewrite E in *. rewrite nth_upd_same by assumption. destruct (Hx eq_refl) as [Hc Hl]. unfold unread. now rewrite Hc, Hl.
  - now rewrite nth_upd_other.
Qed.

Lemma g_from_step s l s' : tstep s l s' -> Inv s -> forall sid st, lookup (streams s') sid = Some st -> s_from st <= seen s' (s_ch st).
Proof.
  intros Hs I sid0 st0 Hl. pose proof (inv_from _ _ I) as Hold.
  assert (Hmono : forall c, seen s c <= seen s' c).
  { intros c. unfold seen, pending_on. destruct Hs; simp; try lia;
      try (match goal with Hr : rm_apply _ _ = _ |- _ => pose proof (rm_apply_frame _ _ _ _ Hr) as (_ & _ & _ & _ & _ & Erd & _ & Einc & _); simp; rewrite ?Erd, ?Einc; lia end).
    all: rewrite ?H, ?app_length; cbn [length]; try lia.
    all: try (destruct it as [m|e]); unfold mem_nat; cbn; try lia.
    all: try (destruct (Nat.eqb c c0)); try (destruct (existsb (Nat.eqb c) todo)); cbn; try lia. }
  assert (Hsame : forall c, reader s' = reader s -> incoming s' = incoming s -> seen s' c = seen s c) by (intros c; apply seen_eq).
  assert (Hgen : forall st1, lookup (streams s) sid0 = Some st1 -> s_from st0 = s_from st1 -> s_ch st0 = s_ch st1 -> s_from st0 <= seen s' (s_ch st0)).
  { intros st1 Hl1 Ef Ec. rewrite Ef, Ec. pose proof (Hold _ _ Hl1). pose proof (Hmono (s_ch st1)). lia. }
  destruct Hs; simp; try (eapply Hgen; [eassumption | reflexivity | reflexivity]).
  - (* occupied *) destruct (Nat.eq_dec sid0 sid) as [->|Hne].
    + rewrite lookup_put_same in Hl. inversion Hl; subst st0. cbn [s_from s_ch mk_stream]. apply Hmono.
    + rewrite lookup_put_other in Hl by assumption. eapply Hgen; [eassumption | reflexivity | reflexivity].
  - (* add sender *) destruct (Nat.eq_dec sid0 sid) as [->|Hne].
    + rewrite lookup_put_same in Hl. inversion Hl; subst st0. cbn [s_from s_ch mk_stream]. apply Hmono.
    + rewrite lookup_put_other in Hl by assumption. eapply Hgen; [eassumption | reflexivity | reflexivity].
  - (* unfiltered *) destruct (Nat.eq_dec sid0 sid) as [->|Hne].
    + rewrite lookup_put_same in Hl. inversion Hl; subst st0. cbn [s_from s_ch mk_stream]. apply Hmono.
    + rewrite lookup_put_other in Hl by assumption. eapply Hgen; [eassumption | reflexivity | reflexivity].
  - (* poll *) destruct H as [Hl0 Hd]. destruct (Nat.eq_dec sid0 sid) as [->|Hne].
    + rewrite lookup_put_same in Hl. inversion Hl; subst st0. eapply Hgen; [eassumption | reflexivity | reflexivity].
    + rewrite lookup_put_other in Hl by assumption. eapply Hgen; [eassumption | reflexivity | reflexivity].
  - apply in_del_lookup in Hl. eapply Hgen; [eassumption | reflexivity | reflexivity].
  - apply in_del_lookup in Hl. eapply Hgen; [eassumption | reflexivity | reflexivity].
  - (* clone *) destruct H as [Hl0 Hd]. destruct (Nat.eq_dec sid0 sid2) as [->|Hne].
    + rewrite lookup_put_same in Hl. inversion Hl; subst st0. pose proof (Hold _ _ Hl0). pose proof (Hmono (s_ch st)). lia.
    + rewrite lookup_put_other in Hl by assumption. eapply Hgen; [eassumption | reflexivity | reflexivity].
  - (* async drop starts *) apply in_del_lookup in Hl. eapply Hgen; [eassumption | reflexivity | reflexivity].
  - apply in_del_lookup in Hl. eapply Hgen; [eassumption | reflexivity | reflexivity].
  - pose proof (rm_apply_frame _ _ _ _ H3) as (_ & Estr & _). rewrite Estr in Hl. apply in_del_lookup in Hl. eapply Hgen; [eassumption | reflexivity | reflexivity].
  - pose proof (rm_apply_frame _ _ _ _ H3) as (_ & Estr & _). rewrite Estr in Hl. eapply Hgen; [eassumption | reflexivity | reflexivity].
  - apply in_del_lookup in Hl. eapply Hgen; [eassumption | reflexivity | reflexivity].
  - pose proof (rm_apply_frame _ _ _ _ H1) as (_ & Estr & _). rewrite Estr in Hl. eapply Hgen; [eassumption | reflexivity | reflexivity].
  - pose proof (rm_apply_frame _ _ _ _ H1) as (_ & Estr & _). rewrite Estr in Hl. eapply Hgen; [eassumption | reflexivity | reflexivity].
  - (* drop, shared rule *) apply in_del_lookup in Hl. eapply Hgen; [eassumption | reflexivity | reflexivity].
  - apply in_del_lookup in Hl. eapply Hgen; [eassumption | reflexivity | reflexivity].
Qed.

Lemma targets_has l it k c : In (k, c) l -> key_matches k it = true -> In c (targets l it).
Proof.
  intros Hin Hk. unfold Model.targets. apply in_map_iff. exists (k, c). split; [reflexivity|]. apply filter_In. split; assumption.
Qed.

Lemma skey_not_reply st : skey st = KRet \/ skey st = KErr -> False.
Proof. unfold skey. destruct (s_rule st); intros [H|H]; discriminate. Qed.

Lemma g_deliv_step s l s' : tstep s l s' -> Inv s -> forall sid st, lookup (streams s') sid = Some st -> deliv_ok s' sid st.
Proof.
  intros Hs I sid0 st0 Hl. pose proof (Inv_own _ _ I) as [Icur Istr].
  (* a stream that the step does not touch, when the tables and the reader stay as they are *)
  assert (Hkeep : forall s1, lookup (streams s) sid0 = Some st0 ->
            (In (skey st0, s_ch st0) (senders s1) -> In (skey st0, s_ch st0) (senders s)) ->
            unread (chan_at s1 (s_ch st0)) sid0 = unread (chan_at s (s_ch st0)) sid0 ->
            window_of s1 (s_ch st0) (s_from st0) = window_of s (s_ch st0) (s_from st0) -> deliv_ok s1 sid0 st0).
  { intros s1 Hl0 H1 H2 H3. eapply deliv_keep; [exact (Inv_deliv _ _ _ I Hl0) | assumption | assumption | assumption]. }
  destruct Hs.
  - (* arrive *) apply Hkeep; try assumption; try reflexivity; tauto.
  - (* read a message *) apply Hkeep; try assumption; try reflexivity; [tauto|]. eapply window_read; try eassumption; reflexivity.
  - (* read a failure *) apply Hkeep; try assumption; try reflexivity; [tauto|]. apply window_pending; [reflexivity|]. unfold pending_on. cbn [reader with_reader with_socket]. now rewrite H.
  - (* fan *) tsimp. intros Hreg. change (senders (with_reader s (RPush it todo))) with (senders s) in Hreg.
    change (chan_at (with_reader s (RPush it todo)) (s_ch st0)) with (chan_at s (s_ch st0)).
    pose proof (Inv_deliv _ _ _ I Hl Hreg) as IH. apply is_perm_spec in H0. destruct it as [m|e].
    + destruct (mem_nat (s_ch st0) todo) eqn:Em.
      * rewrite (window_pending s (with_reader s (RPush (IMsg m) todo)) (s_ch st0) (s_from st0)); [exact IH | reflexivity|].
        unfold pending_on. cbn [reader with_reader]. now rewrite H, Em.
      * destruct (inv_last _ _ I m (or_introl H)) as (pre & Hpre).
        pose proof (inv_from _ _ I _ _ Hl) as Hfrom. unfold seen, pending_on in Hfrom. rewrite H, Hpre, app_length in Hfrom. cbn [length] in Hfrom.
        rewrite (window_grow s (with_reader s (RPush (IMsg m) todo)) (s_ch st0) (s_from st0) pre m Hpre eq_refl).
        -- rewrite filter_app. cbn [filter]. replace (accepts (skey st0) m) with false; [now rewrite app_nil_r|].
           symmetry. destruct (accepts (skey st0) m) eqn:Ea; [|reflexivity]. exfalso.
           assert (Hin : In (s_ch st0) (targets (senders s) (IMsg m))) by (eapply targets_has; eassumption).
           assert (In (s_ch st0) todo) by (eapply Permutation_in; [symmetry; eassumption | assumption]). apply mem_nat_in in H1. congruence.
        -- unfold seen, pending_on. rewrite H, Hpre, app_length. cbn. lia.
        -- unfold seen, pending_on. cbn [reader with_reader incoming]. rewrite Em, Hpre, app_length. cbn. lia.
        -- lia.
    + rewrite (window_pending s (with_reader s (RPush (IFail e) todo)) (s_ch st0) (s_from st0)); [exact IH | reflexivity|].
      unfold pending_on. cbn [reader with_reader]. now rewrite H.
  - (* push *) tsimp. intros Hreg. change (senders (with_reader (set_chan s c ch') (RPush it todo))) with (senders s) in Hreg.
    pose proof (Inv_deliv _ _ _ I Hl Hreg) as IH. autorewrite with chat. destruct (inv_todo _ _ I _ _ H) as [Htd Hnd].
    destruct (Htd c (or_introl eq_refl)) as (k0 & Hk0 & Hm0). destruct (inv_shape _ _ I _ _ Hk0) as [Hlt _].
    apply try_push_pushed in H0. destruct H0 as (Hlog & Hrcv & _).
    destruct (Nat.eq_dec (s_ch st0) c) as [Ec|Hne].
    + subst c. rewrite chan_at_set_same by assumption. destruct (Istr _ _ Hl) as (_ & (p & Hp) & _).
      destruct (Icur _ _ _ Hlt Hp) as [Hple _]. rewrite (unread_push _ _ _ it sid0 p Hp Hple Hlog Hrcv), msgs_app.
      destruct it as [m|e].
      * (* a message: one more decided for this channel, and it matches the key the channel is registered under *)
        specialize (Hnd m eq_refl). inversion Hnd as [|? ? Hnotin _]; subst.
        destruct (inv_last _ _ I m (or_intror (ex_intro _ _ H))) as (pre & Hpre).
        pose proof (inv_from _ _ I _ _ Hl) as Hfrom. unfold seen, pending_on in Hfrom. rewrite H, Hpre, app_length in Hfrom.
        cbn [length mem_nat existsb] in Hfrom. rewrite Nat.eqb_refl in Hfrom. cbn [orb] in Hfrom.
        assert (Ek : k0 = skey st0).
        { eapply key_of_chan; try eassumption. intros [-> | ->]; cbn in Hm0.
          - destruct (inv_shape _ _ I _ _ Hk0) as [_ S0]. destruct (inv_shape _ _ I _ _ Hreg) as [_ S1]. unfold skey in S1. destruct (s_rule st0); lia.
          - destruct (inv_shape _ _ I _ _ Hk0) as [_ S0]. destruct (inv_shape _ _ I _ _ Hreg) as [_ S1]. unfold skey in S1. destruct (s_rule st0); lia. }
        subst k0.
        rewrite (window_grow s (with_reader (set_chan s (s_ch st0) ch') (RPush (IMsg m) todo)) (s_ch st0) (s_from st0) pre m Hpre eq_refl).
        -- rewrite filter_app. cbn [filter]. unfold Inv.accepts at 2. rewrite Hm0. cbn [msgs flat_map app]. rewrite app_assoc. f_equal. exact IH.
        -- unfold seen, pending_on. rewrite H, Hpre, app_length. cbn [length mem_nat existsb]. rewrite Nat.eqb_refl. cbn. lia.
        -- unfold seen, pending_on. cbn [reader with_reader incoming set_chan with_chans]. rewrite Hpre, app_length.
           replace (mem_nat (s_ch st0) todo) with false; [cbn; lia|]. symmetry. destruct (mem_nat (s_ch st0) todo) eqn:E; [|reflexivity].
           apply mem_nat_in in E. contradiction.
        -- lia.
      * (* the failure item: not a message *)
        cbn [msgs flat_map app]. rewrite app_nil_r.
        rewrite (window_pending s (with_reader (set_chan s (s_ch st0) ch') (RPush (IFail e) todo)) (s_ch st0) (s_from st0)); [exact IH | reflexivity|].
        unfold pending_on. cbn [reader with_reader]. now rewrite H.
    + rewrite chan_at_set_other by assumption.
      rewrite (window_pending s (with_reader (set_chan s c ch') (RPush it todo)) (s_ch st0) (s_from st0)); [exact IH | reflexivity|].
      unfold pending_on. cbn [reader with_reader set_chan with_chans]. rewrite H. destruct it; [|reflexivity]. cbn [mem_nat existsb].
      replace (Nat.eqb (s_ch st0) c) with false by (symmetry; apply Nat.eqb_neq; assumption). reflexivity.
  - (* push skipped: no receiver / closed — then no stream sits on that channel *)
    tsimp. intros Hreg. change (senders (with_reader s (RPush it todo))) with (senders s) in Hreg.
    change (chan_at (with_reader s (RPush it todo)) (s_ch st0)) with (chan_at s (s_ch st0)).
    pose proof (Inv_deliv _ _ _ I Hl Hreg) as IH. destruct (Istr _ _ Hl) as (_ & (p & Hp) & _).
    assert (Hne : s_ch st0 <> c).
    { intros Ec. rewrite Ec in *. destruct H0 as [H0|H0].
      - apply try_push_noreceiver in H0. eapply cursor_some_rcv; eassumption.
      - apply try_push_closed in H0. destruct (inv_closed _ _ I _ _ Hreg H0) as (_ & Hr & _). eapply cursor_some_rcv; eassumption. }
    rewrite (window_pending s (with_reader s (RPush it todo)) (s_ch st0) (s_from st0)); [exact IH | reflexivity|].
    unfold pending_on. cbn [reader with_reader]. rewrite H. destruct it; [|reflexivity]. cbn [mem_nat existsb].
    replace (Nat.eqb (s_ch st0) c) with false by (symmetry; apply Nat.eqb_neq; assumption). reflexivity.
  - (* next message *) apply Hkeep; try assumption; try reflexivity; [tauto|]. apply window_pending; [reflexivity|].
    unfold pending_on. cbn [reader with_reader]. rewrite H. reflexivity.
  - (* next after a failure: nothing is registered any more *) intros [].
  - apply Hkeep; try assumption; try reflexivity; tauto.
  - apply Hkeep; try assumption; try reflexivity; tauto.
  - apply Hkeep; try assumption; try reflexivity; tauto.
  - (* occupied *) subst c ch1 s1 s2. tsimp. destruct (inv_entry _ _ I _ _ H2) as [_ Hlt].
    set (x := subscribe sid match a_q a with Some n => grow n (chan_at s (e_ch e)) | None => chan_at s (e_ch e) end).
    assert (Hlx : log x = log (chan_at s (e_ch e))) by (unfold x; destruct (a_q a); reflexivity).
    assert (Hcx : forall id, cursor x id = match cursor (chan_at s (e_ch e)) id with Some q => Some q | None => if Nat.eqb sid id then Some (tail (chan_at s (e_ch e))) else None end).
    { intros id. unfold x. rewrite cursor_subscribe. destruct (a_q a); reflexivity. }
    destruct (Nat.eq_dec sid0 sid) as [->|Hne].
    + rewrite lookup_put_same in Hl. inversion Hl; subst st0. intros _. cbn [s_got s_ch s_from mk_stream msgs flat_map app]. autorewrite with chat.
      rewrite chan_at_set_same by assumption. fold x.
      assert (Hnc : cursor (chan_at s (e_ch e)) sid = None).
      { destruct (cursor (chan_at s (e_ch e)) sid) as [q|] eqn:E; [|reflexivity]. destruct (Icur _ _ _ Hlt E) as [_ [(st' & Hs' & _)|(r' & a' & Ha' & _ & Hp')]].
        - pose proof (inv_ids _ _ I _ _ H). congruence.
        - rewrite H in Ha'. inversion Ha'; subst. congruence. }
      unfold unread. rewrite Hcx, Hnc, Nat.eqb_refl, Hlx. unfold tail. rewrite skipn_all. rewrite window_new by reflexivity. reflexivity.
    + rewrite lookup_put_other in Hl by assumption. apply Hkeep; try assumption; [tauto | | apply window_eq; reflexivity].
      destruct (Istr _ _ Hl) as (_ & (p & Hp) & _).
      autorewrite with chat. eapply (unread_upd s _ (e_ch e) x); [reflexivity | assumption|]. intros Ec. split; [|exact Hlx]. rewrite Hcx. rewrite <- Ec. now rewrite Hp.
  - (* vacant *) subst c capacity s1 s2. tsimp. apply Hkeep; try assumption; [tauto | | apply window_eq; reflexivity].
    destruct (Istr _ _ Hl) as (Hlt & _). autorewrite with chat. now rewrite chan_at_app_old.
  - (* add sender *) tsimp. destruct (inv_a2 _ _ I sid (a_rule a) c) as (_ & Hno & Hlog & _ & Hcur & _ & Hnost); [exists a; tauto|].
    destruct (Nat.eq_dec sid0 sid) as [->|Hne].
    + rewrite lookup_put_same in Hl. inversion Hl; subst st0. intros _. cbn [s_got s_ch s_from mk_stream msgs flat_map app]. autorewrite with chat.
      unfold unread. rewrite Hcur, Hlog. rewrite window_new by reflexivity. reflexivity.
    + rewrite lookup_put_other in Hl by assumption. apply Hkeep; try assumption; try reflexivity.
      intros Hin. apply in_app_iff in Hin. destruct Hin as [Hin|[Hin|[]]]; [assumption|]. inversion Hin. exfalso. eapply Hnost; eauto.
  - (* unfiltered *) tsimp. assert (Hlt : 0 < length (chans s)) by (pose proof (inv_len _ _ I); lia). apply fresh_spec in H. destruct H as (Hn1 & Hn2 & _).
    destruct (Nat.eq_dec sid0 sid) as [->|Hne].
    + rewrite lookup_put_same in Hl. inversion Hl; subst st0. intros _. cbn [s_got s_ch s_from mk_stream msgs flat_map app]. autorewrite with chat.
      rewrite chan_at_set_same by assumption.
      assert (Hnc : cursor (chan_at s 0) sid = None).
      { destruct (cursor (chan_at s 0) sid) as [q|] eqn:E; [|reflexivity]. destruct (Icur _ _ _ Hlt E) as [_ [(st' & Hs' & _)|(r' & a' & Ha' & _)]]; congruence. }
      unfold unread. rewrite cursor_subscribe, Hnc, Nat.eqb_refl, log_subscribe. unfold tail. rewrite skipn_all. rewrite window_new by reflexivity. reflexivity.
    + rewrite lookup_put_other in Hl by assumption. apply Hkeep; try assumption; [tauto | | apply window_eq; reflexivity].
      destruct (Istr _ _ Hl) as (_ & (p & Hp) & _). autorewrite with chat.
      eapply (unread_upd s _ 0 (subscribe sid (chan_at s 0))); [reflexivity | assumption|]. intros Ec. split; [|reflexivity]. rewrite cursor_subscribe. rewrite <- Ec. now rewrite Hp.
  - (* poll *) tsimp. destruct H as [Hl0 Hd]. apply try_recv_got in H0. destruct H0 as (p0 & Hc0 & Hn0 & Hlog & _ & Hci & Hco).
    destruct (Istr _ _ Hl0) as (Hlt & _). destruct (Nat.eq_dec sid0 sid) as [->|Hne].
    + rewrite lookup_put_same in Hl. inversion Hl; subst st0. intros Hreg. cbn [s_got s_ch s_from s_rule got_more] in *.
      change (skey (got_more st x)) with (skey st) in *. change (senders (with_streams (set_chan s (s_ch st) ch') (put (streams s) sid (got_more st x)))) with (senders s) in Hreg.
      pose proof (Inv_deliv _ _ _ I Hl0 Hreg) as IH. autorewrite with chat. rewrite chan_at_set_same by assumption.
      rewrite (window_eq s _ (s_ch st) (s_from st)) by reflexivity. rewrite <- IH.
      rewrite (unread_step _ _ _ _ Hc0 Hn0). unfold unread. rewrite Hci, Hlog. rewrite msgs_app, <- app_assoc. f_equal. change (x :: skipn (S p0) (log (chan_at s (s_ch st)))) with ([x] ++ skipn (S p0) (log (chan_at s (s_ch st)))). now rewrite msgs_app.
    + rewrite lookup_put_other in Hl by assumption. apply Hkeep; try assumption; [tauto | | apply window_eq; reflexivity].
      autorewrite with chat. eapply (unread_upd s _ (s_ch st) ch'); [reflexivity | assumption|]. intros Ec. split; [now apply Hco | assumption].
  - (* poll, end *) apply Hkeep; try assumption; try reflexivity; tauto.
  - (* drop *) tsimp. rewrite streams_bury in Hl. destruct (Nat.eq_dec sid0 sid) as [->|Hne]; [now rewrite lookup_del_same in Hl|]. rewrite lookup_del_other in Hl by assumption.
    destruct H as [Hl0 Hd]. destruct (Istr _ _ Hl0) as (Hlt & _). apply Hkeep; try assumption; [tauto | | apply window_eq; reflexivity].
    autorewrite with chat. eapply (unread_upd s _ (s_ch st) (drop_rcv sid (chan_at s (s_ch st)))); [reflexivity | assumption|]. intros Ec. split; [now apply cursor_drop_other | reflexivity].
  - tsimp. rewrite streams_bury in Hl. destruct (Nat.eq_dec sid0 sid) as [->|Hne]; [now rewrite lookup_del_same in Hl|]. rewrite lookup_del_other in Hl by assumption.
    destruct H as [Hl0 Hd]. destruct (Istr _ _ Hl0) as (Hlt & _). apply Hkeep; try assumption; [tauto | | apply window_eq; reflexivity].
    autorewrite with chat. eapply (unread_upd s _ (s_ch st) (drop_rcv sid (chan_at s (s_ch st)))); [reflexivity | assumption|]. intros Ec. split; [now apply cursor_drop_other | reflexivity].
  - (* clone *) tsimp. destruct H as [Hl0 Hd]. destruct (Istr _ _ Hl0) as (Hlt & (p0 & Hp0) & _). apply fresh_spec in H0. destruct H0 as (Hn1 & Hn2 & _).
    assert (Hnc : cursor (chan_at s (s_ch st)) sid2 = None).
    { destruct (cursor (chan_at s (s_ch st)) sid2) as [q|] eqn:E; [|reflexivity]. destruct (Icur _ _ _ Hlt E) as [_ [(st' & Hs' & _)|(r' & a' & Ha' & _)]]; congruence. }
    destruct (Nat.eq_dec sid0 sid2) as [->|Hne].
    + rewrite lookup_put_same in Hl. inversion Hl; subst st0. intros Hreg.
      change (In (skey st, s_ch st) (senders s)) in Hreg.
      pose proof (Inv_deliv _ _ _ I Hl0 Hreg) as IH. autorewrite with chat. rewrite chan_at_set_same by assumption.
      rewrite (window_eq s _ (s_ch st) (s_from st)) by reflexivity. rewrite <- IH. f_equal. f_equal.
      unfold unread. rewrite cursor_clone, Hnc, Nat.eqb_refl, Hp0, log_clone. reflexivity.
    + rewrite lookup_put_other in Hl by assumption. apply Hkeep; try assumption; [tauto | | apply window_eq; reflexivity].
      destruct (Istr _ _ Hl) as (_ & (p & Hp) & _). autorewrite with chat.
      eapply (unread_upd s _ (s_ch st) (clone_rcv sid sid2 (chan_at s (s_ch st)))); [reflexivity | assumption|]. intros Ec. split; [|apply log_clone].
      rewrite cursor_clone. rewrite <- Ec. now rewrite Hp.
  - (* set capacity *) tsimp. destruct H as [Hl0 Hd]. destruct (Istr _ _ Hl0) as (Hlt & _). apply Hkeep; try assumption; [tauto | | apply window_eq; reflexivity].
    eapply (unread_upd s _ (s_ch st) (grow n (chan_at s (s_ch st)))); [reflexivity | assumption|]. intros Ec. split; reflexivity.
  - (* async drop starts: as drop *) tsimp. rewrite streams_bury in Hl. destruct (Nat.eq_dec sid0 sid) as [->|Hne]; [now rewrite lookup_del_same in Hl|]. rewrite lookup_del_other in Hl by assumption.
    destruct H as [Hl0 Hd]. destruct (Istr _ _ Hl0) as (Hlt & _). apply Hkeep; try assumption; [tauto | | apply window_eq; reflexivity].
    autorewrite with chat. eapply (unread_upd s _ (s_ch st) (drop_rcv sid (chan_at s (s_ch st)))); [reflexivity | assumption|]. intros Ec. split; [now apply cursor_drop_other | reflexivity].
  - tsimp. rewrite streams_bury in Hl. destruct (Nat.eq_dec sid0 sid) as [->|Hne]; [now rewrite lookup_del_same in Hl|]. rewrite lookup_del_other in Hl by assumption.
    destruct H as [Hl0 Hd]. destruct (Istr _ _ Hl0) as (Hlt & _). apply Hkeep; try assumption; [tauto | | apply window_eq; reflexivity].
    autorewrite with chat. eapply (unread_upd s _ (s_ch st) (drop_rcv sid (chan_at s (s_ch st)))); [reflexivity | assumption|]. intros Ec. split; [now apply cursor_drop_other | reflexivity].
  - (* async drop, subs, done *) pose proof (rm_apply_frame _ _ _ _ H3) as (Esnd & Estr & _ & _ & _ & Erd & _ & Einc & _). tsimp.
    rewrite streams_bury, Estr in Hl. destruct (Nat.eq_dec sid0 sid) as [->|Hne]; [now rewrite lookup_del_same in Hl|]. rewrite lookup_del_other in Hl by assumption.
    destruct (Istr _ _ H) as (Hlt & _). apply Hkeep; try assumption.
    + tsimp. change (senders (bury s1 sid st)) with (senders s1). now rewrite Esnd.
    + autorewrite with chat. pose proof (rm_apply_chan _ _ _ _ (s_ch st) H3) as Hsoc.
      assert (Hlt1 : s_ch st < length (chans s1)) by (apply rm_apply_spec, rm_spec_tables in H3; destruct H3 as (_ & _ & _ & _ & _ & El & _); lia).
      destruct (Nat.eq_dec (s_ch st0) (s_ch st)) as [Ec|Hnc].
      * rewrite Ec. rewrite chan_at_set_same by assumption. unfold unread. rewrite cursor_drop_other by assumption. rewrite log_drop.
        now rewrite (soc_cursor _ _ sid0 Hsoc), (soc_log _ _ Hsoc).
      * rewrite chan_at_set_other by assumption. apply unread_soc. eapply rm_apply_chan; eassumption.
    + apply window_eq; tsimp; assumption.
  - (* async drop, subs, wait *) pose proof (rm_apply_frame _ _ _ _ H3) as (Esnd & Estr & _ & _ & _ & Erd & _ & Einc & _). tsimp. rewrite Estr in Hl.
    apply Hkeep; try assumption; [tsimp; now rewrite Esnd | | apply window_eq; tsimp; assumption].
    autorewrite with chat. apply unread_soc. eapply rm_apply_chan; eassumption.
  - (* async drop, sender *) tsimp. rewrite streams_bury, streams_rm in Hl.
    destruct (Nat.eq_dec sid0 sid) as [->|Hne]; [now rewrite lookup_del_same in Hl|]. rewrite lookup_del_other in Hl by assumption.
    destruct (Istr _ _ H) as (Hlt & _). apply Hkeep; try assumption.
    + tsimp. change (senders (bury (rm_sender s r) sid st)) with (senders (rm_sender s r)). rewrite senders_rm. intros Hin. apply in_del_key in Hin. tauto.
    + autorewrite with chat. pose proof (rm_sender_chan s r (s_ch st)) as Hsoc.
      assert (Hlt1 : s_ch st < length (chans (rm_sender s r))) by now rewrite length_chans_rm.
      destruct (Nat.eq_dec (s_ch st0) (s_ch st)) as [Ec|Hnc].
      * rewrite Ec. rewrite chan_at_set_same by assumption. unfold unread. rewrite cursor_drop_other by assumption. rewrite log_drop.
        now rewrite (soc_cursor _ _ sid0 Hsoc), (soc_log _ _ Hsoc).
      * rewrite chan_at_set_other by assumption. apply unread_soc. apply rm_sender_chan.
    + apply window_eq; tsimp; [apply reader_rm | apply incoming_rm].
  - pose proof (rm_apply_frame _ _ _ _ H1) as (Esnd & Estr & _ & _ & _ & Erd & _ & Einc & _). tsimp. rewrite Estr in Hl.
    apply Hkeep; try assumption; [tsimp; now rewrite Esnd | | apply window_eq; tsimp; assumption].
    autorewrite with chat. apply unread_soc. eapply rm_apply_chan; eassumption.
  - pose proof (rm_apply_frame _ _ _ _ H1) as (Esnd & Estr & _ & _ & _ & Erd & _ & Einc & _). tsimp. rewrite Estr in Hl.
    apply Hkeep; try assumption; [tsimp; now rewrite Esnd | | apply window_eq; tsimp; assumption].
    autorewrite with chat. apply unread_soc. eapply rm_apply_chan; eassumption.
  - tsimp. rewrite streams_rm in Hl. apply Hkeep; try assumption.
    + tsimp. rewrite senders_rm. intros Hin. apply in_del_key in Hin. tauto.
    + autorewrite with chat. apply unread_soc. apply rm_sender_chan.
    + apply window_eq; tsimp; [apply reader_rm | apply incoming_rm].
  - (* add sender, failed: no senders, nothing is registered *) intros Hreg. change (In (skey st0, s_ch st0) (senders s)) in Hreg. rewrite H2 in Hreg. destruct Hreg.
  - (* drop, shared rule: as drop *) tsimp. rewrite streams_bury in Hl. destruct (Nat.eq_dec sid0 sid) as [->|Hne]; [now rewrite lookup_del_same in Hl|]. rewrite lookup_del_other in Hl by assumption.
    destruct H as [Hl0 Hd]. destruct (Istr _ _ Hl0) as (Hlt & _). apply Hkeep; try assumption; [tauto | | apply window_eq; reflexivity].
    autorewrite with chat. eapply (unread_upd s _ (s_ch st) (drop_rcv sid (chan_at s (s_ch st)))); [reflexivity | assumption|]. intros Ec. split; [now apply cursor_drop_other | reflexivity].
  - tsimp. rewrite streams_bury in Hl. destruct (Nat.eq_dec sid0 sid) as [->|Hne]; [now rewrite lookup_del_same in Hl|]. rewrite lookup_del_other in Hl by assumption.
    destruct H as [Hl0 Hd]. destruct (Istr _ _ Hl0) as (Hlt & _). apply Hkeep; try assumption; [tauto | | apply window_eq; reflexivity].
    autorewrite with chat. eapply (unread_upd s _ (s_ch st) (drop_rcv sid (chan_at s (s_ch st)))); [reflexivity | assumption|]. intros Ec. split; [now apply cursor_drop_other | reflexivity].
Qed.

End G3.
