(* C20/Examples.v — concrete histories of the model: the two defects of the first rounds, now repaired in the code
   (async_drop deadlock: 90a1ccff; clone not counted: 3c4a83a4), behave; a non-vacuity instance for the theorems. *)
From ZV Require Import Base.Bytes Base.Res C19.Broadcast C19.BroadcastFacts C20.Model C20.Lemmas C20.Steps C20.Inv C20.Proofs.
From Coq Require Import Lia.

Definition all_match : nat -> msg -> bool := fun _ _ => true.
Definition sig (k : nat) : msg := {| m_id := k; m_type := TSignal; m_iface := 0; m_member := 0 |}.

(* ------------------------------------------------------------------ clone: the former witness of clone_uncounted.
   Stream 0 for rule 0, its clone 1, the clone is dropped (nothing is given back: stream 0 still holds the shared rule),
   a matching message arrives: stream 0 receives it.  Then stream 0 is dropped as well: now the subscription goes. *)
Definition clone_trace : list label :=
  [LAddStart 0 0 (Some 2); LAddCheck 0; LAddSubs 0; LAddSender 0;
   LClone 0 1; LDrop 1;
   LArrive (IMsg (sig 1)); LRead; LFan [0; 2]; LPush; LPush; LNext; LPoll 0].
Definition clone_state : sys := match exec all_match clone_trace init with Some s => s | None => init end.
Lemma clone_exec : exec all_match clone_trace init = Some clone_state.
Proof. vm_compute. reflexivity. Qed.

Lemma clone_receives :
  reach all_match clone_trace clone_state /\
  tasks clone_state = [] /\ lookup (subs clone_state) 0 = Some {| e_ref := 1; e_ch := 2 |} /\ In (KRule 0, 2) (senders clone_state) /\
  arcs clone_state = [(0, [0])] /\ lookup (streams clone_state) 1 = None /\
  exists st, lookup (streams clone_state) 0 = Some st /\ s_got st = [IMsg (sig 1)] /\ incoming clone_state = [sig 1].
Proof.
  split; [apply exec_reach, clone_exec|]. vm_compute. repeat split; try reflexivity; [tauto|]. eexists. repeat split; reflexivity.
Qed.

Lemma clone_last_gives_back :
  exists s, exec all_match (clone_trace ++ [LDrop 0; LTaskSubs 0; LTaskSender 0]) init = Some s /\
            subs s = [] /\ arcs s = [] /\ tasks s = [] /\ streams s = [] /\ senders s = [(KAll, 0); (KRet, 1); (KErr, 1)].
Proof. eexists. split; [vm_compute; reflexivity|]. vm_compute. repeat split; reflexivity. Qed.
